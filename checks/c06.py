"""C06 — binary formats round-trip the data model (DESIGN.md §5 C06)."""
import sys
import vlib
import wire
import binfmt
from wire import Obj, Tagged
from checks import c07

sys.setrecursionlimit(max(sys.getrecursionlimit(), 20000))      # the bson-encoder-model stream nests 1025 deep
PROP = "C06"
MODULES = ["JV.Props.C06"]
HARNESS = "bin"

LENS = [0, 1, 23, 24, 31, 32, 255, 256]
BIG = [b"18446744073709551616", b"-18446744073709551617", b"123456789012345678901234567890", b"-1", b"0", b"255", b"256", b"-256", b"-257",
       b"340282366920938463463374607431768211456"]
# big numbers whose magnitude (the tag 2/3 byte string) has a length on either side of every CBOR length-header boundary, both signs
for _n in (9, 22, 23, 24, 25, 26, 255, 256, 257):
    for _m in (2 ** (8 * (_n - 1)), 2 ** (8 * _n) - 1):
        BIG += [str(_m).encode(), str(-1 - _m).encode()]
DEC = [b"273.15", b"-0.5", b"1.5", b"100", b"0.001", b"-12345678901234567890.123"]
F64 = c07.F64 + [0x3fb999999999999a, 0x47efffffe0000000, 0x47efffffe0000001, 0x36a0000000000000, 0x369fffffffffffff, 0x3810000000000000, 0x380fffffffffffff,
                 0xc7efffffe0000000, 0x7ff0000000000001, 0xfff8000000000000, 0x4170000000000000]


# CBOR tag 5 in jsoncons' text form "[-]0x<hex mantissa>p[-]<hex exponent>"; mantissas on both sides of the uint64 / bignum line (D79)
DEC += [str(2 ** (8 * 24 - 1)).encode() + b".5", b"-" + str(2 ** (8 * 23)).encode() + b"e-3", str(2 ** (8 * 256 - 1)).encode() + b".25"]
BIGFLOAT = [b"0x1p-1", b"-0x1p-1", b"0x3p4", b"0x18p-3", b"-0x18p3", b"0xFFFFFFFFFFFFFFFFp-1", b"-0xFFFFFFFFFFFFFFFFp1", b"0x10000000000000000p-3",
            b"-0x10000000000000001p-3", b"-0x10000000000000000p3", b"0xABCDEF0123456789ABCDEFp10", b"-0xFFFFFFFFFFFFFFFFFFFFp-10", b"0x0p0",
            b"0x" + b"F" * 46 + b"p-1", b"0x1" + b"0" * 46 + b"p2", b"-0x" + b"F" * 48 + b"p3", b"0x1" + b"0" * 48 + b"p-4", b"0x" + b"AB" * 256 + b"p1"]


def gen_value(rng, depth, fmt, pool):
    r = rng.random()
    if depth <= 0 or r < 0.35:
        q = rng.random()
        if q < 0.07:
            return None
        if q < 0.13:
            return rng.random() < 0.5
        if q < 0.38:
            v = rng.choice(c07.INTS) if rng.random() < 0.7 else rng.randint(-70000, 70000)
            v = max(min(v, 2 ** 64 - 1), -2 ** 63)
            if fmt in ("ubjson", "bson"):
                v = max(min(v, 2 ** 63 - 1), -2 ** 63)
            return v
        if q < 0.5:
            return ("d", rng.choice(F64) if rng.random() < 0.7 else rng.getrandbits(64))
        if q < 0.74:
            if pool and rng.random() < 0.5:
                s = rng.choice(pool)                      # repeated strings (stringref)
            else:
                n = rng.choice(LENS) if rng.random() < 0.5 else rng.randint(0, 6)
                s = bytes(rng.choice(b"abcxyz") for _ in range(n))
                if rng.random() < 0.2:
                    s += rng.choice([b"\xc3\xa9", b"\xe2\x82\xac", b"\xf0\x9f\x98\x80"])
                pool.append(s)
            if fmt == "cbor" and rng.random() < 0.25:
                return Tagged(rng.choice(["datetime", "uri", "base64url", "base64"]), s)
            return s
        if q < 0.84:
            n = rng.choice(LENS) if rng.random() < 0.5 else rng.randint(0, 5)
            b = ("b", bytes(rng.randrange(256) for _ in range(n))) if not (pool and rng.random() < 0.3) else ("b", rng.choice(pool))
            if fmt == "cbor" and rng.random() < 0.3:
                return Tagged(rng.choice(["base64url", "base64", "base16"]), b)
            return b
        if q < 0.92:
            return Tagged("bigint", rng.choice(BIG))
        if fmt in ("cbor", "msgpack") and q < 0.97:
            t = rng.choice(["epoch_second", "epoch_milli"] if fmt == "msgpack" else ["epoch_second"])
            return Tagged(t, rng.choice([0, 1, -1, 1363896240, 2 ** 32 - 1, 2 ** 32, 5000000000, 2 ** 34 - 1, 2 ** 34, 2 ** 40, -2 ** 33]))
        if fmt == "cbor":
            if rng.random() < 0.4:
                return Tagged("bigfloat", rng.choice(BIGFLOAT))
            return Tagged("bigdec", rng.choice(DEC))
        return rng.randint(-5, 5)
    if r < 0.68:
        n = rng.choice([0, 1, 2, 3, 23, 24]) if rng.random() < 0.1 else rng.randint(0, 4)
        return [gen_value(rng, depth - 1, fmt, pool) for _ in range(n)]
    keys = [b"a", b"b", b"c", b"", b"\xc3\xa9", b"key", b"k" * 24, b"name", b"id"]
    ks = rng.sample(keys, rng.randint(0, 5))
    return Obj([(k, gen_value(rng, depth - 1, fmt, pool)) for k in ks])


def f64_to_f32_exact(bits):
    import struct
    d = struct.unpack("<d", struct.pack("<Q", bits))[0]
    try:
        f = struct.unpack("<f", struct.pack("<f", d))[0]
    except OverflowError:
        return False
    return f == d or (d != d)


def norm_for(fmt, v, kind):
    """the documented image of a value after encode + decode in `fmt`"""
    if isinstance(v, Tagged):
        inner = norm_for(fmt, v.value, kind)
        if fmt == "cbor":
            return Tagged(v.tag, inner)
        if fmt == "msgpack" and v.tag in ("epoch_second", "epoch_milli", "epoch_nano"):
            return ("timestamp", v.tag, v.value)
        if fmt == "ubjson" and v.tag in ("bigint", "bigdec"):
            return Tagged(v.tag, inner)
        return inner                                  # tags without a counterpart are dropped; the text stays
    if isinstance(v, tuple) and v[0] == "e":
        return ("d", None)
    if isinstance(v, tuple) and v[0] == "b" and fmt == "ubjson":
        return [b for b in v[1]]
    if isinstance(v, tuple) and v[0] == "b" and fmt == "bson":
        return Tagged("ext", v)                       # written with the user-defined binary subtype 0x80, read back as an ext byte string
    if isinstance(v, list):
        return [norm_for(fmt, x, kind) for x in v]
    if isinstance(v, Obj):
        return Obj([(k, norm_for(fmt, x, kind)) for k, x in v.members])
    return v


def enc_line(fmt, kind, opts, v):
    return "bin enc %s %s %s %s" % (fmt, kind, opts, wire.render(v))


def gen_lines(rng, n, fmt):
    ls = []
    for _ in range(n):
        pool = []
        v = gen_value(rng, rng.randint(0, 3), fmt, pool)
        if fmt == "bson" and not isinstance(v, Obj):
            v = Obj([(b"v", v)])
        kind = "j" if rng.random() < 0.6 else "o"
        if kind == "j":
            v = wire.sort_keys(v)
        opts = "-"
        if fmt == "cbor":
            opts = "p%d" % rng.getrandbits(1)
        ls.append(enc_line(fmt, kind, opts, v))
    return ls


def gen_stringref_docs(rng, n):
    """many distinct strings (text and byte strings mixed, some tagged, some bignums) followed by repeats: crosses the
    stringref index thresholds 24 / 256 where the minimum registrable length changes"""
    ls = []
    for _ in range(n):
        count = rng.choice([5, 23, 24, 25, 30, 60, 255, 256, 257, 300])
        items = []
        for i in range(count):
            r = rng.random()
            base = ("s%d" % i).encode() + b"x" * rng.choice([0, 1, 2, 3])
            if r < 0.5:
                items.append(base)
            elif r < 0.8:
                items.append(("b", base))
            elif r < 0.9:
                items.append(Tagged(rng.choice(["datetime", "uri", "base64"]), base))
            else:
                items.append(Tagged("bigint", str(10 ** rng.randint(5, 30) + i).encode()))
        tail = []
        for _ in range(rng.randint(3, 12)):
            x = rng.choice(items)
            tail.append(x)
            tail.append(rng.choice([b"abc", b"ab", b"abcd", ("b", b"abc"), b"new" + bytes([97 + rng.randrange(26)])]))
        doc = items + tail
        if rng.random() < 0.5:
            doc = Obj([(b"k%d" % i, x) for i, x in enumerate(doc)])
        kind = "j" if rng.random() < 0.5 else "o"
        if kind == "j":
            doc = wire.sort_keys(doc)
        ls.append(enc_line("cbor", kind, "p1", doc))
    return ls


def gen_length_boundaries(rng, fmt, big_containers=False):
    """strings / byte strings / arrays / objects at every length-width boundary of the wire formats"""
    ls = []
    for n in (15, 16, 23, 24, 31, 32, 127, 128, 255, 256, 32767, 32768, 65535, 65536):
        vals = [b"a" * n, ("b", b"\x01" * n)]
        if n <= 256 or big_containers:
            vals.append([0] * n)
            vals.append(Obj([(b"%d" % i, None) for i in range(n)]) if n <= 256 or fmt != "bson" else None)
        for v in vals:
            if v is None:
                continue
            if fmt == "bson" and not isinstance(v, Obj):
                v = Obj([(b"v", v)])
            ls.append(enc_line(fmt, "o", "-", v))
    return ls


def strip_all_tags(v):
    if isinstance(v, Tagged):
        return strip_all_tags(v.value)
    if isinstance(v, list):
        return [strip_all_tags(x) for x in v]
    if isinstance(v, Obj):
        return Obj([(k, strip_all_tags(x)) for k, x in v.members])
    return v


def gen_core_lines(rng, n):
    """untagged values, packing off: the real encoder's bytes must equal the Lean encoder model's bytes"""
    ls = []
    for _ in range(n):
        v = strip_all_tags(gen_value(rng, rng.randint(0, 3), "cbor", []))
        kind = "j" if rng.random() < 0.6 else "o"
        if kind == "j":
            v = wire.sort_keys(v)
        ls.append(enc_line("cbor", kind, "p0", v))
    for b in F64 + [0x3690000000000000, 0x36a8000000000000, 0x380fffffe0000000, 0x3800000000000000, 0x37f0000000000000, 0x47f0000000000000, 0x47effffff0000000]:
        ls.append(enc_line("cbor", "j", "p0", ("d", b)))
    return ls


def model_line(line):
    t = line.split()
    return "bin menc %s %s" % (t[2], " ".join(t[5:]))


# every width boundary of the MessagePack / UBJSON integer ladders, each with both neighbours
INT_EDGES = sorted({e + d for e in (0, 0x7f, 0x80, 0xff, 0x100, 0x7fff, 0x8000, 0xffff, 0x10000, 2 ** 31 - 1, 2 ** 31, 2 ** 32 - 1, 2 ** 32, 2 ** 63 - 1, 2 ** 63,
                                     2 ** 64 - 1, -1, -32, -33, -128, -129, -32768, -32769, -2 ** 31, -2 ** 31 - 1, -2 ** 32, -2 ** 63)
                    for d in (-1, 0, 1) if -2 ** 63 <= e + d < 2 ** 64})
LEN_EDGES = sorted({e + d for e in (0, 15, 16, 31, 32, 127, 128, 255, 256, 32767, 32768, 65535, 65536) for d in (-1, 0, 1) if e + d >= 0})


def gen_fmt_core_lines(rng, n, fmt):
    """untagged values of the data-model core for `fmt`: the real encoder's bytes must equal the Lean encoder model's bytes.
    Random nested values, then every integer-width boundary with both neighbours, every length boundary (text, byte string,
    array, map) with both neighbours, and the doubles around the float32 shortcut."""
    ls = []
    imax = 2 ** 64 - 1 if fmt == "msgpack" else 2 ** 63 - 1
    for _ in range(n):
        v = strip_all_tags(gen_value(rng, rng.randint(0, 3), fmt, []))
        kind = "j" if rng.random() < 0.6 else "o"
        if kind == "j":
            v = wire.sort_keys(v)
        ls.append(enc_line(fmt, kind, "-", v))
    for i in INT_EDGES:
        ls.append(enc_line(fmt, "j", "-", i))                  # above imax (UBJSON: 2^63 … 2^64-1) both sides must refuse
        ls.append(enc_line(fmt, "o", "-", [i, Obj([(b"k", i)])]))
    for _ in range(200):
        bits = rng.choice([7, 8, 15, 16, 31, 32, 33, 62, 63, 64])
        i = rng.getrandbits(bits)
        i = -i if rng.random() < 0.5 else i
        ls.append(enc_line(fmt, "j", "-", max(min(i, imax), -2 ** 63)))
    for m in LEN_EDGES:
        ls.append(enc_line(fmt, "o", "-", bytes(rng.choice(b"abcxyz") for _ in range(m))))
        ls.append(enc_line(fmt, "o", "-", ("b", bytes(rng.randrange(256) for _ in range(m)))))
        ls.append(enc_line(fmt, "o", "-", [rng.choice([0, None, True, -1, b"", 255]) for _ in range(m)]))
        # above 256 members: a sorted `json` fed in key order (building an insertion-ordered object is quadratic in the harness)
        ls.append(enc_line(fmt, "o" if m <= 256 else "j", "-", Obj([(b"%05x" % i, rng.choice([None, 1, b"v"])) for i in range(m)])))
        if m <= 256:
            ls.append(enc_line(fmt, "o", "-", Obj([(b"k" * m, b"v" * m)])))          # the key uses the same length ladder as a text value
    for b in F64 + [0x3690000000000000, 0x36a8000000000000, 0x380fffffe0000000, 0x3800000000000000, 0x37f0000000000000, 0x47f0000000000000, 0x47effffff0000000]:
        ls.append(enc_line(fmt, "j", "-", ("d", b)))
    for _ in range(150):
        b = rng.getrandbits(64)
        if rng.random() < 0.6:
            b &= ~((1 << 29) - 1)                     # exactly representable as binary32 when the exponent is in range
        if rng.random() < 0.5:
            b = (b & ~(0x7ff << 52)) | (rng.choice([0, 1, 873, 874, 875, 895, 896, 897, 1023, 1150, 1151, 2046, 2047]) << 52)
        ls.append(enc_line(fmt, "j", "-", ("d", b)))
    return ls


def gen_bson_core_lines(rng, n):
    """untagged values of the data-model core in BSON's domain (and just outside it): the real encoder's bytes must equal the Lean
    encoder model's bytes, refusal for refusal. Roots: documents, arrays (written as a document keyed "0", "1", …), scalars (refused)."""
    ls = []
    def doc(v):
        return v if isinstance(v, Obj) else Obj([(b"v", v)])
    def add(v, kind="o"):
        ls.append(enc_line("bson", kind, "-", wire.sort_keys(v) if kind == "j" else v))
    for _ in range(n):
        v = strip_all_tags(gen_value(rng, rng.randint(0, 3), "bson", []))
        if not isinstance(v, Obj) and rng.random() < 0.85:
            v = doc(v)                                     # the rest: array roots and scalar roots
        add(v, "j" if rng.random() < 0.6 else "o")
    # roots
    for v in (Obj([]), [], [1, 2], [[]], [Obj([])], None, True, 0, b"text", ("b", b"\x01"), ("d", 0x3ff8000000000000),
              Obj([(b"a", Obj([]))]), Obj([(b"a", [])]), Obj([(b"", None)]), Obj([(b"a", [[], [[]], [Obj([]), [1, [2, [3]]]]])])):
        add(v)
    # member names that are not cstrings (a 0x00 inside, ill-formed UTF-8): refused by both sides since the repair D89, at any depth
    for k in (b"a\x00b", b"\x00", b"\xff", b"\xc3", b"ok\xed\xa0\x80", b"\xc3\xa9"):
        add(Obj([(k, 1)]))
        add(Obj([(b"outer", Obj([(k, [1, 2])]))]))
        add([Obj([(k, None)])])
    # every integer edge (int32 / int64 boundary with both neighbours; 2^63 … 2^64-1 is refused by both sides), in a document and in an array
    for i in INT_EDGES:
        add(Obj([(b"k", i)]), "j")
        add(Obj([(b"a", [i, Obj([(b"k", i)])])]))
        add([i])
    for _ in range(200):
        bits = rng.choice([7, 8, 15, 16, 30, 31, 32, 33, 62, 63, 64])
        i = rng.getrandbits(bits)
        i = -i if rng.random() < 0.5 else i
        add(Obj([(b"i", max(min(i, 2 ** 63 - 1), -2 ** 63))]), "j")
    # arrays of 0 … 13, 99 … 101, 999 … 1001 elements: the names "0" … "11", "99", "100", "1000"; nested arrays restart at "0"
    for m in list(range(0, 14)) + [99, 100, 101, 999, 1000, 1001]:
        xs = [rng.choice([0, None, True, -1, b"", 255, 2 ** 31]) for _ in range(m)]
        add(Obj([(b"a", xs)]))
        add(xs)
        if m <= 13:
            add(Obj([(b"a", [list(xs), Obj([(b"b", list(xs))]), xs[:3]])]))
    # text: every length edge, multi-byte UTF-8 (2, 3, 4 byte sequences), an embedded U+0000 in a VALUE (length-prefixed: allowed)
    for m in LEN_EDGES:
        add(Obj([(b"s", bytes(rng.choice(b"abcxyz") for _ in range(m)))]))
        add(Obj([(b"b", ("b", bytes(rng.randrange(256) for _ in range(m))))]))
        if m <= 256:
            add(Obj([(b"k" * m, b"v" * m)]))
        add(Obj([(b"%05x" % i, rng.choice([None, 1, b"v"])) for i in range(m)]), "o" if m <= 256 else "j")
    for t in (b"\xc3\xa9", b"\xe2\x82\xac", b"\xf0\x9f\x98\x80", b"a\xc3\xa9b\xe2\x82\xacc\xf0\x9f\x98\x80", b"a\x00b", b"\x00", b"\xef\xbf\xbf", b"\xf4\x8f\xbf\xbf"):
        add(Obj([(b"s", t)]))
        if 0 not in t:
            add(Obj([(t, t)]))                             # the same bytes as an element name
        add([t, [t]])
    # text that is not UTF-8 is refused by both sides
    for t in (b"\xff", b"a\xc3", b"\xed\xa0\x80", b"\xc0\x80"):
        add(Obj([(b"s", t)]))
    # doubles travel as their 64 bits (no float32 shortcut in BSON), NaN payloads included
    for b in F64 + [0x7ff8000000000001, 0xfff0000000000000, 0x8000000000000000, 1]:
        add(Obj([(b"d", ("d", b))]), "j")
    for _ in range(150):
        add(Obj([(b"d", ("d", rng.getrandbits(64))), (b"a", [("d", rng.getrandbits(64))])]))
    # nesting: max_nesting_depth (1024) and one more
    for d in (3, 100, 1023, 1024, 1025):
        v = 1
        for _ in range(d):
            v = [v]
        add(v)
        v = 1
        for j in range(d):
            v = Obj([(b"k", v)]) if j % 2 == 0 else [v]
        add(doc(v))
    return ls


def bson_model_oracle(line, impl, model, ref=None):
    """the round-trip oracle under the documented BSON mapping; a root array is written as (and comes back as) the document keyed by its indices"""
    t = line.split()
    v, _ = wire.parse(t, 5)
    if isinstance(v, list):
        v = Obj([(b"%d" % i, x) for i, x in enumerate(v)])
        if t[3] == "j":
            v = wire.sort_keys(v)                          # a `json` object keeps its members sorted: "0" "1" "10" "11" "2" …
        line = enc_line("bson", t[3], t[4], v)
    elif not isinstance(v, Obj) and impl.startswith("err"):
        return None                                        # a scalar root is not a BSON document: refusing it is right
    return oracle(line, impl, model, ref)


def compare_bytes(line, io, mo):
    if mo == "err":
        return io.startswith("err")          # the model refuses exactly what the real encoder refuses
    return io.split(" | ")[0] == mo


def oracle(line, impl, model, ref=None):
    t = line.split()
    fmt, kind = t[2], t[3]
    v, _ = wire.parse(t, 5)
    if impl.startswith("err"):
        return "encode_%s refused a value inside the format's domain: %s" % (fmt, impl) if in_domain(fmt, v) else None
    parts = [p.strip() for p in impl.split("|")]
    if len(parts) < 2 or not parts[1].startswith("ok "):
        return "the bytes written by encode_%s do not decode: %s" % (fmt, impl[:160])
    have = wire.canon_nan(wire.strip_tag(wire.parse_all(parts[1][3:])[0], "noesc"))
    want = wire.canon_nan(norm_for(fmt, v, kind))
    if not same(have, want):
        return "decode(encode(v)) differs from v under the documented %s mapping: %s" % (fmt, parts[1][:200])
    return None


def in_domain(fmt, v):
    """UBJSON has no unsigned 64-bit integer: a value containing an integer above 2^63-1 is outside its domain"""
    if fmt == "ubjson":
        if isinstance(v, bool):
            return True
        if isinstance(v, int):
            return v < 2 ** 63
        if isinstance(v, list):
            return all(in_domain(fmt, x) for x in v)
        if isinstance(v, Obj):
            return all(in_domain(fmt, x) for _, x in v.members)
        if isinstance(v, Tagged):
            return in_domain(fmt, v.value)
    if fmt == "bson":
        return bson_in_domain(v, 0)
    return True


def bson_in_domain(v, depth):
    """BSON has no unsigned 64-bit integer either; text and element names must be UTF-8, names without 0x00; the encoder's default max_nesting_depth is 1024"""
    if isinstance(v, bool) or v is None:
        return True
    if isinstance(v, int):
        return v < 2 ** 63
    if isinstance(v, bytes):
        try:
            v.decode("utf-8")
            return True
        except UnicodeDecodeError:
            return False
    if isinstance(v, list):
        return depth < 1024 and all(bson_in_domain(x, depth + 1) for x in v)
    if isinstance(v, Obj):
        # an element name is a cstring: UTF-8 without 0x00 (the encoder refuses anything else since the repair D89)
        return depth < 1024 and all(b"\x00" not in k and bson_in_domain(k, depth) and bson_in_domain(x, depth + 1) for k, x in v.members)
    if isinstance(v, Tagged):
        return bson_in_domain(v.value, depth)
    return True


def same(have, want):
    if isinstance(want, tuple) and want and want[0] == "timestamp":
        return True            # judged by the C08 stream (independent reader of the three timestamp layouts)
    if isinstance(want, tuple) and want[0] == "d" and want[1] is None:
        return isinstance(have, tuple) and have[0] == "d"
    if isinstance(want, Tagged) and isinstance(have, Tagged):
        if want.tag == "bigdec" and have.tag == "bigdec":
            from decimal import Decimal, InvalidOperation
            try:
                return Decimal(want.value.decode()) == Decimal(have.value.decode())      # decimal fractions: same number, spelling may differ
            except (InvalidOperation, UnicodeDecodeError):
                return False
        return want.tag == have.tag and same(have.value, want.value)
    if isinstance(want, list) and isinstance(have, list):
        return len(want) == len(have) and all(same(h, w) for h, w in zip(have, want))
    if isinstance(want, Obj) and isinstance(have, Obj):
        return len(want.members) == len(have.members) and all(kh == kw and same(h, w) for (kh, h), (kw, w) in zip(have.members, want.members))
    return type(have) == type(want) and have == want


def nontrivial(line, impl):
    return line if ("[" in line or "{" in line) and len(line) > 40 else None


def gen_bigfloat_lines(rng, n):
    """bigfloat-tagged strings: canonical texts of (mantissa, exponent) pairs around every width boundary, lower-case and '+' spellings,
    and a share of texts the parser must refuse"""
    ls = []
    edges = [0, 1, 15, 16, 23, 24, 255, 256, 2 ** 31, 2 ** 32, 2 ** 63 - 1, 2 ** 63, 2 ** 63 + 1, 2 ** 64 - 1, 2 ** 64, 2 ** 64 + 1, 2 ** 72, 2 ** 128 - 1, 2 ** 200 + 12345]
    def hx(k, lower):
        t = "%X" % k
        return t.lower() if lower else t
    for _ in range(n):
        m = rng.choice(edges) if rng.random() < 0.6 else rng.getrandbits(rng.choice([8, 40, 63, 64, 65, 100]))
        if rng.random() < 0.5:
            m = -m
        e = rng.choice([0, 1, -1, 3, -3, 23, 24, -24, -25, 255, 256, -256, -257, 2 ** 31, 2 ** 62, 2 ** 63 - 1, -2 ** 63 + 1, -2 ** 63, 2 ** 63, 2 ** 64]) if rng.random() < 0.7 else rng.randint(-100000, 100000)
        lower = rng.random() < 0.25
        t = ("-" if m < 0 else "") + ("0X" if rng.random() < 0.1 else "0x") + hx(abs(m), lower) + ("P" if rng.random() < 0.1 else "p")
        t += ("-" if e < 0 else ("+" if rng.random() < 0.15 else "")) + hx(abs(e), lower)
        r = rng.random()
        if r < 0.04:
            t = t.split("p")[0].split("P")[0]                 # no exponent part
        elif r < 0.08:
            t = t + rng.choice(["g", " ", "-", "p1", "."])
        elif r < 0.10:
            t = t.replace("0x", "x", 1)
        ls.append("bin enc cbor j - s%s@bigfloat" % t.encode().hex())
    return ls


def bigfloat_model_line(line):
    return "bin mbf x" + line.split()[5][1:].split("@")[0]


def compare_bigfloat(line, io, mo):
    if mo == "err":
        return io.startswith("err")
    return io.strip() == mo.strip()      # the bytes written AND the text the decoder renders for them


def bigfloat_oracle(line, impl, model, ref=None):
    if impl.startswith("err"):
        return None                      # whether a refusal is right is decided by the comparison with the model
    parts = [p.strip() for p in impl.split("|")]
    if len(parts) < 2 or not parts[1].startswith("ok "):
        return "the bytes written for a bigfloat do not decode: " + impl[:160]
    return None


def streams(ctx, rng, scale):
    lw = vlib.witness_lines(PROP)
    ctx.correspond("finding-witnesses", HARNESS, lw, oracle, nontrivial, want_model=False)
    lcore = gen_core_lines(rng, 1500 * scale)
    ctx.correspond("cbor-encoder-model", HARNESS, lcore, oracle, nontrivial, compare=compare_bytes, model_lines=[model_line(l) for l in lcore])
    rngm = vlib.rng_for(ctx.seed, "c06/msgpack-model")
    lmp = gen_fmt_core_lines(rngm, 1000 * scale, "msgpack")
    ctx.correspond("msgpack-encoder-model", HARNESS, lmp, oracle, nontrivial, compare=compare_bytes, model_lines=[model_line(l) for l in lmp])
    rngu = vlib.rng_for(ctx.seed, "c06/ubjson-model")
    lub = gen_fmt_core_lines(rngu, 1000 * scale, "ubjson")
    ctx.correspond("ubjson-encoder-model", HARNESS, lub, oracle, nontrivial, compare=compare_bytes, model_lines=[model_line(l) for l in lub])
    rngb = vlib.rng_for(ctx.seed, "c06/bson-model")
    lbs = gen_bson_core_lines(rngb, 1000 * scale)
    ctx.correspond("bson-encoder-model", HARNESS, lbs, bson_model_oracle, nontrivial, compare=compare_bytes, model_lines=[model_line(l) for l in lbs])
    # unsigned 64-bit EVENTS (visit_uint64 has its own width ladder in every encoder; values read from the wire syntax are int64 up to 2^63-1):
    # every non-negative integer edge announced as uint64, in an array and as a member value, against the event-level encoder models
    lu = []
    for fmt in ("cbor", "msgpack", "ubjson", "bson"):
        opt = "p0" if fmt == "cbor" else "-"
        for i in [e for e in INT_EDGES if e >= 0] + [2 ** 63 - 1, 2 ** 63, 2 ** 64 - 1]:
            lu.append("bin events %s %s BA1 U%d EA" % (fmt, opt, i))
            lu.append("bin events %s %s BO1 K6b U%d EO" % (fmt, opt, i))
    lu = list(dict.fromkeys(lu))
    ctx.correspond("unsigned-integer-events", HARNESS, lu, unsigned_events_oracle, lambda l, i: l, compare=compare_bytes,
                   model_lines=["bin mev %s %s" % (l.split()[2], " ".join(l.split()[4:])) for l in lu])
    lbf = gen_bigfloat_lines(rng, 400 * scale)
    ctx.correspond("cbor-bigfloat-model", HARNESS, lbf, bigfloat_oracle, lambda l, i: l if len(l) > 60 else None, compare=compare_bigfloat,
                   model_lines=[bigfloat_model_line(l) for l in lbf])
    lsr = gen_stringref_docs(rng, 40 * scale)
    ctx.correspond("cbor-stringref", HARNESS, lsr, oracle, nontrivial, want_model=False)
    for fmt in ("cbor", "msgpack", "ubjson", "bson"):
        ls = gen_lines(rng, 1200 * scale, fmt)
        ctx.correspond(fmt + "-roundtrip", HARNESS, ls, oracle, nontrivial, want_model=False)
        lb = gen_length_boundaries(rng, fmt, big_containers=(ctx.tier == "thorough"))
        ctx.correspond(fmt + "-length-boundaries", HARNESS, lb, oracle, nontrivial, want_model=False)


def unsigned_events_oracle(line, impl, model, ref=None):
    """judged without the model: the encoder's own decoder must read the number back (or the encoder must have refused it)"""
    t = line.split()
    n = int(t[-2][1:])
    if impl.startswith("err"):
        if t[2] in ("ubjson", "bson") and n >= 2 ** 63:
            return None
        return "the %s encoder refused the unsigned integer %d" % (t[2], n)
    back = impl.split(" | ")[-1]
    if ("i%d" % n) not in back.split():
        return "the unsigned integer %d written by the %s encoder reads back as: %s" % (n, t[2], back[:80])
    return None


def run(ctx):
    ctx.prove(MODULES, leancheck=(ctx.tier == "thorough"))
    ctx.cov["rule"] = "see DESIGN.md C06"
    rng = vlib.rng_for(ctx.seed, "c06")
    streams(ctx, rng, 1 if ctx.tier == "quick" else 10)


def search(ctx):
    return None


def replay(ctx, path):
    lines = [l[4:].rstrip("\n") for l in open(path) if l.startswith("op: ")]
    ctx.correspond("replay", HARNESS, lines, oracle, nontrivial, want_model=False)
    for (stream, line, io, mo, why) in ctx.fail_inputs:
        print("op: %s\nimpl: %s\nwhy: %s" % (line, io, why))
    return 1 if ctx.fail_inputs or ctx.broken else 0
