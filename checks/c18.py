"""C18 — CSV and TOON text round-trip tabular and tree data (DESIGN.md §5 C18)."""
import vlib
import wire
import tables
from wire import Obj

PROP = "C18"
MODULES = ["JV.Props.C18"]
HARNESS = "tab"


def csv_oracle(line, impl, model, ref=None):
    head, tab = line.split(" | ")
    table = wire.parse_all(tab)[0]
    if impl.startswith("err"):
        return "the table does not round-trip: " + impl[:200]
    text, back = impl[3:].split(" | ")
    if wire.render(wire.parse_all(back)[0]) != wire.render(table):
        return "decode_csv(encode_csv(t)) differs from t: CSV text %r read back as %s" % (bytes.fromhex(text)[:120], back[:200])
    return None


def toon_oracle(line, impl, model, ref=None):
    head, val = line.split(" | ")
    v = wire.parse_all(val)[0]
    if impl.startswith("err"):
        return "the value does not round-trip: " + impl[:200]
    text, back = impl[3:].split(" | ")
    if wire.render(wire.parse_all(back)[0]) != wire.render(v):
        return "decode_toon(encode_toon(v)) differs from v: TOON text %r read back as %s" % (bytes.fromhex(text)[:160], back[:200])
    return None


# ---- known findings (recorded, not repaired: see DESIGN.md) -------------------------------------------------------------------------------

def is_prim(v):
    return not isinstance(v, (list, Obj))


def walk(v, f):
    """f(node, parent_kind) over the value tree"""
    f(v)
    if isinstance(v, list):
        for x in v:
            walk(x, f)
    elif isinstance(v, Obj):
        for _, x in v.members:
            walk(x, f)


def any_node(v, pred):
    hit = []
    walk(v, lambda n: hit.append(1) if pred(n) else None)
    return bool(hit)


def bad_header_key(k):
    return k == b"" or k[:1].isspace() or k[-1:].isspace() or b'"' in k or b"\\" in k


@vlib.known_matcher("D44")
def _match_d44(stream, line, impl, model):
    """quote_style minimal: a row whose only field is an empty string is written as an empty line, which the reader skips"""
    if not line.startswith("csv rt") or " sm " not in line:
        return False
    t = wire.parse_all(line.split(" | ")[1])[0]
    if isinstance(t, list) and t and isinstance(t[0], list):
        return any(r == [b""] for r in t)
    if isinstance(t, list):
        return any(len(r.members) == 1 and r.members[0][1] == b"" for r in t if isinstance(r, Obj))
    return len(t.members) == 1 and b"" in t.members[0][1]


@vlib.known_matcher("D51")
def _match_d51(stream, line, impl, model):
    """TOON: an array nested directly in an array, itself holding a non-primitive, is written without its list marker"""
    if not line.startswith("toon rt"):
        return False
    v = wire.parse_all(line.split(" | ")[1])[0]
    return any_node(v, lambda n: isinstance(n, list) and any(isinstance(x, list) and any(not is_prim(y) for y in x) for x in n))


@vlib.known_matcher("D52")
def _match_d52(stream, line, impl, model):
    """TOON: an object in a list whose first member holds an object is written with the hyphen on a line of its own"""
    if not line.startswith("toon rt"):
        return False
    v = wire.parse_all(line.split(" | ")[1])[0]
    return any_node(v, lambda n: isinstance(n, list) and any(isinstance(x, Obj) and x.members and isinstance(x.members[0][1], Obj) for x in n))


@vlib.known_matcher("D53")
def _match_d53(stream, line, impl, model):
    """TOON: member names that need quoting and contain a quote, a backslash, outer white space, or are empty are not read back from array headers"""
    if not line.startswith("toon rt"):
        return False
    v = wire.parse_all(line.split(" | ")[1])[0]

    def pred(n):
        if isinstance(n, list):
            return any(isinstance(x, Obj) and any(bad_header_key(k) for k, _ in x.members) for x in n)
        if isinstance(n, Obj):
            return any(isinstance(x, list) and bad_header_key(k) for k, x in n.members)
        return False
    return any_node(v, pred)


def nontrivial(line, impl):
    return line if len(line) > 60 else None


def streams(ctx, rng, scale):
    lw = vlib.witness_lines(PROP)
    ctx.correspond("finding-witnesses", HARNESS, lw, lambda l, i, m, r=None: (csv_oracle if l.startswith("csv") else toon_oracle)(l, i, m), nontrivial,
                   want_model=False)
    lc = []
    for _ in range(3000 * scale):
        shape, opts, table = tables.gen_csv_case(rng)
        lc.append("csv rt %s %s | %s" % (shape, opts, wire.render(table)))
    ctx.correspond("csv-tables", HARNESS, lc, csv_oracle, nontrivial, want_model=False)
    lt = []
    for _ in range(3000 * scale):
        v = tables.gen_toon_value(rng, 3)
        lt.append("toon rt %d %s | %s" % (rng.choice([2, 2, 4, 1, 3]), rng.choice("ctp"), wire.render(v)))
    ctx.correspond("toon-values", HARNESS, lt, toon_oracle, nontrivial, want_model=False)


def run(ctx):
    ctx.prove(MODULES, leancheck=(ctx.tier == "thorough"))
    ctx.cov["rule"] = "generated tables x csv options, JSON values x TOON options, encoded and decoded by the real library"
    rng = vlib.rng_for(ctx.seed, "c18")
    streams(ctx, rng, 1 if ctx.tier == "quick" else 8)


def search(ctx):
    return None


def replay(ctx, path):
    print(open(path).read()[:3000])
    return 1
