"""C18 — CSV and TOON text round-trip tabular and tree data (DESIGN.md §5 C18)."""
import vlib
import wire
import tables
from wire import Obj

PROP = "C18"
MODULES = ["JV.Props.C18"]
HARNESS = "tab"


def csv_oracle(line, impl, model, ref=None):
    head, tab = line.split(" | ")
    table = wire.parse_all(tab)[0]
    if impl.startswith("err"):
        return "the table does not round-trip: " + impl[:200]
    text, back = impl[3:].split(" | ")
    if wire.render(wire.parse_all(back)[0]) != wire.render(table):
        return "decode_csv(encode_csv(t)) differs from t: CSV text %r read back as %s" % (bytes.fromhex(text)[:120], back[:200])
    return None


def toon_oracle(line, impl, model, ref=None):
    head, val = line.split(" | ")
    v = wire.parse_all(val)[0]
    if impl.startswith("err"):
        return "the value does not round-trip: " + impl[:200]
    text, back = impl[3:].split(" | ")
    if wire.render(wire.parse_all(back)[0]) != wire.render(v):
        return "decode_toon(encode_toon(v)) differs from v: TOON text %r read back as %s" % (bytes.fromhex(text)[:160], back[:200])
    return None


# ---- known findings (recorded, not repaired: see DESIGN.md) -------------------------------------------------------------------------------

def is_prim(v):
    return not isinstance(v, (list, Obj))


def walk(v, f):
    """f(node, parent_kind) over the value tree"""
    f(v)
    if isinstance(v, list):
        for x in v:
            walk(x, f)
    elif isinstance(v, Obj):
        for _, x in v.members:
            walk(x, f)


def any_node(v, pred):
    hit = []
    walk(v, lambda n: hit.append(1) if pred(n) else None)
    return bool(hit)


def bad_header_key(k):
    return k == b"" or k[:1].isspace() or k[-1:].isspace() or b'"' in k or b"\\" in k


@vlib.known_matcher("D44")
def _match_d44(stream, line, impl, model):
    """quote_style minimal: a row whose only field is an empty string is written as an empty line, which the reader skips"""
    if not line.startswith("csv rt") or " sm " not in line:
        return False
    t = wire.parse_all(line.split(" | ")[1])[0]
    if isinstance(t, list) and t and isinstance(t[0], list):
        return any(r == [b""] for r in t)
    if isinstance(t, list):
        return any(len(r.members) == 1 and r.members[0][1] == b"" for r in t if isinstance(r, Obj))
    return len(t.members) == 1 and b"" in t.members[0][1]


def toon_symptom(impl):
    """what went wrong with a TOON round trip: the decoder's message, 'enc', or 'differs' (decoded, but to another value)"""
    if impl.startswith("err dec "):
        return impl.split(" ", 3)[3] if impl.count(" ") >= 3 else ""
    if impl.startswith("err"):
        return "enc"
    return "differs"


LIST_MISMATCH = "List array length mismatch"       # the decoder counted fewer "- " items than the header announces


@vlib.known_matcher("D51")
def _match_d51(stream, line, impl, model):
    """TOON: an array nested directly in an array, itself holding a non-primitive, is written without its list marker; the decoder then
    misses a list item (and nothing else: a wrong inline/tabular row in such a value is not this finding)"""
    if not line.startswith("toon rt") or not impl.startswith("err dec"):
        return False
    v = wire.parse_all(line.split(" | ")[1])[0]
    if toon_symptom(impl) != LIST_MISMATCH and not any_node(v, table_item_with_colon_name):
        return False
    return any_node(v, lambda n: isinstance(n, list) and any(isinstance(x, list) and any(not is_prim(y) for y in x) for x in n))


def table_item_with_colon_name(n):
    """an array of objects directly in an array, with a member name holding a colon: its '- [N]{"a:b",…}:' line is cut at that colon, and the
    item is then lost with whatever message the remainder provokes"""
    return isinstance(n, list) and any(isinstance(x, list) and any(isinstance(y, Obj) and any(b":" in k for k, _ in y.members) for y in x) for x in n)


def is_mixed_with_array(n):
    """an array that holds an array and something that is not an array: written item by item by encode_array_content's last branch"""
    return isinstance(n, list) and any(isinstance(x, list) for x in n) and any(not isinstance(x, list) for x in n)


@vlib.known_matcher("D82")
def _match_d82(stream, line, impl, model):
    """TOON: a mixed array (an array next to a non-array) that is the first member of a list-item object goes through
    encode_array_content's mixed branch, which writes its array elements with encode_array(item, no key): no '- ' marker"""
    if not line.startswith("toon rt") or toon_symptom(impl) != LIST_MISMATCH:
        return False
    v = wire.parse_all(line.split(" | ")[1])[0]
    return any_node(v, lambda n: isinstance(n, list) and any(isinstance(x, Obj) and x.members and is_mixed_with_array(x.members[0][1]) for x in n))


@vlib.known_matcher("D52")
def _match_d52(stream, line, impl, model):
    """TOON: an object in a list whose first member holds an object is written with the hyphen on a line of its own"""
    if not line.startswith("toon rt"):
        return False
    v = wire.parse_all(line.split(" | ")[1])[0]
    return any_node(v, lambda n: isinstance(n, list) and any(isinstance(x, Obj) and x.members and isinstance(x.members[0][1], Obj) for x in n))


@vlib.known_matcher("D53")
def _match_d53(stream, line, impl, model):
    """TOON: member names that need quoting and contain a quote, a backslash, outer white space, or are empty are not read back from array headers"""
    if not line.startswith("toon rt"):
        return False
    v = wire.parse_all(line.split(" | ")[1])[0]

    def pred(n):
        if isinstance(n, list):
            return any(isinstance(x, Obj) and any(bad_header_key(k) for k, _ in x.members) for x in n)
        if isinstance(n, Obj):
            return any(isinstance(x, list) and bad_header_key(k) for k, x in n.members)
        return False
    return any_node(v, pred)


def ref_write(f, d, q, e):
    out = bytearray([q])
    for c in f:
        if c == q:
            out += bytes([e, q])
        elif c == e:
            out += bytes([e, e])
        else:
            out.append(c)
    out.append(q)
    return bytes(out)


def compare_enc(line, io, mo):
    if mo == "skip":
        return True
    if not io.startswith("ok") or not mo.startswith("ok"):
        return io.startswith("err") == mo.startswith("err")
    return io[3:].split(" | ")[0].strip() == mo[3:].strip()


def compare_dec(line, io, mo):
    if mo == "eof-in-quotes":
        return True          # the real parser drops the unterminated field or reports a conversion error: not modelled
    if io.startswith("err") or mo.startswith("err"):
        return io.startswith("err") and mo.startswith("err")
    return io.strip() == mo.strip()


def nontrivial(line, impl):
    return line if len(line) > 60 else None


def streams(ctx, rng, scale):
    lw = vlib.witness_lines(PROP)
    ctx.correspond("finding-witnesses", HARNESS, lw, lambda l, i, m, r=None: (csv_oracle if l.startswith("csv") else toon_oracle)(l, i, m), nontrivial,
                   want_model=False)
    lc = []
    for _ in range(3000 * scale):
        shape, opts, table = tables.gen_csv_case(rng)
        lc.append("csv rt %s %s | %s" % (shape, opts, wire.render(table)))
    ctx.correspond("csv-tables", HARNESS, lc, csv_oracle, nontrivial, want_model=False)
    # the Lean field/row model against the real encoder: array-of-arrays tables of strings
    enc_lines = [l for l in lc if l.startswith("csv rt a") and all(isinstance(x, bytes) for r in wire.parse_all(l.split(" | ")[1])[0] for x in r)]
    ctx.correspond("csv-encoder-model", HARNESS, enc_lines, None, nontrivial, compare=compare_enc,
                   model_lines=["csvm enc " + l[len("csv rt a "):] for l in enc_lines])
    # … and against the real parser: arbitrary texts over the characters that matter
    dec_lines = []
    for _ in range(4000 * scale):
        d = rng.choice([44, 59, 9, 124])
        q = rng.choice([34, 39])
        e = q if rng.random() < 0.6 else 92
        alphabet = [b"a", b"b", b"c", bytes([q]), bytes([q]), bytes([d]), bytes([d]), b"\n", b"\r", b"\r\n", bytes([e])]
        text = b"".join(rng.choice(alphabet) for _ in range(rng.randint(1, 14)))
        if rng.random() < 0.5:
            # mostly well-formed: fields written by the reference writer, then mutated a little
            fields = [b"".join(rng.choice(alphabet) for _ in range(rng.randint(0, 4))) for _ in range(rng.randint(1, 4))]
            text = bytes([d]).join(ref_write(f, d, q, e) for f in fields) + rng.choice([b"", b"\n", b"\r\n"])
            if rng.random() < 0.3 and text:
                i = rng.randrange(len(text))
                text = text[:i] + rng.choice(alphabet) + text[i + 1:]
        dec_lines.append("csv dec d%d q%d e%d | %s" % (d, q, e, text.hex()))
    ctx.correspond("csv-parser-model", HARNESS, dec_lines, None, lambda l, i: l if i.startswith("ok") and len(l) > 40 else None, compare=compare_dec,
                   model_lines=["csvm" + l[3:] for l in dec_lines])
    lt = []
    for _ in range(3000 * scale):
        v = tables.gen_toon_value(rng, 3)
        lt.append("toon rt %d %s | %s" % (rng.choice([2, 2, 4, 1, 3]), rng.choice("ctp"), wire.render(v)))
    ctx.correspond("toon-values", HARNESS, lt, toon_oracle, nontrivial, want_model=False)
    # every kind of array (of arrays, tabular, inline, list form; strings holding the delimiter) in every position the encoder
    # distinguishes (member, first / later field of a list item, element of a mixed array, root; nested twice) x delimiter x indent
    ln = ["toon rt %d %s | %s" % (ind, dl, wire.render(v)) for _, ind, dl, v in tables.toon_shapes()]
    ctx.correspond("toon-nesting", HARNESS, ln, toon_oracle, nontrivial, want_model=False)


def run(ctx):
    ctx.prove(MODULES, leancheck=(ctx.tier == "thorough"))
    ctx.cov["rule"] = ("generated tables x csv options, JSON values x TOON options, encoded and decoded by the real library; TOON additionally: 15 array/string "
                       "payloads x 9 positions (and 64 position pairs) x comma/tab/pipe x indent 1-4")
    rng = vlib.rng_for(ctx.seed, "c18")
    streams(ctx, rng, 1 if ctx.tier == "quick" else 8)


def search(ctx):
    return None


def replay(ctx, path):
    print(open(path).read()[:3000])
    return 1
