"""C01 — JSON text round-trip is lossless and canonical (DESIGN.md §5 C01)."""
import re
import vlib
import wire
import jsontext as jt
from wire import Obj, Tagged

PROP = "C01"
MODULES = ["JV.Props.C01", "JV.Props.C01X"]
HARNESS = "jtext"

DOUBLES = [0.0, -0.0, 1.0, -1.5, 0.1, 1e21, 1e-7, 123456.789, 5e-324, 1.7976931348623157e308, 2.2250738585072014e-308, 1 / 3, 2.0 ** 64, 2.0 ** 53 + 2,
           1e23, 9007199254740993.0, 4.35, 1e15, 1e16, 1e17, 123456789012345680.0, 0.000001, 1e-5, 100.0, 1e100]
BIGINTS = [b"18446744073709551616", b"-9223372036854775809", b"123456789012345678901234567890", b"-1" + b"0" * 40]


def gen_value(rng, depth):
    r = rng.random()
    if depth <= 0 or r < 0.3:
        q = rng.random()
        if q < 0.1:
            return None
        if q < 0.18:
            return rng.random() < 0.5
        if q < 0.4:
            return rng.choice([v for v in jt.INTS if -2 ** 63 <= v <= 2 ** 64 - 1]) if rng.random() < 0.6 else rng.randint(-10 ** 6, 10 ** 6)
        if q < 0.58:
            if rng.random() < 0.6:
                return ("d", jt.bits_of(rng.choice(DOUBLES)))
            b = rng.getrandbits(64)
            if ((b >> 52) & 0x7FF) == 0x7FF:
                b &= ~(1 << 62)
            return ("d", b)
        if q < 0.64:
            return Tagged("bigint", rng.choice(BIGINTS))
        if rng.random() < 0.3:
            # any scalar values
            cps = [rng.choice([rng.randrange(0x20), 0x22, 0x5C, 0x2F, 0x7F, 0x80, 0x7FF, 0x800, 0xD7FF, 0xE000, 0xFFFD, 0xFFFE, 0xFFFF, 0x10000, 0x10FFFF,
                               rng.randrange(0x20, 0x7F), rng.randrange(0x80, 0xD800), rng.randrange(0xE000, 0x110000)]) for _ in range(rng.randint(1, 6))]
            return "".join(chr(c) for c in cps).encode("utf-8")
        return rng.choice(jt.STRS)
    if r < 0.65:
        return [gen_value(rng, depth - 1) for _ in range(rng.randint(0, 4))]
    keys = jt.KEYS + [b"\xef\xbf\xbf", b"\x01", b"z", b"\xc3\xa9", b"cafe", b"caf\xc3\xa9"]
    ks = rng.sample(keys, rng.randint(0, 5))
    return Obj([(k, gen_value(rng, depth - 1)) for k in ks])


def gen_opts(rng):
    if rng.random() < 0.3:
        return "p=0" + ("" if rng.random() < 0.5 else ",ea=%d,es=%d" % (rng.getrandbits(1), rng.getrandbits(1)))
    parts = ["p=1"]
    pick = lambda name, vals: parts.append("%s=%s" % (name, rng.choice(vals))) if rng.random() < 0.5 else None
    pick("is", [0, 1, 2, 4, 8])
    pick("ic", [32, 9])
    pick("sc", [0, 1, 2, 3])
    pick("sm", [0, 1, 2, 3])
    pick("po", [0, 1])
    pick("pa", [0, 1])
    for k in ("rl", "oo", "ao", "oa", "aa"):
        pick(k, [0, 1, 2])
    pick("ll", [0, 1, 5, 10, 20, 40, 120])
    pick("nl", ["0a", "0d0a", "0d", ""])
    pick("ea", [0, 1])
    pick("es", [0, 1])
    return ",".join(parts)


def gen_lines(rng, n):
    ls = []
    for _ in range(n):
        v = gen_value(rng, rng.randint(0, 4))
        kind = "j" if rng.random() < 0.6 else "o"
        if kind == "j":
            v = wire.sort_keys(v)
        ls.append("jt dump %s %s %s" % (kind, gen_opts(rng), wire.render(v)))
    return ls


WS = b" \t\r\n"


def strip_ws(text):
    out = bytearray()
    i = 0
    instr = False
    while i < len(text):
        c = text[i:i + 1]
        if instr:
            out += c
            if c == b"\\":
                out += text[i + 1:i + 2]
                i += 1
            elif c == b'"':
                instr = False
        else:
            if c == b'"':
                instr = True
                out += c
            elif c not in WS:
                out += c
        i += 1
    return bytes(out)


def parse_impl(impl):
    parts = [p.strip() for p in impl.split("|")]
    return parts


def value_of_line(line):
    t = line.split()
    v, _ = wire.parse(t, 4)
    return t[2], t[3], v


def norm(v):
    """what the property compares: strings without the internal noesc marker; -0.0 and 0.0 are equal values
    (jsoncons prints both as 0.0)"""
    v = jt.strip_noesc(v)

    def z(x):
        if isinstance(x, tuple) and x[0] == "d" and x[1] == 1 << 63:
            return ("d", 0)
        if isinstance(x, list):
            return [z(y) for y in x]
        if isinstance(x, Obj):
            return Obj([(k, z(y)) for k, y in x.members])
        if isinstance(x, Tagged):
            return Tagged(x.tag, z(x.value))
        return x
    return z(v)


def oracle(line, impl, model, ref=None):
    kind, opts, v = value_of_line(line)
    if not impl.startswith("ok x"):
        return "serialisation failed: " + impl
    parts = parse_impl(impl)
    text = bytes.fromhex(parts[0][4:])
    if len(parts) < 5 or parts[1].startswith("err"):
        return "the serialised text does not parse back: " + impl[:200]
    back = norm(wire.parse_all(parts[1])[0])
    if back != norm(v):
        return "parse(dump(v)) != v"
    if parts[2] != "same":
        return "dump(parse(dump(v))) differs from dump(v): serialisation is not a canonical form"
    if parts[3] != "entry-same":
        return "dump / operator<< / encode_json print different texts for the same value and options"
    compact = bytes.fromhex(parts[4][2:])
    if strip_ws(text) != compact:
        return "the pretty-printed text is not the compact text plus white space"
    if "p=0" in opts and text != compact:
        return "compact dump differs between calls"
    return None


def spec_judge(ctx, lines, impls):
    """the output is strict RFC 8259 (Lean reference parser, no options) and denotes the original value"""
    texts = []
    idx = []
    for i, (l, o) in enumerate(zip(lines, impls)):
        if o.startswith("ok x"):
            texts.append("jt sparse c0t0 " + o.split()[1])
            idx.append(i)
    outs = vlib.run_model(texts)
    for i, r in zip(idx, outs):
        kind, opts, v = value_of_line(lines[i])
        if r == "err":
            ctx.fail_inputs.append(("spec-judge", lines[i], impls[i], r, "the serialised text is not RFC 8259 JSON"))
            continue
        try:
            want = jt.expected_value(jt.parse_spec_tokens(r[3:]), kind)
        except jt.Unjudged:
            continue
        if want != norm(v):
            ctx.fail_inputs.append(("spec-judge", lines[i], impls[i], r, "the serialised text denotes a different value under RFC 8259"))


def gen_esc_lines(rng, n):
    ls = []
    specials = [0x00, 0x08, 0x09, 0x0A, 0x0C, 0x0D, 0x1F, 0x20, 0x22, 0x2F, 0x5C, 0x7E, 0x7F, 0x80, 0xFF, 0x7FF, 0x800, 0xD7FF, 0xE000, 0xFFFD, 0xFFFE, 0xFFFF,
                0x10000, 0x10FFFF]
    for cp in specials:
        for ea in (0, 1):
            for es in (0, 1):
                ls.append("jt esc %d %d x%s" % (ea, es, chr(cp).encode("utf-8").hex()))
    for _ in range(n):
        cps = [rng.choice(specials) if rng.random() < 0.5 else rng.choice([rng.randrange(0x80), rng.randrange(0x80, 0xD800), rng.randrange(0xE000, 0x110000)])
               for _ in range(rng.randint(0, 8))]
        s = "".join(chr(c) for c in cps).encode("utf-8")
        if rng.random() < 0.1 and s:
            i = rng.randrange(len(s))
            s = s[:i] + bytes([rng.choice([0x80, 0xC0, 0xC1, 0xE0, 0xED, 0xF5, 0xFF])]) + s[i + 1:]      # malformed UTF-8
        ls.append("jt esc %d %d x%s" % (rng.getrandbits(1), rng.getrandbits(1), s.hex()))
    return ls


def esc_oracle(line, impl, model, ref=None):
    """the escaped text is a legal JSON string body that denotes the original string (judged by the Lean reference reader)"""
    t = line.split()
    s = bytes.fromhex(t[4][1:])
    try:
        s.decode("utf-8")
        valid = True
    except UnicodeDecodeError:
        valid = False
    if impl == "err":
        return "escape_string refused a valid UTF-8 string" if (valid and t[2] == "1") or (valid and any(c < 0x20 or c == 0x7F for c in s)) else None
    if not valid:
        return None
    if ref is None:
        return None
    body = bytes.fromhex(impl.split()[1][1:])
    if any(c < 0x20 for c in body) or b'"' in body.replace(b'\\"', b""):
        return "the escaped text contains a raw control character or quote"
    if t[2] == "1" and any(c >= 0x80 for c in body):
        return "escape_all_non_ascii left a non-ASCII byte"
    if ref != "ok x" + s.hex():
        return "the escaped text does not denote the original string (reads back as %s)" % ref
    return None


def esc_ref_lines(ctx, lines):
    """second phase: the reference reader applied to what the real code printed"""
    ok, exe, _ = vlib.build_harness(HARNESS)
    impl, _ = vlib.run_impl(exe, lines)
    return ["jt unesc " + o.split()[1] if o.startswith("ok x") else "" for o in impl]


def gen_model_value(rng, depth):
    """values inside the domain of Model.JsonEncode: null, bool, int64/uint64, bigint-tagged big numbers, strings of every escape class
    (valid UTF-8), arrays, objects"""
    r = rng.random()
    if depth <= 0 or r < 0.3:
        q = rng.random()
        if q < 0.1:
            return None
        if q < 0.2:
            return rng.random() < 0.5
        if q < 0.45:
            return rng.choice([v for v in jt.INTS if -2 ** 63 <= v <= 2 ** 64 - 1]) if rng.random() < 0.5 else rng.randint(-10 ** 6, 10 ** 6)
        if q < 0.52:
            return Tagged("bigint", rng.choice(BIGINTS))
        if rng.random() < 0.5:
            cps = [rng.choice([rng.randrange(0x20), 0x22, 0x5C, 0x2F, 0x7F, 0x80, 0x7FF, 0x800, 0xD7FF, 0xE000, 0xFFFD, 0xFFFF, 0x10000, 0x10FFFF, 0x20, 0x09,
                               rng.randrange(0x20, 0x7F), rng.randrange(0x80, 0xD800), rng.randrange(0xE000, 0x110000)]) for _ in range(rng.randint(0, 12))]
            return "".join(chr(c) for c in cps).encode("utf-8")
        if rng.random() < 0.2:
            return bytes(rng.choice(b"abcdefghij /\\\"") for _ in range(rng.randint(20, 90)))      # long enough to cross small line limits
        return rng.choice(jt.STRS)
    if r < 0.65:
        return [gen_model_value(rng, depth - 1) for _ in range(rng.choice([0, 1, 2, 3, 4, 9]))]
    keys = jt.KEYS + [b"\xef\xbf\xbf", b"\x01", b"z", b"\xc3\xa9", b"cafe", b"caf\xc3\xa9", b"a much longer member name than the others"]
    ks = rng.sample(keys, rng.randint(0, 5))
    return Obj([(k, gen_model_value(rng, depth - 1)) for k in ks])


def gen_model_opts(rng):
    """every layout option of basic_json_encoder; escape_all_non_ascii stays off (outside the encoder model)"""
    if rng.random() < 0.15:
        return "p=0" + ("" if rng.random() < 0.5 else ",es=%d" % rng.getrandbits(1))
    if rng.random() < 0.15:
        return "p=1"                                   # all defaults
    parts = ["p=1"]
    pick = lambda name, vals: parts.append("%s=%s" % (name, rng.choice(vals))) if rng.random() < 0.5 else None
    pick("is", [0, 1, 2, 3, 4, 8])
    pick("ic", [32, 9])
    pick("sc", [0, 1, 2, 3])
    pick("sm", [0, 1, 2, 3])
    pick("po", [0, 1])
    pick("pa", [0, 1])
    for k in ("rl", "oo", "ao", "oa", "aa"):
        pick(k, [0, 1, 2])
    pick("ll", [0, 1, 5, 10, 20, 40, 80, 120])
    pick("nl", ["0a", "0d0a", "0d", ""])
    pick("es", [0, 1])
    return ",".join(parts)


def gen_model_lines(rng, n):
    ls = []
    for _ in range(n):
        v = gen_model_value(rng, rng.randint(0, 5))
        kind = "j" if rng.random() < 0.5 else "o"
        if kind == "j":
            v = wire.sort_keys(v)
        ls.append("jt dump %s %s %s" % (kind, gen_model_opts(rng), wire.render(v)))
    return ls


def model_tie(line, impl, model):
    """byte-for-byte: the text dump/dump_pretty wrote and the compact text, against Model.JsonEncode.pretty / compactS"""
    if not model.startswith("ok x"):
        return False                                   # every generated line is inside the model's domain
    parts = parse_impl(impl)
    if not impl.startswith("ok x") or len(parts) < 5:
        return False
    mt, mc = model.split()[1:3]
    return parts[0].split()[1] == mt and parts[4] == mc


def nontrivial(line, impl):
    return line if ("[" in line or "{" in line) and "s" in line else None


def streams(ctx, rng, scale):
    lw = vlib.witness_lines(PROP)
    ctx.correspond("finding-witnesses", HARNESS, lw, oracle, nontrivial, want_model=False)
    le = gen_esc_lines(rng, 1500 * scale)
    ctx.correspond("escape_string", HARNESS, le, esc_oracle, nontrivial, ref_lines=esc_ref_lines(ctx, le))
    ls = gen_lines(rng, 2500 * scale)
    st = ctx.correspond("dump-roundtrip", HARNESS, ls, oracle, nontrivial, want_model=False)
    if "_impl" in st:
        spec_judge(ctx, ls, st["_impl"])
    lm = gen_model_lines(rng, 3000 * scale)
    st = ctx.correspond("encoder-model", HARNESS, lm, oracle, nontrivial, compare=model_tie)
    if "_impl" in st:
        spec_judge(ctx, lm, st["_impl"])


def run(ctx):
    ctx.prove(MODULES, leancheck=(ctx.tier == "thorough"))
    ctx.cov["rule"] = ("values over null/bool/int64/uint64 boundaries/finite doubles (edge values and random bit patterns)/strings with every escape class "
                       "and arbitrary scalar values (U+0000..U+10FFFF incl. U+FFFF, U+10000)/out-of-range big numbers/arrays/objects (json and ojson, "
                       "member names mixing ASCII and non-ASCII) x option records drawn from the product of indent size/char, spaces_around_colon/comma, "
                       "padding, five line-split options x three kinds, line_length_limit, new_line_chars, escape_all_non_ascii, escape_solidus, compact/"
                       "pretty. Judged: parse(dump v) = v, dump(parse(dump v)) = dump v bytewise, pretty = compact + white space, dump/operator<</"
                       "encode_json agree, and the text is strict RFC 8259 denoting v per the Lean reference parser. Stream encoder-model: values inside the domain of "
                       "Model.JsonEncode (null/bool/int64/uint64/bigint-tagged big numbers/valid UTF-8 strings of every escape class/arrays of 0-9 elements/objects, "
                       "json and ojson, depth <= 5) x option records over every layout option of basic_json_encoder (escape_solidus too; escape_all_non_ascii off); "
                       "the text of dump/dump_pretty and the compact text must equal Model.JsonEncode.pretty/compactS byte for byte, and are judged by the same "
                       "oracles. non-trivial = has a container and a string")
    rng = vlib.rng_for(ctx.seed, "c01")
    streams(ctx, rng, 1 if ctx.tier == "quick" else 12)


def search(ctx):
    for extra in range(1, 4):
        rng = vlib.rng_for(ctx.seed * 1000 + extra, "c01-search")
        before = len(ctx.fail_inputs)
        streams(ctx, rng, 3)
        if len(ctx.fail_inputs) > before:
            return ctx.fail_inputs[before]
    return None


def replay(ctx, path):
    lines = [l[4:].rstrip("\n") for l in open(path) if l.startswith("op: ")]
    if not lines:
        print(open(path).read())
        return 1
    st = ctx.correspond("replay", HARNESS, lines, oracle, nontrivial, want_model=False)
    if "_impl" in st:
        spec_judge(ctx, lines, st["_impl"])
    for (stream, line, io, mo, why) in ctx.fail_inputs:
        print("op: %s\nimpl: %s\nwhy: %s" % (line, io, why))
    return 1 if ctx.fail_inputs or ctx.broken else 0
