"""C14 — JSON Pointer operations follow RFC 6901 (DESIGN.md §5 C14)."""
import hashlib
import vlib
import wire
import values
from wire import Obj

PROP = "C14"
MODULES = ["JV.Props.C14"]

SPECIAL_TOKENS = [b"-", b"0", b"1", b"2", b"00", b"01", b"007", b"+1", b"-1", b" 1", b"1 ", b"1e0", b"0x1", b"", b"~", b"/", b"~~", b"a/b",
                  b"\xc3\xa9", b"18446744073709551615", b"18446744073709551616", b"9999999999999999999", b"99999999999999999999",
                  b"184467440737095516150", b"0000000000000000000001", b"1a", b"a"]


def esc(tok):
    return tok.replace(b"~", b"~0").replace(b"/", b"~1")


def locations(v, prefix=()):
    """all (token tuple) locations of a document"""
    out = [prefix]
    if isinstance(v, list):
        for i, x in enumerate(v):
            out += locations(x, prefix + (str(i).encode(),))
    elif isinstance(v, Obj):
        for k, x in v.members:
            out += locations(x, prefix + (k,))
    return out


def gen_pointer(rng, doc):
    locs = locations(doc)
    toks = list(rng.choice(locs))
    r = rng.random()
    if r < 0.35:
        pass
    elif r < 0.6 and toks:
        toks[-1] = rng.choice(SPECIAL_TOKENS)
    elif r < 0.75:
        toks.append(rng.choice(SPECIAL_TOKENS + values.KEYS_MED))
    elif r < 0.85:
        toks += [rng.choice(values.KEYS_MED), rng.choice(SPECIAL_TOKENS + values.KEYS_MED)]
    elif toks:
        i = rng.randrange(len(toks))
        toks[i] = rng.choice(SPECIAL_TOKENS)
    s = b"".join(b"/" + esc(t) for t in toks)
    # malformed syntax now and then
    r = rng.random()
    if r < 0.04:
        s = s[1:] if s else b"a"
    elif r < 0.08:
        s = s + b"~"
    elif r < 0.12:
        s = s + rng.choice([b"~2", b"~a", b"/~", b"~01", b"~10"])
    return s


def gen_doc(rng, small):
    keys = values.KEYS_SMALL if small else values.KEYS_MED
    d = values.value(rng, rng.randint(1, 4), keys, small, width=4, p_leaf=0.2)
    return d


def gen_lines(rng, n):
    ls = []
    for i in range(n):
        small = rng.random() < 0.5
        d = gen_doc(rng, small)
        loc = gen_pointer(rng, d)
        v = values.value(rng, 1, values.KEYS_SMALL, True)
        kind = "j" if rng.random() < 0.6 else "o"
        if kind == "j":
            d, v = wire.sort_keys(d), wire.sort_keys(v)
        create = "1" if rng.random() < 0.3 else "0"
        op = rng.choice(["get", "contains", "add", "add", "addia", "replace", "remove"])
        x = "x" + loc.hex()
        if op in ("get", "contains"):
            ls.append("ptr %s %s %s %s" % (op, kind, x, wire.render(d)))
        elif op == "remove":
            ls.append("ptr remove %s 0 %s %s" % (kind, x, wire.render(d)))
        else:
            ls.append("ptr %s %s %s %s %s %s" % (op, kind, create, x, wire.render(d), wire.render(v)))
    return ls


def gen_index_lines(rng):
    """array-index syntax (RFC 6901 §4: "0" or digits without a leading zero, or "-"): every printable single-byte token and digit/non-digit
    pairs against arrays long enough that any `c - '0'` style arithmetic would land inside them"""
    ls = []
    singles = [bytes([c]) for c in range(0x20, 0x7f)]
    pairs = [bytes([a, b]) for a in b"019:a-+ " for b in b"09:/a-. "]
    nums = lambda n: [str(k).encode() for k in (0, 1, n - 1, n, n + 1, 10, 11, 16, 17, 49, 74, 79) if k >= 0]
    for n in (0, 1, 3, 11, 12, 20, 50, 80):
        arr = list(range(n))
        for nest in (False, True):
            d = Obj([(b"a", arr)]) if nest else arr
            for tok in singles + pairs + nums(n):
                loc = (b"/a" if nest else b"") + b"/" + esc(tok)
                if n not in (12, 80) and rng.random() < 0.6:
                    continue
                kind = rng.choice("jo")
                op = rng.choice(["get", "contains", "add", "addia", "replace", "remove"])
                x = "x" + loc.hex()
                if op in ("get", "contains"):
                    ls.append("ptr %s %s %s %s" % (op, kind, x, wire.render(d)))
                elif op == "remove":
                    ls.append("ptr remove %s 0 %s %s" % (kind, x, wire.render(d)))
                else:
                    ls.append("ptr %s %s 0 %s %s %s" % (op, kind, x, wire.render(d), wire.render(b"new")))
    return ls


def gen_text_lines(rng, n):
    """pointer text <-> tokens"""
    ls = []
    alphabet = [b"/", b"~", b"0", b"1", b"2", b"a", b"", b"\xc3\xa9", b"-", b"~0", b"~1", b"~01", b"~10"]
    for _ in range(n):
        if rng.random() < 0.5:
            s = b"".join(rng.choice(alphabet) for _ in range(rng.randint(0, 7)))
            ls.append("ptr parse x" + s.hex())
        else:
            toks = [b"".join(rng.choice(alphabet) for _ in range(rng.randint(0, 3))) for _ in range(rng.randint(0, 4))]
            ls.append("ptr tostr " + " ".join("t" + t.hex() for t in toks))
    return ls


def exhaustive_text(maxlen):
    alphabet = [b"/", b"~", b"0", b"1", b"a"]
    out = [b""]
    frontier = [b""]
    for _ in range(maxlen):
        frontier = [s + c for s in frontier for c in alphabet]
        out += frontier
    return ["ptr parse x" + s.hex() for s in out]


def ref_line(line):
    t = line.split(" ", 2)
    op = t[1]
    if op in ("get", "add", "addia", "replace", "remove"):
        return "ptr s" + op + " " + t[2]
    if op == "contains":
        return "ptr sget " + t[2]
    return line


def parse_mut(s):
    st, rest = s.split(" ", 1)
    return st, wire.parse_all(rest)[0]


def py_tokens(s):
    """RFC 6901 §3 in Python (independent of both the code and the Lean files)"""
    if s == b"":
        return []
    if s[:1] != b"/":
        return None
    toks = []
    for part in s[1:].split(b"/"):
        out = bytearray()
        i = 0
        while i < len(part):
            c = part[i:i + 1]
            if c == b"~":
                nxt = part[i + 1:i + 2]
                if nxt == b"0":
                    out += b"~"
                elif nxt == b"1":
                    out += b"/"
                else:
                    return None
                i += 2
            else:
                out += c
                i += 1
        toks.append(bytes(out))
    return toks


def oracle(line, impl, model, ref=None):
    t = line.split()
    op = t[1]
    if op == "parse":
        s = bytes.fromhex(t[2][1:])
        want = py_tokens(s)
        if want is None:
            return None if impl == "err" else "a string that is not a JSON Pointer was accepted: " + impl
        if impl == "err":
            return "a valid JSON Pointer was rejected"
        left, right = impl[3:].split("|")
        got = [bytes.fromhex(x[1:]) for x in left.split()]
        if got != want:
            return "tokens differ from RFC 6901 unescaping"
        if bytes.fromhex(right.strip()[1:]) != s:
            return "parse followed by to_string is not the identity on a valid pointer"
        return None
    if op == "tostr":
        toks = [bytes.fromhex(x[1:]) for x in t[2:]]
        left, right = impl[3:].split("|")
        if right.strip() == "err":
            return "to_string produced text that does not parse"
        got = [bytes.fromhex(x[1:]) for x in right.split()]
        if got != toks and not (toks == [] and got == []):
            return "to_string followed by parse is not the identity on token lists"
        return None
    if op in ("get", "contains"):
        if ref is None:
            return None
        if op == "contains":
            want = "ok t" if ref.startswith("ok") else "ok f"
            return None if impl == want else "contains disagrees with RFC 6901 evaluation (%s)" % ref
        if ref == "err":
            return None if impl == "err" else "get succeeded where RFC 6901 evaluation fails"
        if impl == "err":
            return "get failed where RFC 6901 evaluation succeeds"
        if wire.canon(wire.parse_all(impl[3:])[0]) != wire.canon(wire.parse_all(ref[3:])[0]):
            return "get returned a value other than the addressed one"
        return None
    if op == "flatten" or op == "flatrt":
        return None
    # mutators
    create = t[3] == "1"
    loc = bytes.fromhex(t[4][1:])
    pos = 5
    toks = t
    d, pos = wire.parse(toks, pos)
    st, after = parse_mut(impl)
    if st == "err":
        if wire.canon(after) != wire.canon(d):
            return "the operation failed but the document was modified"
        if ref is not None and not create and ref.startswith("ok"):
            return "the operation failed where RFC 6901/6902 semantics succeed"
        return None
    if ref is not None and not create:
        if ref == "err":
            return "the operation succeeded where RFC 6901/6902 semantics fail"
        if wire.canon(after) != wire.canon(wire.parse_all(ref[3:])[0]):
            return "the document after the operation differs from the specified one"
    return None


def flat_oracle(line, impl, model, ref=None):
    t = line.split()
    if t[1] != "flatrt":
        return None
    d, _ = wire.parse(t, 3)
    if index_like_keys(d) or not isinstance(d, (Obj, list)) or is_empty(d):
        return None
    if not impl.startswith("ok "):
        return "unflatten(flatten(d)) failed: " + impl
    got = wire.parse_all(impl[3:])[0]
    if wire.canon(got) != wire.canon(d):
        return "unflatten(flatten(d)) != d for a document without index-like member names"
    return None


def is_empty(d):
    return (isinstance(d, list) and not d) or (isinstance(d, Obj) and not d.members)


def index_like_keys(v):
    if isinstance(v, list):
        return any(index_like_keys(x) for x in v)
    if isinstance(v, Obj):
        return any((k.isdigit() or k == b"-") or index_like_keys(x) for k, x in v.members)
    return False


def nontrivial(line, impl):
    t = line.split()
    if t[1] in ("parse", "tostr"):
        return hashlib.md5(line.encode()).hexdigest() if len(line) > 14 else None
    if t[1] in ("flatten", "flatrt"):
        return hashlib.md5(line.encode()).hexdigest()
    loc = t[3] if t[1] in ("get", "contains") else t[4]
    if loc.count("2f") >= 2:
        return hashlib.md5(line.encode()).hexdigest()
    return None


CORPUS = [
    # RFC 6901 §5 examples on the RFC's document
]


def rfc_doc():
    return Obj([(b"foo", [b"bar", b"baz"]), (b"", 0), (b"a/b", 1), (b"c%d", 2), (b"e^f", 3), (b"g|h", 4), (b"i\\j", 5), (b'k"l', 6), (b" ", 7), (b"m~n", 8)])


def rfc_lines():
    d = wire.render(wire.sort_keys(rfc_doc()))
    ptrs = [b"", b"/foo", b"/foo/0", b"/", b"/a~1b", b"/c%d", b"/e^f", b"/g|h", b"/i\\j", b'/k"l', b"/ ", b"/m~0n", b"/foo/-", b"/foo/01", b"/foo/2"]
    return ["ptr get j x%s %s" % (p.hex(), d) for p in ptrs]


def gen_flat(rng, n):
    ls = []
    for _ in range(n):
        d = values.value(rng, rng.randint(1, 4), [b"a", b"b", b"c", b"a/b", b"~", b"", b"\xc3\xa9", b"x1"], False, width=3, p_leaf=0.25)
        kind = "j" if rng.random() < 0.6 else "o"
        if kind == "j":
            d = wire.sort_keys(d)
        ls.append("ptr %s %s %s" % ("flatrt" if rng.random() < 0.5 else "flatten", kind, wire.render(d)))
    return ls


def with_ref(lines):
    return [ref_line(l) for l in lines]


def streams(ctx, rng, scale):
    lw = vlib.witness_lines(PROP)
    ctx.correspond("finding-witnesses", "ptr", lw, oracle, nontrivial, ref_lines=with_ref(lw))
    la = rfc_lines()
    ctx.correspond("rfc6901-examples", "ptr", la, oracle, nontrivial, ref_lines=with_ref(la))
    lt = gen_text_lines(rng, 1500 * scale)
    ctx.correspond("text-random", "ptr", lt, oracle, nontrivial)
    lo = gen_lines(rng, 4000 * scale)
    ctx.correspond("ops-random", "ptr", lo, oracle, nontrivial, ref_lines=with_ref(lo))
    li = gen_index_lines(rng)
    ctx.correspond("index-syntax", "ptr", li, oracle, nontrivial, ref_lines=with_ref(li))
    lf = gen_flat(rng, 800 * scale)
    flat_model = [l if l.split()[1] == "flatten" else "" for l in lf]
    ctx.correspond("flatten", "ptr", lf, flat_oracle, nontrivial,
                   compare=lambda line, io, mo: True if line.split()[1] == "flatrt" else io == mo, model_lines=flat_model)


def run(ctx):
    ctx.prove(MODULES, leancheck=(ctx.tier == "thorough"))
    ctx.cov["rule"] = ("pointer text: random strings over {/ ~ 0 1 2 a é - ~0 ~1 …} and token lists (thorough: every string of length <= 6 over "
                       "{/,~,0,1,a}); operations: (document, pointer, value) with pointers drawn from the document's own locations and perturbed "
                       "(special tokens: '-', leading zeros, signs, blanks, 2^64 boundaries, 21+ digits, empty, escapes, malformed syntax), "
                       "get/contains/add/add_if_absent/replace/remove x json/ojson x create_if_missing; flatten and unflatten(flatten(d)). "
                       "non-trivial = pointer with >= 2 tokens (ops) / text longer than 1 char; distinct by op line")
    rng = vlib.rng_for(ctx.seed, "c14")
    scale = 1 if ctx.tier == "quick" else 15
    streams(ctx, rng, scale)
    if ctx.tier == "thorough":
        le = exhaustive_text(6)
        ctx.correspond("text-exhaustive-6", "ptr", le, oracle, nontrivial)
        ctx.cov["exhaustive_note"] = "every pointer string of length <= 6 over {/,~,0,1,a}: %d strings" % len(le)


def search(ctx):
    for extra in range(1, 5):
        rng = vlib.rng_for(ctx.seed * 1000 + extra, "c14-search")
        before = len(ctx.fail_inputs)
        streams(ctx, rng, 3)
        if len(ctx.fail_inputs) > before:
            return ctx.fail_inputs[before]
    return None


def replay(ctx, path):
    lines = [l[4:].rstrip("\n") for l in open(path) if l.startswith("op: ")]
    if not lines:
        print(open(path).read())
        return 1
    ctx.correspond("replay", "ptr", lines, lambda l, i, m, r=None: flat_oracle(l, i, m, r) or oracle(l, i, m, r), nontrivial,
                   ref_lines=with_ref(lines), compare=lambda line, io, mo: True if line.split()[1] == "flatrt" else io == mo)
    for (stream, line, io, mo, why) in ctx.fail_inputs:
        print("op: %s\nimpl: %s\nmodel: %s\nwhy: %s" % (line, io, mo, why))
    for b in ctx.broken:
        print(b)
    return 1 if ctx.fail_inputs or ctx.broken else 0
