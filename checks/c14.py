"""C14 — JSON Pointer operations follow RFC 6901 (DESIGN.md §5 C14)."""
import hashlib
import vlib
import wire
import values
from wire import Obj

PROP = "C14"
MODULES = ["JV.Props.C14"]

SPECIAL_TOKENS = [b"-", b"0", b"1", b"2", b"00", b"01", b"007", b"+1", b"-1", b" 1", b"1 ", b"1e0", b"0x1", b"", b"~", b"/", b"~~", b"a/b",
                  b"\xc3\xa9", b"18446744073709551615", b"18446744073709551616", b"9999999999999999999", b"99999999999999999999",
                  b"184467440737095516150", b"0000000000000000000001", b"1a", b"a"]


def esc(tok):
    return tok.replace(b"~", b"~0").replace(b"/", b"~1")


def locations(v, prefix=()):
    """all (token tuple) locations of a document"""
    out = [prefix]
    if isinstance(v, list):
        for i, x in enumerate(v):
            out += locations(x, prefix + (str(i).encode(),))
    elif isinstance(v, Obj):
        for k, x in v.members:
            out += locations(x, prefix + (k,))
    return out


def gen_pointer(rng, doc):
    locs = locations(doc)
    toks = list(rng.choice(locs))
    r = rng.random()
    if r < 0.35:
        pass
    elif r < 0.6 and toks:
        toks[-1] = rng.choice(SPECIAL_TOKENS)
    elif r < 0.75:
        toks.append(rng.choice(SPECIAL_TOKENS + values.KEYS_MED))
    elif r < 0.85:
        toks += [rng.choice(values.KEYS_MED), rng.choice(SPECIAL_TOKENS + values.KEYS_MED)]
    elif toks:
        i = rng.randrange(len(toks))
        toks[i] = rng.choice(SPECIAL_TOKENS)
    s = b"".join(b"/" + esc(t) for t in toks)
    # malformed syntax now and then
    r = rng.random()
    if r < 0.04:
        s = s[1:] if s else b"a"
    elif r < 0.08:
        s = s + b"~"
    elif r < 0.12:
        s = s + rng.choice([b"~2", b"~a", b"/~", b"~01", b"~10"])
    return s


def gen_doc(rng, small):
    keys = values.KEYS_SMALL if small else values.KEYS_MED
    d = values.value(rng, rng.randint(1, 4), keys, small, width=4, p_leaf=0.2)
    return d


def gen_lines(rng, n):
    ls = []
    for i in range(n):
        small = rng.random() < 0.5
        d = gen_doc(rng, small)
        loc = gen_pointer(rng, d)
        v = values.value(rng, 1, values.KEYS_SMALL, True)
        kind = "j" if rng.random() < 0.6 else "o"
        if kind == "j":
            d, v = wire.sort_keys(d), wire.sort_keys(v)
        create = "1" if rng.random() < 0.3 else "0"
        op = rng.choice(["get", "contains", "add", "add", "addia", "replace", "remove"])
        x = "x" + loc.hex()
        if op in ("get", "contains"):
            ls.append("ptr %s %s %s %s" % (op, kind, x, wire.render(d)))
        elif op == "remove":
            ls.append("ptr remove %s 0 %s %s" % (kind, x, wire.render(d)))
        else:
            ls.append("ptr %s %s %s %s %s %s" % (op, kind, create, x, wire.render(d), wire.render(v)))
    return ls


def gen_index_lines(rng):
    """array-index syntax (RFC 6901 §4: "0" or digits without a leading zero, or "-"): every printable single-byte token and digit/non-digit
    pairs against arrays long enough that any `c - '0'` style arithmetic would land inside them"""
    ls = []
    singles = [bytes([c]) for c in range(0x20, 0x7f)]
    pairs = [bytes([a, b]) for a in b"019:a-+ " for b in b"09:/a-. "]
    nums = lambda n: [str(k).encode() for k in (0, 1, n - 1, n, n + 1, 10, 11, 16, 17, 49, 74, 79) if k >= 0]
    for n in (0, 1, 3, 11, 12, 20, 50, 80):
        arr = list(range(n))
        for nest in (False, True):
            d = Obj([(b"a", arr)]) if nest else arr
            for tok in singles + pairs + nums(n):
                loc = (b"/a" if nest else b"") + b"/" + esc(tok)
                if n not in (12, 80) and rng.random() < 0.6:
                    continue
                kind = rng.choice("jo")
                op = rng.choice(["get", "contains", "add", "addia", "replace", "remove"])
                x = "x" + loc.hex()
                if op in ("get", "contains"):
                    ls.append("ptr %s %s %s %s" % (op, kind, x, wire.render(d)))
                elif op == "remove":
                    ls.append("ptr remove %s 0 %s %s" % (kind, x, wire.render(d)))
                else:
                    ls.append("ptr %s %s 0 %s %s %s" % (op, kind, x, wire.render(d), wire.render(b"new")))
    return ls


def gen_text_lines(rng, n):
    """pointer text <-> tokens"""
    ls = []
    alphabet = [b"/", b"~", b"0", b"1", b"2", b"a", b"", b"\xc3\xa9", b"-", b"~0", b"~1", b"~01", b"~10"]
    for _ in range(n):
        if rng.random() < 0.5:
            s = b"".join(rng.choice(alphabet) for _ in range(rng.randint(0, 7)))
            ls.append("ptr parse x" + s.hex())
        else:
            toks = [b"".join(rng.choice(alphabet) for _ in range(rng.randint(0, 3))) for _ in range(rng.randint(0, 4))]
            ls.append("ptr tostr " + " ".join("t" + t.hex() for t in toks))
    return ls


def exhaustive_text(maxlen):
    alphabet = [b"/", b"~", b"0", b"1", b"a"]
    out = [b""]
    frontier = [b""]
    for _ in range(maxlen):
        frontier = [s + c for s in frontier for c in alphabet]
        out += frontier
    return ["ptr parse x" + s.hex() for s in out]


def ref_line(line):
    t = line.split(" ", 2)
    op = t[1]
    if op in ("get", "add", "addia", "replace", "remove"):
        return "ptr s" + op + " " + t[2]
    if op == "contains":
        return "ptr sget " + t[2]
    return line


def parse_mut(s):
    st, rest = s.split(" ", 1)
    return st, wire.parse_all(rest)[0]


def py_tokens(s):
    """RFC 6901 §3 in Python (independent of both the code and the Lean files)"""
    if s == b"":
        return []
    if s[:1] != b"/":
        return None
    toks = []
    for part in s[1:].split(b"/"):
        out = bytearray()
        i = 0
        while i < len(part):
            c = part[i:i + 1]
            if c == b"~":
                nxt = part[i + 1:i + 2]
                if nxt == b"0":
                    out += b"~"
                elif nxt == b"1":
                    out += b"/"
                else:
                    return None
                i += 2
            else:
                out += c
                i += 1
        toks.append(bytes(out))
    return toks


def oracle(line, impl, model, ref=None):
    t = line.split()
    op = t[1]
    if op == "parse":
        s = bytes.fromhex(t[2][1:])
        want = py_tokens(s)
        if want is None:
            return None if impl == "err" else "a string that is not a JSON Pointer was accepted: " + impl
        if impl == "err":
            return "a valid JSON Pointer was rejected"
        left, right = impl[3:].split("|")
        got = [bytes.fromhex(x[1:]) for x in left.split()]
        if got != want:
            return "tokens differ from RFC 6901 unescaping"
        if bytes.fromhex(right.strip()[1:]) != s:
            return "parse followed by to_string is not the identity on a valid pointer"
        return None
    if op == "tostr":
        toks = [bytes.fromhex(x[1:]) for x in t[2:]]
        left, right = impl[3:].split("|")
        if right.strip() == "err":
            return "to_string produced text that does not parse"
        got = [bytes.fromhex(x[1:]) for x in right.split()]
        if got != toks and not (toks == [] and got == []):
            return "to_string followed by parse is not the identity on token lists"
        return None
    if op in ("get", "contains"):
        if ref is None:
            return None
        if op == "contains":
            want = "ok t" if ref.startswith("ok") else "ok f"
            return None if impl == want else "contains disagrees with RFC 6901 evaluation (%s)" % ref
        if ref == "err":
            return None if impl == "err" else "get succeeded where RFC 6901 evaluation fails"
        if impl == "err":
            return "get failed where RFC 6901 evaluation succeeds"
        if wire.canon(wire.parse_all(impl[3:])[0]) != wire.canon(wire.parse_all(ref[3:])[0]):
            return "get returned a value other than the addressed one"
        return None
    if op in ("flatten", "flatrt", "unflat"):
        return None
    # mutators
    create = t[3] == "1"
    loc = bytes.fromhex(t[4][1:])
    pos = 5
    toks = t
    d, pos = wire.parse(toks, pos)
    st, after = parse_mut(impl)
    if st == "err":
        if wire.canon(after) != wire.canon(d):
            return "the operation failed but the document was modified"
        if ref is not None and not create and ref.startswith("ok"):
            return "the operation failed where RFC 6901/6902 semantics succeed"
        return None
    if ref is not None and not create:
        if ref == "err":
            return "the operation succeeded where RFC 6901/6902 semantics fail"
        if wire.canon(after) != wire.canon(wire.parse_all(ref[3:])[0]):
            return "the document after the operation differs from the specified one"
    return None


# ---------------------------------------------------------------------------------------------------------------------
# flatten / unflatten.  What doc/ref/jsonpointer/flatten.md + unflatten_options.md promise:
#   flatten: keys are JSON Pointers; values are primitives, `{}` or `[]` (since 0.160.0).
#   unflatten: "There is no unique solution, an integer appearing in a path could be an array index or it could be an object
#   key.  The default is to attempt to preserve arrays"; assume_object: "Assume an integer appearing in a path is an object key".
# Demanded of the real output, independently of the model:
#   unflatten(flatten(d), none)          == d with every object whose member names are exactly the RFC 6901 array indices
#                                           "0".."n-1" (n >= 1, no leading zeros) replaced by the array of its values (the
#                                           documented ambiguity, second example of flatten.md) -- and nothing else changed:
#                                           empty containers, scalar roots, "-", "01", gaps, >= 11 elements all survive;
#   unflatten(flatten(d), assume_object) == d with every non-empty array replaced by the object {"0":..,"n-1":..};
#   member order is not promised (ojson comes back in pointer order): compared up to member order.
#   unflatten(f) for a flat object f of valid, pairwise prefix-free pointers: every pointer of f resolves in the result
#   (RFC 6901 evaluation, done here) to the value it was paired with, and the result has no further leaves;
#   a member name that is not a JSON Pointer, a non-object or an empty object: jsonpointer_error.
# ---------------------------------------------------------------------------------------------------------------------

def is_index(k):
    """RFC 6901 array-index: "0" or digits without a leading zero"""
    return k == b"0" or (k.isdigit() and k[:1] != b"0")


def promised_roundtrip(d, assume_object):
    if isinstance(d, list):
        xs = [promised_roundtrip(x, assume_object) for x in d]
        if xs and assume_object:
            return Obj([(str(i).encode(), x) for i, x in enumerate(xs)])
        return xs
    if isinstance(d, Obj):
        ms = [(k, promised_roundtrip(x, assume_object)) for k, x in d.members]
        if ms and not assume_object:
            want = [str(i).encode() for i in range(len(ms))]
            if sorted(k for k, _ in ms) == sorted(want):
                by = dict(ms)
                return [by[k] for k in want]
        return Obj(ms)
    return d


def py_get(v, toks):
    for t in toks:
        if isinstance(v, list):
            if not is_index(t) or int(t) >= len(v):
                return KeyError
            v = v[int(t)]
        elif isinstance(v, Obj):
            v = v.get(t)
            if v is KeyError:
                return KeyError
        else:
            return KeyError
    return v


def count_leaves(v):
    if isinstance(v, list) and v:
        return sum(count_leaves(x) for x in v)
    if isinstance(v, Obj) and v.members:
        return sum(count_leaves(x) for _, x in v.members)
    return 1


def is_prefix(a, b):
    return len(a) <= len(b) and b[:len(a)] == a


def flat_oracle(line, impl, model, ref=None):
    t = line.split()
    if t[1] == "flatrt":
        assume = t[3] == "1"
        d, _ = wire.parse(t, 4)
        if not impl.startswith("ok "):
            return "unflatten(flatten(d)) failed: " + impl
        got = wire.parse_all(impl[3:])[0]
        want = promised_roundtrip(d, assume)
        if wire.canon(got) != wire.canon(want):
            if wire.canon(want) == wire.canon(d):
                return "unflatten(flatten(d)) != d for a document outside the documented ambiguity (option %s)" % t[3]
            return "unflatten(flatten(d)) is not d with index-named objects as arrays / arrays as objects (option %s)" % t[3]
        return None
    if t[1] == "unflat":
        f, _ = wire.parse(t, 4)
        if not isinstance(f, Obj) or not f.members:
            return None if impl == "err" else "unflatten accepted an argument that is not a non-empty object"
        ptrs = [(py_tokens(k), v) for k, v in f.members]
        if any(p is None for p, _ in ptrs):
            return None if impl == "err" else "unflatten accepted a member name that is not a JSON Pointer"
        if not impl.startswith("ok "):
            return "unflatten failed on a flat object of valid pointers: " + impl
        if any(i != j and is_prefix(p, q) for i, (p, _) in enumerate(ptrs) for j, (q, _) in enumerate(ptrs)):
            return None                     # conflicting paths: nothing promised, tie only
        got = wire.parse_all(impl[3:])[0]
        for p, v in ptrs:
            r = py_get(got, p)
            if r is KeyError or wire.canon(r) != wire.canon(v):
                return "a pointer of the flat object does not address its value in unflatten's result"
        if sum(count_leaves(v) for _, v in ptrs) != count_leaves(got):
            return "unflatten's result has leaves the flat object does not mention"
        return None
    return None


# D87 (fixed in /repo 52dff66): try_unflatten_array read tokens with raw dec_to_integer, so "00", "01" were array indices and
# {"0":1,"00":2} came back as [1].  The matcher below is inert (no finding carries this id); kept as the description of the class.
UNFLATTEN_LEADING_ZERO_ID = "D87-unused"


def _has_leading_zero_name(v, flat):
    if isinstance(v, list):
        return any(_has_leading_zero_name(x, False) for x in v)
    if isinstance(v, Obj):
        for k, x in v.members:
            toks = (py_tokens(k) or []) if flat else [k]
            if any(t.isdigit() and not is_index(t) for t in toks) or _has_leading_zero_name(x, False):
                return True
    return False


@vlib.known_matcher(UNFLATTEN_LEADING_ZERO_ID)
def unflatten_leading_zero(stream, line, impl, model):
    t = line.split()
    if len(t) < 5 or t[1] not in ("flatrt", "unflat") or t[3] != "0" or impl != model:
        return False
    d, _ = wire.parse(t, 4)
    return _has_leading_zero_name(d, t[1] == "unflat")


def nontrivial(line, impl):
    t = line.split()
    if t[1] in ("parse", "tostr"):
        return hashlib.md5(line.encode()).hexdigest() if len(line) > 14 else None
    if t[1] in ("flatten", "flatrt", "unflat"):
        return hashlib.md5(line.encode()).hexdigest()
    loc = t[3] if t[1] in ("get", "contains") else t[4]
    if loc.count("2f") >= 2:
        return hashlib.md5(line.encode()).hexdigest()
    return None


CORPUS = [
    # RFC 6901 §5 examples on the RFC's document
]


def rfc_doc():
    return Obj([(b"foo", [b"bar", b"baz"]), (b"", 0), (b"a/b", 1), (b"c%d", 2), (b"e^f", 3), (b"g|h", 4), (b"i\\j", 5), (b'k"l', 6), (b" ", 7), (b"m~n", 8)])


def rfc_lines():
    d = wire.render(wire.sort_keys(rfc_doc()))
    ptrs = [b"", b"/foo", b"/foo/0", b"/", b"/a~1b", b"/c%d", b"/e^f", b"/g|h", b"/i\\j", b'/k"l', b"/ ", b"/m~0n", b"/foo/-", b"/foo/01", b"/foo/2"]
    return ["ptr get j x%s %s" % (p.hex(), d) for p in ptrs]


FLAT_KEYS = [b"a", b"b", b"c", b"a/b", b"~", b"~1", b"", b"\xc3\xa9", b"x1", b"0", b"1", b"2", b"3", b"10", b"00", b"01", b"-", b"/"]


def index_named(rng, n, depth, kind):
    """an object whose member names look like array indices: exactly 0..n-1, or with a gap / a leading zero / '-' / a non-index"""
    names = [str(i).encode() for i in range(n)]
    r = rng.random()
    if r < 0.45 or n == 0:
        pass
    elif r < 0.6:
        names[rng.randrange(n)] = str(n + rng.randint(0, 2)).encode()                       # gap (or still exact when n)
    elif r < 0.75:
        i = rng.randrange(n)
        names[i] = b"0" * rng.randint(1, 2) + names[i]                                        # leading zero
    elif r < 0.85:
        names.append(rng.choice([b"-", b"a", b"", b"1e0", b"+1", b"18446744073709551616"]))
    else:
        names.append(b"0" + names[rng.randrange(n)])                                          # "0" and "00": same number twice
    if kind == "o":
        rng.shuffle(names)
    return Obj([(k, flat_doc(rng, depth - 1, kind)) for k in dict.fromkeys(names)])


def flat_doc(rng, depth, kind):
    r = rng.random()
    if depth <= 0 or r < 0.22:
        q = rng.random()
        if q < 0.18:
            return []
        if q < 0.36:
            return Obj([])
        return values.leaf(rng, True)
    if r < 0.5:
        n = rng.choice([0, 1, 1, 2, 2, 3, 3, 4, 11, 12]) if depth >= 2 else rng.randint(0, 3)
        return [flat_doc(rng, depth - 1 if n < 10 else 0, kind) for _ in range(n)]
    if r < 0.72:
        return index_named(rng, rng.choice([1, 1, 2, 2, 3, 11]), depth, kind)
    ks = rng.sample(FLAT_KEYS, rng.randint(0, 4))
    return Obj([(k, flat_doc(rng, depth - 1, kind)) for k in ks])


FLAT_TOKENS = [b"a", b"b", b"a!", b"a/b", b"~", b"", b"0", b"1", b"2", b"10", b"00", b"01", b"-", b"\xc3\xa9"]


def flat_object(rng):
    """an arbitrary flat object: pointer -> value, with conflicting paths, index-like tokens, now and then a malformed name"""
    paths = []
    for _ in range(rng.randint(1, 6)):
        r = rng.random()
        if paths and r < 0.35:
            base = list(rng.choice(paths))
            q = rng.random()
            if q < 0.4 and base:
                base[-1] = rng.choice(FLAT_TOKENS)                      # sibling
            elif q < 0.75:
                base.append(rng.choice(FLAT_TOKENS))                    # extends an existing path: conflict
            elif base:
                base.pop()                                              # prefix of an existing path: conflict
            paths.append(tuple(base))
        else:
            paths.append(tuple(rng.choice(FLAT_TOKENS) for _ in range(rng.randint(0, 4))))
    ms = []
    for p in dict.fromkeys(paths):
        name = b"".join(b"/" + esc(t) for t in p)
        r = rng.random()
        if r < 0.03:
            name = name[1:] if name else b"a"
        elif r < 0.05:
            name += rng.choice([b"~", b"~2"])
        q = rng.random()
        v = [] if q < 0.1 else Obj([]) if q < 0.2 else values.value(rng, 2, values.KEYS_SMALL, True) if q < 0.3 else values.leaf(rng, True)
        ms.append((name, v))
    return Obj(ms)


def gen_flat(rng, n):
    ls = []
    for i in range(n):
        kind = "j" if rng.random() < 0.6 else "o"
        opt = "0" if rng.random() < 0.6 else "1"
        r = rng.random()
        if r < 0.2:
            d = values.value(rng, rng.randint(1, 4), [b"a", b"b", b"c", b"a/b", b"~", b"", b"\xc3\xa9", b"x1"], False, width=3, p_leaf=0.25)
        elif r < 0.6:
            d = flat_doc(rng, rng.randint(1, 4), kind)
        else:
            d = flat_object(rng)
            if rng.random() < 0.03:
                d = rng.choice([Obj([]), [], 1, [1, 2]])
        if kind == "j":
            d = wire.sort_keys(d)
        if r >= 0.6:
            ls.append("ptr unflat %s %s %s" % (kind, opt, wire.render(d)))
        elif rng.random() < 0.2:
            ls.append("ptr flatten %s %s" % (kind, wire.render(d)))
        else:
            ls.append("ptr flatrt %s %s %s" % (kind, opt, wire.render(d)))
    return ls


def flat_fixed():
    """hand-picked flatten/unflatten cases (every ambiguity class once, both flavours, both options)"""
    docs = [5, None, [], Obj([]), [[]], [Obj([])], Obj([(b"a", [])]), Obj([(b"a", Obj([]))]), [[], [[]], Obj([])],
            Obj([(b"0", 1), (b"1", 2)]), Obj([(b"1", 1), (b"0", 2)]), Obj([(b"0", 1), (b"2", 2)]), Obj([(b"-", 1)]), Obj([(b"01", 1)]),
            Obj([(b"1", 1)]), Obj([(b"0", Obj([(b"0", Obj([(b"0", 7)]))]))]), list(range(12)), Obj([(str(i).encode(), i) for i in range(12)]),
            Obj([(b"a/b", [1, Obj([(b"~", 2)])]), (b"", 3)]), Obj([(b"", Obj([(b"", 1)]))]), [[1, 2], [3]],
            Obj([(b"a", Obj([(b"0", b"x")]))]), Obj([(b"18446744073709551616", 1)]), Obj([(b"0", 1), (b"a", 2)])]
    flats = [Obj([(b"/a", 1), (b"/a/b", 2)]), Obj([(b"", 1), (b"/a", 2)]), Obj([(b"", 1)]), Obj([(b"a", 1)]), Obj([(b"/a~2", 1)]),
             Obj([(b"/1", 1), (b"/0", 2)]), Obj([(b"/0/a", 1), (b"/0", 2)]), Obj([(b"/a/b", 2), (b"/a", 1), (b"/a/c", 3)]),
             Obj([(b"/0", Obj([(b"x", [1])])), (b"/1/0", 2)]), Obj([(b"/a/0", 1), (b"/a/1", 1), (b"/a/x", 1)]),
             Obj([(b"/a/b", 1), (b"/a!", 2), (b"/a/c", 3)]), Obj([(b"/0", 1), (b"/00", 2)]), Obj([]), [], 3]
    ls = []
    for kind in "jo":
        for opt in "01":
            for d in docs:
                ls.append("ptr flatrt %s %s %s" % (kind, opt, wire.render(wire.sort_keys(d) if kind == "j" else d)))
            for d in flats:
                ls.append("ptr unflat %s %s %s" % (kind, opt, wire.render(wire.sort_keys(d) if kind == "j" else d)))
    return ls


def with_ref(lines):
    return [ref_line(l) for l in lines]


def streams(ctx, rng, scale):
    lw = vlib.witness_lines(PROP)
    ctx.correspond("finding-witnesses", "ptr", lw, oracle, nontrivial, ref_lines=with_ref(lw))
    la = rfc_lines()
    ctx.correspond("rfc6901-examples", "ptr", la, oracle, nontrivial, ref_lines=with_ref(la))
    lt = gen_text_lines(rng, 1500 * scale)
    ctx.correspond("text-random", "ptr", lt, oracle, nontrivial)
    lo = gen_lines(rng, 4000 * scale)
    ctx.correspond("ops-random", "ptr", lo, oracle, nontrivial, ref_lines=with_ref(lo))
    li = gen_index_lines(rng)
    ctx.correspond("index-syntax", "ptr", li, oracle, nontrivial, ref_lines=with_ref(li))
    lf = flat_fixed() + gen_flat(rng, 2500 * scale)
    ctx.correspond("flatten", "ptr", lf, flat_oracle, nontrivial)


def run(ctx):
    ctx.prove(MODULES, leancheck=(ctx.tier == "thorough"))
    ctx.cov["rule"] = ("pointer text: random strings over {/ ~ 0 1 2 a é - ~0 ~1 …} and token lists (thorough: every string of length <= 6 over "
                       "{/,~,0,1,a}); operations: (document, pointer, value) with pointers drawn from the document's own locations and perturbed "
                       "(special tokens: '-', leading zeros, signs, blanks, 2^64 boundaries, 21+ digits, empty, escapes, malformed syntax), "
                       "get/contains/add/add_if_absent/replace/remove x json/ojson x create_if_missing; flatten; unflatten(flatten(d)) for both "
                       "unflatten_options on documents with empty containers at every position, arrays of 11-12 elements, objects named "
                       "0..n-1 / with a gap / a leading zero / '-' / the same number twice, member names with '/' and '~'; unflatten of "
                       "arbitrary flat objects (conflicting paths, index-like tokens, malformed names, non-objects), all tied to the model. "
                       "non-trivial = pointer with >= 2 tokens (ops) / text longer than 1 char; distinct by op line")
    rng = vlib.rng_for(ctx.seed, "c14")
    scale = 1 if ctx.tier == "quick" else 15
    streams(ctx, rng, scale)
    if ctx.tier == "thorough":
        le = exhaustive_text(6)
        ctx.correspond("text-exhaustive-6", "ptr", le, oracle, nontrivial)
        ctx.cov["exhaustive_note"] = "every pointer string of length <= 6 over {/,~,0,1,a}: %d strings" % len(le)


def search(ctx):
    for extra in range(1, 5):
        rng = vlib.rng_for(ctx.seed * 1000 + extra, "c14-search")
        before = len(ctx.fail_inputs)
        streams(ctx, rng, 3)
        if len(ctx.fail_inputs) > before:
            return ctx.fail_inputs[before]
    return None


def replay(ctx, path):
    lines = [l[4:].rstrip("\n") for l in open(path) if l.startswith("op: ")]
    if not lines:
        print(open(path).read())
        return 1
    ctx.correspond("replay", "ptr", lines, lambda l, i, m, r=None: flat_oracle(l, i, m, r) or oracle(l, i, m, r), nontrivial,
                   ref_lines=with_ref(lines))
    for (stream, line, io, mo, why) in ctx.fail_inputs:
        print("op: %s\nimpl: %s\nmodel: %s\nwhy: %s" % (line, io, mo, why))
    for b in ctx.broken:
        print(b)
    return 1 if ctx.fail_inputs or ctx.broken else 0
