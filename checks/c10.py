"""C10 — resource limits hold against hostile input (DESIGN.md §5 C10)."""
import re
import vlib
import wire
import binfmt
from wire import Obj
from checks import c02

PROP = "C10"
MODULES = ["JV.Props.C10", "JV.Props.C10X"]
NOSAN = ["-std=c++17", "-O1", "-g", "-D" + vlib.GUARD, "-I" + vlib.os.path.join(vlib.REPO, "include"), "-I" + vlib.os.path.join(vlib.ROOT, "harness")]

LIMITS = [0, 1, 2, 3, 17, 100]


# ---- nesting depth: decoders -------------------------------------------------------------------------------------

def nest_bytes(fmt, shape, depth):
    """`depth` nested containers of the given shape around a scalar, in the format's simplest encoding"""
    def wrap(i):
        return shape == "arr" or (shape == "alt" and i % 2 == 0)
    if fmt == "cbor":
        return b"".join(b"\x81" if wrap(i) else b"\xa1\x61a" for i in range(depth)) + b"\x01"
    if fmt == "cbor-indef":
        return b"".join(b"\x9f" if wrap(i) else b"\xbf\x61a" for i in range(depth)) + b"\x01" + b"\xff" * depth
    if fmt == "msgpack":
        return b"".join(b"\x91" if wrap(i) else b"\x81\xa1a" for i in range(depth)) + b"\x01"
    if fmt == "ubjson":
        return b"".join(b"[" if wrap(i) else b"{i\x01a" for i in range(depth)) + b"i\x01" + b"".join(b"]" if wrap(i) else b"}" for i in reversed(range(depth)))
    if fmt == "ubjson-counted":
        return b"".join(b"[#i\x01" if wrap(i) else b"{#i\x01i\x01a" for i in range(depth)) + b"i\x01"
    if fmt == "bson":
        doc = Obj([(b"v", 1)])
        v = 1
        for i in reversed(range(depth)):
            v = [v] if wrap(i) else Obj([(b"a", v)])
        if not isinstance(v, Obj):
            return None
        return binfmt.bson_document(v.members)
    raise ValueError(fmt)


def depth_lines():
    ls = []
    for limit in LIMITS:
        for depth in (max(limit - 1, 0), limit, limit + 1):
            for shape in ("arr", "obj", "alt"):
                for fmt in ("cbor", "cbor-indef", "msgpack", "ubjson", "ubjson-counted", "bson"):
                    if fmt == "bson" and (shape != "obj" or depth == 0):
                        continue
                    b = nest_bytes(fmt, shape, depth)
                    if b is None:
                        continue
                    real = fmt.split("-")[0]
                    ls.append(("bin dec %s j d%d x%s" % (real, limit, b.hex()), depth <= limit, "%s %s depth=%d limit=%d" % (fmt, shape, depth, limit)))
                # JSON text
                text = b"".join(b"[" if (shape == "arr" or (shape == "alt" and i % 2 == 0)) else b'{"a":' for i in range(depth)) + b"1" + b"".join(
                    b"]" if (shape == "arr" or (shape == "alt" and i % 2 == 0)) else b"}" for i in reversed(range(depth)))
                ls.append(("jt parse j %s x%s" % (c02.opt_str(0, 0, limit), text.hex()), depth <= limit, "json %s depth=%d limit=%d" % (shape, depth, limit)))
    return ls


def encoder_depth_lines():
    """encoders enforce the limit on what they are asked to write (nested value via the DOM)"""
    ls = []
    for limit in (1, 2, 3, 17):
        for depth in (limit - 1, limit, limit + 1):
            for shape in ("arr", "obj"):
                v = 1
                for i in range(depth):
                    v = [v] if shape == "arr" else Obj([(b"a", v)])
                for fmt in ("cbor", "msgpack", "ubjson", "bson"):
                    if fmt == "bson" and (shape != "obj" or depth == 0):
                        continue
                    ls.append(("bin enc %s o d%d %s" % (fmt, limit, wire.render(v)), depth <= limit, "%s encoder %s depth=%d limit=%d" % (fmt, shape, depth, limit)))
    return ls


def ubjson_items_lines():
    ls = []
    for m in (0, 1, 2, 255, 1000):
        for n in (max(m - 1, 0), m, m + 1):
            forms = {
                "counted array": b"[#" + binfmt.ub_int(n) + b"Z" * n,
                "typed array": b"[$Z#" + binfmt.ub_int(n),
                "typed array of ints": b"[$U#" + binfmt.ub_int(n) + b"\x01" * n,
                "counted object": b"{#" + binfmt.ub_int(n) + b"".join(binfmt.ub_int(len(str(i))) + str(i).encode() + b"Z" for i in range(n)),
                "typed object": b"{$Z#" + binfmt.ub_int(n) + b"".join(binfmt.ub_int(len(str(i))) + str(i).encode() for i in range(n)),
            }
            for name, b in forms.items():
                ls.append(("bin dec ubjson j m%d x%s" % (m, b.hex()), n <= m, "ubjson %s items=%d max_items=%d" % (name, n, m)))
    return ls


def limit_oracle_factory(meta):
    def oracle(line, impl, model, ref=None):
        should_accept, what = meta[line]
        ok = impl.startswith("ok")
        if should_accept and not ok:
            return "input exactly at or below the limit was refused (%s): %s" % (what, impl[:80])
        if not should_accept and ok:
            return "input beyond the limit was accepted (%s)" % what
        return None
    return oracle


# ---- memory follows supplied data ------------------------------------------------------------------------------------

def claim_lines():
    """a large length/count is claimed, little or no data follows"""
    ls = []
    big = [2 ** 20, 2 ** 28, 2 ** 31 - 1, 2 ** 32 - 1, 2 ** 40, 2 ** 62]
    for n in big:
        for tail in (b"", b"A" * 5, b"A" * 16, b"\x01" * 300):
            cands = {
                "cbor": [binfmt.cbor_head(2, n) + tail, binfmt.cbor_head(3, n) + tail, binfmt.cbor_head(4, n) + tail, binfmt.cbor_head(5, n) + tail,
                         b"\xd8\x40" + binfmt.cbor_head(2, n) + tail, b"\xd8\x52" + binfmt.cbor_head(2, n) + tail, b"\xc2" + binfmt.cbor_head(2, n) + tail,
                         b"\x81" + binfmt.cbor_head(3, n) + tail],
                "msgpack": ([b"\xc6" + n.to_bytes(4, "big") + tail, b"\xdb" + n.to_bytes(4, "big") + tail, b"\xdd" + n.to_bytes(4, "big") + tail,
                             b"\xdf" + n.to_bytes(4, "big") + tail, b"\xc9" + n.to_bytes(4, "big") + b"\x05" + tail] if n < 2 ** 32 else []),
                "ubjson": ([b"S" + binfmt.ub_int(n) + tail, b"H" + binfmt.ub_int(n) + tail, b"[$U#" + binfmt.ub_int(n) + tail, b"[#" + binfmt.ub_int(n) + tail,
                            b"[$D#" + binfmt.ub_int(n) + tail, b"{#" + binfmt.ub_int(n) + tail] if n < 2 ** 63 else []),
                "bson": ([(n % 2 ** 31).to_bytes(4, "little") + b"\x02a\x00" + (n % 2 ** 31).to_bytes(4, "little") + tail,
                          (40).to_bytes(4, "little") + b"\x05a\x00" + (n % 2 ** 31).to_bytes(4, "little") + b"\x00" + tail,
                          (40).to_bytes(4, "little") + b"\x02a\x00" + (n % 2 ** 31).to_bytes(4, "little") + tail] if True else []),
            }
            for fmt, bs in cands.items():
                for b in bs:
                    for src in ("bytes", "iter", "stream"):
                        ls.append("lim alloc %s %s x%s" % (fmt, src, b.hex()))
    # chunk-aligned stream: the length header ends exactly at the 16384-byte chunk boundary
    pad = 16384 - 9
    b = binfmt.cbor_head(4, 1) + b"\x58" + b"\x00"     # placeholder, replaced below
    filler = b"\x98\x01" + b"\x59" + (pad - 6).to_bytes(2, "big") + b"\x00" * (pad - 6)      # [ bytes(pad-6) ] fills the first chunk up to 9 bytes before its end
    for n in (2 ** 28, 2 ** 31 - 1):
        doc = b"\x82" + b"\x59" + (16384 - 4 - 9).to_bytes(2, "big") + b"\x00" * (16384 - 4 - 9) + b"\x5b" + n.to_bytes(8, "big") + b"AAAA"
        ls.append("lim alloc cbor stream x" + doc.hex())
        ls.append("lim alloc cbor iter x" + doc.hex())
    return ls


ALLOC_RE = re.compile(r"maxreq=(\d+) peak=(\d+) total=(\d+)")


def alloc_oracle(line, impl, model, ref=None):
    t = line.split()
    n = (len(t[4]) - 1) // 2
    m = ALLOC_RE.search(impl)
    if not m:
        return "no measurement: " + impl
    maxreq, peak, total = map(int, m.groups())
    bound = 65536 + 64 * n           # one 16 KiB chunk (+ its copy), decoder state, and a constant factor of the bytes supplied
    if impl.startswith("badalloc") or maxreq > bound or peak > 4 * bound:
        return "memory use follows a claimed length, not the %d bytes supplied: largest request %d, peak %d (bound %d)" % (n, maxreq, peak, bound)
    return None


# ---- stack ------------------------------------------------------------------------------------------------------------------

def stack_lines(tier):
    ls = []
    for shape in ("arr", "obj", "alt", "alt2"):
        for depth in ([1000, 100000] if tier == "quick" else [1000, 100000, 1000000]):
            ls.append("lim stack %s %d destroy" % (shape, depth))
        for op in ("copy", "compare", "dump"):
            ls.append("lim stack %s 1023 %s" % (shape, op))
        ls.append("lim stack %s 1024 dump" % shape)
        ls.append("lim stack %s 1025 dump" % shape)
    return ls


STACK_RE = re.compile(r"stack=(\d+)")


def stack_oracle(line, impl, model, ref=None):
    t = line.split()
    op = t[4]
    if impl.startswith("exc-json") and op == "dump" and int(t[3]) >= 1024:
        return None                                  # beyond the encoder's limit: a json_exception is the documented channel
    m = STACK_RE.search(impl)
    if not impl.startswith("ok") or not m:
        return "operation on a deeply nested value failed: " + impl[:100]
    used = int(m.group(1))
    if op == "destroy" and used > 64 * 1024:
        return "destruction is not stack-safe: %d bytes of stack at nesting depth %s (%s)" % (used, t[3], t[2])
    if op != "destroy" and used > 2 * 1024 * 1024:
        return "%s of a value nested %s deep used %d bytes of stack" % (op, t[3], used)
    if "DIFFERENT" in impl:
        return "a deep copy does not compare equal to the original"
    return None


def nontrivial(line, impl):
    return line if len(line) > 24 else None


def streams(ctx, rng, scale):
    lw = vlib.witness_lines(PROP)
    dl = depth_lines() + encoder_depth_lines() + ubjson_items_lines()
    meta = {l: (acc, what) for l, acc, what in dl}
    orc = limit_oracle_factory(meta)
    bin_lines = [l for l, _, _ in dl if l.startswith("bin ")]
    jt_lines = [l for l, _, _ in dl if l.startswith("jt ")]
    ctx.correspond("limits-binary", "bin", bin_lines, orc, nontrivial, want_model=False)
    ctx.correspond("limits-json", "jtext", jt_lines, orc, nontrivial, want_model=False)
    cl = claim_lines()
    ctx.correspond("claimed-lengths", "lim", cl, alloc_oracle, nontrivial, want_model=False, flags=NOSAN)
    sl = stack_lines(ctx.tier) + [w for w in lw if w.startswith("lim stack")]
    ctx.correspond("stack-depth", "lim", sl, stack_oracle, nontrivial, want_model=False, flags=NOSAN)


def run(ctx):
    ctx.prove(MODULES, leancheck=(ctx.tier == "thorough"))
    ctx.cov["rule"] = ("nesting: every format (JSON, CBOR definite/indefinite, MessagePack, UBJSON plain/counted, BSON) x container shape (arrays, "
                       "objects, alternating) x limit in {0,1,2,3,17,100} x depth in {limit-1, limit, limit+1}, decoders and encoders; UBJSON max_items "
                       "x five container forms x n in {m-1,m,m+1}; claimed lengths 2^20..2^62 on strings/byte strings/arrays/maps/typed arrays/bignums/"
                       "BSON strings+binary followed by 0/5/16/300 bytes, through buffer, iterator and stream sources, with a counting operator new "
                       "(largest request and peak must stay within 64 KiB + 64 x bytes supplied); stack use of destroy at depth 10^3..10^5 (thorough "
                       "10^6) and of copy/compare/dump at the default limit, four nesting shapes. non-trivial = every line; distinct by line")
    rng = vlib.rng_for(ctx.seed, "c10")
    streams(ctx, rng, 1)


def search(ctx):
    return None


def replay(ctx, path):
    print(open(path).read()[:3000])
    return 1
