"""C04 — numbers survive conversion between text and binary exactly (DESIGN.md §5 C04)."""
import hashlib
import re
import struct
import vlib

PROP = "C04"
MODULES = ["JV.Props.C04"]

U64 = 2 ** 64 - 1
I64MAX = 2 ** 63 - 1
I64MIN = -2 ** 63
INT_EDGES = [0, 1, 9, 10, 99, 100, 2 ** 31 - 1, 2 ** 31, 2 ** 32 - 1, 2 ** 32, 2 ** 53, 2 ** 53 + 1, 10 ** 18, 10 ** 19 - 1, 10 ** 19,
             I64MAX - 1, I64MAX, I64MAX + 1, 2 ** 63 + 1, U64 - 1, U64, U64 + 1, U64 * 10, U64 * 10 + 5, 10 ** 20, 10 ** 20 - 1, 10 ** 21, 10 ** 30]
JSON_INT = re.compile(rb"^-?(0|[1-9][0-9]*)$")
JSON_NUM = re.compile(rb"^-?(0|[1-9][0-9]*)(\.[0-9]+)?([eE][+-]?[0-9]+)?$")


def bits_of(f):
    return struct.unpack("<Q", struct.pack("<d", f))[0]


def float_of(bits):
    return struct.unpack("<d", struct.pack("<Q", bits))[0]


def int_texts(rng, n):
    out = []
    for e in INT_EDGES:
        for d in (-2, -1, 0, 1, 2):
            for s in (1, -1):
                out.append(str(s * (e + d)).encode())
    for _ in range(n):
        k = rng.choice([1, 5, 10, 18, 19, 20, 21, 25, 40])
        v = rng.randrange(10 ** (k - 1), 10 ** k) if k > 1 else rng.randrange(10)
        out.append(str(v if rng.random() < 0.6 else -v).encode())
    # not-quite literals
    for t in [b"", b"-", b"00", b"01", b"-0", b"-01", b"+1", b" 1", b"1 ", b"1a", b"a1", b"0x10", b"1.0", b"1e3", b"--1", b"1-",
              b"0000000000000000000001", b"00000000000000000000", b"18446744073709551615a", b"1844674407370955161a", b"9" * 19 + b"x",
              b"-9223372036854775809", b"-9223372036854775808", b"-09223372036854775808", b"\xef\xbc\x91"]:
        out.append(t)
    return out


def gen_int_lines(rng, n):
    ls = []
    for t in int_texts(rng, n):
        x = "x" + t.hex()
        ls.append("num decu " + x)
        ls.append("num deci " + x)
        if JSON_INT.match(t):
            ls.append("num jint %s 1" % x)
            ls.append("num jint %s 0" % x)
    for e in INT_EDGES:
        for d in (-1, 0, 1):
            v = e + d
            if 0 <= v <= U64:
                ls.append("num fromu %d" % v)
            if I64MIN <= v <= I64MAX:
                ls.append("num fromi %d" % v)
            if I64MIN <= -v <= I64MAX:
                ls.append("num fromi %d" % -v)
    for _ in range(n):
        ls.append("num fromu %d" % rng.getrandbits(rng.choice([8, 16, 32, 53, 63, 64])))
        ls.append("num fromi %d" % (rng.getrandbits(rng.choice([8, 31, 62, 63])) * rng.choice([1, -1])))
    return ls


def double_bits(rng, n, tier):
    out = []
    # every power of two (normal and subnormal), +-1 ulp
    for e in range(0, 2047):
        for m in ((0, 1, 2 ** 52 - 1) if tier == "thorough" or e % 7 == 0 or 1010 < e < 1100 else (0,)):
            out.append((e << 52) | m)
    for k in range(0, 52):
        out.append(1 << k)                    # subnormal powers of two
    # powers of ten and neighbours
    for k in range(-323, 309, 1 if tier == "thorough" else 5):
        try:
            f = float("1e%d" % k)
        except OverflowError:
            continue
        b = bits_of(f)
        out += [b, b + 1, max(b - 1, 0)]
    # integers around 2^53, shortest-digit stress
    for v in [0.1, 0.2, 0.3, 1 / 3, 2 / 3, 5e-324, 1.7976931348623157e308, 2.2250738585072014e-308, 2.225073858507201e-308, 9007199254740993.0,
              1e23, 8.41e21, 9.5367431640625e-07, 123456789012345680.0, 4.35, 0.000001, 1e21, 1e-7, 123456.789e3, 5e-324 * 3]:
        out.append(bits_of(v))
    for _ in range(n):
        r = rng.random()
        if r < 0.6:
            b = rng.getrandbits(64) & ~(1 << 63)
        elif r < 0.8:
            b = bits_of(rng.uniform(-1e6, 1e6)) & ~(1 << 63)
        else:
            b = bits_of(float(rng.randrange(10 ** rng.randint(1, 17))) / 10 ** rng.randint(0, 20))
        if ((b >> 52) & 0x7FF) == 0x7FF:
            continue
        out.append(b | (rng.getrandbits(1) << 63))
    return [b for b in out if ((b >> 52) & 0x7FF) != 0x7FF]


# ---- float_chars_format x precision (write_double behind the JSON and CSV encoders) ---------------------------------------------------

FMT_PRINTF = {"g": "g", "f": "f", "s": "e"}
EXPLICIT_PRECISIONS = (1, 2, 3, 6, 9, 15, 16, 17, 18, 25, 40)


def format_doubles(rng, n, tier):
    """bit patterns for the format stream: the boundary set of double_bits (powers of two and ten +-1ulp, subnormal powers, classics)
    plus, per class, n random members: any bit pattern, values that need all 17 significant digits, |v| < 2 (where one ulp is below
    DBL_EPSILON), subnormals, short decimals"""
    out = list(double_bits(rng, 0, tier))
    for _ in range(n):
        out.append(rng.getrandbits(64))                                          # any bit pattern
    k = 0
    while k < n:                                                                 # needs 17 significant digits
        b = rng.getrandbits(64) if rng.random() < 0.5 else bits_of(rng.uniform(-4, 4))
        if ((b >> 52) & 0x7FF) == 0x7FF:
            continue
        if sig_digits(repr(float_of(b)).encode()) == 17:
            out.append(b)
            k += 1
    for _ in range(n):                                                           # |v| < 2
        r = rng.random()
        if r < 0.35:
            b = bits_of(rng.uniform(0, 2))
        elif r < 0.6:
            b = bits_of(1.0) + rng.choice([-3, -2, -1, 1, 2, 3, rng.getrandbits(20), rng.getrandbits(52)])      # around 1, within [0.5, 2)
        elif r < 0.8:
            b = (rng.randint(1023 - 70, 1023) << 52) | rng.getrandbits(52)       # 2^-70 .. 2
        else:
            b = bits_of(rng.randrange(1, 10 ** rng.randint(1, 17)) / 10 ** 17)   # decimal fractions below 1
        out.append(b | (rng.getrandbits(1) << 63))
    for _ in range(n // 2):                                                      # subnormals
        b = rng.getrandbits(rng.choice([1, 2, 8, 30, 51, 52]))
        out.append(max(b, 1) | (rng.getrandbits(1) << 63))
    for _ in range(n // 2):                                                      # short decimals of any magnitude
        out.append(bits_of(float("%de%d" % (rng.randrange(1, 10 ** rng.randint(1, 6)), rng.randint(-30, 30)))) | (rng.getrandbits(1) << 63))
    return [b for b in out if ((b >> 52) & 0x7FF) != 0x7FF]


def gen_format_lines(rng, n, tier):
    """every float_chars_format at precision 0 for every double of the set; one explicit precision per (double, format) on a share of it"""
    ls = []
    for b in format_doubles(rng, n, tier):
        for f in "gfs":
            ls.append("num fmt %s 0 %016x" % (f, b))
        if rng.random() < 0.25:
            for f in "gfs":
                ls.append("num fmt %s %d %016x" % (f, rng.choice(EXPLICIT_PRECISIONS), b))
    return ls


def judge_format_text(f, p, bits, text):
    """what one printed text owes to the double it was printed from (the JSON and the CSV encoder are judged alike)"""
    from fractions import Fraction
    if not JSON_NUM.match(text):
        return "a finite double printed as something that is not a JSON number: %r" % text
    v = float_of(bits)
    if p == 0:
        # precision 0 is "as many digits as it takes to read back the same double" (dtoa_general / dtoa_fixed / dtoa_scientific:
        # shortest digits from grisu3, else a 16-digit printf that is parsed back and replaced by a 17-digit one if it differs)
        back = float(text)
        if bits_of(back) == bits or (v == 0 and back == 0):
            return None
        if f == "f" and text.lstrip(b"-") == ("%.17f" % abs(v)).encode():
            # by design: when grisu3 gives up (about 0.5% of doubles) dtoa_fixed falls back to "%.17f", 17 digits after the decimal
            # point, which is exact only for larger magnitudes. Demanded here is what that fallback delivers: the correctly rounded
            # 17-decimal rendering, digit for digit.
            return None
        return "float_format %s, precision 0: the printed decimal %r does not parse back (correctly rounded) to the same double %r" % (f, text, v)
    # an explicit precision asks for p digits (significant for general/scientific, after the point for fixed); digits beyond that are
    # allowed to be lost, nothing else: the text must denote the same number as the correctly rounded rendering with p digits
    want = ("%%.%d%s" % (p, FMT_PRINTF[f])) % v
    if Fraction(text.decode()) != Fraction(want):
        return "float_format %s, precision %d: %r is not the correctly rounded rendering %r of %r" % (f, p, text, want, v)
    return None


def format_oracle(line, impl, model, ref=None):
    t = line.split()
    f, p, bits = t[2], int(t[3]), int(t[4], 16)
    parts = impl.split()
    if parts[0] != "ok" or len(parts) != 3:
        return "a finite double could not be written: " + impl
    for who, x in (("JSON encoder", parts[1]), ("CSV encoder", parts[2])):
        why = judge_format_text(f, p, bits, bytes.fromhex(x[1:]))
        if why:
            return who + ": " + why
    return None


def decimal_texts(rng, n):
    out = [b"0.1", b"1e0", b"1E+2", b"1e-2", b"0.0", b"-0.0", b"1.0e308", b"1.7976931348623157e308", b"1.7976931348623158e308",
           b"4.9e-324", b"2.4703282292062328e-324", b"2.4703282292062327e-324", b"9007199254740993.0", b"9007199254740992.5", b"0.30000000000000004",
           b"123456789012345678901234567890.0", b"0." + b"0" * 400 + b"1", b"1" + b"0" * 400 + b".0", b"1e400", b"1e-400", b"8.98846567431158e307",
           b"1.00000000000000011102230246251565404236316680908203125", b"1.00000000000000011102230246251565404236316680908203124",
           b"1.00000000000000011102230246251565404236316680908203126", b"0.500000000000000166533453693773481063544750213623046875",
           b"179769313486231580793728971405303415079934132710037826936173778980444968292764750946649017977587207096330286416692887910946555547851940402630657488671505820681908902000708383676273854845817711531764475730270069855571366959622842914819860834936475292719074168444365510704342711559699508093042880177904174497791.9999999999999999999999999999999999999999999999999999999999999999999999"]
    for _ in range(n):
        ip = str(rng.randrange(10 ** rng.randint(1, 25)))
        fp = "".join(rng.choice("0123456789") for _ in range(rng.randint(0, 30)))
        ex = ""
        if rng.random() < 0.5:
            ex = rng.choice("eE") + rng.choice(["", "+", "-"]) + str(rng.randint(0, 330))
        s = ("-" if rng.random() < 0.3 else "") + ip + ("." + fp if fp else "") + ex
        if "." in s or ex:
            out.append(s.encode())
    return out


LIMB_EDGES = [0, 1, 2, 2 ** 32 - 1, 2 ** 32, 2 ** 63, 2 ** 64 - 2, 2 ** 64 - 1]


def gen_big(rng):
    n = rng.randint(0, 6)
    v = 0
    for i in range(n):
        limb = rng.choice(LIMB_EDGES) if rng.random() < 0.7 else rng.getrandbits(64)
        v |= limb << (64 * i)
    if rng.random() < 0.25 and v:
        v = 1 << rng.randrange(1, 64 * max(n, 1) + 1)
    if rng.random() < 0.2:
        v += rng.choice([-1, 1])
    return abs(v) * rng.choice([1, 1, -1])


def gen_big_lines(rng, n):
    ls = []
    for _ in range(n):
        a, b = gen_big(rng), gen_big(rng)
        if rng.random() < 0.3:
            b = a + rng.choice([-1, 0, 1, 2 ** 64, -2 ** 64])
        for op in ("add", "sub", "cmp", "mul", "addeq", "subeq"):
            ls.append("big %s %d %d" % (op, a, b))
        if b != 0:
            ls.append("big div %d %d" % (a, b))
            ls.append("big mod %d %d" % (a, b))
        k = rng.choice([0, 1, 31, 32, 63, 64, 65, 127, 128, 200])
        ls.append("big shl %d %d" % (a, k))
        ls.append("big shr %d %d" % (a, k))
        ls.append("big tostr %d" % a)
        ls.append("big hex %d" % abs(a))
        ls.append("big bytes %d" % a)
        ls.append("big neg %d" % a)
    return ls


def trunc_div(a, b):
    q = abs(a) // abs(b)
    return q if (a < 0) == (b < 0) else -q


def sig_digits(text):
    m = re.match(rb"^-?([0-9]+)(?:\.([0-9]+))?(?:[eE][+-]?[0-9]+)?$", text)
    if not m:
        return None
    digs = (m.group(1) + (m.group(2) or b"")).lstrip(b"0")
    digs = digs.rstrip(b"0") if digs else digs
    return len(digs)


def oracle(line, impl, model, ref=None):
    t = line.split()
    if t[0] == "num":
        op = t[1]
        if op in ("decu", "deci"):
            s = bytes.fromhex(t[2][1:])
            if JSON_INT.match(s) or (re.match(rb"^-?[0-9]+$", s) and len(s.lstrip(b"-")) <= 19):
                try:
                    v = int(s)
                except ValueError:
                    return None
                lo, hi = (0, U64) if op == "decu" else (I64MIN, I64MAX)
                if op == "decu" and s.startswith(b"-"):
                    return None if impl.startswith("err") else "a negative literal parsed as unsigned: " + impl
                if lo <= v <= hi:
                    return None if impl == "ok %d" % v else "an in-range integer literal did not parse to exactly that integer: " + impl
                if JSON_INT.match(s):
                    return None if impl.startswith("err") else "an out-of-range literal was accepted (wrapped or truncated): " + impl
                return None
            if not re.match(rb"^-?[0-9]+$", s):
                return None if impl.startswith("err") else "a non-numeric string parsed as an integer: " + impl
            return None
        if op in ("fromi", "fromu"):
            want = "ok x" + t[2].encode().hex()
            return None if impl == want else "a stored integer did not print as its exact decimal digits"
        if op == "jint":
            s = bytes.fromhex(t[2][1:])
            v = int(s)
            if s.startswith(b"-") and v >= I64MIN:
                return None if impl == "i64 %d" % v else "in-range negative literal: " + impl
            if not s.startswith(b"-") and v <= U64:
                return None if impl in ("u64 %d" % v, "i64 %d" % v) else "in-range literal: " + impl
            if t[3] == "1":
                return None if impl == "big x" + s.hex() else "an out-of-range literal was not kept digit for digit: " + impl
            want = "dbl %016x" % bits_of(float(v))
            return None if impl == want else "out-of-range literal with lossless_bignum off is not the nearest double: %s (want %s)" % (impl, want)
        if op == "dtoa":
            bits = int(t[2], 16)
            parts = impl.split()
            text = bytes.fromhex(parts[1][1:])
            if not JSON_NUM.match(text):
                return "a finite double printed as something that is not a JSON number: %r" % text
            if bits_of(float(text)) != bits and not (bits & ~(1 << 63) == 0 and float(text) == 0):
                return "the printed decimal %r does not parse back (correctly rounded) to the same double" % text
            nd = sig_digits(text)
            if nd is not None and nd > 17:
                return "printed with %d significant digits (> 17): %r" % (nd, text)
            if parts[2] == "dbl" and int(parts[3], 16) != bits and bits & ~(1 << 63) != 0:
                return "the library's own parse of its output gives a different double"
            if parts[2] != "dbl":
                if float_of(bits) == int(float_of(bits)) and parts[2] == "other":
                    return None
                return "the printed double re-parses as a non-double: " + impl
            return None
        if op == "atod":
            s = bytes.fromhex(t[2][1:])
            try:
                f = float(s)
            except (ValueError, OverflowError):
                return None
            if f in (float("inf"), float("-inf")):
                return None
            want = "dbl %016x" % bits_of(f)
            if impl == "bigdec x" + s.hex() and (f == 0 or abs(f) < 2.2250738585072014e-308):
                return None       # underflow range: kept digit for digit as a big decimal (lossless_bignum default)
            return None if impl == want else "decimal literal is not parsed to the correctly rounded nearest double: %s (want %s)" % (impl, want)
        return None
    if t[0] == "big":
        op = t[1]
        a = int(t[2])
        b = int(t[3]) if len(t) > 3 else None
        want = None
        if op in ("add", "addeq"):
            want = "ok %d" % (a + b)
        elif op in ("sub", "subeq"):
            want = "ok %d" % (a - b)
        elif op == "mul":
            want = "ok %d" % (a * b)
        elif op == "div":
            want = "ok %d" % trunc_div(a, b)
        elif op == "mod":
            want = "ok %d" % (a - b * trunc_div(a, b))
        elif op == "cmp":
            c = (a > b) - (a < b)
            want = "ok %d %s %s" % (c, "eq" if c == 0 else "ne", "lt" if c < 0 else "ge")
        elif op == "shl":
            want = "ok %d" % (a << b if a >= 0 else -((-a) << b))
        elif op == "shr":
            want = "ok %d" % (a >> b if a >= 0 else -((-a) >> b))
        elif op == "tostr":
            want = "ok %d" % a
        elif op == "neg":
            want = "ok %d" % (-a)
        elif op == "hex":
            want = "ok %X" % a
            if impl.upper().lstrip("OK ").lstrip("0") == ("%X" % a).lstrip("0"):
                return None
        elif op == "bytes":
            mag = abs(a).to_bytes(max((abs(a).bit_length() + 7) // 8, 1), "big").hex()
            want = "ok %d %s %d" % ((a > 0) - (a < 0), mag, a)
        if want is not None and impl != want:
            return "bigint %s disagrees with integer arithmetic: got %s, want %s" % (op, impl[:80], want[:80])
    return None



# ---- limb-exact bigint streams ("bigl ..."): the Lean limb loops vs the real ones, word for word -------------
B64 = 2 ** 64
LIMB_VALUES = [0, 1, 2 ** 32 - 1, 2 ** 32, 2 ** 32 + 1, 2 ** 64 - 1, 2 ** 64, 2 ** 64 + 1, 2 ** 128 - 1, 2 ** 128, 2 ** 128 + 1,
               2 ** 192 - 1, (2 ** 64 - 1) << 64, 1 << 128 | 1, ((2 ** 64 - 1) << 128) | (2 ** 64 - 1), 10 ** 19, 10 ** 19 - 1, 10 ** 38, 255, 256, 65535]
WORD_VALUES = [0, 1, 2, 10, 255, 256, 2 ** 31, 2 ** 32 - 1, 2 ** 32, 2 ** 32 + 1, 2 ** 63, 2 ** 64 - 2, 2 ** 64 - 1, 10 ** 19]


def limbs_str(v):
    s = "n" if v < 0 else "p"
    v = abs(v)
    ws = []
    while v:
        ws.append("%x" % (v % B64))
        v //= B64
    return s + ",".join(ws)


def limbs_val(t):
    v = 0
    if len(t) > 1:
        for i, w in enumerate(t[1:].split(",")):
            v += int(w, 16) << (64 * i)
    return -v if t[0] == "n" else v


def limbs_normal(t):
    return len(t) == 1 or int(t[1:].split(",")[-1], 16) != 0


def gen_limb_int(rng):
    r = rng.random()
    if r < 0.3:
        v = rng.choice(LIMB_VALUES)
    else:
        v = abs(gen_big(rng))
    return v * rng.choice([1, 1, -1])


def gen_bigl_lines(rng, n):
    ls = []
    vals = [s * v for v in LIMB_VALUES for s in (1, -1)]
    for a in vals:
        for w in WORD_VALUES:
            ls.append("bigl mulw %s %x" % (limbs_str(a), w))
            if w:
                ls.append("bigl divw %s %x" % (limbs_str(a), w))
        for k in (0, 1, 31, 32, 33, 63, 64, 65, 127, 128, 129, 191, 192, 256):
            ls.append("bigl shl %s %d" % (limbs_str(a), k))
            ls.append("bigl shr %s %d" % (limbs_str(a), k))
        ls.append("bigl tobytes " + limbs_str(a))
        ls.append("bigl tostr " + limbs_str(a))
        ls.append("bigl parse x" + str(a).encode().hex())
        ls.append("bigl frombytes %d x%s" % ((a > 0) - (a < 0), abs(a).to_bytes(max((abs(a).bit_length() + 7) // 8, 1), "big").hex()))
    for a in vals[::2]:
        for b in vals[1::3]:
            for op in ("mul", "add", "sub"):
                ls.append("bigl %s %s %s" % (op, limbs_str(a), limbs_str(b)))
    for _ in range(n):
        a, b = gen_limb_int(rng), gen_limb_int(rng)
        for op in ("mul", "add", "sub"):
            ls.append("bigl %s %s %s" % (op, limbs_str(a), limbs_str(b)))
        w = rng.choice(WORD_VALUES) if rng.random() < 0.5 else rng.getrandbits(rng.choice([8, 16, 32, 33, 64]))
        ls.append("bigl mulw %s %x" % (limbs_str(a), w))
        if w:
            ls.append("bigl divw %s %x" % (limbs_str(a), w))
        k = rng.choice([0, 1, 7, 31, 32, 33, 63, 64, 65, 127, 128, 200, rng.randrange(0, 400)])
        ls.append("bigl shl %s %d" % (limbs_str(a), k))
        ls.append("bigl shr %s %d" % (limbs_str(a), k))
        ls.append("bigl tobytes " + limbs_str(a))
        ls.append("bigl tostr " + limbs_str(a))
        text = str(a)
        if rng.random() < 0.3:
            text = ("-" if a < 0 else "") + "0" * rng.randint(1, 25) + str(abs(a))
        ls.append("bigl parse x" + text.encode().hex())
        nb = rng.randint(0, 40)
        raw = bytes(rng.choice([0, 0, 1, 255, rng.getrandbits(8)]) for _ in range(nb))
        ls.append("bigl frombytes %d x%s" % (rng.choice([-1, 0, 1]), raw.hex()))
    for t in [b"", b"-", b"0", b"-0", b"00", b"-000", b"+1", b"1a", b"a", b" 1", b"1 ", b"--1", b"1-", b"0x10", b"12345678901234567890123456789x",
              b"000000000000000000000000000000", b"-000000000000000000000000000001"]:
        ls.append("bigl parse x" + t.hex())
    return ls


def oracle_bigl(line, impl, model, ref=None):
    """the real limb output, read as an integer, against exact Python arithmetic"""
    t = line.split()
    op = t[1]
    p = impl.split()
    if op == "parse":
        s = bytes.fromhex(t[2][1:])
        if re.match(rb"^-?[0-9]+$", s):
            if p[0] != "ok":
                return "a decimal literal was rejected by the bigint constructor: " + impl
            if limbs_val(p[1]) != int(s):
                return "bigint(text) is not the value of its decimal digits: got %d" % limbs_val(p[1])
            return None
        return None if impl == "err" else "a non-decimal string was accepted by the bigint constructor: " + impl
    if op == "frombytes":
        sg = int(t[2])
        raw = bytes.fromhex(t[3][1:])
        want = int.from_bytes(raw, "big") * (-1 if sg < 0 else 1)
        return None if p[0] == "ok" and limbs_val(p[1]) == want else "from_bytes_be is not the big-endian value of its bytes: " + impl[:80]
    a = limbs_val(t[2])
    if op == "tobytes":
        want = "ok %d x%s" % ((a > 0) - (a < 0), abs(a).to_bytes(max((abs(a).bit_length() + 7) // 8, 1), "big").hex())
        return None if impl == want else "write_bytes_be is not the big-endian magnitude: got %s want %s" % (impl[:80], want[:80])
    if op == "tostr":
        want = "ok x" + str(a).encode().hex()
        return None if impl == want else "write_string is not the decimal expansion: " + impl[:80]
    if op == "divw":
        d = int(t[3], 16)
        if p[0] != "ok":
            return "divide failed: " + impl
        q, r = limbs_val(p[1]), limbs_val(p[2])
        wq = trunc_div(a, d)
        return None if (q, r) == (wq, a - d * wq) else "divide by a word: got q=%d r=%d, want q=%d r=%d" % (q, r, wq, a - d * wq)
    if op == "mulw":
        want = a * int(t[3], 16)
    elif op in ("shl", "shr"):
        k = int(t[3])
        want = (abs(a) << k if op == "shl" else abs(a) >> k) * (-1 if a < 0 else 1)
    else:
        b = limbs_val(t[3])
        want = a * b if op == "mul" else (a + b if op == "add" else a - b)
    if p[0] != "ok" or limbs_val(p[1]) != want:
        return "bigint %s disagrees with integer arithmetic: got %s, want %s" % (op, impl[:80], limbs_str(want)[:80])
    if not limbs_normal(p[1]):
        return "bigint %s left a zero word at the high end: %s" % (op, impl[:80])
    return None


def nontrivial_bigl(line, impl):
    t = line.split()
    return line if len(line) > 30 or t[1] in ("shl", "shr") else None


def compare(line, io, mo):
    if mo == "" or mo is None:
        return True
    if mo == "dbl":
        return io.startswith("dbl")
    if mo.startswith("u64 ") and io.startswith("i64 "):
        return io[4:] == mo[4:]
    return io == mo


def nontrivial(line, impl):
    t = line.split()
    if t[0] == "num" and t[1] in ("decu", "deci", "jint", "atod"):
        return line if len(t[2]) > 10 else None
    if t[0] == "num" and t[1] in ("dtoa", "fmt"):
        return line
    if t[0] == "big":
        return line if len(line) > 40 else None
    return line if len(line) > 16 else None


def streams(ctx, rng, scale):
    lw = vlib.witness_lines(PROP)
    ctx.correspond("finding-witnesses", "num", lw, oracle, nontrivial, compare=compare)
    li = gen_int_lines(rng, 300 * scale)
    ctx.correspond("integers", "num", li, oracle, nontrivial, compare=compare)
    ld = ["num dtoa %016x" % b for b in double_bits(rng, 3000 * scale, ctx.tier)]
    ctx.correspond("double-print", "num", ld, oracle, nontrivial, compare=compare)
    la = ["num atod x" + s.hex() for s in decimal_texts(rng, 1500 * scale)]
    ctx.correspond("decimal-parse", "num", la, oracle, nontrivial, compare=compare)
    lb = gen_big_lines(rng, 250 * scale)
    ctx.correspond("bigint", "num", lb, oracle, nontrivial, compare=compare)
    lf = gen_format_lines(rng, 600 * scale, ctx.tier)
    ctx.correspond("double-formats", "num", lf, format_oracle, nontrivial, want_model=False)
    ll = gen_bigl_lines(rng, 150 * scale)
    ctx.correspond("bigint-limbs", "num", ll, oracle_bigl, nontrivial_bigl, compare=compare)


def run(ctx):
    ctx.prove(MODULES, leancheck=(ctx.tier == "thorough"))
    ctx.cov["rule"] = ("integer literals around every 32/53/63/64-bit and 19/20/21-digit boundary (+-2), random 1-40 digit literals, near-literals; "
                       "doubles: every power of two (all 2046 exponents) and subnormal powers, powers of ten +-1ulp, random bit patterns, short decimals; "
                       "decimal literals with up to 400 digits incl. round-to-even midpoints; big integers built from limb edge values "
                       "{0,1,2^32-1,2^32,2^63,2^64-2,2^64-1} with borrow/carry chains; every float_chars_format (general, fixed, scientific) at precision 0 "
                       "and at explicit precisions 1..40 through the JSON and the CSV encoder, for the boundary doubles plus random bit patterns, 17-digit values, "
                       "|v| < 2, subnormals and short decimals (precision 0 must read back exactly; an explicit precision must equal the correctly rounded "
                       "rendering with that many digits). Oracle: Python exact integers and correctly rounded float() / % formatting. "
                       "non-trivial by length of the operand; distinct by op line. "
                       "bigint-limbs: the modelled limb loops (*= word, *= bigint, +=, -=, <<=, >>=, string constructor, from_bytes_be, write_bytes_be, "
                       "divide by one word, write_string) against the real member functions word for word, operands built from "
                       "{0,1,2^32-1,2^32,2^32+1,2^64-1,2^64,2^64+1,2^128-1,2^128,2^192-1,all-ones words,zero words in the middle,10^19,10^38} "
                       "x words {0,1,2,10,255,256,2^31,2^32-1,2^32,2^32+1,2^63,2^64-2,2^64-1,10^19} x shifts {0,1,31..33,63..65,127..129,191,192,256}")
    ctx.assumptions.append("Python's float()/repr are correctly rounded (IEEE-754 binary64) and Python int arithmetic is exact: used as the arithmetic oracle")
    rng = vlib.rng_for(ctx.seed, "c04")
    streams(ctx, rng, 1 if ctx.tier == "quick" else 12)


def search(ctx):
    for extra in range(1, 4):
        rng = vlib.rng_for(ctx.seed * 1000 + extra, "c04-search")
        before = len(ctx.fail_inputs)
        streams(ctx, rng, 3)
        if len(ctx.fail_inputs) > before:
            return ctx.fail_inputs[before]
    return None


def replay(ctx, path):
    lines = [l[4:].rstrip("\n") for l in open(path) if l.startswith("op: ")]
    if not lines:
        print(open(path).read())
        return 1
    ctx.correspond("replay", "num", lines, oracle, nontrivial, compare=compare)
    for (stream, line, io, mo, why) in ctx.fail_inputs:
        print("op: %s\nimpl: %s\nmodel: %s\nwhy: %s" % (line, io, mo, why))
    for b in ctx.broken:
        print(b)
    return 1 if ctx.fail_inputs or ctx.broken else 0
