"""C16 — JSON Merge Patch follows RFC 7386 (DESIGN.md §5 C16)."""
import hashlib
import wire
import values
from wire import Obj

PROP = "C16"
MODULES = ["JV.Props.C16"]

J = lambda s: None  # placeholder


def _o(*ms):
    return Obj([(k.encode(), v) for k, v in ms])


RFC_EXAMPLES = [
    (_o(("a", b"b")), _o(("a", b"c")), _o(("a", b"c"))),
    (_o(("a", b"b")), _o(("b", b"c")), _o(("a", b"b"), ("b", b"c"))),
    (_o(("a", b"b")), _o(("a", None)), _o()),
    (_o(("a", b"b"), ("b", b"c")), _o(("a", None)), _o(("b", b"c"))),
    (_o(("a", [b"b"])), _o(("a", b"c")), _o(("a", b"c"))),
    (_o(("a", b"c")), _o(("a", [b"b"])), _o(("a", [b"b"]))),
    (_o(("a", _o(("b", b"c")))), _o(("a", _o(("b", b"d"), ("c", None)))), _o(("a", _o(("b", b"d"))))),
    (_o(("a", [_o(("b", b"c"))])), _o(("a", [1])), _o(("a", [1]))),
    ([b"a", b"b"], [b"c", b"d"], [b"c", b"d"]),
    (_o(("a", b"b")), [b"c"], [b"c"]),
    (_o(("a", b"foo")), None, None),
    (_o(("a", b"foo")), b"bar", b"bar"),
    (_o(("e", None)), _o(("a", 1)), _o(("e", None), ("a", 1))),
    ([1, 2], _o(("a", b"b"), ("c", None)), _o(("a", b"b"))),
    (_o(), _o(("a", _o(("bb", _o(("ccc", None)))))), _o(("a", _o(("bb", _o()))))),
]


def gen_pairs(rng, n, small):
    keys = values.KEYS_SMALL if small else values.KEYS_MED
    out = []
    for _ in range(n):
        t = values.value(rng, rng.randint(0, 4), keys, small)
        r = rng.random()
        if r < 0.7:
            p = values.mutate(rng, t, 4, keys, small)
        else:
            p = values.value(rng, rng.randint(0, 4), keys, small)
        out.append((t, p))
    return out


def lines_for(pairs, op):
    ls = []
    for kind in ("j", "o"):
        for t, p in pairs:
            if kind == "j":
                t, p = wire.sort_keys(t), wire.sort_keys(p)
            ls.append("mp %s %s %s %s" % (op, kind, wire.render(t), wire.render(p)))
    return ls


def parse_line(line):
    toks = line.split()
    a, pos = wire.parse(toks, 3)
    b, pos = wire.parse(toks, pos)
    return toks[1], toks[2], a, b


def parse_out(s):
    if not s.startswith("ok "):
        return KeyError
    return wire.parse_all(s[3:])[0]


def spec_lines(lines):
    return ["mp spec" + l[len("mp apply"):] if l.startswith("mp apply") else l for l in lines]


def oracle(line, impl, model, ref=None):
    """property judged on the real output: RFC 7386 result (= Lean Spec, proved equal to the Model's
    result as a JSON value) / the diff law evaluated directly"""
    op, kind, a, b = parse_line(line)
    got = parse_out(impl)
    if got is KeyError:
        return "apply/from_diff did not return a value: " + impl
    if op == "apply":
        want = parse_out(ref if ref is not None else model)
        if wire.canon(got) != wire.canon(want):
            return "result differs from RFC 7386 MergePatch(target, patch) as a JSON value"
    elif op == "difflaw":
        if not wire.has_null_member(b) and wire.canon(got) != wire.canon(b):
            return "apply_merge_patch(source, from_diff(source, target)) != target for a target without null members"
    return None


def nontrivial(line, impl):
    op, kind, a, b = parse_line(line)
    if isinstance(a, Obj) and isinstance(b, Obj) and set(a.keys()) & set(b.keys()) and any(
            isinstance(v, Obj) for _, v in b.members):
        return hashlib.md5(line.encode()).hexdigest()
    return None


def corpus_lines():
    ls = []
    for t, p, _ in RFC_EXAMPLES:
        ls += lines_for([(t, p)], "apply")
    return ls


def check_rfc_examples(ctx):
    """the RFC's own table, as a test *of the Spec/Model* (labelled as a test)"""
    import vlib
    lines = ["mp apply j %s %s" % (wire.render(wire.sort_keys(t)), wire.render(wire.sort_keys(p))) for t, p, _ in RFC_EXAMPLES]
    outs = vlib.run_model(lines)
    for (t, p, want), o in zip(RFC_EXAMPLES, outs):
        if wire.canon(parse_out(o)) != wire.canon(want):
            ctx.broken.append(("spec-selftest", "RFC 7386 appendix A", "%s -> %s" % (lines[0], o)))


def run(ctx):
    ctx.prove(MODULES, leancheck=(ctx.tier == "thorough"))
    ctx.cov["rule"] = ("(target, patch) pairs: RFC 7386 appendix A; random pairs whose patch is a mutation of the target "
                       "(shared member names at every depth, nulls injected) over a boundary alphabet; thorough adds every pair over a "
                       "3-key alphabet up to depth 2. non-trivial = both objects, sharing a member name, patch has a nested object; "
                       "distinct by op line")
    rng = vlib_rng(ctx, "c16")
    try:
        check_rfc_examples(ctx)
    except Exception as e:  # driver missing
        ctx.broken.append(("driver", "jvdriver", str(e)))
    ctx.correspond("rfc-examples", "mp", corpus_lines(), oracle, nontrivial, ref_lines=spec_lines(corpus_lines()))
    n = 1500 if ctx.tier == "quick" else 40000
    pairs = gen_pairs(rng, n, small=True) + gen_pairs(rng, n, small=False)
    la = lines_for(pairs, "apply")
    ctx.correspond("apply-random", "mp", la, oracle, nontrivial, ref_lines=spec_lines(la))
    ctx.correspond("diff-random", "mp", lines_for(pairs, "diff"), oracle, nontrivial)
    ctx.correspond("difflaw-random", "mp", lines_for(pairs, "difflaw"), oracle, nontrivial)
    if ctx.tier == "thorough":
        vals = values.all_values(1, [b"a", b"b"], [None, 1, b"x"], 2)
        vals2 = [v for v in values.all_values(2, [b"a", b"b"], [None, 1], 2)]
        import itertools
        ex = list(itertools.product(vals, vals))
        rng.shuffle(vals2)
        ex += list(itertools.product(vals2[:400], vals2[:400]))
        le = lines_for(ex, "apply")
        ctx.correspond("apply-exhaustive-small", "mp", le, oracle, nontrivial, ref_lines=spec_lines(le))
        ctx.correspond("difflaw-exhaustive-small", "mp", lines_for(ex, "difflaw"), oracle, nontrivial)
        ctx.cov["exhaustive_note"] = "all pairs of values of depth <= 1 over keys {a,b}, leaves {null,1,'x'}, width <= 2: %d pairs" % (len(vals) ** 2)


def vlib_rng(ctx, tag):
    import vlib
    return vlib.rng_for(ctx.seed, tag)


def search(ctx):
    """something broke and the run's own streams found no failing input: look harder on the real code"""
    import vlib
    for extra in range(1, 6):
        rng = vlib.rng_for(ctx.seed * 1000 + extra, "c16-search")
        pairs = gen_pairs(rng, 6000, small=True) + gen_pairs(rng, 3000, small=False)
        before = len(ctx.fail_inputs)
        ctx.correspond("search-%d" % extra, "mp", lines_for(pairs, "apply") + lines_for(pairs, "difflaw"), oracle, nontrivial)
        if len(ctx.fail_inputs) > before:
            return ctx.fail_inputs[before]
    return None


def replay(ctx, path):
    import vlib
    lines = [l[4:].rstrip("\n") for l in open(path) if l.startswith("op: ")]
    if not lines:
        print(open(path).read())
        print("replay file names a broken obligation, no input to replay")
        return 1
    ctx.correspond("replay", "mp", lines, oracle, nontrivial)
    for (stream, line, io, mo, why) in ctx.fail_inputs:
        print("op: %s\nimpl: %s\nmodel: %s\nwhy: %s" % (line, io, mo, why))
    return 1 if ctx.fail_inputs or ctx.broken else 0
