"""C02 — the JSON parser accepts exactly RFC 8259 and yields the specified value (DESIGN.md §5 C02)."""
import hashlib
import vlib
import wire
import jsontext as jt
from wire import Obj

PROP = "C02"
MODULES = ["JV.Props.C02", "JV.Props.C02X"]
HARNESS = "jtext"


def opt_str(c, t, d=None, n=0, b=1):
    return "c%dt%d%sn%db%d" % (c, t, ("d%d" % d) if d is not None else "", n, b)


def parse_line(kind, opts, text):
    return "jt parse %s %s x%s" % (kind, opts, text.hex())


def ref_line(line):
    t = line.split()
    if t[1] in ("parse", "deliver"):
        return "jt sparse %s %s" % (t[3], t[4])
    return ""


def opts_of(s):
    import re
    d = dict((k, int(v)) for k, v in re.findall(r"([a-z])(\d+)", s))
    return d


def judge_outcome(kind, opts, text, got, ref):
    """got: 'ok <value>' | 'err <code>' from the real parser; ref: 'ok <tree>' | 'err' from the Lean Spec"""
    if jt.has_surrogate_escape(text):
        return None
    o = opts_of(opts)
    if ref == "err":
        if got.startswith("ok"):
            return "the parser accepted a text that is not RFC 8259 JSON under these options: " + got[:80]
        return None
    if not got.startswith("ok "):
        return "the parser rejected a text that RFC 8259 accepts (within the nesting limit): " + got
    try:
        want = jt.expected_value(jt.parse_spec_tokens(ref[3:]), kind, bool(o.get("n", 0)), bool(o.get("b", 1)))
    except jt.Unjudged:
        return None
    have = jt.strip_noesc(wire.parse_all(got[3:])[0])
    if have != want:
        return "the parsed value differs from the one RFC 8259 assigns (structure, names, strings, numbers, first duplicate wins)"
    return None


def oracle(line, impl, model, ref=None):
    t = line.split()
    if t[1] != "parse" or ref is None:
        return None
    return judge_outcome(t[2], t[3], bytes.fromhex(t[4][1:]), impl, ref)


import re
TRAILING_COMMENT = re.compile(rb"(/\*([^*]|\*(?!/))*\*/|//[^\n\r]*)[ \t\r\n]*$")


@vlib.known_matcher("D22")
def _match_d22(stream, line, impl, model):
    """comments enabled, the text ends with a comment after the root value, and the parser says extra_character"""
    t = line.split()
    if t[0] != "jt" or t[1] not in ("parse", "deliver"):
        return False
    if "c1" not in t[3]:
        return False
    text = bytes.fromhex(t[4][1:])
    out = impl.split(" ##")[0]
    return bool(TRAILING_COMMENT.search(text)) and out.endswith("err 4")



# ---- the parser state-machine model (JV.Model.JsonParser) against the real parser, state by state -------------------------------------
DBL = re.compile(r" D[0-9a-f]{16}")
BIGDEC = re.compile(r" S[0-9a-f]+@bigdec")


def pevents_line(opts, text, cuts):
    return "jt pevents %s x%s %s" % (opts, text.hex(), ",".join(str(c) for c in cuts) if cuts else "-")


def pevents_from(lines, rng, all_splits_upto=0):
    """the same texts and options as the given parse/deliver lines, handed to the push parser in pieces: whole, byte by byte, random pieces
    (and, for short texts, every single split point)"""
    out = []
    for l in lines:
        t = l.split()
        if t[1] not in ("parse", "deliver"):
            continue
        opts, text = t[3], bytes.fromhex(t[4][1:])
        n = len(text)
        if "d" not in opts:
            opts += "d1024"
        r = rng.random()
        if n <= all_splits_upto:
            out.append(pevents_line(opts, text, []))
            for i in range(1, n):
                out.append(pevents_line(opts, text, [i]))
            out.append(pevents_line(opts, text, list(range(1, n))))
        elif r < 0.3 or n < 2:
            out.append(pevents_line(opts, text, []))
        elif r < 0.65 and n <= 400:
            out.append(pevents_line(opts, text, list(range(1, n))))
        else:
            k = rng.randint(1, min(8, n - 1))
            out.append(pevents_line(opts, text, sorted(rng.sample(range(1, n), k))))
    return out


def compare_pevents(line, impl, model):
    """tie: outcome, event sequence and the suspended state after every piece; a double's bits are not part of the parser model"""
    impl = DBL.sub(" D?", impl)
    if "n0" in line.split()[2]:
        # lossless_number off: a literal with fraction/exponent is a double, or - out of double range with lossless_bignum - its text;
        # which of the two is number classification (C04), not the state machine
        impl = BIGDEC.sub(" D?", impl)
    return impl == model


def pevents_oracle(line, impl, model, ref=None):
    return None


def pevents_nontrivial(line, impl):
    t = line.split()
    return (t[3], t[4]) if len(t[3]) > 8 else None

def nontrivial(line, impl):
    t = line.split()
    return t[4] if impl.startswith("ok") and len(t[4]) > 8 else None


def gen_rendered(rng, n):
    ls = []
    for _ in range(n):
        c, tr = rng.random() < 0.5, rng.random() < 0.4
        v = jt.gen_value(rng, rng.randint(0, 4))
        text = jt.ws(rng, c) + jt.render(rng, v, comments=c, trailing=tr, dup=rng.random() < 0.3) + jt.ws(rng, c)
        r = rng.random()
        if r < 0.35:
            text = jt.mutate_text(rng, text)
        elif r < 0.45:
            text = jt.mutate_text(rng, jt.mutate_text(rng, text))
        kind = "j" if rng.random() < 0.6 else "o"
        # the options actually used may differ from the ones the text was rendered for: that is the point
        oc = int(c) if rng.random() < 0.7 else 1 - int(c)
        ot = int(tr) if rng.random() < 0.7 else 1 - int(tr)
        ls.append(parse_line(kind, opt_str(oc, ot, None, int(rng.random() < 0.2), int(rng.random() < 0.8)), text))
    return ls


def gen_wide(rng, n):
    """wide objects/arrays (sort/dedup paths of the decoder differ by size) with duplicate names at chosen positions"""
    ls = []
    for _ in range(n):
        width = rng.choice([2, 5, 15, 16, 17, 18, 31, 32, 33, 40, 70])
        keys = [("k%d" % rng.randrange(width * 2)).encode() for _ in range(width)]
        ndup = rng.randint(1, 4)
        for _ in range(ndup):
            i, j = rng.randrange(width), rng.randrange(width)
            keys[j] = keys[i]
        if rng.random() < 0.3:
            keys[1] = keys[0]
        ms = [(k, i) for i, k in enumerate(keys)]
        text = b"{" + b",".join(jt.render_string(rng, k, fancy=False) + b":" + str(v).encode() for k, v in ms) + b"}"
        if rng.random() < 0.3:
            text = b'{"outer":[' + text + b"," + text + b"]}"
        ls.append(parse_line("j" if rng.random() < 0.7 else "o", opt_str(0, 0), text))
    return ls


BASE_DOCS = [b'[1,2]', b'[1,]', b'[,]', b'[1,,2]', b'{"a":1}', b'{"a":1,}', b'{,}', b'{"a":1,"b":2}', b'{"a":[1,],"b":{},}', b'[[],]', b'[{},{"k":[]},]',
             b'{"a":{"b":1,},}', b'[1 2]', b'{"a" 1}', b'{"a":1 "b":2}', b'[1,2', b'{"a":', b'{"a":1,"a":2}', b'1', b'"s"', b'true', b'[', b']', b'{}', b'[]']
COMMENTS = [b"/**/", b"/***/", b"/* a **/", b"/** *** **/", b"/*c*/", b"//c\n", b"/* , */", b"/*]*/", b"/*}*/", b"//\r\n", b"/*/*/", b"/", b"/*", b"//", b"*/"]


def split_tokens(doc):
    toks = []
    i = 0
    while i < len(doc):
        c = doc[i:i + 1]
        if c == b'"':
            j = doc.index(b'"', i + 1)
            toks.append(doc[i:j + 1])
            i = j + 1
        elif c in b"[]{},: ":
            toks.append(c)
            i += 1
        else:
            j = i
            while j < len(doc) and doc[j:j + 1] not in b'[]{},: "':
                j += 1
            toks.append(doc[i:j])
            i = j
    return toks


def gen_comment_positions(rng):
    """a comment (or a piece of one) in every gap of small documents, with and without trailing commas, under every option pair"""
    ls = []
    for doc in BASE_DOCS:
        toks = split_tokens(doc)
        for gap in range(len(toks) + 1):
            for cm in COMMENTS:
                text = b"".join(toks[:gap]) + cm + b"".join(toks[gap:])
                for (c, t) in ((1, 0), (1, 1), (0, 0), (0, 1)):
                    if c == 0 and cm not in (b"/**/", b"//c\n"):
                        continue
                    ls.append(parse_line("j", opt_str(c, t), text))
        for (c, t) in ((0, 0), (0, 1), (1, 0), (1, 1)):
            ls.append(parse_line("o", opt_str(c, t), doc))
            ls.append(parse_line("j", opt_str(c, t), b" /*a*/ ".join(toks)))
    return ls


def gen_depth(rng):
    ls = []
    for limit in (0, 1, 2, 3, 17, 64):
        for depth in (max(limit - 1, 0), limit, limit + 1):
            for shape in ("arr", "obj", "mixed"):
                if shape == "arr":
                    text = b"[" * depth + b"1" + b"]" * depth
                elif shape == "obj":
                    text = b'{"a":' * depth + b"1" + b"}" * depth
                else:
                    text = b"".join(b"[" if i % 2 == 0 else b'{"k":' for i in range(depth)) + b"null" + b"".join(
                        b"]" if i % 2 == 0 else b"}" for i in reversed(range(depth)))
                if depth == 0:
                    text = b"1"
                ls.append(parse_line("j", opt_str(0, 0, limit), text))
                if depth:
                    empty = (b"[" * depth + b"]" * depth) if shape != "obj" else (b'{"a":' * (depth - 1) + b"{}" + b"}" * (depth - 1))
                    ls.append(parse_line("o", opt_str(0, 0, limit), empty))
    return ls


def gen_exhaustive(maxlen, rng, sample=None):
    strs = jt.token_strings(maxlen)
    if sample is not None and len(strs) > sample:
        strs = strs[:1000] + rng.sample(strs[1000:], sample - 1000)
    ls = []
    for s in strs:
        for (c, t) in ((0, 0), (1, 1)):
            ls.append(parse_line("j", opt_str(c, t), s))
    return ls


def gen_utf8(rng):
    """raw UTF-8 in strings and member names along every boundary of the well-formedness table (Unicode ch. 3, table 3-7): each lead byte
    class with second bytes just inside and just outside its permitted range, truncated and over-long forms, surrogates, > U+10FFFF"""
    seqs = []
    for lead in (0x7f, 0x80, 0xbf, 0xc0, 0xc1, 0xc2, 0xdf):
        for b2 in (None, 0x7f, 0x80, 0xbf, 0xc0):
            seqs.append(bytes([lead] + ([b2] if b2 is not None else [])))
    for lead in (0xe0, 0xe1, 0xec, 0xed, 0xee, 0xef):
        for b2 in (0x7f, 0x80, 0x9f, 0xa0, 0xbf, 0xc0):
            for b3 in (None, 0x7f, 0x80, 0xbf, 0xc0):
                seqs.append(bytes([lead, b2] + ([b3] if b3 is not None else [])))
    for lead in (0xf0, 0xf1, 0xf3, 0xf4, 0xf5, 0xf7, 0xf8, 0xff):
        for b2 in (0x7f, 0x80, 0x8f, 0x90, 0xbf, 0xc0):
            for tail in (b"", b"\x80", b"\x80\x80", b"\xbf\xbf", b"\x80\x7f", b"\x80\xc0", b"\xbf\xbf\x80"):
                seqs.append(bytes([lead, b2]) + tail)
    ls = []
    for q in seqs:
        r = rng.random()
        if r < 0.5:
            text = b'"' + q + b'"'
        elif r < 0.75:
            text = b'{"' + q + b'":1}'
        else:
            text = b'["a' + q + b'\\n", "' + q + b'z"]'
        ls.append(parse_line(rng.choice("jo"), opt_str(0, 0), text))
    return ls


def with_ref(lines):
    return [ref_line(l) for l in lines]


def streams(ctx, rng, scale):
    lw = vlib.witness_lines(PROP)
    ctx.correspond("finding-witnesses", HARNESS, lw, oracle, nontrivial, ref_lines=with_ref(lw), want_model=False)
    ld = gen_depth(rng)
    ctx.correspond("nesting-limit", HARNESS, ld, oracle, nontrivial, ref_lines=with_ref(ld), want_model=False)
    lc = gen_comment_positions(rng)
    ctx.correspond("comments-and-commas", HARNESS, lc, oracle, nontrivial, ref_lines=with_ref(lc), want_model=False)
    lu = gen_utf8(rng)
    ctx.correspond("utf8-boundaries", HARNESS, lu, oracle, nontrivial, ref_lines=with_ref(lu), want_model=False)
    lq = gen_wide(rng, 150 * scale)
    ctx.correspond("wide-objects-with-duplicates", HARNESS, lq, oracle, nontrivial, ref_lines=with_ref(lq), want_model=False)
    lr = gen_rendered(rng, 2500 * scale)
    ctx.correspond("rendered+mutated", HARNESS, lr, oracle, nontrivial, ref_lines=with_ref(lr), want_model=False)
    if ctx.tier == "quick":
        le = gen_exhaustive(3, rng) + gen_exhaustive(5, rng, sample=6000)
    else:
        le = gen_exhaustive(4, rng) + gen_exhaustive(6, rng, sample=60000)
        ctx.cov["exhaustive_note"] = "every string of <= 4 tokens over a 29-token JSON alphabet x 2 option sets"
    ctx.correspond("token-strings", HARNESS, le, oracle, nontrivial, ref_lines=with_ref(le), want_model=False)
    # the Lean model of the parser's state machine, tied state by state (hook verif_inspect) and outcome by outcome
    lm = pevents_from(lc + lu + ld, rng, all_splits_upto=12) + pevents_from(lr + lq[:40], rng) + pevents_from(le[:4000], rng, all_splits_upto=6)
    ctx.correspond("parser-model", HARNESS, lm, pevents_oracle, pevents_nontrivial, compare=compare_pevents)


def run(ctx):
    ctx.prove(MODULES, leancheck=(ctx.tier == "thorough"))
    ctx.cov["rule"] = ("texts: every string of <= 3 (quick) / <= 4 (thorough) tokens over a 29-token JSON alphabet plus sampled longer ones, under "
                       "(comments, trailing comma) off/off and on/on; values rendered with random whitespace, escape spellings (short, \\uXXXX, "
                       "surrogate pairs, raw UTF-8), number spellings, duplicate names, comments and trailing commas, then mutated (delete/insert/"
                       "replace/truncate) and parsed under matching and mismatching options, lossless_number/lossless_bignum on/off, json and ojson; "
                       "nesting depth limit-1/limit/limit+1 for limits 0..64. The real parser's accept/reject and value are judged against the Lean "
                       "RFC 8259 reference parser (numbers via exact Python arithmetic). non-trivial = accepted text of >= 4 bytes; distinct by text")
    rng = vlib.rng_for(ctx.seed, "c02")
    streams(ctx, rng, 1 if ctx.tier == "quick" else 10)


def search(ctx):
    for extra in range(1, 4):
        rng = vlib.rng_for(ctx.seed * 1000 + extra, "c02-search")
        before = len(ctx.fail_inputs)
        lr = gen_rendered(rng, 8000)
        ctx.correspond("search-%d" % extra, HARNESS, lr, oracle, nontrivial, ref_lines=with_ref(lr), want_model=False)
        if len(ctx.fail_inputs) > before:
            return ctx.fail_inputs[before]
    return None


def replay(ctx, path):
    lines = [l[4:].rstrip("\n") for l in open(path) if l.startswith("op: ")]
    if not lines:
        print(open(path).read())
        return 1
    ctx.correspond("replay", HARNESS, lines, oracle, nontrivial, ref_lines=with_ref(lines), want_model=False)
    for (stream, line, io, mo, why) in ctx.fail_inputs:
        print("op: %s\nimpl: %s\nwhy: %s" % (line, io, why))
    return 1 if ctx.fail_inputs or ctx.broken else 0
