"""C13 — JMESPath evaluation follows the JMESPath specification (DESIGN.md §5 C13)."""
import struct
import vlib
import wire
import jmes
from wire import Obj

PROP = "C13"
MODULES = ["JV.Props.C13"]
HARNESS = "jm"
BAD_FLAGS = ["THROWING-OVERLOAD-DIFFERS", "COMPILED-DIFFERS", "DOCUMENT-MODIFIED"]


class NonIntegral(Exception):
    pass


def norm(v):
    """integral doubles are the integers they denote (sum/abs/… may compute in double); anything else leaves the integers"""
    if isinstance(v, tuple) and v[0] == "d":
        f = struct.unpack("<d", struct.pack("<Q", v[1]))[0]
        if f != f or f in (float("inf"), float("-inf")) or f != int(f) or abs(f) >= 2 ** 53:
            raise NonIntegral()
        return int(f)
    if isinstance(v, list):
        return [norm(x) for x in v]
    if isinstance(v, Obj):
        return Obj(sorted(((k, norm(x)) for k, x in v.members), key=lambda m: m[0]))
    if isinstance(v, wire.Tagged):
        return norm(v.value)
    return v


STATIC = {}        # expression hex -> set of statically detectable error kinds (filled by the generators)


def reg(e, line):
    st = jmes.static_errors(e)
    if st:
        STATIC[line.split()[2]] = st
    return line


def oracle(line, impl, model, ref=None):
    for f in BAD_FLAGS:
        if f in impl:
            return "the evaluation forms disagree: " + f
    if model is None or model == "bad-op":
        return None
    body = impl.split(" || ")[0]
    st = STATIC.get(line.split()[2])
    if st:
        # unknown function, wrong arity and a zero slice step may be reported when the expression is compiled, whatever the
        # document: any of the kinds present is a correct report; a value is not
        if body.startswith("err") and body.split()[1] in st:
            return None
        if model.startswith("err") and body.startswith("err") and body.split()[1] == model.split()[1]:
            return None
        return "the expression has a static error (%s), the library returns %s" % (", ".join(sorted(st)), body[:200])
    if model == "err unjudged":
        return None
    if body.startswith("err syntax"):
        return "the compiler rejects an expression of the JMESPath grammar: " + body
    if model.startswith("err"):
        if body.startswith("err"):
            if body.split()[1] != model.split()[1]:
                return "wrong error kind: the specification says %s, the library reports %s" % (model.split()[1], body.split()[1])
            return None
        return "the specification makes this an error (%s), the library returns %s" % (model.split()[1], body[:200])
    if body.startswith("err"):
        return "the specification defines a value (%s), the library reports %s" % (model[:200], body)
    try:
        got = norm(wire.parse_all(body[3:])[0])
    except NonIntegral:
        return None
    except ValueError:
        return "unreadable result " + body[:300]
    want = norm(wire.parse_all(model[3:])[0])
    if wire.render(got) != wire.render(want):
        return "search returns %s, the specification defines %s" % (wire.render(got)[:300], wire.render(want)[:300])
    return None


def nontrivial(line, impl):
    if impl.startswith("ok") and not impl.startswith("ok n ") and len(impl.split(" || ")[0]) > 6:
        return line
    if impl.startswith("err invalid") or impl.startswith("err unknown"):
        return "E" + line
    return None


def gen_lines(rng, n):
    out = []
    for _ in range(n):
        doc = wire.sort_keys(jmes.gen_doc(rng, 3))
        if not isinstance(doc, (list, Obj)):
            doc = Obj([(b"a", doc), (b"b", jmes.gen_doc(rng, 2))])
            doc = wire.sort_keys(doc)
        g = jmes.G(rng)
        for _ in range(3):
            e = g.expr(doc, rng.choice([1, 2, 2, 3]))
            out.append(reg(e, "jm s %s | %s | %s" % (jmes.expr_text(rng, e).hex(), wire.render(doc), jmes.tokens(e))))
    return out


def function_lines(rng, scale):
    """every built-in function on every kind of argument (type checks, arity) and on boundary contents"""
    out = []
    vals = [None, True, False, 0, -3, 7, b"", b"abc", b"\xc3\xa9t\xc3\xa9", b"12", b"-4", b"1e", b"010", b"0x10", b"0b1", b"-0", b"08", b"+5", b" 5", b"1_0", [], [3, 1, 2], [b"b", b"", b"a"], [b"", b"", b"x"], [1, b"a"], [[1], [2, 3], 4, []],
            [None, 1], Obj([]), Obj([(b"a", 1), (b"b", [1, 2])]), [Obj([(b"k", 2), (b"n", b"x")]), Obj([(b"k", 1), (b"n", b"y")]), Obj([(b"k", 2), (b"n", b"z")])],
            [Obj([(b"k", b"b")]), Obj([(b"k", b"a")])], [Obj([(b"k", 1)]), Obj([(b"k", b"a")])], [Obj([(b"k", 1)]), Obj([(b"j", 1)])]]
    lit = lambda v: ("CH", ("LIT", wire.sort_keys(v)), [])
    key = lambda k: ("CH", ("ID", k), [])
    for name, kinds in jmes.FUNCS.items():
        for a in vals:
            if len(kinds) == 1:
                argsets = [[("V", lit(a))], [("V", lit(a)), ("V", lit(a))], []]
            else:
                argsets = []
                for b in rng.sample(vals, 6 * scale if 6 * scale < len(vals) else len(vals)):
                    if kinds[0] == "&":
                        argsets.append([("R", key(b"k")), ("V", lit(b))])
                    elif kinds[1] == "&":
                        argsets.append([("V", lit(a)), ("R", key(rng.choice([b"k", b"n", b"j"])))])
                    else:
                        argsets.append([("V", lit(a)), ("V", lit(b))])
                argsets.append([("V", lit(a))])
                argsets.append([("V", lit(a)), ("V", lit(a)), ("V", lit(a))])
                if "&" in kinds:
                    argsets.append([("V", lit(a)), ("V", lit(a))])          # a value where an expression reference is required
            for args in argsets:
                e = ("CH", ("CALL", name, args), [])
                out.append(reg(e, "jm s %s | n | %s" % (jmes.expr_text(rng, e).hex(), jmes.tokens(e))))
    return out


def big_sort_lines(rng, scale):
    """sort / sort_by / max_by / min_by on arrays of 17..70 elements with many equal keys: equal elements must keep their order (the library's
    sort routines switch algorithm above 16 elements)"""
    out = []
    key = lambda k: ("CH", ("ID", k), [])
    for _ in range(25 * scale):
        n = rng.choice([15, 16, 17, 18, 24, 33, 40, 70])
        strs = rng.random() < 0.4
        kv = (lambda: rng.choice([b"a", b"b", b"c"])) if strs else (lambda: rng.randint(0, 3))
        xs = [Obj([(b"id", i), (b"k", kv())]) for i in range(n)]
        ns = [kv() for _ in range(n)]
        doc = wire.render(Obj([(b"ns", ns), (b"xs", xs)]))
        for e in (("CH", ("CALL", "sort_by", [("V", key(b"xs")), ("R", key(b"k"))]), []),
                  ("CH", ("CALL", "sort_by", [("V", key(b"xs")), ("R", key(b"k"))]), [("SL", None, None, -1)]),
                  ("CH", ("CALL", "max_by", [("V", key(b"xs")), ("R", key(b"k"))]), []),
                  ("CH", ("CALL", "min_by", [("V", key(b"xs")), ("R", key(b"k"))]), []),
                  ("CH", ("CALL", "sort", [("V", key(b"ns"))]), [])):
            out.append(reg(e, "jm s %s | %s | %s" % (jmes.expr_text(rng, e).hex(), doc, jmes.tokens(e))))
    return out


def slice_lines(rng, scale):
    out = []
    vals = [None, 0, 1, 2, 3, 5, 6, -1, -2, -5, -6, -7, 100, -100, 2 ** 63 - 1, -2 ** 63]
    steps = [1, 2, 3, -1, -2, -3, 6, -6, 2 ** 63 - 1, -2 ** 63, 0]
    for n in range(0, 7):
        doc = list(range(10, 10 + n))
        for a in vals:
            for b in vals:
                for st in steps:
                    if rng.random() > 0.2 * scale and not (a in (None, 0, -1) and b in (None, 0, -1)):
                        continue
                    e = ("CH", ("CUR",), [("SL", a, b, st)])
                    out.append(reg(e, "jm s %s | %s | %s" % (jmes.expr_text(rng, e).hex(), wire.render(doc), jmes.tokens(e))))
    # two slices in one expression (pipe, multiselect, nested projection)
    for _ in range(300 * scale):
        n = rng.randint(0, 7)
        doc = [list(range(i * 10, i * 10 + rng.randint(0, 6))) for i in range(n)]
        g = jmes.G(rng)
        s1 = ("SL", g.bound(n), g.bound(n), rng.choice([1, 1, 2, -1, 3]))
        s2 = ("SL", g.bound(4), g.bound(4), rng.choice([1, 1, 2, -1, -2]))
        e = rng.choice([
            ("PIPE", ("CH", ("CUR",), [s1]), ("CH", ("CUR",), [s2])),
            ("CH", ("CUR",), [s1, s2]),
            ("CH", ("ML", [("CH", ("CUR",), [s1]), ("CH", ("CUR",), [s2])]), []),
            ("FLATX", ("CH", ("CUR",), [s1]), [s2]),
        ])
        out.append(reg(e, "jm s %s | %s | %s" % (jmes.expr_text(rng, e).hex(), wire.render(doc), jmes.tokens(e))))
    return out


def streams(ctx, rng, scale):
    lw = vlib.witness_lines(PROP)
    ctx.correspond("finding-witnesses", HARNESS, lw, oracle, nontrivial, compare=lambda l, i, m: True)
    ctx.correspond("expressions", HARNESS, gen_lines(rng, 1200 * scale), oracle, nontrivial, compare=lambda l, i, m: True)
    ctx.correspond("functions", HARNESS, function_lines(rng, scale), oracle, nontrivial, compare=lambda l, i, m: True)
    ctx.correspond("slices", HARNESS, slice_lines(rng, scale), oracle, nontrivial, compare=lambda l, i, m: True)
    ctx.correspond("sorts-above-16", HARNESS, big_sort_lines(rng, scale), oracle, nontrivial, compare=lambda l, i, m: True)


def run(ctx):
    ctx.prove(MODULES, leancheck=(ctx.tier == "thorough"))
    ctx.cov["rule"] = ("generated (expression, document) pairs: chains of identifiers (quoted/unquoted, non-ASCII), indices, slices, list/object/filter/flatten "
                       "projections, pipes, ||, &&, !, comparisons, multiselect lists/hashes, literals and raw strings, 23 built-in functions incl. expression "
                       "references, wrong arity and unknown names, nested to depth 3, guided by the document so that most chains resolve; every function on "
                       "every kind of argument; slices over boundary start/stop/step incl. two slices per expression; each evaluated by the library (one-shot, "
                       "error_code and throwing overloads, compiled twice; document checked unchanged) and by the Lean reference interpreter. "
                       "non-trivial = a non-null value of some size, or a type/arity/unknown-function error")
    rng = vlib.rng_for(ctx.seed, "c13")
    streams(ctx, rng, 1 if ctx.tier == "quick" else 8)


def search(ctx):
    return None


def replay(ctx, path):
    print(open(path).read()[:3000])
    return 1
