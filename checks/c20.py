"""C20 — immutable artifacts are safe to share across threads (DESIGN.md §5 C20)."""
import vlib
import wire
import jpath
import jmes
import schema as sg
from wire import Obj

PROP = "C20"
MODULES = ["JV.Props.C20"]
HARNESS = "th"
FLAGS = ["-std=c++17", "-O1", "-g", "-fsanitize=thread", "-pthread", "-I" + vlib.REPO + "/include", "-I" + vlib.ROOT + "/harness"]


def oracle(line, impl, model, ref=None):
    if impl.startswith("ok"):
        return None
    return "concurrent readers of a shared artifact disagree with the sequential result: " + impl[:200]


def nontrivial(line, impl):
    return line if impl.startswith("ok") else None


def lines(rng, scale):
    out = []
    # schemas: every keyword family incl. failing type checks (error messages are built on failure), patterns, $ref
    fixed_schemas = [
        Obj([(b"type", b"object"), (b"properties", Obj([(b"a", Obj([(b"type", [b"integer", b"string"]), (b"minimum", 3)])), (b"b", Obj([(b"pattern", b"^a+$")]))])), (b"required", [b"a"])]),
        Obj([(b"items", Obj([(b"anyOf", [Obj([(b"type", b"string"), (b"maxLength", 2)]), Obj([(b"$ref", b"#/$defs/n")])])])), (b"$defs", Obj([(b"n", Obj([(b"type", [b"null", b"boolean"])]))])), (b"uniqueItems", True)]),
        Obj([(b"patternProperties", Obj([(b"^x", Obj([(b"type", b"number")]))])), (b"additionalProperties", False), (b"propertyNames", Obj([(b"maxLength", 3)]))]),
        Obj([(b"if", Obj([(b"type", b"array")])), (b"then", Obj([(b"contains", Obj([(b"const", 1)])), (b"unevaluatedItems", Obj([(b"type", b"integer")]))])), (b"else", Obj([(b"enum", [b"a", 1, None])]))]),
        Obj([(b"type", b"string"), (b"format", b"date-time"), (b"minLength", 3)]),
    ]
    insts = [Obj([(b"a", 1)]), Obj([(b"a", 5)]), Obj([(b"a", True)]), Obj([(b"b", b"aa")]), Obj([(b"a", 3), (b"b", b"b")]), b"x", [b"ab", None, b"abc", True, 5], [1, 1], [1, b"s"], Obj([(b"xa", 1), (b"y", 2)]),
             Obj([(b"xa", b"s")]), Obj([(b"toolong", 1)]), 1, None, b"2020-01-01T00:00:00Z", b"ab"]
    for s in fixed_schemas:
        out.append("th schema %d %d | %s | %s" % (rng.choice([2, 4, 8, 16]), 3 * scale, wire.render(wire.sort_keys(s)), wire.render([wire.sort_keys(x) for x in insts])))
    for _ in range(12 * scale):
        draft = "2020"
        g = sg.G(rng, draft)
        s = g.schema(2)
        if s is True or s is False or "ref" in s:
            s = {"kws": [("allof", [s])], "up": None, "ui": None}
        doc = sg.render(s, draft, g.defs, rng)
        consts = sg.constants(s, g.defs, {"vals": [], "ints": []})
        ii = [sg.gen_instance(rng, consts, 2) for _ in range(8)]
        out.append("th schema %d %d | %s | %s" % (rng.choice([2, 4, 8]), 2, wire.render(wire.sort_keys(doc)), wire.render([wire.sort_keys(x) for x in ii])))
    # JSONPath: with and without function calls and filters
    doc = wire.sort_keys([Obj([(b"a", 2), (b"b", [1, 2]), (b"s", b"abc")]), Obj([(b"a", 1), (b"b", [3]), (b"s", b"x")]), Obj([(b"a", 5), (b"b", []), (b"s", b"")])])
    for e in [b"$..[?(@.a > 1 && length(@.b) > 0)].b[*]", b"$[?(contains(@.s, 'b'))].a", b"$[?(starts_with(@.s, 'a') || ends_with(@.s, 'x'))]", b"$..b[0,1]", b"$[*].b[::-1]", b"$[?(@.s =~ /a.*/)]", b"$[?(sum(@.b) > 2)].s",
              b"$[?(tokenize(@.s, 'b')[0] == 'a')]", b"$..*", b"$[?(@.a == max($[*].a))]"]:
        out.append("th jsonpath %d %d | %s | %s" % (rng.choice([2, 4, 8, 16]), 3 * scale, e.hex(), wire.render(doc)))
    d0 = jpath.gen_doc(rng, 3)
    for _ in range(15 * scale):
        segs = jpath.gen_expr(rng, d0)
        out.append("th jsonpath %d 2 | %s | %s" % (rng.choice([2, 4, 8]), jpath.text(rng, segs).hex(), wire.render(wire.sort_keys(d0))))
    for e in [b"sort_by([?a > `1`], &a)[*].b | [] | length(@)", b"[*].{k: s, n: length(b)}", b"max_by(@, &a).s", b"join(',', [*].s)", b"[?contains(s, 'b')].a | [0]", b"map(&to_string(a), @)", b"merge([0], [1])", b"reverse(@)[*].a"]:
        out.append("th jmespath %d %d | %s | %s" % (rng.choice([2, 4, 8, 16]), 3 * scale, e.hex(), wire.render(doc)))
    g = jmes.G(rng)
    jd = wire.sort_keys(jmes.gen_doc(rng, 3))
    for _ in range(15 * scale):
        e = g.expr(jd, 2)
        if jmes.static_errors(e):
            continue
        out.append("th jmespath %d 2 | %s | %s" % (rng.choice([2, 4, 8]), jmes.expr_text(rng, e).hex(), wire.render(jd)))
    for _ in range(10 * scale):
        v = jpath.gen_doc(rng, 3)
        out.append("th json %d %d | %s" % (rng.choice([2, 4, 8, 16]), 3, wire.render(wire.sort_keys(v))))
    # a document of doubles of every printing route (shortest-digits fast path, its fallback, exponent forms, non-finite), big numbers, byte
    # strings and long strings: serialisation of a shared const value must not share scratch state between threads
    import struct
    dbl = lambda f: ("d", struct.unpack("<Q", struct.pack("<d", f))[0])
    nums = [dbl(x) for x in (19515056767945592.0, 869293065448701.25, 0.0061387096022997995, 1e23, 5e-324, 1.7976931348623157e308, 0.1, 1.5, -2.5e-7, 123456789.125,
                             9007199254740993.0, 2.2250738585072014e-308, 4.35, 1e21, 1e-7, 3.0e10)]
    nums += [dbl(rng.uniform(-1, 1) * 10 ** rng.randint(-300, 300)) for _ in range(120)]
    big = Obj([(b"big", wire.Tagged("bigint", b"123456789012345678901234567890")), (b"bytes", ("b", bytes(range(64)))), (b"nums", nums), (b"text", [b"long string " * 8] * 6)])
    for th in (4, 8, 16):
        out.append("th json %d %d | %s" % (th, 6 * scale, wire.render(big)))
    return out


def streams(ctx, rng, scale):
    lw = vlib.witness_lines(PROP)
    ctx.correspond("finding-witnesses", HARNESS, lw, oracle, nontrivial, want_model=False, flags=FLAGS)
    ctx.correspond("shared-readers", HARNESS, lines(rng, scale), oracle, nontrivial, want_model=False, flags=FLAGS)


def run(ctx):
    ctx.prove(MODULES, leancheck=(ctx.tier == "thorough"))
    ctx.cov["rule"] = ("compiled JSON Schemas (all keyword families, failing instances so that messages are built, patterns, formats, $ref; generated 2020-12 schemas), "
                       "compiled JSONPath expressions (filters, function calls, regex, slices, unions; generated ones), compiled JMESPath expressions (projections, "
                       "functions with expression references; generated ones) and basic_json documents, each shared by 2-16 threads released together on a fresh artifact "
                       "per round; every thread's results compared with those of a separately built copy used single-threaded; the whole run under ThreadSanitizer. "
                       "non-trivial = a completed round")
    ctx.impl_timeout, ctx.impl_chunk = 600, 40
    rng = vlib.rng_for(ctx.seed, "c20")
    streams(ctx, rng, 1 if ctx.tier == "quick" else 4)


def search(ctx):
    return None


def replay(ctx, path):
    print(open(path).read()[:3000])
    return 1
