"""C12 — JSONPath queries select exactly the addressed nodes (DESIGN.md §5 C12)."""
import vlib
import wire
import jpath
from wire import Obj

PROP = "C12"
MODULES = ["JV.Props.C12"]
HARNESS = "jp"
OPTS = ["-", "n", "s", "ns", "d", "nd", "sd"]
BAD_FLAGS = ["ADDR-MISMATCH", "VALUE-MISMATCH", "VALUES-DIFFER", "PATHS-DIFFER", "COMPILED-DIFFERS", "SELECT-PATHS-DIFFERS", "SELECT-DIFFERS",
             "DOCUMENT-MODIFIED", "BINARY-CALLBACK-DIFFERS", "UNARY-CALLBACK-DIFFERS", "COMPILED-UPDATE-DIFFERS"]


def parse_line(line):
    parts = line.split(" | ")
    head = parts[0].split()
    return head, parts[1:]


def parse_nodes(out):
    """'ok <n> p<hex>=<value> ;…' -> [(path bytes, value)]"""
    body = out.split(" || ")[0]
    t = body.split()
    n = int(t[1])
    nodes = []
    pos = 2
    while pos < len(t):
        tok = t[pos]
        ph, first = tok[1:].split("=", 1)
        toks = [first] + t[pos + 1:]
        v, used = wire.parse(toks, 0)
        nodes.append((bytes.fromhex(ph), v))
        pos = pos + used
        assert t[pos] == ";"
        pos += 1
    assert len(nodes) == n
    return nodes


def expected_by_options(opts, plain):
    """what the options must do to the plain selection (a list of parsed paths)"""
    keyed = [(jpath.path_key(p), p) for p in plain]
    if "n" in opts and not ("s" in opts or "d" in opts):
        seen, out = set(), []
        for k, p in keyed:
            kk = repr(k)
            if kk not in seen:
                seen.add(kk)
                out.append(p)
        return out
    if "s" in opts or "d" in opts:
        out = [p for _, p in sorted(keyed, key=lambda kp: kp[0])]
        if "n" in opts:
            dedup = []
            for p in out:
                if not dedup or dedup[-1] != p:
                    dedup.append(p)
            out = dedup
        if "d" in opts:
            out = out[::-1]
        return out
    return [p for _, p in keyed]


def query_oracle(line, impl, model, ref=None):
    head, parts = parse_line(line)
    opts = head[3]
    if impl.startswith("err"):
        if model is not None and model.startswith("ok"):
            return "the compiler rejects an expression of the core grammar: " + impl
        return None
    for f in BAD_FLAGS:
        if f in impl:
            return "the result forms disagree: " + f
    doc = wire.parse_all(parts[0])[0]
    try:
        nodes = parse_nodes(impl)
    except Exception as e:
        return "unreadable result: %r" % (e,)
    # every normalized path, resolved against the document, addresses the value returned with it
    parsed = []
    for p, v in nodes:
        steps = jpath.parse_normalized(p)
        if steps is None:
            return "%r is not a normalized path" % (p,)
        got = jpath.resolve(doc, steps)
        if got is KeyError or wire.render(got) != wire.render(v):
            return "path %r does not address the value returned with it" % (p,)
        parsed.append(steps)
    # the options are functions of the plain result
    plain_s = impl.split(" || plain")[1].split()
    if plain_s and plain_s[0] == "failed":
        return "the plain query fails where the query with options succeeds"
    plain = [jpath.parse_normalized(bytes.fromhex(x[1:])) for x in plain_s]
    want = expected_by_options(opts, plain)
    if want != parsed:
        return "options %r: the result is not the %s version of the plain result" % (opts, "/".join(
            w for c, w in (("n", "de-duplicated"), ("s", "sorted"), ("d", "descending")) if c in opts) or "plain")
    # the selected node list is the one the selector semantics define (the Lean model is the definition)
    if model is not None and model.startswith("ok"):
        if impl.split(" || ")[0].strip() != model.strip():
            return "the selected node list differs from the selector semantics (Lean model): expected " + model[:300]
    return None


def replace_oracle(line, impl, model, ref=None):
    head, parts = parse_line(line)
    if impl.startswith("err"):
        if model is not None and model.startswith("ok"):
            return "the compiler rejects an expression of the core grammar: " + impl
        return None
    for f in BAD_FLAGS:
        if f in impl:
            return "the replace forms disagree: " + f
    doc = wire.parse_all(parts[0])[0]
    nv = wire.parse_all(parts[1])[0]
    body, rest = impl.split(" || ")
    after = wire.parse_all(body[3:])[0]
    touched = [jpath.parse_normalized(bytes.fromhex(x[1:])) for x in rest.split(" touched")[1].split()]
    # exactly the touched nodes change: assigning the new value at every touched path (outermost last) gives the result
    want = doc
    for p in sorted(touched, key=jpath.path_key, reverse=True):
        want = jpath.set_at(want, p, nv)
    if wire.render(want) != wire.render(after):
        return "json_replace changed something other than the selected nodes"
    if model is not None and model.startswith("ok") and body.strip() != model.strip():
        return "json_replace result differs from the selector semantics (Lean model): expected " + model[:300]
    return None


def compare_any(line, io, mo):
    return True        # the oracles above already compare with the model, with a reason attached


def nontrivial(line, impl):
    if impl.startswith("ok"):
        t = impl.split()
        if line.split()[1] == "q" and len(t) > 1 and t[1].isdigit() and int(t[1]) >= 2:
            return line
        if line.split()[1] == "r" and " touched p" in impl:
            return line
    return None


def make_doc(rng, kind):
    doc = jpath.gen_doc(rng, 3)
    if not isinstance(doc, (list, Obj)):
        doc = [doc, jpath.gen_doc(rng, 2), jpath.gen_doc(rng, 2)]
    return wire.sort_keys(doc) if kind == "j" else doc


def gen_lines(rng, n):
    q, r = [], []
    for _ in range(n):
        kind = "j" if rng.random() < 0.6 else "o"
        doc = make_doc(rng, kind)
        segs = jpath.gen_expr(rng, doc)
        txt = jpath.text(rng, segs)
        ast = jpath.tokens(segs)
        d = wire.render(doc)
        for o in (OPTS if rng.random() < 0.5 else [rng.choice(OPTS), "-"]):
            q.append("jp q %s %s %s | %s | %s" % (kind, o, txt.hex(), d, ast))
        if rng.random() < 0.5:
            nv = rng.choice([0, b"new", None, [1, 2], Obj([(b"r", 1)])])
            r.append("jp r %s %s | %s | %s | %s" % (kind, txt.hex(), d, wire.render(nv), ast))
    return q, r


def compare_lines(rng):
    """every comparison operator between every pair of a small set of comparable values (equal strings, adjacent strings, equal and adjacent
    numbers, mixed kinds), with the member on either side of the operator"""
    out = []
    vals = [b"abb", b"abc", b"abd", b"", b"a", b"B", b"10", b"9", 0, 1, 2, 10, -1, None, True, False]
    doc = [Obj([(b"k", v), (b"id", i)]) for i, v in enumerate(vals)] + [Obj([(b"id", 99)])]
    d = wire.render(doc)
    ds = wire.render(wire.sort_keys(doc))
    for lit in vals:
        for op in jpath.CMPS:
            member = ("P", False, [("n", b"k")])
            for fe in ((op, member, ("L", lit)), (op, ("L", lit), member)):
                segs = [("C", [("F", fe)])]
                kind = rng.choice("jo")
                out.append("jp q %s %s %s | %s | %s" % (kind, rng.choice(OPTS), jpath.text(rng, segs).hex(), ds if kind == "j" else d, jpath.tokens(segs)))
    return out


def slice_lines(rng, scale):
    """every start/stop/step from a boundary set on arrays of length 0..6, alone and chained/in unions with a second slice"""
    out = []
    vals = [None, 0, 1, 2, 3, 5, 6, 7, -1, -2, -5, -6, -7, 100, -100, 2 ** 63 - 1, -2 ** 63]
    steps = [1, 2, 3, -1, -2, -3, 6, -6, 2 ** 63 - 1, -2 ** 63]
    for n in range(0, 7):
        doc = list(range(10, 10 + n))
        d = wire.render(doc)
        for a in vals:
            for b in vals:
                for st in steps:
                    if rng.random() > 0.25 * scale and not (a in (None, 0, -1) and b in (None, 0, -1)):
                        continue
                    segs = [("C", [("S", a, b, st)])]
                    out.append("jp q j - %s | %s | %s" % (jpath.text(rng, segs).hex(), d, jpath.tokens(segs)))
    for _ in range(300 * scale):
        n = rng.randint(0, 7)
        doc = [list(range(i * 10, i * 10 + rng.randint(0, 6))) for i in range(n)]
        sizes = [n, 3]
        s1, s2 = jpath.gen_slice(rng, sizes), jpath.gen_slice(rng, sizes)
        segs = rng.choice([[("C", [s1]), ("C", [s2])], [("C", [s1, s2])], [("C", [s1, ("I", 0), s2])], [("D", [s1]), ("C", [s2])]])
        out.append("jp q j %s %s | %s | %s" % (rng.choice(OPTS), jpath.text(rng, segs).hex(), wire.render(doc), jpath.tokens(segs)))
    return out


def streams(ctx, rng, scale):
    lw = vlib.witness_lines(PROP)
    ctx.correspond("finding-witnesses", HARNESS, lw, lambda l, i, m, r=None: (query_oracle if l.split()[1] == "q" else replace_oracle)(l, i, m), nontrivial,
                   compare=compare_any)
    q, r = gen_lines(rng, 1500 * scale)
    ctx.correspond("queries", HARNESS, q, query_oracle, nontrivial, compare=compare_any)
    ctx.correspond("json-replace", HARNESS, r, replace_oracle, nontrivial, compare=compare_any)
    ctx.correspond("slices", HARNESS, slice_lines(rng, scale), query_oracle, nontrivial, compare=compare_any)
    ctx.correspond("filter-comparisons", HARNESS, compare_lines(rng), query_oracle, nontrivial, compare=compare_any)


def run(ctx):
    ctx.prove(MODULES, leancheck=(ctx.tier == "thorough"))
    ctx.cov["rule"] = ("generated (expression, document) pairs: 1-4 segments of child/descendant selectors (names incl. quotes, backslashes, empty, non-ASCII; "
                       "indices at and past both ends; slices with boundary start/stop/step incl. INT64 extremes; wildcards; unions; comparison filters with "
                       "&&, ||, !, @/$ paths) in random spellings (dot/bracket, quote style, two- or three-part slices, parenthesised or bare filters), "
                       "over json and ojson documents, under all 7 option sets; every result form (callback, values, paths, compiled x2, select, select_paths) "
                       "cross-checked in the harness; paths re-resolved independently; options judged against the plain result; node lists and json_replace "
                       "results judged against the Lean selector semantics. non-trivial = at least two nodes selected / at least one node replaced")
    rng = vlib.rng_for(ctx.seed, "c12")
    streams(ctx, rng, 1 if ctx.tier == "quick" else 8)


def search(ctx):
    return None


def replay(ctx, path):
    print(open(path).read()[:3000])
    return 1
