"""C03 — decoding does not depend on how the input is delivered (DESIGN.md §5 C03)."""
import re
import vlib
import wire
import jsontext as jt
from checks import c02

PROP = "C03"
MODULES = ["JV.Props.C03"]
HARNESS = "jtext"

SPECIAL = [
    b'"\\ud83d\\ude00"', b'["\\uD83D\\uDE00\\ud83d\\ude00x"]', b'"\xf0\x9f\x98\x80\xe2\x82\xac\xc3\xa9"', b'{"k\xc3\xa9":"\xf4\x8f\xbf\xbf"}',
    b"0", b"-0", b"0.5", b"-0.5e-10", b"1E+2", b"10", b"12345678901234567890", b"123456789012345678901234567890", b"1.5e300", b"-1e-400",
    b"[0,0.0,0e0,-0]", b"[1,2]\r\n", b"\r\n[\r\n1\r,\n2\r\n]\r\n", b"true", b"false", b"null", b"[true,false,null]", b'"\\n\\t\\"\\\\\\/\\b\\f\\r"',
    b'{"a":1,"b":{"c":[1,2,{"d":"e"}]}}', b"[1,2] x", b"[1,2]]", b"01", b"-", b"1.", b"1e", b"1e+", b'"\\u12', b'"\\ud83d\\u0041"', b'"\\ud83d"',
    b"/*c*/[1/*d*/,2]//e\n", b"[1,/*", b"[1,//", b"  ", b"", b"tru", b"nul", b"[1,", b'{"a"', b'{"a":', b'"abc', b"[1]\x00",
    b'["\xc3"]', b'["\xe2\x82"]', b'["\xed\xa0\x80"]', b'"\x01"', b"[1 ,2 , 3 ]", b'{ "a" : [ ] , "b" : { } }',
]


def deliver_line(kind, opts, text):
    return "jt deliver %s %s x%s" % (kind, opts, text.hex())


def gen_lines(rng, n):
    ls = []
    for s in SPECIAL:
        for (c, t) in ((1, 0), (0, 0), (1, 1)):
            ls.append(deliver_line("j", c02.opt_str(c, t), s))
        # every prefix (truncation)
        for i in range(1, len(s)):
            ls.append(deliver_line("o", c02.opt_str(1, 0), s[:i]))
    for _ in range(n):
        c, tr = rng.random() < 0.5, rng.random() < 0.3
        v = jt.gen_value(rng, rng.randint(0, 3))
        text = jt.ws(rng, c) + jt.render(rng, v, comments=c, trailing=tr, dup=rng.random() < 0.2) + jt.ws(rng, c)
        r = rng.random()
        if r < 0.3:
            text = jt.mutate_text(rng, text)
        elif r < 0.4:
            text = text[:rng.randrange(len(text) + 1)]
        ls.append(deliver_line("j" if rng.random() < 0.6 else "o", c02.opt_str(int(c), int(tr), None, int(rng.random() < 0.2), int(rng.random() < 0.8)), text))
    return ls


NO_VALUE = re.compile(rb"^([ \t\r\n]|/\*([^*]|\*(?!/))*\*/|//[^\n\r]*(\r|\n|$))*$")


@vlib.known_matcher("D21")
def _match_d21(stream, line, impl, model):
    """text without any value: the pull cursor reports 'done' instead of unexpected_eof (only cursor modes differ)"""
    t = line.split()
    if t[0] != "jt" or t[1] != "deliver" or not impl.startswith("DIFF err 1 ##"):
        return False
    text = bytes.fromhex(t[4][1:])
    if not NO_VALUE.match(text):
        return False
    modes = re.findall(r"\[([a-z_.\-]+)", impl.split("##", 1)[1])
    return all("cursor" in m for m in modes)


def gen_src_lines(rng, n):
    ls = []
    for _ in range(n):
        k = rng.choice([1, 2, 3, 4, 5, 7, 8, 16])
        size = rng.choice([0, 1, 2, 3, 5, 8, 9, 16, 17, 31, 40])
        content = bytes(rng.randrange(256) for _ in range(size))
        ops = []
        for _ in range(rng.randint(1, 12)):
            r = rng.random()
            if r < 0.5:
                ops.append("r%d" % rng.choice([0, 1, 2, 3, 4, 5, 8, 9, k, k + 1, 2 * k, max(k - 1, 0), size, size + 1]))
            elif r < 0.65:
                ops.append("p")
            elif r < 0.8:
                ops.append("i%d" % rng.choice([0, 1, 2, 3, k, k + 1, 2 * k + 1, size]))
            elif r < 0.9:
                ops.append("c")
            else:
                ops.append("e")
        ls.append("src run %d x%s %s" % (k, content.hex(), " ".join(ops)))
    return ls


def src_oracle(line, impl, model, ref=None):
    """judged without the model: what the source hands out is the stream's content, in order, nothing lost or invented"""
    t = line.split()
    content = bytes.fromhex(t[3][1:])
    outs = impl.split()[1:]
    off = 0
    for op, o in zip(t[4:], outs):
        left = len(content) - off
        if op[0] == "r":
            n = int(op[1:])
            cnt, data = o[1:].split(":")
            cnt = int(cnt)
            if n <= left:
                if cnt != n or bytes.fromhex(data) != content[off:off + n]:
                    return "read(%d) with %d bytes left returned %s" % (n, left, o)
                off += n
            else:
                if cnt >= n:
                    return "read(%d) with only %d bytes left claims success" % (n, left)
                return None          # short read: every decoder stops here
        elif op[0] == "p":
            want = "p-" if left == 0 else "p%02x" % content[off]
            if o != want:
                return "peek returned %s, expected %s" % (o, want)
        elif op[0] == "i":
            off += min(int(op[1:]), left)
        elif op[0] == "c":
            data = bytes.fromhex(o[1:])
            if content[off:off + len(data)] != data or (not data and left):
                return "read_chunk returned bytes that are not the next part of the stream"
            off += len(data)
        elif op[0] == "e":
            if o == "e1" and left:
                return "eof() is true while %d bytes remain" % left
    return None


def gen_bin_lines(rng, n, tier):
    from checks import c07
    ls = []
    for fmt in ("cbor", "msgpack", "ubjson", "bson"):
        ins = c07.cbor_inputs(rng, n, tier) if fmt == "cbor" else c07.fmt_inputs(fmt, rng, n, tier)
        for b in ins:
            ls.append("bin deliver %s %s x%s" % (fmt, "m4096" if fmt == "ubjson" else "-", b.hex()))
    return ls


def oracle(line, impl, model, ref=None):
    t = line.split()
    if t[0] == "bin":
        if not impl.startswith("same "):
            return "deliveries of one %s input disagree (buffer vs stream sources with 1..16-byte buffers vs cursors): %s" % (t[2], impl[:300])
        return None
    if t[0] == "src":
        return src_oracle(line, impl, model, ref)
    if t[1] != "deliver":
        return None
    if not impl.startswith("same "):
        return "deliveries of one input disagree: " + impl[:400]
    if ref is not None and not c02._match_d22("", line, impl, model):
        return c02.judge_outcome(t[2], t[3], bytes.fromhex(t[4][1:]), impl[5:], ref)
    return None



def pieces_oracle():
    """judged without the model: every way of cutting one text into pieces gives the same outcome and the same events"""
    first = {}

    def oracle(line, impl, model, ref=None):
        t = line.split()
        key = (t[2], t[3])
        head = impl.split(" ##")[0]
        if key not in first:
            first[key] = (head, t[4])
            return None
        if first[key][0] != head:
            return "the push parser's outcome depends on the pieces: cuts %s give '%s', cuts %s give '%s'" % (first[key][1], first[key][0][:120], t[4], head[:120])
        return None
    return oracle

def nontrivial(line, impl):
    t = line.split()
    if t[0] == "bin":
        return line if len(t[4]) > 8 else None
    if t[0] == "src":
        return line if len(t) > 7 else None
    return t[4] if len(t[4]) > 6 else None


def streams(ctx, rng, scale):
    lw = vlib.witness_lines(PROP)
    lwj = [w for w in lw if w.startswith("jt ")]
    ctx.correspond("finding-witnesses", HARNESS, lwj, oracle, nontrivial, ref_lines=c02.with_ref(lwj), want_model=False)
    lwb = [w for w in lw if w.startswith("bin ")]
    ctx.correspond("finding-witnesses-binary", "bin", lwb, oracle, nontrivial, want_model=False)
    lo = gen_src_lines(rng, 3000 * scale)
    ctx.correspond("stream_source-ops", "src", lo, oracle, nontrivial)
    lb = gen_bin_lines(rng, 250 * scale, ctx.tier)
    ctx.correspond("binary-deliveries", "bin", lb, oracle, nontrivial, want_model=False)
    ls = gen_lines(rng, 700 * scale)
    ctx.correspond("json-deliveries", HARNESS, ls, oracle, nontrivial, ref_lines=c02.with_ref(ls), want_model=False)
    # the parser model: whatever the pieces, the real parser must be in the model's state after each piece and end with the model's outcome
    lm = c02.pevents_from(ls[:len(SPECIAL) * 3 + 200], rng, all_splits_upto=40) + c02.pevents_from(ls, rng)
    ctx.correspond("parser-model-pieces", HARNESS, lm, pieces_oracle(), c02.pevents_nontrivial, compare=c02.compare_pevents)


def run(ctx):
    ctx.prove(MODULES, leancheck=(ctx.tier == "thorough"))
    ctx.cov["rule"] = ("JSON texts (hand-picked boundary texts with every prefix; rendered values, mutated and truncated) each delivered as: one buffer; "
                       "every 2-way split (texts <= 64 bytes); uniform chunks of 1..7 bytes; 3 pseudo-random multi-way splits; json_string_reader; "
                       "json_stream_reader with the default and with 1,2,3,5,16-byte stream buffers; iterator source; pull cursor (read_to and event by "
                       "event, string and 2-byte-buffered stream) — all outcomes (value or error code; event sequence) must coincide, and the common "
                       "outcome is judged against the Lean RFC 8259 reference. non-trivial = text of >= 4 bytes; distinct by text")
    rng = vlib.rng_for(ctx.seed, "c03")
    streams(ctx, rng, 1 if ctx.tier == "quick" else 12)


def search(ctx):
    for extra in range(1, 4):
        rng = vlib.rng_for(ctx.seed * 1000 + extra, "c03-search")
        before = len(ctx.fail_inputs)
        streams(ctx, rng, 4)
        if len(ctx.fail_inputs) > before:
            return ctx.fail_inputs[before]
    return None


def replay(ctx, path):
    lines = [l[4:].rstrip("\n") for l in open(path) if l.startswith("op: ")]
    if not lines:
        print(open(path).read())
        return 1
    ctx.correspond("replay", HARNESS, lines, oracle, nontrivial, ref_lines=c02.with_ref(lines), want_model=False)
    for (stream, line, io, mo, why) in ctx.fail_inputs:
        print("op: %s\nimpl: %s\nwhy: %s" % (line, io, why))
    return 1 if ctx.fail_inputs or ctx.broken else 0
