"""C08 — encoders emit only well-formed output; transcoding stays valid (DESIGN.md §5 C08)."""
import vlib
import wire
import binfmt
import jsontext as jt
from wire import Obj, Tagged
from checks import c06, c07

PROP = "C08"
MODULES = ["JV.Props.C08"]
HARNESS = "bin"

FMTS = ("cbor", "msgpack", "ubjson", "bson")


# ---- event sequences ---------------------------------------------------------------------------------------

def gen_events(rng, depth, fmt, lie):
    """returns (event tokens, value) for one value; `lie` = [n] remaining chances to declare a wrong length"""
    r = rng.random()
    if depth <= 0 or r < 0.4:
        q = rng.random()
        if q < 0.1:
            return ["N"], None
        if q < 0.2:
            b = rng.random() < 0.5
            return ["T" if b else "F"], b
        if q < 0.45:
            v = rng.choice([0, 1, -1, 23, 24, 255, 256, 65535, 65536, 2 ** 31, -2 ** 31 - 1, 2 ** 63 - 1, -2 ** 63])
            return ["I%d" % v], v
        if q < 0.5 and fmt != "bson" and fmt != "ubjson":
            v = rng.choice([2 ** 63, 2 ** 64 - 1])
            return ["U%d" % v], v
        if q < 0.62:
            b = rng.choice(c07.F64[:10])
            return ["D%016x" % b], ("d", b)
        if q < 0.85:
            s = rng.choice(c07.STRS[:6] + [b"abc", b"hello", b"world"])
            if fmt == "cbor" and rng.random() < 0.2:
                tag = rng.choice(["datetime", "uri", "base64url", "base64"])
                return ["S%s@%s" % (s.hex(), tag)], Tagged(tag, s)
            return ["S" + s.hex()], s
        if fmt == "bson":
            return ["N"], None
        b = bytes(rng.randrange(256) for _ in range(rng.choice([0, 1, 3, 24])))
        return ["B" + b.hex()], ("b", b)
    n = rng.randint(0, 4)
    if r < 0.7:
        items = [gen_events(rng, depth - 1, fmt, lie) for _ in range(n)]
        declared = n
        if lie[0] > 0 and rng.random() < 0.15:
            declared = max(0, n + rng.choice([-1, 1, 2]))
            lie[0] -= 1 if declared != n else 0
            if declared != n:
                lie.append("lied")
        indef = rng.random() < 0.3
        head = "BA*" if indef else "BA%d" % declared
        if indef and declared != n:
            lie.remove("lied")
            lie[0] += 1
        toks = [head] + [t for ev, _ in items for t in ev] + ["EA"]
        return toks, [v for _, v in items]
    keys = rng.sample([b"a", b"b", b"c", b"dd", b"\xc3\xa9", b"k" * 24, b"hello"], n)
    items = [gen_events(rng, depth - 1, fmt, lie) for _ in range(n)]
    declared = n
    indef = rng.random() < 0.3
    if not indef and lie[0] > 0 and rng.random() < 0.15:
        declared = max(0, n + rng.choice([-1, 1]))
        if declared != n:
            lie[0] -= 1
            lie.append("lied")
    head = "BO*" if indef else "BO%d" % declared
    toks = [head]
    for k, (ev, _) in zip(keys, items):
        toks += ["K" + k.hex()] + ev
    toks.append("EO")
    return toks, Obj([(k, v) for k, (_, v) in zip(keys, items)])


def gen_event_lines(rng, n):
    ls = []
    for _ in range(n):
        fmt = rng.choice(FMTS)
        lie = [1 if rng.random() < 0.3 else 0]
        toks, v = gen_events(rng, rng.randint(1, 3), fmt, lie)
        if fmt == "bson" and not isinstance(v, Obj):
            toks, v = ["BO*", "K76"] + toks + ["EO"], Obj([(b"v", v)])
        opts = ("p%d" % rng.getrandbits(1)) if fmt == "cbor" else "-"
        ls.append(("bin events %s %s %s" % (fmt, opts, " ".join(toks)), v, "lied" in lie))
    return ls


def gen_json_event_lines(rng, n):
    ls = []
    for _ in range(n):
        toks, v = gen_events(rng, rng.randint(1, 3), "json", [0])
        r = rng.random()
        if r < 0.15:
            big = rng.choice([b"12345678901234567890123", b"-1", b"0", b"1e5", b"12ab", b'"', b"", b"1.5", b"--1", b"0x10", b" 1", b"NaN"])
            toks = ["BA*", "S%s@%s" % (big.hex(), rng.choice(["bigint", "bigdec"]))] + toks + ["EA"]
            v = [("big", big), v]
        ls.append(("bin jsonev %s %s" % (rng.choice("cp"), " ".join(toks)), v, False))
    return ls


def value_from_spec(ref, kind="o"):
    return wire.canon_nan(wire.normalize_objects(wire.parse_all(ref[3:])[0], kind))


def events_oracle_factory(meta):
    def oracle(line, impl, model, ref=None):
        v, lied = meta[line]
        t = line.split()
        fmt = t[2]
        if lied:
            return None        # either an error, or output that still denotes the data actually pushed (judged by the reference decoder)
        if impl.startswith("err"):
            if fmt == "msgpack" and ("BA*" in t or "BO*" in t):
                return None        # MessagePack has no indefinite lengths
            if fmt == "bson" and uses_u64_big(v):
                return None
            return "the encoder refused a well-formed event sequence: " + impl
        # the library's own decoder must read the pushed data back (catches encoder/decoder bookkeeping that drifts apart, e.g. stringref)
        parts = [p.strip() for p in impl.split("|")]
        if len(parts) < 2 or not parts[1].startswith("ok "):
            return "the encoder's output does not decode: " + impl[-120:]
        have = wire.canon_nan(wire.strip_tag(wire.parse_all(parts[1][3:])[0], "noesc"))
        want = wire.canon_nan(c06.norm_for(fmt, v, "o"))
        if not c06.same(have, want):
            return "decoding the encoder's output does not give back the pushed data"
        return None
    return oracle


def gen_timestamp_lines(rng):
    """MessagePack timestamp extension (type -1): the three layouts, around their boundaries"""
    ls = []
    secs = [0, 1, 2 ** 31, 2 ** 32 - 1, 2 ** 32, 2 ** 32 + 1, 5000000000, 2 ** 33, 2 ** 34 - 1, 2 ** 34, 2 ** 34 + 1, 2 ** 40, -1, -2 ** 31, 2 ** 62]
    for s in secs:
        ls.append(("bin events msgpack - I%d@epoch_second" % s, (s, 0)))
        if s >= 0:
            ls.append(("bin events msgpack - U%d@epoch_second" % s, (s, 0)))
        for ms in (0, 1, 999):
            if abs(s) < 2 ** 50:
                ls.append(("bin events msgpack - I%d@epoch_milli" % (s * 1000 + ms), ((s * 1000 + ms) // 1000, ((s * 1000 + ms) % 1000) * 1000000)))
    for _ in range(60):
        s = rng.randrange(0, 2 ** 35)
        ls.append(("bin events msgpack - BA1 I%d@epoch_second EA" % s, (s, 0)))
    return ls


def read_mp_timestamp(b):
    """independent reader of the three timestamp layouts; returns (seconds, nanoseconds) of the first timestamp found"""
    i = 0
    while i < len(b):
        if b[i] == 0xd6 and b[i + 1] == 0xff:
            return int.from_bytes(b[i + 2:i + 6], "big"), 0
        if b[i] == 0xd7 and b[i + 1] == 0xff:
            v = int.from_bytes(b[i + 2:i + 10], "big")
            return v & ((1 << 34) - 1), v >> 34
        if b[i] == 0xc7 and b[i + 1] == 12 and b[i + 2] == 0xff:
            return int.from_bytes(b[i + 7:i + 15], "big", signed=True), int.from_bytes(b[i + 3:i + 7], "big")
        i += 1
    return None


def ts_oracle_factory(meta):
    def oracle(line, impl, model, ref=None):
        want = meta[line]
        if not impl.startswith("ok x"):
            return "a timestamp inside MessagePack's range was refused: " + impl
        got = read_mp_timestamp(bytes.fromhex(impl.split()[1][1:]))
        if got is None:
            return None                      # written as a plain integer: nothing to judge here
        if got != want:
            return "the timestamp written denotes %r, the value pushed was %r (seconds, nanoseconds)" % (got, want)
        return None
    return oracle


def uses_u64_big(v):
    if isinstance(v, int) and not isinstance(v, bool):
        return v > 2 ** 63 - 1
    if isinstance(v, list):
        return any(uses_u64_big(x) for x in v)
    if isinstance(v, Obj):
        return any(uses_u64_big(x) for _, x in v.members)
    if isinstance(v, Tagged):
        return uses_u64_big(v.value)
    return False


def spec_judge_events(ctx, lines, impls, meta):
    """the bytes are well-formed per the Lean reference decoder and denote the pushed data"""
    q = []
    idx = []
    for i, (l, o) in enumerate(zip(lines, impls)):
        if o.startswith("ok x"):
            q.append("bin sdec %s %s" % (l.split()[2], o.split()[1]))
            idx.append(i)
    outs = vlib.run_model(q)
    for i, r in zip(idx, outs):
        l = lines[i]
        v, lied = meta[l]
        fmt = l.split()[2]
        if r == "ill":
            ctx.fail_inputs.append(("spec-judge", l, impls[i], r, "the encoder's output is not well-formed %s" % fmt))
            continue
        if r == "unjudged":
            continue
        want = wire.canon_nan(c06.norm_for(fmt, v, "o"))
        have = value_from_spec(r)
        if not c06.same(have, want) and not (fmt == "ubjson" and has_bytes(v)):
            ctx.fail_inputs.append(("spec-judge", l, impls[i], r, "the encoder's output denotes a different value than the one pushed (reference decoder)"))


def has_bytes(v):
    if isinstance(v, tuple) and v[0] == "b":
        return True
    if isinstance(v, list):
        return any(has_bytes(x) for x in v)
    if isinstance(v, Obj):
        return any(has_bytes(x) for _, x in v.members)
    if isinstance(v, Tagged):
        return has_bytes(v.value)
    return False


# ---- lengths and counts at the width boundaries of the formats' length prefixes -----------------------------------------------------

# CBOR: 23/24 (in the initial byte / one byte), 255/256, 65535/65536; MessagePack: 15/16 and 31/32 (fix forms), 255/256, 65535/65536;
# UBJSON: 127/128 (i / U), 255/256 (U / I), 32767/32768 (I / l, both signed); BSON: int32 throughout (a control: nothing changes).
BOUNDARY_SMALL = (15, 16, 23, 24, 31, 32, 127, 128, 255, 256)
BOUNDARY_BIG = (32767, 32768, 65535, 65536)
REF_UBJSON_BYTES_MAX = 32768          # the reference reads a UBJSON byte string as a typed array, quadratic in its length: above this
#                                       length the encoder's output is judged by the library's own decoder only


def boundary_values(kind, n, fmt):
    """the value of one kind whose length / count is n"""
    if kind == "str":
        return b"a" * n
    if kind == "str2":
        return b"\xc3\xa9" * (n // 2) + b"a" * (n % 2)          # n bytes, fewer characters: the prefix counts bytes
    if kind == "key":
        return Obj([(b"k" * n, None)])
    if kind == "bytes":
        return ("b", bytes((i * 7 + 1) & 0xff for i in range(n)))
    if kind == "arr":
        return [None] * n
    if kind == "obj":
        return Obj([(b"%d" % i, None) for i in range(n)])
    raise ValueError(kind)


def events_of(v):
    """the definite-length event sequence of a value"""
    if v is None:
        return ["N"]
    if isinstance(v, bytes):
        return ["S" + v.hex()]
    if isinstance(v, tuple) and v[0] == "b":
        return ["B" + v[1].hex()]
    if isinstance(v, list):
        return ["BA%d" % len(v)] + [t for x in v for t in events_of(x)] + ["EA"]
    if isinstance(v, Obj):
        return ["BO%d" % len(v.members)] + [t for k, x in v.members for t in ["K" + k.hex()] + events_of(x)] + ["EO"]
    raise ValueError(v)


def gen_boundary_lines(rng, tier):
    """strings (ASCII and two-byte characters), member names, byte strings, arrays and objects whose length / count sits on either side
    of every width boundary of every format, at one random place inside the 16-bit window and at one above 65536; pushed as
    events into each encoder and, for a share, handed over as a value (encode_X). Objects with tens of thousands of members cost the
    reference decoders (and ojson) quadratic time: their counts stop at 256 in the quick tier."""
    big = list(BOUNDARY_BIG) + [rng.randint(32769, 65534), rng.randint(65537, 99999)]
    ls = []
    for fmt in FMTS:
        opts = "p0" if fmt == "cbor" else "-"
        for kind in ("str", "str2", "key", "bytes", "arr", "obj"):
            sizes = list(BOUNDARY_SMALL) + (big if kind != "obj" else ([32767, 32768] if tier == "thorough" else []))
            if fmt == "bson":
                sizes = [n for n in sizes if n <= 256 or n in (32768, 65536)]       # int32 lengths throughout: a control
            for n in sizes:
                v = boundary_values(kind, n, fmt)
                if fmt == "bson" and kind not in ("key", "obj"):
                    v = Obj([(b"v", v)])
                ls.append(("bin events %s %s %s" % (fmt, opts, " ".join(events_of(v))), v))
                if n <= 256 or n in (32768, 65535) and kind in ("str", "bytes", "arr", "key"):
                    ls.append(("bin enc %s o %s %s" % (fmt, opts, wire.render(v)), v))
    return ls


def spec_judge_boundaries(ctx, lines, impls, meta):
    """the bytes are well-formed per the Lean reference decoder of the format and denote the value handed to the encoder"""
    q, idx = [], []
    for i, (l, o) in enumerate(zip(lines, impls)):
        if o.startswith("ok x"):
            v = meta[l][0]
            fmt = l.split()[2]
            if fmt == "ubjson" and isinstance(v, tuple) and len(v[1]) > REF_UBJSON_BYTES_MAX:
                continue
            q.append("bin sdec %s %s" % (fmt, o.split()[1]))
            idx.append(i)
    outs = vlib.run_model(q)
    judged = 0
    for i, r in zip(idx, outs):
        l = lines[i]
        v = meta[l][0]
        fmt = l.split()[2]
        if r == "ill":
            ctx.fail_inputs.append(("length-boundaries", l, impls[i][:400], r, "the encoder's output is not well-formed %s (reference decoder)" % fmt))
            continue
        if r == "unjudged":
            continue                           # BSON binary elements: the rendering is jsoncons' own choice
        judged += 1
        want = wire.canon_nan(c06.norm_for(fmt, v, "o"))
        if not c06.same(value_from_spec(r), want):
            ctx.fail_inputs.append(("length-boundaries", l, impls[i][:400], r[:400], "the encoder's output denotes a different value than the one handed over (reference decoder)"))
    return judged


# ---- CBOR decimal fractions (tag 4) and bigfloats (tag 5) written from tagged text ---------------------------------------------------

import re as _re
DEC_LITERAL = _re.compile(rb"^([+-]?)([0-9]+)(?:\.([0-9]+))?(?:[eE]([+-]?)([0-9]+))?$")
JSON_NUMBER = _re.compile(rb"^-?(0|[1-9][0-9]*)(\.[0-9]+)?([eE][+-]?[0-9]+)?$")
HEX_LITERAL = _re.compile(rb"^(-?)0[xX]([0-9a-fA-F]+)(?:\.([0-9a-fA-F]*))?(?:[pP]([+-]?)([0-9a-fA-F]+))?$")
MANTISSA_EDGES = [0, 1, 9, 10, 15, 255, 2 ** 31, 2 ** 32, 2 ** 53 + 1, 2 ** 63 - 1, 2 ** 63, 2 ** 63 + 1, 2 ** 64 - 1, 2 ** 64, 2 ** 64 + 1, 10 ** 19, 10 ** 20 - 1,
                  2 ** 72, 2 ** 128 - 1, 10 ** 38 + 7, 2 ** 176, 2 ** 184 - 1, 2 ** 184, 2 ** 191, 2 ** 192 - 1, 2 ** 192, 2 ** 200, 2 ** 2040 - 1, 2 ** 2040, 2 ** 2048 - 1, 2 ** 2048]
EXPONENT_EDGES = [0, 1, 2, 3, 5, 9, 10, 17, 18, 19, 20, 23, 24, 99, 255, 256, 308, 324, 400, 4000, 65535, 65536, 2 ** 31 - 1, 2 ** 31, 2 ** 32, 10 ** 15, 2 ** 62]


def gen_decimal_texts(rng, n):
    """the decimal-literal grammar  sign? digits [. digits] [(e|E) sign? digits]  in all its combinations: fraction and exponent together,
    either alone, neither; leading zeros in the exponent; negative exponents; trailing zeros; mantissas on both sides of 2^63 / 2^64 and
    far beyond; a small share with a '+' sign or leading zeros in the integer part (outside JSON's grammar: judged only if accepted)"""
    out = [b"1.5e3", b"-12.5E-2", b"0.001e+6", b"3.14159e0", b"273.15", b"1e3", b"25e-2", b"0", b"-0", b"0.0", b"-0.0e-0", b"0e0", b"1.0", b"10", b"1.50e+007",
           b"18446744073709551616.15", b"-18446744073709551616e-5", b"184467440737.09551616e5", b"9223372036854775807", b"-9223372036854775808",
           b"-9223372036854775.809e3", b"0.000000000000000000000000000001e30", b"1e-0005", b"1.5e400", b"-2.25e-400", b"1E400"]
    for _ in range(n):
        r = rng.random()
        if r < 0.45:
            digs = str(rng.choice(MANTISSA_EDGES) + rng.choice([0, 0, 1, -1, 5]) if rng.random() < 0.8 else rng.getrandbits(rng.choice([64, 65, 90, 130])))
            digs = digs.lstrip("-") or "0"
        else:
            digs = str(rng.randrange(10 ** rng.randint(1, 30)))
        if rng.random() < 0.25:
            digs += "0" * rng.randint(1, 4)                       # trailing zeros stay digits of the mantissa
        cut = rng.randint(1, len(digs)) if rng.random() < 0.7 else len(digs)
        ip, fp = digs[:cut], digs[cut:]
        if rng.random() < 0.15:
            ip, fp = "0", "0" * rng.randint(0, 5) + digs             # 0.000ddd
        if len(ip) > 1 and ip[0] == "0":
            ip = ip.lstrip("0") or "0"
        if rng.random() < 0.04:
            ip = "0" * rng.randint(1, 3) + ip                     # outside JSON's grammar
        ex = ""
        if rng.random() < 0.7:
            e = rng.choice(EXPONENT_EDGES) if rng.random() < 0.6 else rng.randint(0, 400)
            ex = rng.choice("eE") + rng.choice(["", "", "+", "-", "-"]) + "0" * (rng.randint(1, 3) if rng.random() < 0.2 and e < 10 ** 15 else 0) + str(e)
        sign = "-" if rng.random() < 0.35 else ("+" if rng.random() < 0.04 else "")
        out.append((sign + ip + ("." + fp if fp else "") + ex).encode())
    return out


def gen_hexfloat_texts(rng, n):
    """[-]0x hex [. hex] [(p|P) sign? hex]  (jsoncons writes and reads the exponent in hexadecimal)"""
    out = [b"0x3p-1", b"0x1.8", b"-0x1.8", b"0x0.1", b"0xFFFFFFFFFFFFFFFF.F", b"0x1.8p1", b"0x.8", b"0x1.", b"0x10p10", b"0X1P+A", b"-0x1p-1F"]
    for _ in range(n):
        m = rng.choice(MANTISSA_EDGES) if rng.random() < 0.6 else rng.getrandbits(rng.choice([8, 40, 64, 65, 100]))
        h = "%x" % m if rng.random() < 0.3 else "%X" % m
        r = rng.random()
        if r < 0.4:
            cut = rng.randint(1, len(h))
            h = h[:cut] + "." + h[cut:]
        t = ("-" if rng.random() < 0.4 else "") + rng.choice(["0x", "0x", "0X"]) + h
        if "." not in h or rng.random() < 0.3:
            e = rng.choice(EXPONENT_EDGES[:24]) if rng.random() < 0.6 else rng.randint(0, 100000)
            t += rng.choice("pP") + rng.choice(["", "+", "-", "-"]) + ("%x" % e if rng.random() < 0.3 else "%X" % e)
        out.append(t.encode())
    return out


def gen_bignum_text_lines(rng, n):
    ls = []
    for tag, texts in (("bigdec", gen_decimal_texts(rng, n)), ("bigfloat", gen_hexfloat_texts(rng, n // 3))):
        for t in texts:
            if rng.random() < 0.5:
                ls.append("bin enc cbor j p0 s%s@%s" % (t.hex(), tag))
            else:
                ls.append("bin events cbor p0 S%s@%s" % (t.hex(), tag))
    return ls


def strip_factor(m, e, base):
    """(m, e) with m * base^e unchanged and m not divisible by base: equal numbers have equal normal forms"""
    if m == 0:
        return (0, 0)
    while m % base == 0:
        m //= base
        e += 1
    return (m, e)


def literal_value(tag, text):
    """(mantissa, exponent, base, in JSON's number grammar) of the number a literal denotes, or None if the text is outside the grammar"""
    if tag == "bigdec":
        g = DEC_LITERAL.match(text)
        if not g:
            return None
        frac = g.group(3) or b""
        m = int(g.group(2) + frac) * (-1 if g.group(1) == b"-" else 1)
        e = (int(g.group(5)) * (-1 if g.group(4) == b"-" else 1) if g.group(5) else 0) - len(frac)
        return m, e, 10, bool(JSON_NUMBER.match(text))
    g = HEX_LITERAL.match(text)
    if not g:
        return None
    frac = g.group(3) or b""
    m = int(g.group(2) + frac, 16) * (-1 if g.group(1) == b"-" else 1)
    e = (int(g.group(5), 16) * (-1 if g.group(4) == b"-" else 1) if g.group(5) else 0) - 4 * len(frac)
    return m, e, 2, False


def bignum_text_oracle(line, impl, model, ref=None):
    """the library's own reading of what it wrote (the reference's reading is judged by spec_judge_bignum_text)"""
    from fractions import Fraction
    tok = line.split()[-1]
    text, tag = bytes.fromhex(tok[1:].split("@")[0]), tok.split("@")[1]
    lit = literal_value(tag, text)
    if impl.startswith("err"):
        if lit and lit[3] and abs(lit[1]) < 2 ** 63 and len(_re.split(rb"[eE][+-]?", text)[-1]) <= 19:
            return "the CBOR encoder refused a bigdec string that is a JSON number: " + impl
        return None                  # outside JSON's grammar ('+', leading zeros), an exponent field longer than dec_to_integer takes (19 characters),
        #                              or a bigfloat spelling the encoder does not take: a refusal is an answer
    if lit is None:
        return None
    parts = [p.strip() for p in impl.split("|")]
    if len(parts) >= 2 and parts[1].startswith("err"):
        # jsoncons' own decoder takes exponents of int32 range only (read_decimal_fraction / read_bigfloat refuse the rest), and for tag 4
        # not the last few below INT_MAX either (exponent + number of characters of the mantissa must stay in int; INT_MIN is refused: D84).
        # An implementation limit reported through the error channel; what was written is judged by the reference decoder alone
        if not -2 ** 31 <= lit[1] <= 2 ** 31 - 1:
            return None
        if tag == "bigdec" and (lit[1] > 2 ** 31 - 1 - len(str(lit[0])) or lit[1] == -2 ** 31):
            return None
    if len(parts) < 2 or not parts[1].startswith("ok "):
        return "the encoder's output does not decode: " + impl[-120:]
    have = wire.parse_all(parts[1][3:])[0]
    if not (isinstance(have, Tagged) and have.tag == tag):
        return "the library reads its own tag-%d item back as something else: %s" % (4 if tag == "bigdec" else 5, parts[1][:80])
    back = literal_value(tag, have.value)
    if back is None or strip_factor(back[0], back[1], back[2]) != strip_factor(lit[0], lit[1], lit[2]):
        return "the library reads its own output back as a different number: %r" % have.value[:80]
    return None


def spec_judge_bignum_text(ctx, lines, impls):
    """RFC 8949 3.4.4: tag 4 [e, m] denotes m * 10^e, tag 5 [e, m] denotes m * 2^e. The pair is read by the Lean reference decoder (which
    leaves the rendering of tags 4 and 5 to jsoncons: it is given the array behind the one-byte tag head, checked here to be 0xc4 / 0xc5)
    and must denote exactly the number the literal denotes: fractions.Fraction where the exponent is small enough to expand, and the
    normal form (mantissa not divisible by the base, exponent) — equal for equal numbers — everywhere"""
    from fractions import Fraction
    q, idx = [], []
    for i, (l, o) in enumerate(zip(lines, impls)):
        if o.startswith("ok x"):
            b = o.split()[1][1:]
            tok = l.split()[-1]
            tag = tok.split("@")[1]
            if literal_value(tag, bytes.fromhex(tok[1:].split("@")[0])) is None:
                continue
            if b[:2] != ("c4" if tag == "bigdec" else "c5"):
                ctx.fail_inputs.append(("cbor-bignum-text", l, o[:300], None, "a %s string was not written under tag %d" % (tag, 4 if tag == "bigdec" else 5)))
                continue
            q.append("bin sdec cbor x" + b[2:])
            idx.append(i)
    outs = vlib.run_model(q)
    judged = 0
    for i, r in zip(idx, outs):
        l = lines[i]
        tok = l.split()[-1]
        text, tag = bytes.fromhex(tok[1:].split("@")[0]), tok.split("@")[1]
        m, e, base, _ = literal_value(tag, text)
        pair = wire.parse_all(r[3:])[0] if r.startswith("ok ") else None
        if isinstance(pair, list) and len(pair) == 2 and isinstance(pair[1], Tagged) and pair[1].tag == "bigint":
            pair = [pair[0], int(pair[1].value)]                  # a bignum mantissa (tags 2 / 3)
        if not (isinstance(pair, list) and len(pair) == 2 and all(isinstance(x, int) and not isinstance(x, bool) for x in pair)):
            ctx.fail_inputs.append(("cbor-bignum-text", l, impls[i][:300], r[:300], "what follows tag %d is not a well-formed array of two integers [exponent, mantissa]" % (4 if tag == "bigdec" else 5)))
            continue
        judged += 1
        eo, mo = pair
        same = strip_factor(mo, eo, base) == strip_factor(m, e, base)
        if max(abs(e), abs(eo)) <= 5000:
            exact = Fraction(mo) * Fraction(base) ** eo
            if tag == "bigdec":
                same = same and exact == Fraction(text.decode())
            else:
                same = same and exact == Fraction(m) * Fraction(2) ** e
        if not same:
            ctx.fail_inputs.append(("cbor-bignum-text", l, impls[i][:300], r[:300], "%r was written as %d * %d^%d, which is a different number" % (text, mo, base, eo)))
    return judged


# ---- JSON text from events / from decoded binary values --------------------------------------------------------

def json_value_of(v):
    """what the JSON text must denote for a pushed value"""
    if isinstance(v, tuple) and v[0] == "big":
        return ("big", v[1])
    if isinstance(v, tuple) and v[0] == "d":
        import struct
        f = struct.unpack("<d", struct.pack("<Q", v[1]))[0]
        if f != f or f in (float("inf"), float("-inf")):
            return None                       # NaN / Inf become null
        return v
    if isinstance(v, tuple) and v[0] == "b":
        return ("anystr",)
    if isinstance(v, Tagged):
        return json_value_of(v.value)
    if isinstance(v, list):
        return [json_value_of(x) for x in v]
    if isinstance(v, Obj):
        return Obj([(k, json_value_of(x)) for k, x in v.members])
    return v


def json_same(have, want):
    if isinstance(want, tuple) and want[0] == "anystr":
        return isinstance(have, bytes)
    if isinstance(want, tuple) and want[0] == "big":
        if jt.INT_RE.match(want[1]) or c04_num(want[1]):
            return True                         # judged by C01/C04
        return False
    if isinstance(want, tuple) and want[0] == "d":
        return isinstance(have, (tuple, int)) and not isinstance(have, bool)
    if isinstance(want, list) and isinstance(have, list):
        return len(want) == len(have) and all(json_same(h, w) for h, w in zip(have, want))
    if isinstance(want, Obj) and isinstance(have, Obj):
        return len(want.members) == len(have.members) and all(kh == kw and json_same(h, w) for (kh, h), (kw, w) in zip(have.members, want.members))
    return type(have) == type(want) and have == want


def c04_num(b):
    import re
    return bool(re.match(rb"^-?(0|[1-9][0-9]*)(\.[0-9]+)?([eE][+-]?[0-9]+)?$", b))


@vlib.known_matcher("D13")
def _match_d13(stream, line, impl, model):
    """JSON encoders write bigint/bigdec-tagged text raw: text that is not a JSON number yields invalid JSON"""
    t = line.split()
    if t[0] != "bin" or t[1] != "jsonev":
        return False
    for tok in t[3:]:
        if tok.startswith("S") and ("@bigint" in tok or "@bigdec" in tok):
            text = bytes.fromhex(tok[1:].split("@")[0])
            if not c04_num(text):
                return True
    return False


def spec_judge_json(ctx, lines, impls, meta):
    q = []
    idx = []
    for i, (l, o) in enumerate(zip(lines, impls)):
        if o.startswith("ok x"):
            q.append("jt sparse c0t0 " + o.split()[1])
            idx.append(i)
    outs = vlib.run_model(q)
    for i, r in zip(idx, outs):
        l = lines[i]
        v, _ = meta[l]
        why = None
        if r == "err":
            why = "the JSON encoder wrote text that a strict RFC 8259 parser rejects"
        else:
            try:
                have = jt.expected_value(jt.parse_spec_tokens(r[3:]), "o")
                if not json_same(have, json_value_of(v)):
                    why = "the JSON text denotes a different value than the events pushed"
            except jt.Unjudged:
                pass
        if why:
            k = ctx.match_known("jsonev", l, impls[i], None)
            if k:
                n, _ = ctx.known_hits.get(k["id"], (0, k["what"]))
                ctx.known_hits[k["id"]] = (n + 1, k["what"])
            else:
                ctx.fail_inputs.append(("spec-judge", l, impls[i], r, why))


# ---- transcoding ---------------------------------------------------------------------------------------------------

def gen_trans_lines(rng, n):
    ls = []
    for _ in range(n):
        f1 = rng.choice(FMTS)
        v = c07.clean_for(f1, c07.gen_value(rng, rng.randint(0, 3), f1)) if f1 != "cbor" else c07.gen_value(rng, rng.randint(0, 3), "cbor")
        b = binfmt.cbor_encode(v, rng, minimal=False) if f1 == "cbor" else c07.ENCODERS[f1](v, rng, minimal=False)
        if rng.random() < 0.5:
            ls.append("bin tojson %s - x%s" % (f1, b.hex()))
        else:
            ls.append("bin trans %s %s x%s" % (f1, rng.choice(FMTS), b.hex()))
    return ls


def trans_oracle(line, impl, model, ref=None):
    t = line.split()
    if not impl.startswith("ok "):
        return None                     # the input was not accepted: nothing to transcode
    parts = [p.strip() for p in impl.split("|")]
    if t[1] == "trans":
        if parts[1].startswith("err"):
            return None                 # refused at encode time: allowed
        if len(parts) < 3 or not parts[2].startswith("ok "):
            return "a value decoded from %s was re-encoded as %s into bytes that do not decode: %s" % (t[2], t[3], impl[-120:])
    return None


def judge_tojson(ctx, lines, impls):
    q, idx = [], []
    for i, (l, o) in enumerate(zip(lines, impls)):
        if l.split()[1] == "tojson" and o.startswith("ok ") and " | x" in o:
            q.append("jt sparse c0t0 " + o.split(" | ")[1])
            idx.append(i)
        if l.split()[1] == "trans" and o.startswith("ok ") and o.count(" | ") >= 2 and o.split(" | ")[1].startswith("x"):
            q.append("bin sdec %s %s" % (l.split()[3], o.split(" | ")[1]))
            idx.append(i)
    outs = vlib.run_model(q)
    for i, r in zip(idx, outs):
        if r == "err":
            k = None
            if "@bigint" in impls[i] or "@bigdec" in impls[i] or "@bigfloat" in impls[i]:
                continue                 # big-number text from a binary format: value syntax is the decoder's (C07) business
            ctx.fail_inputs.append(("transcode", lines[i], impls[i], r, "a value decoded from a binary format was dumped as text that is not RFC 8259 JSON"))
        elif r == "ill":
            ctx.fail_inputs.append(("transcode", lines[i], impls[i], r, "transcoded bytes are not well-formed per the reference decoder"))


# ---- the event-driven encoder models (JV.Model.EncoderEvents) against the real encoders, event for event ------------------------------

def events_of_full(rng, v, lie):
    """the definite-length, untagged event sequence of a core value; `lie` = [n]: chances left to announce one wrong length"""
    if v is None:
        return ["N"]
    if isinstance(v, bool):
        return ["T" if v else "F"]
    if isinstance(v, int):
        if v >= 2 ** 63 or (v >= 0 and rng.random() < 0.3):
            return ["U%d" % v]                                  # uint64_value and int64_value write the same bytes
        return ["I%d" % v]
    if isinstance(v, bytes):
        return ["S" + v.hex()]
    if isinstance(v, tuple) and v[0] == "b":
        return ["B" + v[1].hex()]
    if isinstance(v, tuple) and v[0] == "d":
        return ["D%016x" % v[1]]
    n = len(v) if isinstance(v, list) else len(v.members)
    declared = n
    if lie[0] > 0 and rng.random() < 0.5:
        declared = max(0, n + rng.choice([-1, 1, 2]))
        if declared != n:
            lie[0] -= 1
            lie.append("lied")
    if isinstance(v, list):
        return ["BA%d" % declared] + [t for x in v for t in events_of_full(rng, x, lie)] + ["EA"]
    if isinstance(v, Obj):
        return ["BO%d" % declared] + [t for k, x in v.members for t in ["K" + k.hex()] + events_of_full(rng, x, lie)] + ["EO"]
    raise ValueError(v)


def gen_event_model_lines(rng, n):
    """(line, value the output must denote, lied) - values of the data-model core inside each format's domain (UBJSON / BSON: a share
    with an integer above 2^63-1, which both sides must refuse), every container announced with its length; for CBOR / MessagePack /
    UBJSON a share with ONE wrong announcement (both sides must refuse; BSON ignores announcements). BSON roots: documents, arrays
    (written as the document keyed by the indices), scalars (refused)."""
    out = []
    def add(fmt, v, lie_ok=True):
        lie = [1 if (lie_ok and fmt != "bson" and rng.random() < 0.3) else 0]
        toks = events_of_full(rng, v, lie)
        want = v
        if fmt == "bson" and isinstance(v, list):
            want = Obj([(b"%d" % i, x) for i, x in enumerate(v)])
        out.append(("bin events %s %s %s" % (fmt, "p0" if fmt == "cbor" else "-", " ".join(toks)), want, "lied" in lie))
    for _ in range(n):
        fmt = rng.choice(FMTS)
        v = c06.strip_all_tags(c06.gen_value(rng, rng.randint(0, 3), "msgpack" if rng.random() < 0.1 else fmt, []))
        if fmt == "bson" and not isinstance(v, Obj) and rng.random() < 0.8:
            v = Obj([(b"v", v)])
        add(fmt, v)
    for fmt in FMTS:
        for i in c06.INT_EDGES:
            add(fmt, Obj([(b"k", i)]), False)
            add(fmt, [i, [i]], False)
        for m in (0, 1, 2, 9, 10, 11, 12, 15, 16, 23, 24, 31, 32, 100, 255, 256):
            add(fmt, [rng.choice([0, None, True, b"", -1]) for _ in range(m)], False)
            add(fmt, Obj([(b"a", [None] * m), (b"s", b"x" * m), (b"b", ("b", bytes(range(m)))), (b"k" * max(m, 1), m)]), False)
        for b in c07.F64[:12] + [0x7ff8000000000001, 0x3ff8000000000000, 0x3ff199999999999a]:
            add(fmt, Obj([(b"d", ("d", b))]), False)
        for t in (b"\xc3\xa9", b"\xe2\x82\xac", b"\xf0\x9f\x98\x80", b"a\x00b"):
            add(fmt, Obj([(b"s", t), (b"n", [t, Obj([(b"\xc3\xa9", t)])])]), False)
        add(fmt, Obj([]), False)
        add(fmt, [], False)
        add(fmt, [[], Obj([]), [[Obj([(b"a", [])])]]], False)
    return out


def event_model_line(line):
    t = line.split()
    return "bin mev %s %s" % (t[2], " ".join(t[4:]))


def event_model_oracle_factory(meta):
    base = events_oracle_factory(meta)
    def oracle(line, impl, model, ref=None):
        v, lied = meta[line]
        fmt = line.split()[2]
        if impl.startswith("err"):
            if lied or (fmt in ("ubjson", "bson") and uses_u64_big(v)) or (fmt == "bson" and not isinstance(v, Obj)):
                return None                # a wrong announcement / an integer the format cannot carry / a scalar BSON root: refusing is right
        elif lied:
            return "the encoder accepted a container announced with a wrong length: " + impl[:120]
        return base(line, impl, model, ref)
    return oracle


def nontrivial(line, impl):
    return line if len(line) > 40 else None


def streams(ctx, rng, scale):
    lw = vlib.witness_lines(PROP)
    ev = gen_event_lines(rng, 2500 * scale)
    meta = {l: (v, lied) for l, v, lied in ev}
    lines = [l for l, _, _ in ev]
    st = ctx.correspond("binary-encoders-events", HARNESS, lines, events_oracle_factory(meta), nontrivial, want_model=False)
    if "_impl" in st:
        spec_judge_events(ctx, lines, st["_impl"], meta)
    lb = gen_boundary_lines(rng, ctx.tier)
    bmeta = {l: (v, False) for l, v in lb}
    bl = [l for l, _ in lb]
    st = ctx.correspond("length-boundaries", HARNESS, bl, events_oracle_factory(bmeta), lambda l, i: l[:200], want_model=False)
    if "_impl" in st:
        st["reference_judged"] = spec_judge_boundaries(ctx, bl, st["_impl"], bmeta)
    rnge = vlib.rng_for(ctx.seed, "c08/encoder-events-model")
    em = gen_event_model_lines(rnge, 1500 * scale)
    emeta = {l: (v, lied) for l, v, lied in em}
    el = [l for l in dict.fromkeys(l for l, _, _ in em)]
    st = ctx.correspond("encoder-events-model", HARNESS, el, event_model_oracle_factory(emeta), nontrivial, compare=c06.compare_bytes,
                        model_lines=[event_model_line(l) for l in el])
    if "_impl" in st:
        keep = [(l, o) for l, o in zip(el, st["_impl"]) if not emeta[l][1]]
        spec_judge_events(ctx, [l for l, _ in keep], [o for _, o in keep], emeta)
    ln = gen_bignum_text_lines(rng, 600 * scale)
    st = ctx.correspond("cbor-bignum-text", HARNESS, ln, bignum_text_oracle, lambda l, i: l, want_model=False)
    if "_impl" in st:
        st["reference_judged"] = spec_judge_bignum_text(ctx, ln, st["_impl"])
    ts = gen_timestamp_lines(rng)
    tmeta = dict(ts)
    ctx.correspond("msgpack-timestamps", HARNESS, [l for l, _ in ts], ts_oracle_factory(tmeta), nontrivial, want_model=False)
    jev = gen_json_event_lines(rng, 1500 * scale)
    WIT = ("witness",)
    for w in lw:
        if w.split()[1] == "jsonev":
            jev.append((w, WIT, False))
    lwo = [w for w in lw if w.split()[1] != "jsonev"]
    ctx.correspond("finding-witnesses", HARNESS, lwo, lambda l, i, m, r=None: None, nontrivial, want_model=False)
    jmeta = {l: (v, lied) for l, v, lied in jev}
    jl = [l for l, _, _ in jev]
    st = ctx.correspond("json-encoders-events", HARNESS, jl, lambda l, i, m, r=None: ("the JSON encoder refused well-formed events: " + i) if i.startswith("err") else None,
                        nontrivial, want_model=False)
    if "_impl" in st:
        spec_judge_json(ctx, [l for l in jl if jmeta[l][0] is not WIT], [o for l, o in zip(jl, st["_impl"]) if jmeta[l][0] is not WIT], jmeta)
        spec_judge_json(ctx, [l for l in jl if jmeta[l][0] is WIT], [o for l, o in zip(jl, st["_impl"]) if jmeta[l][0] is WIT], {l: (("big", b""), False) for l in jl})
    lt = gen_trans_lines(rng, 1500 * scale)
    st = ctx.correspond("transcoding", HARNESS, lt, trans_oracle, nontrivial, want_model=False)
    if "_impl" in st:
        judge_tojson(ctx, lt, st["_impl"])


def run(ctx):
    ctx.prove(MODULES, leancheck=(ctx.tier == "thorough"))
    ctx.cov["rule"] = ("grammatically well-formed event sequences (every scalar kind, CBOR tags, definite containers with right and deliberately wrong "
                       "declared lengths, indefinite containers) pushed into the real CBOR/MessagePack/UBJSON/BSON/JSON(compact, pretty) encoders; "
                       "outputs judged by the Lean reference decoders / RFC 8259 reference parser (well-formed and denoting the pushed value; wrong "
                       "lengths must be errors); values decoded from reference-encoded inputs of each format dumped as JSON and re-encoded in every "
                       "other format; strings, member names, byte strings, arrays and objects whose length / count sits on either side of every width boundary "
                       "of the length prefixes (15/16, 23/24, 31/32, 127/128, 255/256, 32767/32768, 65535/65536, inside the 16-bit window and above 65536) as "
                       "events and as values into every encoder, judged by the reference decoders; bigdec-tagged strings over the whole decimal-literal grammar "
                       "and bigfloat-tagged hexadecimal literals into the CBOR encoder, the [exponent, mantissa] pair read by the reference decoder and compared "
                       "as an exact rational with the literal; definite-length untagged event sequences of core values (right and wrong announcements, "
                       "integers at every width edge, BSON document / array / scalar roots) pushed into the real encoders and into the Lean event-driven "
                       "encoder models (JV.Model.EncoderEvents), bytes and refusals compared. non-trivial = sequence longer than 40 characters; distinct by line")
    rng = vlib.rng_for(ctx.seed, "c08")
    streams(ctx, rng, 1 if ctx.tier == "quick" else 10)


def search(ctx):
    for extra in range(1, 3):
        rng = vlib.rng_for(ctx.seed * 1000 + extra, "c08-search")
        before = len(ctx.fail_inputs)
        streams(ctx, rng, 3)
        if len(ctx.fail_inputs) > before:
            return ctx.fail_inputs[before]
    return None


def replay(ctx, path):
    print(open(path).read()[:3000])
    return 1
