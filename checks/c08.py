"""C08 — encoders emit only well-formed output; transcoding stays valid (DESIGN.md §5 C08)."""
import vlib
import wire
import binfmt
import jsontext as jt
from wire import Obj, Tagged
from checks import c06, c07

PROP = "C08"
MODULES = ["JV.Props.C08"]
HARNESS = "bin"

FMTS = ("cbor", "msgpack", "ubjson", "bson")


# ---- event sequences ---------------------------------------------------------------------------------------

def gen_events(rng, depth, fmt, lie):
    """returns (event tokens, value) for one value; `lie` = [n] remaining chances to declare a wrong length"""
    r = rng.random()
    if depth <= 0 or r < 0.4:
        q = rng.random()
        if q < 0.1:
            return ["N"], None
        if q < 0.2:
            b = rng.random() < 0.5
            return ["T" if b else "F"], b
        if q < 0.45:
            v = rng.choice([0, 1, -1, 23, 24, 255, 256, 65535, 65536, 2 ** 31, -2 ** 31 - 1, 2 ** 63 - 1, -2 ** 63])
            return ["I%d" % v], v
        if q < 0.5 and fmt != "bson" and fmt != "ubjson":
            v = rng.choice([2 ** 63, 2 ** 64 - 1])
            return ["U%d" % v], v
        if q < 0.62:
            b = rng.choice(c07.F64[:10])
            return ["D%016x" % b], ("d", b)
        if q < 0.85:
            s = rng.choice(c07.STRS[:6] + [b"abc", b"hello", b"world"])
            if fmt == "cbor" and rng.random() < 0.2:
                tag = rng.choice(["datetime", "uri", "base64url", "base64"])
                return ["S%s@%s" % (s.hex(), tag)], Tagged(tag, s)
            return ["S" + s.hex()], s
        if fmt == "bson":
            return ["N"], None
        b = bytes(rng.randrange(256) for _ in range(rng.choice([0, 1, 3, 24])))
        return ["B" + b.hex()], ("b", b)
    n = rng.randint(0, 4)
    if r < 0.7:
        items = [gen_events(rng, depth - 1, fmt, lie) for _ in range(n)]
        declared = n
        if lie[0] > 0 and rng.random() < 0.15:
            declared = max(0, n + rng.choice([-1, 1, 2]))
            lie[0] -= 1 if declared != n else 0
            if declared != n:
                lie.append("lied")
        indef = rng.random() < 0.3
        head = "BA*" if indef else "BA%d" % declared
        if indef and declared != n:
            lie.remove("lied")
            lie[0] += 1
        toks = [head] + [t for ev, _ in items for t in ev] + ["EA"]
        return toks, [v for _, v in items]
    keys = rng.sample([b"a", b"b", b"c", b"dd", b"\xc3\xa9", b"k" * 24, b"hello"], n)
    items = [gen_events(rng, depth - 1, fmt, lie) for _ in range(n)]
    declared = n
    indef = rng.random() < 0.3
    if not indef and lie[0] > 0 and rng.random() < 0.15:
        declared = max(0, n + rng.choice([-1, 1]))
        if declared != n:
            lie[0] -= 1
            lie.append("lied")
    head = "BO*" if indef else "BO%d" % declared
    toks = [head]
    for k, (ev, _) in zip(keys, items):
        toks += ["K" + k.hex()] + ev
    toks.append("EO")
    return toks, Obj([(k, v) for k, (_, v) in zip(keys, items)])


def gen_event_lines(rng, n):
    ls = []
    for _ in range(n):
        fmt = rng.choice(FMTS)
        lie = [1 if rng.random() < 0.3 else 0]
        toks, v = gen_events(rng, rng.randint(1, 3), fmt, lie)
        if fmt == "bson" and not isinstance(v, Obj):
            toks, v = ["BO*", "K76"] + toks + ["EO"], Obj([(b"v", v)])
        opts = ("p%d" % rng.getrandbits(1)) if fmt == "cbor" else "-"
        ls.append(("bin events %s %s %s" % (fmt, opts, " ".join(toks)), v, "lied" in lie))
    return ls


def gen_json_event_lines(rng, n):
    ls = []
    for _ in range(n):
        toks, v = gen_events(rng, rng.randint(1, 3), "json", [0])
        r = rng.random()
        if r < 0.15:
            big = rng.choice([b"12345678901234567890123", b"-1", b"0", b"1e5", b"12ab", b'"', b"", b"1.5", b"--1", b"0x10", b" 1", b"NaN"])
            toks = ["BA*", "S%s@%s" % (big.hex(), rng.choice(["bigint", "bigdec"]))] + toks + ["EA"]
            v = [("big", big), v]
        ls.append(("bin jsonev %s %s" % (rng.choice("cp"), " ".join(toks)), v, False))
    return ls


def value_from_spec(ref, kind="o"):
    return wire.canon_nan(wire.normalize_objects(wire.parse_all(ref[3:])[0], kind))


def events_oracle_factory(meta):
    def oracle(line, impl, model, ref=None):
        v, lied = meta[line]
        t = line.split()
        fmt = t[2]
        if lied:
            return None        # either an error, or output that still denotes the data actually pushed (judged by the reference decoder)
        if impl.startswith("err"):
            if fmt == "msgpack" and ("BA*" in t or "BO*" in t):
                return None        # MessagePack has no indefinite lengths
            if fmt == "bson" and uses_u64_big(v):
                return None
            return "the encoder refused a well-formed event sequence: " + impl
        # the library's own decoder must read the pushed data back (catches encoder/decoder bookkeeping that drifts apart, e.g. stringref)
        parts = [p.strip() for p in impl.split("|")]
        if len(parts) < 2 or not parts[1].startswith("ok "):
            return "the encoder's output does not decode: " + impl[-120:]
        have = wire.canon_nan(wire.strip_tag(wire.parse_all(parts[1][3:])[0], "noesc"))
        want = wire.canon_nan(c06.norm_for(fmt, v, "o"))
        if not c06.same(have, want):
            return "decoding the encoder's output does not give back the pushed data"
        return None
    return oracle


def gen_timestamp_lines(rng):
    """MessagePack timestamp extension (type -1): the three layouts, around their boundaries"""
    ls = []
    secs = [0, 1, 2 ** 31, 2 ** 32 - 1, 2 ** 32, 2 ** 32 + 1, 5000000000, 2 ** 33, 2 ** 34 - 1, 2 ** 34, 2 ** 34 + 1, 2 ** 40, -1, -2 ** 31, 2 ** 62]
    for s in secs:
        ls.append(("bin events msgpack - I%d@epoch_second" % s, (s, 0)))
        if s >= 0:
            ls.append(("bin events msgpack - U%d@epoch_second" % s, (s, 0)))
        for ms in (0, 1, 999):
            if abs(s) < 2 ** 50:
                ls.append(("bin events msgpack - I%d@epoch_milli" % (s * 1000 + ms), ((s * 1000 + ms) // 1000, ((s * 1000 + ms) % 1000) * 1000000)))
    for _ in range(60):
        s = rng.randrange(0, 2 ** 35)
        ls.append(("bin events msgpack - BA1 I%d@epoch_second EA" % s, (s, 0)))
    return ls


def read_mp_timestamp(b):
    """independent reader of the three timestamp layouts; returns (seconds, nanoseconds) of the first timestamp found"""
    i = 0
    while i < len(b):
        if b[i] == 0xd6 and b[i + 1] == 0xff:
            return int.from_bytes(b[i + 2:i + 6], "big"), 0
        if b[i] == 0xd7 and b[i + 1] == 0xff:
            v = int.from_bytes(b[i + 2:i + 10], "big")
            return v & ((1 << 34) - 1), v >> 34
        if b[i] == 0xc7 and b[i + 1] == 12 and b[i + 2] == 0xff:
            return int.from_bytes(b[i + 7:i + 15], "big", signed=True), int.from_bytes(b[i + 3:i + 7], "big")
        i += 1
    return None


def ts_oracle_factory(meta):
    def oracle(line, impl, model, ref=None):
        want = meta[line]
        if not impl.startswith("ok x"):
            return "a timestamp inside MessagePack's range was refused: " + impl
        got = read_mp_timestamp(bytes.fromhex(impl.split()[1][1:]))
        if got is None:
            return None                      # written as a plain integer: nothing to judge here
        if got != want:
            return "the timestamp written denotes %r, the value pushed was %r (seconds, nanoseconds)" % (got, want)
        return None
    return oracle


def uses_u64_big(v):
    if isinstance(v, int) and not isinstance(v, bool):
        return v > 2 ** 63 - 1
    if isinstance(v, list):
        return any(uses_u64_big(x) for x in v)
    if isinstance(v, Obj):
        return any(uses_u64_big(x) for _, x in v.members)
    if isinstance(v, Tagged):
        return uses_u64_big(v.value)
    return False


def spec_judge_events(ctx, lines, impls, meta):
    """the bytes are well-formed per the Lean reference decoder and denote the pushed data"""
    q = []
    idx = []
    for i, (l, o) in enumerate(zip(lines, impls)):
        if o.startswith("ok x"):
            q.append("bin sdec %s %s" % (l.split()[2], o.split()[1]))
            idx.append(i)
    outs = vlib.run_model(q)
    for i, r in zip(idx, outs):
        l = lines[i]
        v, lied = meta[l]
        fmt = l.split()[2]
        if r == "ill":
            ctx.fail_inputs.append(("spec-judge", l, impls[i], r, "the encoder's output is not well-formed %s" % fmt))
            continue
        if r == "unjudged":
            continue
        want = wire.canon_nan(c06.norm_for(fmt, v, "o"))
        have = value_from_spec(r)
        if not c06.same(have, want) and not (fmt == "ubjson" and has_bytes(v)):
            ctx.fail_inputs.append(("spec-judge", l, impls[i], r, "the encoder's output denotes a different value than the one pushed (reference decoder)"))


def has_bytes(v):
    if isinstance(v, tuple) and v[0] == "b":
        return True
    if isinstance(v, list):
        return any(has_bytes(x) for x in v)
    if isinstance(v, Obj):
        return any(has_bytes(x) for _, x in v.members)
    if isinstance(v, Tagged):
        return has_bytes(v.value)
    return False


# ---- JSON text from events / from decoded binary values --------------------------------------------------------

def json_value_of(v):
    """what the JSON text must denote for a pushed value"""
    if isinstance(v, tuple) and v[0] == "big":
        return ("big", v[1])
    if isinstance(v, tuple) and v[0] == "d":
        import struct
        f = struct.unpack("<d", struct.pack("<Q", v[1]))[0]
        if f != f or f in (float("inf"), float("-inf")):
            return None                       # NaN / Inf become null
        return v
    if isinstance(v, tuple) and v[0] == "b":
        return ("anystr",)
    if isinstance(v, Tagged):
        return json_value_of(v.value)
    if isinstance(v, list):
        return [json_value_of(x) for x in v]
    if isinstance(v, Obj):
        return Obj([(k, json_value_of(x)) for k, x in v.members])
    return v


def json_same(have, want):
    if isinstance(want, tuple) and want[0] == "anystr":
        return isinstance(have, bytes)
    if isinstance(want, tuple) and want[0] == "big":
        if jt.INT_RE.match(want[1]) or c04_num(want[1]):
            return True                         # judged by C01/C04
        return False
    if isinstance(want, tuple) and want[0] == "d":
        return isinstance(have, (tuple, int)) and not isinstance(have, bool)
    if isinstance(want, list) and isinstance(have, list):
        return len(want) == len(have) and all(json_same(h, w) for h, w in zip(have, want))
    if isinstance(want, Obj) and isinstance(have, Obj):
        return len(want.members) == len(have.members) and all(kh == kw and json_same(h, w) for (kh, h), (kw, w) in zip(have.members, want.members))
    return type(have) == type(want) and have == want


def c04_num(b):
    import re
    return bool(re.match(rb"^-?(0|[1-9][0-9]*)(\.[0-9]+)?([eE][+-]?[0-9]+)?$", b))


@vlib.known_matcher("D13")
def _match_d13(stream, line, impl, model):
    """JSON encoders write bigint/bigdec-tagged text raw: text that is not a JSON number yields invalid JSON"""
    t = line.split()
    if t[0] != "bin" or t[1] != "jsonev":
        return False
    for tok in t[3:]:
        if tok.startswith("S") and ("@bigint" in tok or "@bigdec" in tok):
            text = bytes.fromhex(tok[1:].split("@")[0])
            if not c04_num(text):
                return True
    return False


def spec_judge_json(ctx, lines, impls, meta):
    q = []
    idx = []
    for i, (l, o) in enumerate(zip(lines, impls)):
        if o.startswith("ok x"):
            q.append("jt sparse c0t0 " + o.split()[1])
            idx.append(i)
    outs = vlib.run_model(q)
    for i, r in zip(idx, outs):
        l = lines[i]
        v, _ = meta[l]
        why = None
        if r == "err":
            why = "the JSON encoder wrote text that a strict RFC 8259 parser rejects"
        else:
            try:
                have = jt.expected_value(jt.parse_spec_tokens(r[3:]), "o")
                if not json_same(have, json_value_of(v)):
                    why = "the JSON text denotes a different value than the events pushed"
            except jt.Unjudged:
                pass
        if why:
            k = ctx.match_known("jsonev", l, impls[i], None)
            if k:
                n, _ = ctx.known_hits.get(k["id"], (0, k["what"]))
                ctx.known_hits[k["id"]] = (n + 1, k["what"])
            else:
                ctx.fail_inputs.append(("spec-judge", l, impls[i], r, why))


# ---- transcoding ---------------------------------------------------------------------------------------------------

def gen_trans_lines(rng, n):
    ls = []
    for _ in range(n):
        f1 = rng.choice(FMTS)
        v = c07.clean_for(f1, c07.gen_value(rng, rng.randint(0, 3), f1)) if f1 != "cbor" else c07.gen_value(rng, rng.randint(0, 3), "cbor")
        b = binfmt.cbor_encode(v, rng, minimal=False) if f1 == "cbor" else c07.ENCODERS[f1](v, rng, minimal=False)
        if rng.random() < 0.5:
            ls.append("bin tojson %s - x%s" % (f1, b.hex()))
        else:
            ls.append("bin trans %s %s x%s" % (f1, rng.choice(FMTS), b.hex()))
    return ls


def trans_oracle(line, impl, model, ref=None):
    t = line.split()
    if not impl.startswith("ok "):
        return None                     # the input was not accepted: nothing to transcode
    parts = [p.strip() for p in impl.split("|")]
    if t[1] == "trans":
        if parts[1].startswith("err"):
            return None                 # refused at encode time: allowed
        if len(parts) < 3 or not parts[2].startswith("ok "):
            return "a value decoded from %s was re-encoded as %s into bytes that do not decode: %s" % (t[2], t[3], impl[-120:])
    return None


def judge_tojson(ctx, lines, impls):
    q, idx = [], []
    for i, (l, o) in enumerate(zip(lines, impls)):
        if l.split()[1] == "tojson" and o.startswith("ok ") and " | x" in o:
            q.append("jt sparse c0t0 " + o.split(" | ")[1])
            idx.append(i)
        if l.split()[1] == "trans" and o.startswith("ok ") and o.count(" | ") >= 2 and o.split(" | ")[1].startswith("x"):
            q.append("bin sdec %s %s" % (l.split()[3], o.split(" | ")[1]))
            idx.append(i)
    outs = vlib.run_model(q)
    for i, r in zip(idx, outs):
        if r == "err":
            k = None
            if "@bigint" in impls[i] or "@bigdec" in impls[i] or "@bigfloat" in impls[i]:
                continue                 # big-number text from a binary format: value syntax is the decoder's (C07) business
            ctx.fail_inputs.append(("transcode", lines[i], impls[i], r, "a value decoded from a binary format was dumped as text that is not RFC 8259 JSON"))
        elif r == "ill":
            ctx.fail_inputs.append(("transcode", lines[i], impls[i], r, "transcoded bytes are not well-formed per the reference decoder"))


def nontrivial(line, impl):
    return line if len(line) > 40 else None


def streams(ctx, rng, scale):
    lw = vlib.witness_lines(PROP)
    ev = gen_event_lines(rng, 2500 * scale)
    meta = {l: (v, lied) for l, v, lied in ev}
    lines = [l for l, _, _ in ev]
    st = ctx.correspond("binary-encoders-events", HARNESS, lines, events_oracle_factory(meta), nontrivial, want_model=False)
    if "_impl" in st:
        spec_judge_events(ctx, lines, st["_impl"], meta)
    ts = gen_timestamp_lines(rng)
    tmeta = dict(ts)
    ctx.correspond("msgpack-timestamps", HARNESS, [l for l, _ in ts], ts_oracle_factory(tmeta), nontrivial, want_model=False)
    jev = gen_json_event_lines(rng, 1500 * scale)
    WIT = ("witness",)
    for w in lw:
        if w.split()[1] == "jsonev":
            jev.append((w, WIT, False))
    lwo = [w for w in lw if w.split()[1] != "jsonev"]
    ctx.correspond("finding-witnesses", HARNESS, lwo, lambda l, i, m, r=None: None, nontrivial, want_model=False)
    jmeta = {l: (v, lied) for l, v, lied in jev}
    jl = [l for l, _, _ in jev]
    st = ctx.correspond("json-encoders-events", HARNESS, jl, lambda l, i, m, r=None: ("the JSON encoder refused well-formed events: " + i) if i.startswith("err") else None,
                        nontrivial, want_model=False)
    if "_impl" in st:
        spec_judge_json(ctx, [l for l in jl if jmeta[l][0] is not WIT], [o for l, o in zip(jl, st["_impl"]) if jmeta[l][0] is not WIT], jmeta)
        spec_judge_json(ctx, [l for l in jl if jmeta[l][0] is WIT], [o for l, o in zip(jl, st["_impl"]) if jmeta[l][0] is WIT], {l: (("big", b""), False) for l in jl})
    lt = gen_trans_lines(rng, 1500 * scale)
    st = ctx.correspond("transcoding", HARNESS, lt, trans_oracle, nontrivial, want_model=False)
    if "_impl" in st:
        judge_tojson(ctx, lt, st["_impl"])


def run(ctx):
    ctx.prove(MODULES, leancheck=(ctx.tier == "thorough"))
    ctx.cov["rule"] = ("grammatically well-formed event sequences (every scalar kind, CBOR tags, definite containers with right and deliberately wrong "
                       "declared lengths, indefinite containers) pushed into the real CBOR/MessagePack/UBJSON/BSON/JSON(compact, pretty) encoders; "
                       "outputs judged by the Lean reference decoders / RFC 8259 reference parser (well-formed and denoting the pushed value; wrong "
                       "lengths must be errors); values decoded from reference-encoded inputs of each format dumped as JSON and re-encoded in every "
                       "other format. non-trivial = sequence longer than 40 characters; distinct by line")
    rng = vlib.rng_for(ctx.seed, "c08")
    streams(ctx, rng, 1 if ctx.tier == "quick" else 10)


def search(ctx):
    for extra in range(1, 3):
        rng = vlib.rng_for(ctx.seed * 1000 + extra, "c08-search")
        before = len(ctx.fail_inputs)
        streams(ctx, rng, 3)
        if len(ctx.fail_inputs) > before:
            return ctx.fail_inputs[before]
    return None


def replay(ctx, path):
    print(open(path).read()[:3000])
    return 1
