"""C19 — allocation failure at any point is handled cleanly (DESIGN.md §5 C19)."""
import vlib
import wire
import binfmt
import jsontext
from wire import Obj

PROP = "C19"
MODULES = ["JV.Props.C19"]
HARNESS = "af"
FLAGS = ["-std=c++17", "-O1", "-g", "-I" + vlib.REPO + "/include", "-I" + vlib.ROOT + "/harness"]          # no sanitizer: the harness replaces operator new/delete itself

LONG = b"a string long enough to live on the heap, not in the small buffer"


def oracle(line, impl, model, ref=None):
    if impl.startswith("ok"):
        return None
    return "allocation failure is not handled cleanly: " + impl[:200]


@vlib.known_matcher("D66")
def _match_d66(stream, line, impl, model):
    """apply_patch is not atomic under allocation failure (the undo entry is pushed after the mutation; the roll back itself allocates)"""
    return line.startswith("af patch") and impl.startswith("CHANGED target-of-failed-apply_patch")


def nontrivial(line, impl):
    return line if impl.startswith("ok allocs=") and int(impl.split()[1].split("=")[1]) >= 3 else None


def val(rng, depth=2):
    r = rng.random()
    if depth <= 0 or r < 0.3:
        return rng.choice([None, True, 1, -5, 2 ** 63, b"short", LONG, LONG + b"!"])
    if r < 0.6:
        return [val(rng, depth - 1) for _ in range(rng.randint(0, 4))]
    return Obj([(k, val(rng, depth - 1)) for k in rng.sample([b"a", b"b", b"c", b"key that is long enough to be on the heap as well........"], rng.randint(0, 4))])


def lines(rng, scale):
    out = []
    for _ in range(40 * scale):
        v = val(rng, 3)
        t = jsontext.render(rng, v)
        out.append("af parse | " + t.hex())
        out.append("af decode | cbor " + binfmt.cbor_encode(v, rng).hex())
        out.append("af decode | msgpack " + binfmt.mp_encode(v, rng).hex())
        w = wire.render(wire.sort_keys(v))
        out.append("af copy | " + w)
        out.append("af dump | " + w)
        other = wire.render(wire.sort_keys(val(rng, 2)))
        out.append("af assign | %s | %s" % (w, other))
        out.append("af assign | %s | %s" % (other, w))
        out.append("af insert | %s | %s" % (wire.render(wire.sort_keys(rng.choice([Obj([(b"a", 1)]), [1, 2], Obj([]), []]))), w))
        out.append("af mergepatch | %s | %s" % (w, other))
        out.append("af jsonpath | %s | s%s" % (w, rng.choice([b"$..*", b"$.a[*]", b"$..[?(@.a)]", b"$[0,1,'a']", b"$..a"]).hex()))
        out.append("af jmespath | %s | s%s" % (w, rng.choice([b"*", b"a[*]", b"sort_by(@, &a)", b"[a, b, {x: c}]", b"a || b | [0]", b"keys(@)", b"map(&a, @)"]).hex()))
    # assignment between values of the same storage kind, every kind (the same-kind branches of copy_assignment replace contents in place)
    kinds = [LONG, LONG + b"!!", ("b", LONG), ("b", b"other bytes, also long enough for the heap"), wire.Tagged("bigint", b"123456789012345678901234567890"),
             [LONG, ("b", LONG)], [("b", b"\x01" * 40), LONG + b"?"], Obj([(b"a", LONG)]), Obj([(b"a", ("b", LONG)), (b"b", 1)]), 1, None]
    for x in kinds:
        for y in kinds:
            out.append("af assign | %s | %s" % (wire.render(x), wire.render(y)))
    # filter expressions whose evaluation moves heap-backed temporaries around (function arguments and results, regex, nested paths)
    books = Obj([(b"books", [Obj([(b"price", 9 + i), (b"title", b"The Lord of the Rings, volume %d of many" % i), (b"tags", [b"fantasy", LONG])]) for i in range(3)])])
    for q in [b"$.books[?(contains(@.title, 'Lord') && @.price < 15)]", b"$.books[?(tokenize(@.title, ' ')[0] == 'The')]", b"$.books[?(length(@.title) > 5)].title",
              b"$.books[?(@.title =~ /The.*/)]", b"$.books[?(starts_with(@.title, 'The Lord') || ends_with(@.title, 'many'))]", b"$.books[?(@.tags[1] == @.tags[1])]",
              b"$.books[?(max(@.price, 3) > 2)]", b"$..[?(@.price)]['title','price']", b"$.books[?(keys(@)[0] == 'price')]"]:
        out.append("af jsonpath | %s | s%s" % (wire.render(books), q.hex()))
    for q in [b"books[?contains(title, 'Lord') && price < `15`].title", b"join(', ', books[*].title)", b"books[*].merge(@, {x: title})", b"sort_by(books, &title)[*].to_string(@)",
              b"books[?starts_with(title, 'The')] | [0].tags[1]", b"map(&to_array(title), books)", b"max_by(books, &price).title", b"not_null(missing, books[0].title)"]:
        out.append("af jmespath | %s | s%s" % (wire.render(books), q.hex()))
    docs = [Obj([(b"a", [1, 2]), (b"b", Obj([(b"c", 1)]))]), [1, [2, 3], Obj([(b"k", LONG)])]]
    patches = [
        [Obj([(b"op", b"add"), (b"path", b"/a/0"), (b"value", [9, LONG])]), Obj([(b"op", b"remove"), (b"path", b"/b")]), Obj([(b"op", b"replace"), (b"path", b"/a/1"), (b"value", Obj([(b"x", 1)]))])],
        [Obj([(b"op", b"copy"), (b"from", b"/a"), (b"path", b"/c")]), Obj([(b"op", b"move"), (b"from", b"/b"), (b"path", b"/d")]), Obj([(b"op", b"test"), (b"path", b"/a/0"), (b"value", 1)])],
        [Obj([(b"op", b"add"), (b"path", b"/0"), (b"value", LONG)]), Obj([(b"op", b"remove"), (b"path", b"/1")])],
    ]
    for d in docs:
        for p in patches:
            out.append("af patch | %s | %s" % (wire.render(wire.sort_keys(d)), wire.render([wire.sort_keys(x) for x in p])))
    schemas = [Obj([(b"type", b"object"), (b"properties", Obj([(b"a", Obj([(b"type", b"integer"), (b"minimum", 3)]))])), (b"required", [b"a"])]),
               Obj([(b"items", Obj([(b"anyOf", [Obj([(b"type", b"string")]), Obj([(b"$ref", b"#/$defs/n")])])])), (b"$defs", Obj([(b"n", Obj([(b"type", b"null")]))]))])]
    for s in schemas:
        for inst in [Obj([(b"a", 1)]), Obj([(b"a", b"x")]), [b"s", None, 5]]:
            out.append("af schema | %s | %s" % (wire.render(wire.sort_keys(s)), wire.render(wire.sort_keys(inst))))
    return out


def streams(ctx, rng, scale):
    lw = vlib.witness_lines(PROP)
    ctx.correspond("finding-witnesses", HARNESS, lw, oracle, nontrivial, want_model=False, flags=FLAGS)
    ctx.correspond("failure-sweeps", HARNESS, lines(rng, scale), oracle, nontrivial, want_model=False, flags=FLAGS)


def run(ctx):
    ctx.prove(MODULES, leancheck=(ctx.tier == "thorough"))
    ctx.cov["rule"] = ("scenarios parse, decode (CBOR, MessagePack), deep copy, assignment over an existing value (both directions of kind), insertion with reallocation, "
                       "apply_patch, apply_merge_patch, json_query, jmespath search, schema compilation + validation, dump/encode; for each generated input a clean run counts "
                       "the allocations N (capped at 400) and the scenario is repeated with std::bad_alloc injected at allocation 1..N through a replaced global operator new; "
                       "after each failure: no block outstanding, survivors serializable / comparable / copyable, sources unchanged, apply_patch target equal to its state "
                       "before the call. non-trivial = a sweep over at least three allocation points")
    rng = vlib.rng_for(ctx.seed, "c19")
    streams(ctx, rng, 1 if ctx.tier == "quick" else 5)


def search(ctx):
    return None


def replay(ctx, path):
    print(open(path).read()[:3000])
    return 1
