"""C09 — basic_json behaves as a value-semantic JSON container (DESIGN.md §5 C09)."""
import itertools
import struct
import vlib
import wire
import values
from wire import Obj, Tagged

PROP = "C09"
MODULES = ["JV.Props.C09"]
HARNESS = "dom"

KEYS = [b"a", b"b", b"c", b"", b"\xc3\xa9", b"z", b"ab", b"B"]
NSLOTS = 4


def small_value(rng, depth=1):
    r = rng.random()
    if depth <= 0 or r < 0.5:
        return rng.choice([None, True, False, 0, 1, -1, 2 ** 63, b"", b"x", b"long string that is stored on the heap ............"])
    if r < 0.75:
        return [small_value(rng, depth - 1) for _ in range(rng.randint(0, 3))]
    ks = rng.sample(KEYS, rng.randint(0, 3))
    return Obj([(k, small_value(rng, depth - 1)) for k in ks])


def gen_seq(rng, kind, nops):
    """returns the op line; tracks which slots hold what kind so that most ops are meaningful, some deliberately not"""
    ops = []
    moved = set()
    state = ["obj"] * NSLOTS

    def v(depth=1):
        x = small_value(rng, depth)
        return wire.render(wire.sort_keys(x) if kind == "j" else x)

    def usable():
        return [s for s in range(NSLOTS) if s not in moved]

    for _ in range(nops):
        a = rng.randrange(NSLOTS)
        src = rng.choice(usable()) if usable() else 0
        r = rng.random()
        k = "k" + rng.choice(KEYS).hex()
        if a in moved:
            # a moved-from slot is valid but unspecified: give it a value again before using it
            x = rng.choice([Obj([]), [], small_value(rng, 2)])
            ops.append("new %d %s" % (a, wire.render(wire.sort_keys(x) if kind == "j" else x)))
            moved.discard(a)
            state[a] = "obj" if isinstance(x, Obj) else "arr" if isinstance(x, list) else "other"
            continue
        if r < 0.10:
            x = rng.choice([Obj([]), [], small_value(rng, 2), small_value(rng, 2)])
            ops.append("new %d %s" % (a, wire.render(wire.sort_keys(x) if kind == "j" else x)))
            state[a] = "obj" if isinstance(x, Obj) else "arr" if isinstance(x, list) else "other"
        elif r < 0.18:
            ops.append("%s %d %d" % (rng.choice(["copy", "assign", "movector"]), a, src))
            if ops[-1].startswith("movector") and a != src:
                moved.add(src)
            state[a] = state[src]
        elif r < 0.22:
            if a != src:
                ops.append("move %d %d" % (a, src))
                moved.add(src)
                state[a] = state[src]
        elif r < 0.27:
            ops.append("%s %d %d" % (rng.choice(["swap", "stdswap"]), a, src))
            state[a], state[src] = state[src], state[a]
        elif r < 0.29:
            ops.append("selfassign %d" % a)
        elif state[a] == "obj" or (r < 0.33):
            q = rng.random()
            if q < 0.22:
                ops.append("set %d %s %s" % (a, k, v()))
            elif q < 0.4:
                ops.append("emplace %d %s %s" % (a, k, v()))
            elif q < 0.5:
                ops.append("erase %d %s" % (a, k))
            elif q < 0.6:
                ops.append("%s %d %s" % (rng.choice(["find", "contains", "count", "at"]), a, k))
            elif q < 0.68:
                ops.append("%s %d" % (rng.choice(["size", "empty", "iter"]), a))
            elif q < 0.70:
                ops.append("clear %d" % a)
            elif q < 0.76:
                lo = rng.randint(0, 3)
                ops.append("eraserange %d %d %d" % (a, lo, lo + rng.randint(0, 3)))        # erase(first, last) on object_range(), up to and past end()
            elif q < 0.84 and state[src] == "obj" and state[a] == "obj":
                ops.append("%s %d %d" % (rng.choice(["merge", "mergeupd"]), a, src))
            else:
                items = []
                for _ in range(rng.randint(1, 5)):
                    items.append("k%s %s" % (rng.choice(KEYS[:4]).hex(), v(0)))
                ops.append("rangeins %d %s" % (a, " ".join(items)))
        elif state[a] == "arr":
            q = rng.random()
            if q < 0.3:
                ops.append("push %d %s" % (a, v()))
            elif q < 0.45:
                ops.append("insat %d %d %s" % (a, rng.randint(0, 4), v()))
            elif q < 0.55:
                ops.append("eraseat %d %d" % (a, rng.randint(0, 4)))
            elif q < 0.62:
                lo = rng.randint(0, 3)
                ops.append("eraserange %d %d %d" % (a, lo, lo + rng.randint(0, 2)))
            elif q < 0.72:
                ops.append("%s %d %d" % ("resize", a, rng.randint(0, 5)))
            elif q < 0.8:
                ops.append("resizev %d %d %s" % (a, rng.randint(0, 5), v(0)))
            elif q < 0.9:
                ops.append("atidx %d %d" % (a, rng.randint(0, 4)))
            else:
                ops.append("%s %d" % (rng.choice(["size", "empty", "clear"]), a))
        else:
            ops.append("%s %d" % (rng.choice(["size", "empty"]), a))
    return "dom seq %s %d %s" % (kind, NSLOTS, " / ".join(ops))


def moved_slots(line):
    """slots whose content is unspecified at the end (moved-from and not re-initialised)"""
    moved = set()
    for op in line.split(" / "):
        t = op.split()
        if t[0] == "dom":
            t = t[4:]
        if not t:
            continue
        if t[0] in ("move", "movector") and t[1] != t[2]:
            moved.add(int(t[2]))
            moved.discard(int(t[1]))
        elif t[0] in ("new", "copy", "assign"):
            moved.discard(int(t[1]))
        elif t[0] in ("swap", "stdswap"):
            a, b = int(t[1]), int(t[2])
            ma, mb = a in moved, b in moved
            moved.discard(a); moved.discard(b)
            if mb: moved.add(a)
            if ma: moved.add(b)
    return moved


def seq_oracle(line, impl, model, ref=None):
    """the Lean model here IS the specification (arrays are sequences, objects are maps with unique keys in key / insertion
    order, copies are independent): a run that differs from it is a run on which the property fails"""
    if model is None:
        return None
    if not compare_seq(line, impl, model):
        return "the container's observable behaviour differs from the sequence/map model (results of the operations or final state of the pool)"
    # independent of the model: unique keys, key order for json
    try:
        _, st = impl.split(" || ")
        for slot in st.split(" ; "):
            bad = check_unique(wire.parse_all(slot)[0], line.split()[2])
            if bad:
                return bad
    except Exception:
        pass
    return None


def check_unique(v, kind):
    if isinstance(v, Obj):
        ks = [k for k, _ in v.members]
        if len(set(ks)) != len(ks):
            return "an object holds the same key twice"
        if kind == "j" and ks != sorted(ks):
            return "a json object is not in key order"
        for _, x in v.members:
            r = check_unique(x, kind)
            if r:
                return r
    if isinstance(v, list):
        for x in v:
            r = check_unique(x, kind)
            if r:
                return r
    return None


def compare_seq(line, io, mo):
    if not io.startswith("ok") or not mo.startswith("ok"):
        return io == mo
    ri, si = io.split(" || ")
    rm, sm = mo.split(" || ")
    import re
    resi = re.findall(r"<([^>]*)>", ri)
    resm = re.findall(r"<([^>]*)>", rm)
    ops = [o.split() for o in line.split(" / ")]
    ops[0] = ops[0][4:]
    if len(resi) != len(resm):
        return False
    for o, a, b in zip(ops, resi, resm):
        if o and o[0] == "move":
            continue                     # the moved-from value is valid but unspecified
        if a != b:
            return False
    moved = moved_slots(line)
    for i, (a, b) in enumerate(zip(si.split(" ; "), sm.split(" ; "))):
        if i in moved:
            continue
        if a.strip() != b.strip():
            return False
    return True


# ---- relational laws ----------------------------------------------------------------------------------------------------------

def bits(f):
    return struct.unpack("<Q", struct.pack("<d", f))[0]


CATALOGUE = [None, True, False, 0, 1, -1, 5, 2 ** 63 - 1, 2 ** 63, 2 ** 64 - 1, -2 ** 63, ("d", bits(0.0)), ("d", bits(1.0)), ("d", bits(-1.5)), ("d", bits(1e300)),
             ("d", bits(float(2 ** 63))), ("d", 0x7ff8000000000000), ("e", 0x3c00), ("e", 0x4000), b"", b"a", b"b", b"1", b"a long string kept on the heap, longer than the small buffer",
             Tagged("bigint", b"1"), Tagged("bigint", b"5"), Tagged("bigint", b"18446744073709551616"), Tagged("bigint", b"-1"), Tagged("bigdec", b"1.0"), Tagged("bigdec", b"1.5"),
             Tagged("datetime", b"a"), ("b", b""), ("b", b"\x01"), Tagged("base64", ("b", b"\x01")), [], [1], [1, 2], [2], [[1]], Obj([]), Obj([(b"a", 1)]), Obj([(b"a", 2)]),
             Obj([(b"a", 1), (b"b", 2)]), Obj([(b"b", 2)]),
             # member names ordered one way and member values the other, at the first and at a later member
             Obj([(b"b", 1)]), Obj([(b"a", 2), (b"c", 0)]), Obj([(b"b", 1), (b"c", 5)]), Obj([(b"a", [2])]), Obj([(b"b", [1])]), Obj([(b"a", 1), (b"c", 1)]), Obj([(b"a", 1), (b"b", 0)])]


def num_value(v):
    """exact numeric value of native numbers (None if not a native number or NaN)"""
    from fractions import Fraction
    if isinstance(v, bool):
        return None
    if isinstance(v, int):
        return Fraction(v)
    if isinstance(v, tuple) and v[0] == "d":
        f = struct.unpack("<d", struct.pack("<Q", v[1]))[0]
        if f != f or f in (float("inf"), float("-inf")):
            return None
        return Fraction(f)
    return None


def is_nan(v):
    return isinstance(v, tuple) and v[0] == "d" and (v[1] >> 52) & 0x7FF == 0x7FF and v[1] & ((1 << 52) - 1)


def cmp_oracle(line, impl, model, ref=None):
    t = line.split()
    a, pos = wire.parse(t, 3)
    b, pos = wire.parse(t, pos)
    f = impl.split()
    if f[0] != "ok":
        return "comparison failed: " + impl
    eq, ne, lt, gt, le, ge, req, rlt, dump, c = f[1] == "eq", f[2] == "NE", f[3] == "lt", f[4] == "gt", f[5] == "le", f[6] == "ge", f[7] == "req", f[8] == "rlt", f[9] == "samedump", int(f[10][1:])
    nan = is_nan(a) or is_nan(b)
    if eq == ne:
        return "operator== and operator!= agree"
    if eq != req:
        return "equality is not symmetric: (a == b) = %s but (b == a) = %s" % (eq, req)
    if not nan:
        if (c == 0) != eq or (c < 0) != lt or (c > 0) != gt or le != (lt or eq) or ge != (gt or eq):
            return "the comparison operators disagree with compare() or with each other"
        if gt != rlt:
            return "a > b and b < a disagree"
        if lt and gt:
            return "a < b and a > b both hold"
        if wire.render(a) == wire.render(b) and not eq:
            return "equality is not reflexive"
    na, nb = num_value(a), num_value(b)
    if na is not None and nb is not None:
        # native numbers: exact ordering, except that integers compared with doubles go through double
        both_int = all(isinstance(x, int) for x in (a, b))
        if both_int:
            want = (na > nb) - (na < nb)
            if c != want:
                return "integers compare %d, exact arithmetic says %d" % (c, want)
    if eq and not dump and kind_sorted(a) and kind_sorted(b) and type(strip(a)) == type(strip(b)) and not isinstance(strip(a), (int, tuple)):
        return "equal values print differently"
    return None


def strip(v):
    return v.value if isinstance(v, Tagged) else v


def kind_sorted(v):
    return True


@vlib.known_matcher("D7")
def _match_d7(stream, line, impl, model):
    """two number-tagged strings (or one and a native number) are compared through double, so distinct big numbers compare equal"""
    t = line.split()
    if t[0] != "dom" or t[1] != "cmp":
        return False
    return "@bigint" in line or "@bigdec" in line or "@bigfloat" in line


# ---- the whole of compare() against JV.Model.Compare.compare ("dom mcmp") ----------------------------------------------------
# values with explicit storage kinds: ("n",) ("t",) ("f",) ("E",)=json() ("I",v) ("U",v) ("d",bits) ("e",bits) ("s",bytes) ("b",bytes)
# ("[",[...]) ("{",[(key,value)...]) with keys in order

def mrender(v):
    k = v[0]
    if k in "ntfE":
        return k
    if k in "IU":
        return "%s%d" % (k, v[1])
    if k == "d":
        return "d%016x" % v[1]
    if k == "e":
        return "e%04x" % v[1]
    if k in "sb":
        return k + v[1].hex()
    if k == "[":
        return " ".join(["["] + [mrender(x) for x in v[1]] + ["]"])
    return " ".join(["{"] + ["k%s %s" % (key.hex(), mrender(x)) for key, x in v[1]] + ["}"])


def dbits(f):
    return ("d", bits(f))


def half_value(h):
    from fractions import Fraction
    s, e, m = h >> 15, (h >> 10) & 31, h & 1023
    if e == 31:
        return None
    val = Fraction(m, 2 ** 24) if e == 0 else Fraction(m + 1024) * Fraction(2) ** (e - 25)
    return -val if s else val


def m_alphabet():
    P53, P63, P64 = 2 ** 53, 2 ** 63, 2 ** 64
    A = [("n",), ("t",), ("f",), ("E",)]
    A += [("I", x) for x in (0, 1, -1, 5, P53 - 1, P53, P53 + 1, P53 + 2, P53 + 3, -P53, -P53 - 1, -P53 - 2, 2 ** 62, P63 - 1, P63 - 2, P63 - 512,
                             P63 - 513, -P63, -P63 + 1, -P63 + 512, -P63 + 513)]
    A += [("U", x) for x in (0, 1, 5, P53, P53 + 1, P63 - 1, P63, P63 + 1, P63 + 1024, P63 + 1025, P63 + 3072, P64 - 1, P64 - 1024, P64 - 1025, P64 - 2048)]
    fl = [0.0, -0.0, 1.0, -1.0, 5.0, 1.5, float(P53 - 1), float(P53), float(P53 + 2), float(P53 + 4), -float(P53), -float(P53 + 2), float(2 ** 62),
          float(P63), -float(P63), float(P64), 1e300, -1e300]
    A += [dbits(x) for x in fl]
    for x in (float(P63), -float(P63), float(P64), float(P53)):
        b = bits(x)
        A += [("d", b - 1), ("d", b + 1)]
    A += [("d", b) for b in (1, 0x8000000000000001, 0x000fffffffffffff, 0x0010000000000000, 0x7fefffffffffffff, 0xffefffffffffffff, 0x7ff0000000000000,
                             0xfff0000000000000, 0x7ff8000000000000, 0x7ff0000000000001, 0xfff8000000000000)]
    A += [("e", h) for h in (0x0000, 0x8000, 0x3c00, 0x3c01, 0xbc00, 0x0001, 0x8001, 0x03ff, 0x0400, 0x7bff, 0xfbff, 0x7c00, 0xfc00, 0x7e00, 0x4500)]
    A += [("s", x) for x in (b"", b"a", b"b", b"ab", b"a\x00", b"\x7f", b"\x80", b"a" * 13, b"a" * 12 + b"b", b"a" * 14, b"b" + b"a" * 13, b"a" * 13 + b"b",
                             b"a" * 40, b"a" * 39 + b"b", b"1", b"5")]
    A += [("b", x) for x in (b"", b"\x00", b"\x01", b"\x80", b"\x01\x00", b"a", b"a" * 14)]
    I = lambda x: ("I", x)
    nan = ("d", 0x7ff8000000000000)
    arrs = [[], [I(1)], [I(2)], [I(1), I(2)], [I(1), I(3)], [I(2), I(1)], [("[", [])], [("[", [I(1)])], [nan], [nan, I(1)], [nan, I(2)], [dbits(float(P53)), I(1)],
            [I(P53 + 1), I(0)], [I(P53), I(5)], [("s", b"a")], [("n",)], [("E",)], [("{", [])], [("U", 1)], [dbits(1.0)], [dbits(1.0), I(0)], [("e", 0x3c00)],
            [("s", b"a" * 14)], [("b", b"a")], [I(1), I(2), I(3)], [("{", [(b"a", I(1))])]]
    A += [("[", x) for x in arrs]
    objs = [[], [(b"a", I(1))], [(b"a", I(2))], [(b"b", I(1))], [(b"a", I(1)), (b"b", I(2))], [(b"a", I(1)), (b"b", I(3))], [(b"a", I(1)), (b"c", I(0))],
            [(b"a", I(2)), (b"b", I(0))], [(b"", ("n",))], [(b"a", ("[", [I(1)]))], [(b"a", ("{", []))], [(b"a", ("E",))], [(b"a", nan)], [(b"a", nan), (b"b", I(1))],
            [(b"a", nan), (b"b", I(2))], [(b"\x80", I(1))], [(b"ab", I(1))], [(b"a", dbits(1.0))], [(b"a", ("U", 1))], [(b"a", I(P53 + 1))], [(b"a", dbits(float(P53)))],
            [(b"a", I(P53))], [(b"a", I(1)), (b"b", I(2)), (b"c", I(3))], [(b"a" * 14, I(1))]]
    A += [("{", x) for x in objs]
    return A


def m_random_value(rng, scalars, depth):
    r = rng.random()
    if depth <= 0 or r < 0.55:
        return rng.choice(scalars)
    if r < 0.8:
        return ("[", [m_random_value(rng, scalars, depth - 1) for _ in range(rng.randint(0, 3))])
    ks = sorted(rng.sample([b"", b"a", b"b", b"ab", b"\x80", b"c"], rng.randint(0, 3)))
    return ("{", [(k, m_random_value(rng, scalars, depth - 1)) for k in ks])


def m_mutate(rng, v, scalars):
    """a value equal to v except (perhaps) at one position, or shorter/longer by one element"""
    if v[0] == "[":
        xs = list(v[1])
        q = rng.random()
        if xs and q < 0.5:
            i = rng.choice([0, len(xs) - 1, rng.randrange(len(xs))])
            xs[i] = m_mutate(rng, xs[i], scalars)
        elif xs and q < 0.7:
            xs.pop()
        else:
            xs.append(rng.choice(scalars))
        return ("[", xs)
    if v[0] == "{":
        ms = list(v[1])
        q = rng.random()
        if ms and q < 0.6:
            i = rng.choice([0, len(ms) - 1])
            ms[i] = (ms[i][0], m_mutate(rng, ms[i][1], scalars))
        elif ms and q < 0.8:
            ms.pop(rng.choice([0, len(ms) - 1]))
        else:
            k = rng.choice([b"", b"a", b"b", b"ab", b"\x80", b"c", b"zz"])
            if k not in [x for x, _ in ms]:
                ms = sorted(ms + [(k, rng.choice(scalars))])
        return ("{", ms)
    return rng.choice(scalars) if rng.random() < 0.5 else v


def m_number_pairs(rng, n):
    """stored integers next to the doubles they convert to: n, float(n) and the doubles one step either side"""
    out = []
    for _ in range(n):
        w = rng.choice([53, 54, 55, 60, 62, 63, 64])
        x = rng.getrandbits(w) | (1 << (w - 1))
        if rng.random() < 0.4:                      # half-way cases and their neighbours
            sh = w - 53
            if sh > 0:
                x = ((x >> sh) << sh) + (1 << (sh - 1)) + rng.choice([-1, 0, 0, 1])
        x = min(x, 2 ** 64 - 1)
        neg = rng.random() < 0.3 and x <= 2 ** 63
        iv = ("I", -x) if neg else (("I", x) if x < 2 ** 63 and rng.random() < 0.7 else ("U", x))
        f = float(-x if neg else x)
        b = bits(f)
        for db in (b, b - 1, b + 1):
            out.append((iv, ("d", db)))
            out.append((("d", db), iv))
    return out


def m_spec(a, b):
    """the JSON data model's verdict (-1, 0, 1) where it has one for this pair and compare() is supposed to follow it; None otherwise"""
    from fractions import Fraction

    def num(v):
        if v[0] in "IU":
            return Fraction(v[1])
        if v[0] == "d":
            e = (v[1] >> 52) & 0x7FF
            if e == 0x7FF:
                return None
            return Fraction(struct.unpack("<d", struct.pack("<Q", v[1]))[0])
        return None
    if a[0] in "IUd" and b[0] in "IUd":
        x, y = num(a), num(b)
        if x is None or y is None:
            return None
        return (x > y) - (x < y)
    if a[0] == b[0] and a[0] in "sb":
        return (a[1] > b[1]) - (a[1] < b[1])
    if a[0] == "e" and b[0] == "e":
        x, y = half_value(a[1]), half_value(b[1])
        if x is None or y is None:
            return None
        return (x > y) - (x < y)
    if a[0] == "t" or a[0] == "f":
        if b[0] in "tf":
            return (a[0] == "t") - (b[0] == "t")
    if a[0] == "n" and b[0] == "n":
        return 0
    return None


def m_through_double(a, b):
    """documented exclusion X1: a stored integer beyond ±2^53 meets a double — compare() converts the integer to double first"""
    for x, y in ((a, b), (b, a)):
        if x[0] in "IU" and y[0] == "d" and abs(x[1]) > 2 ** 53:
            return True
    return False


def m_parse(t, pos):
    tok = t[pos]
    pos += 1
    if tok in ("n", "t", "f", "E"):
        return (tok,), pos
    if tok == "[":
        xs = []
        while t[pos] != "]":
            x, pos = m_parse(t, pos)
            xs.append(x)
        return ("[", xs), pos + 1
    if tok == "{":
        ms = []
        while t[pos] != "}":
            k = bytes.fromhex(t[pos][1:])
            x, pos = m_parse(t, pos + 1)
            ms.append((k, x))
        return ("{", ms), pos + 1
    if tok[0] in "IU":
        return (tok[0], int(tok[1:])), pos
    if tok[0] in "de":
        return (tok[0], int(tok[1:], 16)), pos
    return (tok[0], bytes.fromhex(tok[1:])), pos


MCMP_EXCLUDED = {"X1": 0}


def mcmp_oracle(line, impl, model, ref=None):
    t = line.split()
    a, pos = m_parse(t, 2)
    b, pos = m_parse(t, pos)
    f = impl.split()
    if f[0] != "ok" or len(f) != 9:
        return "comparison failed: " + impl
    c, rc = int(f[1][1:]), int(f[8][1:])
    want = ["eq" if c == 0 else "ne", "NE" if c != 0 else "EQ", "lt" if c < 0 else "nl", "gt" if c > 0 else "ng", "le" if c <= 0 else "nle", "ge" if c >= 0 else "nge"]
    if f[2:8] != want:
        return "the six operators are not the sign tests of compare()"
    w = m_spec(a, b)
    if w is not None and (c != w or rc != -w):
        if m_through_double(a, b):
            MCMP_EXCLUDED["X1"] += 1
        else:
            return "compare() says %d / %d the other way round; by value the pair orders as %d" % (c, rc, w)
    return None


# the domain of the Lean theorems `eq_is_equivalence_partial` / `lt_is_strict_weak_order_partial` (JV.Props.C09.Dom), on the wire values
def m_in_dom(v, long_strings):
    k = v[0]
    if k == "E":
        return False
    if k == "d":
        return (v[1] >> 52) & 0x7FF != 0x7FF
    if k == "e":
        return (v[1] >> 10) & 31 != 31
    if k in "IU":
        return abs(v[1]) <= 2 ** 53
    if k == "s":
        return (len(v[1]) > 13) == long_strings
    if k == "[":
        return all(m_in_dom(x, long_strings) for x in v[1])
    if k == "{":
        return all(m_in_dom(x, long_strings) for _, x in v[1])
    return True


def m_class(v):
    """the documented classes outside the theorems' domain that a value belongs to"""
    out = set()
    k = v[0]
    if k == "E":
        out.add("empty_object")
    elif k == "d" and (v[1] >> 52) & 0x7FF == 0x7FF:
        if v[1] & ((1 << 52) - 1):
            out.add("nan")          # infinities are ordinary values since the repair D88
    elif k == "e" and (v[1] >> 10) & 31 == 31:
        if v[1] & 1023:
            out.add("nan")
    elif k in "IU" and abs(v[1]) > 2 ** 53:
        out.add("bigint")
    elif k == "s":
        out.add("long" if len(v[1]) > 13 else "short")
    elif k == "[":
        for x in v[1]:
            out |= m_class(x)
    elif k == "{":
        for _, x in v[1]:
            out |= m_class(x)
    return out


def m_triple_excluded(vals):
    """a triple of values on which a relational law may fail for a documented reason (reported to the maintainers of this suite,
    see Props/C09.lean): X1 integers beyond ±2^53 next to doubles, X2 json() (empty_object: kind index 4 sits between uint64 and
    float64, and json() == {} whose kind index is 13), X3 short (kind 7) and long (kind 15) strings next to kinds 12..14,
    X4 NaN (X5, infinities, is gone: D88 was repaired)"""
    cl = set()
    for v in vals:
        cl |= m_class(v)
    if "nan" in cl:
        return "X4"
    if "inf" in cl:
        return "X5"
    if "empty_object" in cl:
        return "X2"
    if "bigint" in cl:
        return "X1"
    if "long" in cl and "short" in cl:
        return "X3"
    return None


def m_laws(ctx, stream, vals, cmpmat):
    """the relational laws on the REAL results, over all triples of `vals`; cmpmat[i][j] = sign of vals[i].compare(vals[j])"""
    n = len(vals)
    excl = {}
    bad = []
    checked = 0
    dom = [m_in_dom(v, False) for v in vals]
    for i in range(n):
        ci = cmpmat[i]
        if ci[i] != 0:
            x = m_triple_excluded([vals[i]])
            if x is None:
                bad.append(("a value is not equal to itself", (i, i, i)))
            else:
                excl[x] = excl.get(x, 0) + 1
        for j in range(n):
            if ci[j] != -cmpmat[j][i]:
                x = m_triple_excluded([vals[i], vals[j]])
                if x is None:
                    bad.append(("compare(a, b) is not -compare(b, a)", (i, j, j)))
                else:
                    excl[x] = excl.get(x, 0) + 1
            cj = cmpmat[j]
            for k in range(n):
                checked += 1
                why = None
                if ci[j] == 0 and cj[k] == 0 and ci[k] != 0:
                    why = "== is not transitive"
                elif ci[j] < 0 and cj[k] < 0 and not ci[k] < 0:
                    why = "< is not transitive"
                elif ci[j] == 0 and (cj[k] < 0) != (ci[k] < 0):
                    why = "a == b but a < c and b < c differ"
                elif not ci[j] < 0 and not cj[i] < 0 and not cj[k] < 0 and not cmpmat[k][j] < 0 and (ci[k] < 0 or cmpmat[k][i] < 0):
                    why = "incomparability under < is not transitive"
                if why:
                    x = m_triple_excluded([vals[i], vals[j], vals[k]])
                    if x is None or (dom[i] and dom[j] and dom[k]):
                        bad.append((why, (i, j, k)))
                    else:
                        excl[x] = excl.get(x, 0) + 1
    for why, (i, j, k) in bad[:5]:
        line = "dom mcmp %s %s" % (mrender(vals[i]), mrender(vals[j]))
        ctx.fail_inputs.append((stream, line, "a=%s b=%s c=%s: a?b=%d b?c=%d a?c=%d" % (mrender(vals[i]), mrender(vals[j]), mrender(vals[k]),
                                                                                     cmpmat[i][j], cmpmat[j][k], cmpmat[i][k]), None, why))
    return checked, excl


def mcmp_stream(ctx, rng, scale):
    A = m_alphabet()
    lines = ["dom mcmp %s %s" % (mrender(a), mrender(b)) for a in A for b in A]
    st = ctx.correspond("compare-model", HARNESS, lines, mcmp_oracle, lambda line, impl: line)
    impl = st.get("_impl") or []
    if len(impl) == len(lines) and all(x.startswith("ok c") for x in impl):
        n = len(A)
        mat = [[int(impl[i * n + j].split()[1][1:]) for j in range(n)] for i in range(n)]
        checked, excl = m_laws(ctx, "compare-model", A, mat)
        st["law_triples"] = checked
        st["law_failures_in_documented_classes"] = excl
    # generated: nested values and one-position mutations of them; integers next to the doubles they convert to
    scalars = [v for v in A if v[0] not in "[{"]
    pairs = m_number_pairs(rng, 150 * scale)
    for _ in range(1500 * scale):
        a = m_random_value(rng, scalars, 3)
        b = m_mutate(rng, a, scalars) if rng.random() < 0.7 else m_random_value(rng, scalars, 3)
        pairs.append((a, b))
    lines2 = ["dom mcmp %s %s" % (mrender(a), mrender(b)) for a, b in pairs]
    st2 = ctx.correspond("compare-model-generated", HARNESS, lines2, mcmp_oracle, lambda line, impl: line)
    st2["int_double_pairs_decided_through_double(X1)"] = MCMP_EXCLUDED["X1"]


# ---- is<T> / as<T> ---------------------------------------------------------------------------------------------------------------

RANGES = {"i8": (-2 ** 7, 2 ** 7 - 1), "u8": (0, 2 ** 8 - 1), "i16": (-2 ** 15, 2 ** 15 - 1), "u16": (0, 2 ** 16 - 1), "i32": (-2 ** 31, 2 ** 31 - 1),
          "u32": (0, 2 ** 32 - 1), "i64": (-2 ** 63, 2 ** 63 - 1), "u64": (0, 2 ** 64 - 1)}


def isas_oracle(line, impl, model, ref=None):
    t = line.split()
    v, _ = wire.parse(t, 2)
    if not impl.startswith("ok"):
        return "is/as failed: " + impl
    for item in impl.split()[1:]:
        if ":" not in item:
            continue
        name, rest = item.split(":")
        if rest.startswith("is"):
            if name in RANGES and isinstance(v, int) and not isinstance(v, bool):
                lo, hi = RANGES[name]
                if not (lo <= v <= hi):
                    return "is<%s>() is true for %d, outside the type's range" % (name, v)
                if rest != "is=%d" % v:
                    return "is<%s>() is true but as<%s>() returned %s for %d" % (name, name, rest[3:], v)
            if name in RANGES and not isinstance(v, int):
                return "is<%s>() is true for a non-integer value" % name
        else:
            if name in RANGES and isinstance(v, int) and not isinstance(v, bool):
                lo, hi = RANGES[name]
                if lo <= v <= hi:
                    return "is<%s>() is false for %d, which the type can hold" % (name, v)
    return None


def isas_lines():
    vals = []
    for e in (0, 1, 127, 128, 255, 256, 32767, 32768, 65535, 65536, 2 ** 31 - 1, 2 ** 31, 2 ** 32 - 1, 2 ** 32, 2 ** 63 - 1, 2 ** 63, 2 ** 64 - 1):
        vals += [e, -e, -e - 1]
    out = ["dom isas %s" % wire.render(max(min(v, 2 ** 64 - 1), -2 ** 63)) for v in vals]
    out += ["dom isas " + wire.render(x) for x in [("d", bits(1.0)), ("d", bits(1.5)), ("d", bits(3e38)), ("d", bits(1e39)), None, True, b"1", [], Obj([])]]
    return out


def nontrivial(line, impl):
    return line if len(line) > 30 else None


def streams(ctx, rng, scale):
    lw = vlib.witness_lines(PROP)
    ctx.correspond("finding-witnesses", HARNESS, lw, cmp_oracle_or_none, nontrivial, want_model=False)
    ls = [gen_seq(rng, "j" if rng.random() < 0.5 else "o", rng.randint(3, 14)) for _ in range(2500 * scale)]
    ctx.correspond("operation-sequences", HARNESS, ls, seq_oracle, nontrivial, compare=compare_seq)
    lc = []
    for a, b in itertools.product(CATALOGUE, CATALOGUE):
        lc.append("dom cmp j %s %s" % (wire.render(a), wire.render(b)))
    ints = [0, 1, 5, -1, 2 ** 63 - 1, 2 ** 63, 2 ** 63 + 1, 2 ** 64 - 1, -2 ** 63, -2 ** 63 + 1, 2 ** 62]
    for a, b in itertools.product(ints, ints):
        lc.append("dom cmp o i%d i%d" % (a, b))
    ctx.correspond("relational-laws", HARNESS, lc, cmp_oracle, nontrivial, want_model=False)
    # the integer arms of compare() with explicit storage kinds, against JV.Model.Compare (whose order theorem is compare_spec)
    sv = [0, 1, 2, 5, 2 ** 31, 2 ** 62, 2 ** 63 - 2, 2 ** 63 - 1]
    uv = sv + [2 ** 63, 2 ** 63 + 1, 2 ** 64 - 2, 2 ** 64 - 1]
    iv = sv + [-1, -2, -5, -2 ** 31, -2 ** 62, -2 ** 63 + 1, -2 ** 63]
    for _ in range(60 * scale):
        x = rng.getrandbits(rng.choice([8, 33, 62, 63]))
        sv.append(x); uv.append(x); iv.append(x); iv.append(-x); uv.append(x + 2 ** 63)
    toks = ["I%d" % v for v in iv] + ["U%d" % v for v in uv]
    li2 = ["dom icmp %s %s" % (a, b) for a in toks for b in toks]
    ctx.correspond("integer-compare", HARNESS, li2, icmp_oracle, lambda line, impl: line)
    mcmp_stream(ctx, rng, scale)
    li = isas_lines()
    ctx.correspond("is-as", HARNESS, li, isas_oracle, nontrivial, want_model=False)


def icmp_oracle(line, impl, model, ref=None):
    t = line.split()
    a, b = int(t[2][1:]), int(t[3][1:])
    want = (a > b) - (a < b)
    f = impl.split()
    if f[0] != "ok" or int(f[1][1:]) != want or (f[2] == "eq") != (want == 0) or (f[3] == "lt") != (want < 0):
        return "stored integers %s and %s compare as %s, their values order as %d" % (t[2], t[3], impl, want)
    return None


def cmp_oracle_or_none(line, impl, model, ref=None):
    t = line.split()
    if t[1] == "cmp":
        return cmp_oracle(line, impl, model, ref)
    return None


def run(ctx):
    ctx.prove(MODULES, leancheck=(ctx.tier == "thorough"))
    ctx.cov["rule"] = ("operation sequences of 3-14 steps over a pool of 4 json/ojson values (construct, copy, assign, move, swap, self-assign, "
                       "insert_or_assign, try_emplace, operator[], erase, find/contains/count/at, merge, merge_or_update, range insert with duplicate "
                       "keys, push_back, insert, erase, resize, clear, iteration) compared step by step, and slot by slot at the end, with the Lean "
                       "map/sequence model (so aliasing between copies shows); all ordered pairs from a catalogue of every storage kind and tag plus "
                       "int64/uint64 boundary pairs for the relational laws; is<T>/as<T> on every integer width boundary; "
                       "the whole of compare() and the six operators against JV.Model.Compare.compare (dom mcmp: explicit storage kinds) on all ordered "
                       "pairs of a 165-value boundary alphabet (every kind, integers at +-2^53, +-2^63, 2^64-1 and their neighbours, the doubles equal / "
                       "adjacent to them, +-0, subnormals, +-inf, NaNs, halves, strings at the 13/14-byte short/long boundary differing at the first / last "
                       "byte and in length, byte strings, arrays and objects differing at the first / last position and in length), on generated nestings "
                       "with one-position mutations and on random integers beside the doubles they round to; the relational laws (reflexive, antisymmetric, "
                       "== transitive, < transitive, == congruent for <, incomparability transitive) on ALL triples of the alphabet's real results: "
                       "a failing triple inside the Lean theorems' domain (JV.Props.C09 dom) is a violation, outside it is counted under its documented "
                       "class X1..X5. "
                       "non-trivial = sequences / pairs longer than 30 characters; distinct by line")
    rng = vlib.rng_for(ctx.seed, "c09")
    streams(ctx, rng, 1 if ctx.tier == "quick" else 10)


def search(ctx):
    return None


def replay(ctx, path):
    print(open(path).read()[:3000])
    return 1
