"""C09 — basic_json behaves as a value-semantic JSON container (DESIGN.md §5 C09)."""
import itertools
import struct
import vlib
import wire
import values
from wire import Obj, Tagged

PROP = "C09"
MODULES = ["JV.Props.C09"]
HARNESS = "dom"

KEYS = [b"a", b"b", b"c", b"", b"\xc3\xa9", b"z", b"ab", b"B"]
NSLOTS = 4


def small_value(rng, depth=1):
    r = rng.random()
    if depth <= 0 or r < 0.5:
        return rng.choice([None, True, False, 0, 1, -1, 2 ** 63, b"", b"x", b"long string that is stored on the heap ............"])
    if r < 0.75:
        return [small_value(rng, depth - 1) for _ in range(rng.randint(0, 3))]
    ks = rng.sample(KEYS, rng.randint(0, 3))
    return Obj([(k, small_value(rng, depth - 1)) for k in ks])


def gen_seq(rng, kind, nops):
    """returns the op line; tracks which slots hold what kind so that most ops are meaningful, some deliberately not"""
    ops = []
    moved = set()
    state = ["obj"] * NSLOTS

    def v(depth=1):
        x = small_value(rng, depth)
        return wire.render(wire.sort_keys(x) if kind == "j" else x)

    def usable():
        return [s for s in range(NSLOTS) if s not in moved]

    for _ in range(nops):
        a = rng.randrange(NSLOTS)
        src = rng.choice(usable()) if usable() else 0
        r = rng.random()
        k = "k" + rng.choice(KEYS).hex()
        if a in moved:
            # a moved-from slot is valid but unspecified: give it a value again before using it
            x = rng.choice([Obj([]), [], small_value(rng, 2)])
            ops.append("new %d %s" % (a, wire.render(wire.sort_keys(x) if kind == "j" else x)))
            moved.discard(a)
            state[a] = "obj" if isinstance(x, Obj) else "arr" if isinstance(x, list) else "other"
            continue
        if r < 0.10:
            x = rng.choice([Obj([]), [], small_value(rng, 2), small_value(rng, 2)])
            ops.append("new %d %s" % (a, wire.render(wire.sort_keys(x) if kind == "j" else x)))
            state[a] = "obj" if isinstance(x, Obj) else "arr" if isinstance(x, list) else "other"
        elif r < 0.18:
            ops.append("%s %d %d" % (rng.choice(["copy", "assign", "movector"]), a, src))
            if ops[-1].startswith("movector") and a != src:
                moved.add(src)
            state[a] = state[src]
        elif r < 0.22:
            if a != src:
                ops.append("move %d %d" % (a, src))
                moved.add(src)
                state[a] = state[src]
        elif r < 0.27:
            ops.append("%s %d %d" % (rng.choice(["swap", "stdswap"]), a, src))
            state[a], state[src] = state[src], state[a]
        elif r < 0.29:
            ops.append("selfassign %d" % a)
        elif state[a] == "obj" or (r < 0.33):
            q = rng.random()
            if q < 0.22:
                ops.append("set %d %s %s" % (a, k, v()))
            elif q < 0.4:
                ops.append("emplace %d %s %s" % (a, k, v()))
            elif q < 0.5:
                ops.append("erase %d %s" % (a, k))
            elif q < 0.6:
                ops.append("%s %d %s" % (rng.choice(["find", "contains", "count", "at"]), a, k))
            elif q < 0.68:
                ops.append("%s %d" % (rng.choice(["size", "empty", "iter"]), a))
            elif q < 0.70:
                ops.append("clear %d" % a)
            elif q < 0.76:
                lo = rng.randint(0, 3)
                ops.append("eraserange %d %d %d" % (a, lo, lo + rng.randint(0, 3)))        # erase(first, last) on object_range(), up to and past end()
            elif q < 0.84 and state[src] == "obj" and state[a] == "obj":
                ops.append("%s %d %d" % (rng.choice(["merge", "mergeupd"]), a, src))
            else:
                items = []
                for _ in range(rng.randint(1, 5)):
                    items.append("k%s %s" % (rng.choice(KEYS[:4]).hex(), v(0)))
                ops.append("rangeins %d %s" % (a, " ".join(items)))
        elif state[a] == "arr":
            q = rng.random()
            if q < 0.3:
                ops.append("push %d %s" % (a, v()))
            elif q < 0.45:
                ops.append("insat %d %d %s" % (a, rng.randint(0, 4), v()))
            elif q < 0.55:
                ops.append("eraseat %d %d" % (a, rng.randint(0, 4)))
            elif q < 0.62:
                lo = rng.randint(0, 3)
                ops.append("eraserange %d %d %d" % (a, lo, lo + rng.randint(0, 2)))
            elif q < 0.72:
                ops.append("%s %d %d" % ("resize", a, rng.randint(0, 5)))
            elif q < 0.8:
                ops.append("resizev %d %d %s" % (a, rng.randint(0, 5), v(0)))
            elif q < 0.9:
                ops.append("atidx %d %d" % (a, rng.randint(0, 4)))
            else:
                ops.append("%s %d" % (rng.choice(["size", "empty", "clear"]), a))
        else:
            ops.append("%s %d" % (rng.choice(["size", "empty"]), a))
    return "dom seq %s %d %s" % (kind, NSLOTS, " / ".join(ops))


def moved_slots(line):
    """slots whose content is unspecified at the end (moved-from and not re-initialised)"""
    moved = set()
    for op in line.split(" / "):
        t = op.split()
        if t[0] == "dom":
            t = t[4:]
        if not t:
            continue
        if t[0] in ("move", "movector") and t[1] != t[2]:
            moved.add(int(t[2]))
            moved.discard(int(t[1]))
        elif t[0] in ("new", "copy", "assign"):
            moved.discard(int(t[1]))
        elif t[0] in ("swap", "stdswap"):
            a, b = int(t[1]), int(t[2])
            ma, mb = a in moved, b in moved
            moved.discard(a); moved.discard(b)
            if mb: moved.add(a)
            if ma: moved.add(b)
    return moved


def seq_oracle(line, impl, model, ref=None):
    """the Lean model here IS the specification (arrays are sequences, objects are maps with unique keys in key / insertion
    order, copies are independent): a run that differs from it is a run on which the property fails"""
    if model is None:
        return None
    if not compare_seq(line, impl, model):
        return "the container's observable behaviour differs from the sequence/map model (results of the operations or final state of the pool)"
    # independent of the model: unique keys, key order for json
    try:
        _, st = impl.split(" || ")
        for slot in st.split(" ; "):
            bad = check_unique(wire.parse_all(slot)[0], line.split()[2])
            if bad:
                return bad
    except Exception:
        pass
    return None


def check_unique(v, kind):
    if isinstance(v, Obj):
        ks = [k for k, _ in v.members]
        if len(set(ks)) != len(ks):
            return "an object holds the same key twice"
        if kind == "j" and ks != sorted(ks):
            return "a json object is not in key order"
        for _, x in v.members:
            r = check_unique(x, kind)
            if r:
                return r
    if isinstance(v, list):
        for x in v:
            r = check_unique(x, kind)
            if r:
                return r
    return None


def compare_seq(line, io, mo):
    if not io.startswith("ok") or not mo.startswith("ok"):
        return io == mo
    ri, si = io.split(" || ")
    rm, sm = mo.split(" || ")
    import re
    resi = re.findall(r"<([^>]*)>", ri)
    resm = re.findall(r"<([^>]*)>", rm)
    ops = [o.split() for o in line.split(" / ")]
    ops[0] = ops[0][4:]
    if len(resi) != len(resm):
        return False
    for o, a, b in zip(ops, resi, resm):
        if o and o[0] == "move":
            continue                     # the moved-from value is valid but unspecified
        if a != b:
            return False
    moved = moved_slots(line)
    for i, (a, b) in enumerate(zip(si.split(" ; "), sm.split(" ; "))):
        if i in moved:
            continue
        if a.strip() != b.strip():
            return False
    return True


# ---- relational laws ----------------------------------------------------------------------------------------------------------

def bits(f):
    return struct.unpack("<Q", struct.pack("<d", f))[0]


CATALOGUE = [None, True, False, 0, 1, -1, 5, 2 ** 63 - 1, 2 ** 63, 2 ** 64 - 1, -2 ** 63, ("d", bits(0.0)), ("d", bits(1.0)), ("d", bits(-1.5)), ("d", bits(1e300)),
             ("d", bits(float(2 ** 63))), ("d", 0x7ff8000000000000), ("e", 0x3c00), ("e", 0x4000), b"", b"a", b"b", b"1", b"a long string kept on the heap, longer than the small buffer",
             Tagged("bigint", b"1"), Tagged("bigint", b"5"), Tagged("bigint", b"18446744073709551616"), Tagged("bigint", b"-1"), Tagged("bigdec", b"1.0"), Tagged("bigdec", b"1.5"),
             Tagged("datetime", b"a"), ("b", b""), ("b", b"\x01"), Tagged("base64", ("b", b"\x01")), [], [1], [1, 2], [2], [[1]], Obj([]), Obj([(b"a", 1)]), Obj([(b"a", 2)]),
             Obj([(b"a", 1), (b"b", 2)]), Obj([(b"b", 2)]),
             # member names ordered one way and member values the other, at the first and at a later member
             Obj([(b"b", 1)]), Obj([(b"a", 2), (b"c", 0)]), Obj([(b"b", 1), (b"c", 5)]), Obj([(b"a", [2])]), Obj([(b"b", [1])]), Obj([(b"a", 1), (b"c", 1)]), Obj([(b"a", 1), (b"b", 0)])]


def num_value(v):
    """exact numeric value of native numbers (None if not a native number or NaN)"""
    from fractions import Fraction
    if isinstance(v, bool):
        return None
    if isinstance(v, int):
        return Fraction(v)
    if isinstance(v, tuple) and v[0] == "d":
        f = struct.unpack("<d", struct.pack("<Q", v[1]))[0]
        if f != f or f in (float("inf"), float("-inf")):
            return None
        return Fraction(f)
    return None


def is_nan(v):
    return isinstance(v, tuple) and v[0] == "d" and (v[1] >> 52) & 0x7FF == 0x7FF and v[1] & ((1 << 52) - 1)


def cmp_oracle(line, impl, model, ref=None):
    t = line.split()
    a, pos = wire.parse(t, 3)
    b, pos = wire.parse(t, pos)
    f = impl.split()
    if f[0] != "ok":
        return "comparison failed: " + impl
    eq, ne, lt, gt, le, ge, req, rlt, dump, c = f[1] == "eq", f[2] == "NE", f[3] == "lt", f[4] == "gt", f[5] == "le", f[6] == "ge", f[7] == "req", f[8] == "rlt", f[9] == "samedump", int(f[10][1:])
    nan = is_nan(a) or is_nan(b)
    if eq == ne:
        return "operator== and operator!= agree"
    if eq != req:
        return "equality is not symmetric: (a == b) = %s but (b == a) = %s" % (eq, req)
    if not nan:
        if (c == 0) != eq or (c < 0) != lt or (c > 0) != gt or le != (lt or eq) or ge != (gt or eq):
            return "the comparison operators disagree with compare() or with each other"
        if gt != rlt:
            return "a > b and b < a disagree"
        if lt and gt:
            return "a < b and a > b both hold"
        if wire.render(a) == wire.render(b) and not eq:
            return "equality is not reflexive"
    na, nb = num_value(a), num_value(b)
    if na is not None and nb is not None:
        # native numbers: exact ordering, except that integers compared with doubles go through double
        both_int = all(isinstance(x, int) for x in (a, b))
        if both_int:
            want = (na > nb) - (na < nb)
            if c != want:
                return "integers compare %d, exact arithmetic says %d" % (c, want)
    if eq and not dump and kind_sorted(a) and kind_sorted(b) and type(strip(a)) == type(strip(b)) and not isinstance(strip(a), (int, tuple)):
        return "equal values print differently"
    return None


def strip(v):
    return v.value if isinstance(v, Tagged) else v


def kind_sorted(v):
    return True


@vlib.known_matcher("D7")
def _match_d7(stream, line, impl, model):
    """two number-tagged strings (or one and a native number) are compared through double, so distinct big numbers compare equal"""
    t = line.split()
    if t[0] != "dom" or t[1] != "cmp":
        return False
    return "@bigint" in line or "@bigdec" in line or "@bigfloat" in line


# ---- is<T> / as<T> ---------------------------------------------------------------------------------------------------------------

RANGES = {"i8": (-2 ** 7, 2 ** 7 - 1), "u8": (0, 2 ** 8 - 1), "i16": (-2 ** 15, 2 ** 15 - 1), "u16": (0, 2 ** 16 - 1), "i32": (-2 ** 31, 2 ** 31 - 1),
          "u32": (0, 2 ** 32 - 1), "i64": (-2 ** 63, 2 ** 63 - 1), "u64": (0, 2 ** 64 - 1)}


def isas_oracle(line, impl, model, ref=None):
    t = line.split()
    v, _ = wire.parse(t, 2)
    if not impl.startswith("ok"):
        return "is/as failed: " + impl
    for item in impl.split()[1:]:
        if ":" not in item:
            continue
        name, rest = item.split(":")
        if rest.startswith("is"):
            if name in RANGES and isinstance(v, int) and not isinstance(v, bool):
                lo, hi = RANGES[name]
                if not (lo <= v <= hi):
                    return "is<%s>() is true for %d, outside the type's range" % (name, v)
                if rest != "is=%d" % v:
                    return "is<%s>() is true but as<%s>() returned %s for %d" % (name, name, rest[3:], v)
            if name in RANGES and not isinstance(v, int):
                return "is<%s>() is true for a non-integer value" % name
        else:
            if name in RANGES and isinstance(v, int) and not isinstance(v, bool):
                lo, hi = RANGES[name]
                if lo <= v <= hi:
                    return "is<%s>() is false for %d, which the type can hold" % (name, v)
    return None


def isas_lines():
    vals = []
    for e in (0, 1, 127, 128, 255, 256, 32767, 32768, 65535, 65536, 2 ** 31 - 1, 2 ** 31, 2 ** 32 - 1, 2 ** 32, 2 ** 63 - 1, 2 ** 63, 2 ** 64 - 1):
        vals += [e, -e, -e - 1]
    out = ["dom isas %s" % wire.render(max(min(v, 2 ** 64 - 1), -2 ** 63)) for v in vals]
    out += ["dom isas " + wire.render(x) for x in [("d", bits(1.0)), ("d", bits(1.5)), ("d", bits(3e38)), ("d", bits(1e39)), None, True, b"1", [], Obj([])]]
    return out


def nontrivial(line, impl):
    return line if len(line) > 30 else None


def streams(ctx, rng, scale):
    lw = vlib.witness_lines(PROP)
    ctx.correspond("finding-witnesses", HARNESS, lw, cmp_oracle_or_none, nontrivial, want_model=False)
    ls = [gen_seq(rng, "j" if rng.random() < 0.5 else "o", rng.randint(3, 14)) for _ in range(2500 * scale)]
    ctx.correspond("operation-sequences", HARNESS, ls, seq_oracle, nontrivial, compare=compare_seq)
    lc = []
    for a, b in itertools.product(CATALOGUE, CATALOGUE):
        lc.append("dom cmp j %s %s" % (wire.render(a), wire.render(b)))
    ints = [0, 1, 5, -1, 2 ** 63 - 1, 2 ** 63, 2 ** 63 + 1, 2 ** 64 - 1, -2 ** 63, -2 ** 63 + 1, 2 ** 62]
    for a, b in itertools.product(ints, ints):
        lc.append("dom cmp o i%d i%d" % (a, b))
    ctx.correspond("relational-laws", HARNESS, lc, cmp_oracle, nontrivial, want_model=False)
    # the integer arms of compare() with explicit storage kinds, against JV.Model.Compare (whose order theorem is compare_spec)
    sv = [0, 1, 2, 5, 2 ** 31, 2 ** 62, 2 ** 63 - 2, 2 ** 63 - 1]
    uv = sv + [2 ** 63, 2 ** 63 + 1, 2 ** 64 - 2, 2 ** 64 - 1]
    iv = sv + [-1, -2, -5, -2 ** 31, -2 ** 62, -2 ** 63 + 1, -2 ** 63]
    for _ in range(60 * scale):
        x = rng.getrandbits(rng.choice([8, 33, 62, 63]))
        sv.append(x); uv.append(x); iv.append(x); iv.append(-x); uv.append(x + 2 ** 63)
    toks = ["I%d" % v for v in iv] + ["U%d" % v for v in uv]
    li2 = ["dom icmp %s %s" % (a, b) for a in toks for b in toks]
    ctx.correspond("integer-compare", HARNESS, li2, icmp_oracle, lambda line, impl: line)
    li = isas_lines()
    ctx.correspond("is-as", HARNESS, li, isas_oracle, nontrivial, want_model=False)


def icmp_oracle(line, impl, model, ref=None):
    t = line.split()
    a, b = int(t[2][1:]), int(t[3][1:])
    want = (a > b) - (a < b)
    f = impl.split()
    if f[0] != "ok" or int(f[1][1:]) != want or (f[2] == "eq") != (want == 0) or (f[3] == "lt") != (want < 0):
        return "stored integers %s and %s compare as %s, their values order as %d" % (t[2], t[3], impl, want)
    return None


def cmp_oracle_or_none(line, impl, model, ref=None):
    t = line.split()
    if t[1] == "cmp":
        return cmp_oracle(line, impl, model, ref)
    return None


def run(ctx):
    ctx.prove(MODULES, leancheck=(ctx.tier == "thorough"))
    ctx.cov["rule"] = ("operation sequences of 3-14 steps over a pool of 4 json/ojson values (construct, copy, assign, move, swap, self-assign, "
                       "insert_or_assign, try_emplace, operator[], erase, find/contains/count/at, merge, merge_or_update, range insert with duplicate "
                       "keys, push_back, insert, erase, resize, clear, iteration) compared step by step, and slot by slot at the end, with the Lean "
                       "map/sequence model (so aliasing between copies shows); all ordered pairs from a catalogue of every storage kind and tag plus "
                       "int64/uint64 boundary pairs for the relational laws; is<T>/as<T> on every integer width boundary. "
                       "non-trivial = sequences / pairs longer than 30 characters; distinct by line")
    rng = vlib.rng_for(ctx.seed, "c09")
    streams(ctx, rng, 1 if ctx.tier == "quick" else 10)


def search(ctx):
    return None


def replay(ctx, path):
    print(open(path).read()[:3000])
    return 1
