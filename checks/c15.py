"""C15 — JSON Patch is RFC 6902-conformant and atomic (DESIGN.md §5 C15)."""
import copy
import hashlib
import vlib
import wire
import values
from wire import Obj
from checks import c14

PROP = "C15"
MODULES = ["JV.Props.C15"]


def mkop(op, path, value=KeyError, frm=None):
    ms = [(b"op", op), (b"path", path)]
    if frm is not None:
        ms.append((b"from", frm))
    if value is not KeyError:
        ms.append((b"value", value))
    return Obj(ms)


def ptr_of(toks):
    return b"".join(b"/" + c14.esc(t) for t in toks)


# --- a tiny reference evaluator, used only to steer generation towards mostly-valid patches ----------


def py_get(d, toks):
    for t in toks:
        if isinstance(d, list):
            if not (t == b"0" or (t.isdigit() and t[:1] != b"0")):
                return KeyError
            i = int(t)
            if i >= len(d):
                return KeyError
            d = d[i]
        elif isinstance(d, Obj):
            d = d.get(t)
            if d is KeyError:
                return KeyError
        else:
            return KeyError
    return d


def py_apply(d, op):
    """best-effort RFC 6902 step on a deep copy; returns new doc or KeyError"""
    d = copy.deepcopy(d)
    mm = dict(op.members)
    if b"op" not in mm or b"path" not in mm:
        return KeyError
    name = mm[b"op"]
    path = c14.py_tokens(mm[b"path"])
    if path is None:
        return KeyError
    if name in (b"add", b"replace", b"test") and b"value" not in mm:
        return KeyError
    if name in (b"move", b"copy") and b"from" not in mm:
        return KeyError

    def parent(doc, toks):
        return py_get(doc, toks[:-1])

    def do_add(doc, toks, v):
        if not toks:
            return v
        par = parent(doc, toks)
        if par is KeyError:
            return KeyError
        t = toks[-1]
        if isinstance(par, list):
            if t == b"-":
                par.append(v)
            elif t == b"0" or (t.isdigit() and t[:1] != b"0"):
                if int(t) > len(par):
                    return KeyError
                par.insert(int(t), v)
            else:
                return KeyError
        elif isinstance(par, Obj):
            for i, (k, _) in enumerate(par.members):
                if k == t:
                    par.members[i] = (k, v)
                    break
            else:
                par.members.append((t, v))
        else:
            return KeyError
        return doc

    def do_remove(doc, toks):
        if not toks or py_get(doc, toks) is KeyError:
            return KeyError
        par = parent(doc, toks)
        t = toks[-1]
        if isinstance(par, list):
            del par[int(t)]
        else:
            par.members = [(k, x) for k, x in par.members if k != t]
        return doc

    m = dict(op.members)
    if name == b"add":
        return do_add(d, path, m[b"value"])
    if name == b"remove":
        return do_remove(d, path)
    if name == b"replace":
        if py_get(d, path) is KeyError:
            return KeyError
        if not path:
            return m[b"value"]
        d2 = do_remove(d, path)
        return do_add(d2, path, m[b"value"])
    if name in (b"move", b"copy"):
        frm = c14.py_tokens(m[b"from"])
        if frm is None:
            return KeyError
        v = py_get(d, frm)
        if v is KeyError:
            return KeyError
        v = copy.deepcopy(v)
        if name == b"move":
            d = do_remove(d, frm)
            if d is KeyError:
                return KeyError
        return do_add(d, path, v)
    if name == b"test":
        v = py_get(d, path)
        if v is KeyError or wire.canon(v) != wire.canon(m[b"value"]):
            return KeyError
        return d
    return KeyError


def gen_good_op(rng, d):
    locs = c14.locations(d)
    r = rng.random()
    small = lambda: values.value(rng, rng.randint(0, 2), values.KEYS_SMALL, True)
    loc = list(rng.choice(locs))
    if r < 0.3:  # add
        par = py_get(d, loc)
        if isinstance(par, list):
            t = rng.choice([b"-", str(rng.randint(0, len(par))).encode()])
        elif isinstance(par, Obj):
            t = rng.choice(values.KEYS_MED)
        else:
            return mkop(b"replace", ptr_of(loc), small())
        return mkop(b"add", ptr_of(loc + [t]), small())
    if r < 0.45 and loc:
        return mkop(b"remove", ptr_of(loc))
    if r < 0.6:
        return mkop(b"replace", ptr_of(loc), small())
    if r < 0.7:
        v = py_get(d, loc)
        if rng.random() < 0.3:
            v = small()
        return mkop(b"test", ptr_of(loc), copy.deepcopy(v))
    # move / copy
    dst = list(rng.choice(locs))
    par = py_get(d, dst)
    if isinstance(par, list):
        dst = dst + [rng.choice([b"-", str(rng.randint(0, len(par))).encode()])]
    elif isinstance(par, Obj):
        dst = dst + [rng.choice(values.KEYS_MED)]
    return mkop(rng.choice([b"move", b"copy"]), ptr_of(dst), frm=ptr_of(loc))


def gen_bad_op(rng, d):
    locs = c14.locations(d)
    loc = list(rng.choice(locs))
    r = rng.random()
    if r < 0.2:
        return mkop(b"test", ptr_of(loc), b"__no__")
    if r < 0.35:
        return mkop(b"remove", ptr_of(loc + [b"missing"]))
    if r < 0.45:
        return mkop(rng.choice([b"frob", b"", b"ADD", b"tes"]), ptr_of(loc), 1)
    if r < 0.55:
        return Obj([(b"op", b"add"), (b"path", ptr_of(loc))])              # missing value
    if r < 0.62:
        return Obj([(b"op", b"add"), (b"value", 1)])                         # missing path
    if r < 0.7:
        return Obj([(b"path", ptr_of(loc)), (b"value", 1)])                  # missing op
    if r < 0.78:
        return mkop(b"replace", ptr_of(loc) + b"~", 1)                       # bad pointer
    if r < 0.86:
        return mkop(b"move", ptr_of(loc), frm=ptr_of(loc + [b"nope"]))
    if r < 0.93:
        return mkop(b"copy", ptr_of(loc + [b"x", b"y"]), frm=ptr_of(loc))
    return mkop(b"replace", ptr_of(loc + [b"01"]), 1)


def gen_case(rng):
    small = rng.random() < 0.5
    keys = values.KEYS_SMALL if small else values.KEYS_MED
    d = values.value(rng, rng.randint(1, 3), keys, small, width=3, p_leaf=0.15)
    ops = []
    cur = copy.deepcopy(d)
    n = rng.randint(1, 6)
    fail_at = rng.randrange(n + 2) if rng.random() < 0.6 else -1
    for i in range(n):
        if i == fail_at:
            ops.append(gen_bad_op(rng, cur))
            nxt = py_apply(cur, ops[-1])
        else:
            ops.append(gen_good_op(rng, cur))
            nxt = py_apply(cur, ops[-1])
        if nxt is not KeyError:
            cur = nxt
    # sometimes target the root explicitly
    if rng.random() < 0.08:
        ops.insert(rng.randrange(len(ops) + 1), mkop(rng.choice([b"add", b"replace", b"copy", b"move", b"test", b"remove"]), b"",
                                                     values.value(rng, 1, keys, True), frm=None))
        o = ops[-1]
    if rng.random() < 0.05:
        ops.insert(rng.randrange(len(ops) + 1), mkop(rng.choice([b"copy", b"move"]), b"", frm=ptr_of(list(rng.choice(c14.locations(d))))))
    return d, ops


def lines_for(cases, op="apply"):
    ls = []
    for kind, d, p in cases:
        if kind == "j":
            d, p = wire.sort_keys(d), wire.sort_keys(p)
        ls.append("patch %s %s %s %s" % (op, kind, wire.render(d), wire.render(p)))
    return ls


def ref_line(line):
    return line.replace("patch apply", "patch spec", 1) if line.startswith("patch apply") else line


def oracle(line, impl, model, ref=None):
    t = line.split()
    op = t[1]
    a, pos = wire.parse(t, 3)
    b, pos = wire.parse(t, pos)
    st, rest = impl.split(" ", 1)
    got = wire.parse_all(rest)[0]
    if op == "apply":
        if st == "err":
            if wire.canon(got) != wire.canon(a):
                return "apply_patch reported an error but left the target modified"
            if ref is not None and ref.startswith("ok"):
                return "apply_patch failed on a patch RFC 6902 accepts"
            return None
        if ref is not None:
            if ref == "err":
                return "apply_patch succeeded on a patch RFC 6902 rejects"
            if wire.canon(got) != wire.canon(wire.parse_all(ref[3:])[0]):
                return "patched document differs from the RFC 6902 result"
        return None
    if op == "difflaw":
        if st == "err":
            return "apply_patch(a, from_diff(a, b)) failed"
        if wire.canon(got) != wire.canon(b):
            return "apply_patch(a, from_diff(a, b)) != b"
    return None


def raw_equal(a, b):
    """equality as ojson's operator== sees it: member order matters"""
    if isinstance(a, Obj) and isinstance(b, Obj):
        return len(a.members) == len(b.members) and all(k1 == k2 and raw_equal(v1, v2) for (k1, v1), (k2, v2) in zip(a.members, b.members))
    if isinstance(a, list) and isinstance(b, list):
        return len(a) == len(b) and all(raw_equal(x, y) for x, y in zip(a, b))
    return type(a) == type(b) and a == b


def ojson_apply(d, ops):
    """what jsoncons does to an ojson document, as far as member order goes: returns index of the first
    `test` operation that fails only because of member order, or None"""
    cur = copy.deepcopy(d)
    for i, op in enumerate(ops):
        if not isinstance(op, Obj):
            return None
        m = dict(op.members)
        if m.get(b"op") == b"test" and b"path" in m and b"value" in m:
            toks = c14.py_tokens(m[b"path"])
            if toks is None:
                return None
            v = py_get(cur, toks)
            if v is KeyError:
                return None
            if wire.canon(v) == wire.canon(m[b"value"]) and not raw_equal(v, m[b"value"]):
                return i
        nxt = py_apply_ojson(cur, op)
        if nxt is KeyError:
            return None
        cur = nxt
    return None


def py_apply_ojson(d, op):
    """py_apply, but a replace of an object member keeps its position and remove+add appends (ojson behaviour)"""
    m = dict(op.members)
    if m.get(b"op") == b"replace" and b"value" in m and b"path" in m:
        toks = c14.py_tokens(m[b"path"])
        if toks is None or py_get(d, toks) is KeyError:
            return KeyError
        d = copy.deepcopy(d)
        if not toks:
            return m[b"value"]
        par = py_get(d, toks[:-1])
        if isinstance(par, list):
            par[int(toks[-1])] = m[b"value"]
        else:
            par.members = [(k, m[b"value"] if k == toks[-1] else x) for k, x in par.members]
        return d
    return py_apply(d, op)


@vlib.known_matcher("D18")
def _match_d18(stream, line, impl, model):
    """ojson only: the patch fails at a `test` whose value equals the target as a JSON value but lists the members in another order"""
    t = line.split()
    if t[0] != "patch" or t[1] != "apply" or t[2] != "o" or not impl.startswith("err"):
        return False
    a, pos = wire.parse(t, 3)
    b, pos = wire.parse(t, pos)
    if not isinstance(b, list):
        return False
    return ojson_apply(a, b) is not None


def nontrivial(line, impl):
    t = line.split()
    if t[1] == "apply":
        return hashlib.md5(line.encode()).hexdigest() if line.count("k6f70 ") >= 2 else None
    return hashlib.md5(line.encode()).hexdigest() if len(t) > 8 else None


RFC_TESTS = []  # (doc, patch) from RFC 6902 appendix A, built below


def _rfc():
    o = lambda *ms: Obj([(k.encode(), v) for k, v in ms])
    T = []
    T.append((o(("foo", b"bar")), [mkop(b"add", b"/baz", b"qux")]))
    T.append((o(("foo", [b"bar", b"baz"])), [mkop(b"add", b"/foo/1", b"qux")]))
    T.append((o(("baz", b"qux"), ("foo", b"bar")), [mkop(b"remove", b"/baz")]))
    T.append((o(("foo", [b"bar", b"qux", b"baz"])), [mkop(b"remove", b"/foo/1")]))
    T.append((o(("baz", b"qux"), ("foo", b"bar")), [mkop(b"replace", b"/baz", b"boo")]))
    T.append((o(("foo", o(("bar", b"baz"), ("waldo", b"fred"))), ("qux", o(("corge", b"grault")))), [mkop(b"move", b"/qux/thud", frm=b"/foo/waldo")]))
    T.append((o(("foo", [b"all", b"grass", b"cows", b"eat"])), [mkop(b"move", b"/foo/3", frm=b"/foo/1")]))
    T.append((o(("baz", b"qux"), ("foo", [b"a", 2, b"c"])), [mkop(b"test", b"/baz", b"qux"), mkop(b"test", b"/foo/1", 2)]))
    T.append((o(("baz", b"qux")), [mkop(b"test", b"/baz", b"bar")]))
    T.append((o(("foo", b"bar")), [mkop(b"add", b"/child", o(("grandchild", o())))]))
    T.append((o(("foo", b"bar")), [mkop(b"add", b"/baz/bat", b"qux")]))
    T.append((o(("/", 9), ("~1", 10)), [mkop(b"test", b"/~01", 10)]))
    T.append((o(("/", 9), ("~1", 10)), [mkop(b"test", b"/~01", b"10")]))
    T.append((o(("foo", [b"bar"])), [mkop(b"add", b"/foo/-", [b"abc", b"def"])]))
    # earlier findings (D10, D11) stay in the corpus
    T.append((o(("a", 1)), [Obj([(b"op", b"frob"), (b"path", b"/a"), (b"value", 2)])]))
    T.append((o(("a", 1)), [mkop(b"remove", b"/a"), mkop(b"add", b"", 7), mkop(b"test", b"", 8)]))
    T.append((o(("a", [1, 2, 3])), [mkop(b"move", b"/a/-", frm=b"/a/0")]))
    T.append((o(("a", [1, 2, 3])), [mkop(b"remove", b"/a/2"), mkop(b"test", b"/a", 0)]))
    return T


def corpus_cases():
    out = []
    for d, p in _rfc():
        out.append(("j", d, p))
        out.append(("o", d, p))
    return out


def gen_cases(rng, n):
    out = []
    for _ in range(n):
        d, ops = gen_case(rng)
        out.append(("j" if rng.random() < 0.6 else "o", d, ops))
    return out


def gen_pairs(rng, n):
    out = []
    for _ in range(n):
        small = rng.random() < 0.5
        keys = values.KEYS_SMALL if small else values.KEYS_MED
        a = values.value(rng, rng.randint(0, 4), keys, small)
        b = values.mutate(rng, a, 4, keys, small) if rng.random() < 0.8 else values.value(rng, rng.randint(0, 3), keys, small)
        out.append(("j" if rng.random() < 0.6 else "o", a, b))
    return out


def streams(ctx, rng, scale):
    lw = vlib.witness_lines(PROP)
    ctx.correspond("finding-witnesses", "patch", lw, oracle, nontrivial, ref_lines=[ref_line(l) for l in lw])
    lc = lines_for(corpus_cases())
    ctx.correspond("rfc6902-examples+corpus", "patch", lc, oracle, nontrivial, ref_lines=[ref_line(l) for l in lc])
    la = lines_for(gen_cases(rng, 2500 * scale))
    ctx.correspond("apply-random", "patch", la, oracle, nontrivial, ref_lines=[ref_line(l) for l in la])
    pairs = gen_pairs(rng, 1200 * scale)
    ctx.correspond("diff-random", "patch", lines_for(pairs, "diff"), oracle, nontrivial)
    ctx.correspond("difflaw-random", "patch", lines_for(pairs, "difflaw"), oracle, nontrivial)


def run(ctx):
    ctx.prove(MODULES, leancheck=(ctx.tier == "thorough"))
    ctx.cov["rule"] = ("(document, patch): patches of 1-7 operations mixing add/remove/replace/move/copy/test on locations drawn from the "
                       "evolving document (steered by a reference evaluator), with a failing or malformed operation injected at a random "
                       "position in 60% of cases, root targets, '-' tokens; RFC 6902 appendix A; (a, b) pairs for the diff law; json and ojson. "
                       "non-trivial = patch with >= 2 operations / diff pair with containers; distinct by op line")
    rng = vlib.rng_for(ctx.seed, "c15")
    streams(ctx, rng, 1 if ctx.tier == "quick" else 20)


def search(ctx):
    for extra in range(1, 5):
        rng = vlib.rng_for(ctx.seed * 1000 + extra, "c15-search")
        before = len(ctx.fail_inputs)
        streams(ctx, rng, 3)
        if len(ctx.fail_inputs) > before:
            return ctx.fail_inputs[before]
    return None


def replay(ctx, path):
    lines = [l[4:].rstrip("\n") for l in open(path) if l.startswith("op: ")]
    if not lines:
        print(open(path).read())
        return 1
    ctx.correspond("replay", "patch", lines, oracle, nontrivial, ref_lines=[ref_line(l) for l in lines])
    for (stream, line, io, mo, why) in ctx.fail_inputs:
        print("op: %s\nimpl: %s\nmodel: %s\nwhy: %s" % (line, io, mo, why))
    for b in ctx.broken:
        print(b)
    return 1 if ctx.fail_inputs or ctx.broken else 0
