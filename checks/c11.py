"""C11 — JSON Schema validation verdicts are correct (DESIGN.md §5 C11)."""
import vlib
import wire
import schema as sg
from wire import Obj

PROP = "C11"
MODULES = ["JV.Props.C11"]
HARNESS = "js"
BAD_FLAGS = ["REPORTER-DISAGREES", "THROWING-VALIDATE-DISAGREES", "VISITOR-FORM-DISAGREES", "SECOND-USE-DISAGREES", "MEMBER-ORDER-CHANGES-VERDICT"]


def oracle(line, impl, model, ref=None):
    for f in BAD_FLAGS:
        if f in impl:
            return "the ways of asking for a verdict disagree: " + f
    if impl.startswith("err compile"):
        return "a schema that is valid for its dialect is rejected: " + impl[:200]
    if impl.startswith("err"):
        return "validation failed with an exception: " + impl[:200]
    if model is None or not model.startswith("ok"):
        return None
    got = impl.split(" || ")[0].strip()
    if got != model.strip():
        return "the validator says %s, the specification (reference validator) says %s" % (got[3:], model[3:])
    return None


def nontrivial(line, impl):
    return line if impl.startswith("ok") and len(line) > 80 else None


def gen_lines(rng, n):
    out = []
    for _ in range(n):
        draft = rng.choice(sg.DRAFTS)
        g = sg.G(rng, draft)
        s = g.schema(rng.choice([1, 2, 2, 3]))
        if s is True or s is False or "ref" in s:
            s = {"kws": [("allof", [s])], "up": None, "ui": None}
        doc = sg.render(s, draft, g.defs, rng)
        ast = sg.tokens(s, g.defs)
        if " UI " in " " + ast + " " and "CONTAINS" in ast:
            continue      # 2020-12: contains annotates the items it matched for unevaluatedItems; the reference does not carry that annotation
        consts = sg.constants(s, g.defs, {"vals": [], "ints": []})
        for _ in range(4):
            inst = sg.gen_instance(rng, consts, rng.choice([1, 2, 2]))
            out.append("js %s | %s | %s | %s" % (draft, wire.render(doc), wire.render(inst), ast))
    return out


def floatify(rng, v, p=0.5):
    """the same mathematical value with some integers spelled as doubles (1 -> 1.0): JSON Schema compares numbers by value"""
    import struct
    if isinstance(v, bool) or v is None:
        return v
    if isinstance(v, int):
        if abs(v) < 2 ** 53 and rng.random() < p:
            return ("d", struct.unpack("<Q", struct.pack("<d", float(v)))[0])
        return v
    if isinstance(v, list):
        return [floatify(rng, x, p) for x in v]
    if isinstance(v, Obj):
        return Obj([(k, floatify(rng, x, p)) for k, x in v.members])
    return v


def gen_number_equality(rng, n):
    """uniqueItems / enum / const over numbers that are equal as numbers but spelled differently (1 and 1.0, -2 and -2.0, 100 and 1e2): the
    instance sent to the real validator carries doubles, the reference validator sees the integers they equal"""
    impl, model = [], []
    pool = [0, 1, -1, 2, -2, 7, 100, 2 ** 31, 2 ** 53 - 1]
    for _ in range(n):
        draft = rng.choice(sg.DRAFTS[1:])
        r = rng.random()
        vals = [rng.choice(pool) for _ in range(rng.randint(1, 4))]
        if rng.random() < 0.6:
            vals.append(rng.choice(vals))
        rng.shuffle(vals)
        nest = rng.random()
        if nest < 0.3:
            vals = [[x] for x in vals]
        elif nest < 0.5:
            vals = [Obj([(b"a", x)]) for x in vals]
        uniq = {"kws": [("uniq", True)], "up": None, "ui": None}
        if r < 0.5:
            s, inst = uniq, vals
        elif r < 0.65:
            s, inst = {"kws": [("items", [], uniq)], "up": None, "ui": None}, [vals, vals[:1]]
        elif r < 0.85:
            s, inst = {"kws": [("enum", [vals[0], [vals[-1]], None])], "up": None, "ui": None}, rng.choice([vals[0], [vals[-1]], vals[-1], [vals[0]]])
        else:
            s, inst = {"kws": [("const", vals)], "up": None, "ui": None}, (vals if rng.random() < 0.7 else vals[::-1])
        doc = sg.render(s, draft, [], rng)
        ast = sg.tokens(s, [])
        model.append("js %s | %s | %s | %s" % (draft, wire.render(doc), wire.render(inst), ast))
        impl.append("js %s | %s | %s | %s" % (draft, wire.render(floatify(rng, doc, 0.3)), wire.render(floatify(rng, inst)), ast))
    return impl, model


def streams(ctx, rng, scale):
    lw = vlib.witness_lines(PROP)
    ctx.correspond("finding-witnesses", HARNESS, lw, oracle, nontrivial, compare=lambda l, i, m: True)
    ctx.correspond("schemas", HARNESS, gen_lines(rng, 1200 * scale), oracle, nontrivial, compare=lambda l, i, m: True)
    li, lm = gen_number_equality(rng, 300 * scale)
    ctx.correspond("number-equality", HARNESS, li, oracle, nontrivial, compare=lambda l, i, m: True, model_lines=lm)


def run(ctx):
    ctx.prove(MODULES, leancheck=(ctx.tier == "thorough"))
    ctx.cov["rule"] = ("generated (dialect, schema, instance) triples: Drafts 4, 6, 7, 2019-09, 2020-12; schemas nested to depth 3 over type, enum, const, "
                       "minimum/maximum/exclusive*, multipleOf, min/maxLength, min/maxItems, uniqueItems, prefixItems/items/additionalItems, contains (+min/maxContains), "
                       "properties/additionalProperties, required, min/maxProperties, propertyNames, dependentRequired/dependencies, allOf/anyOf/oneOf/not, if/then/else, "
                       "$ref into $defs/definitions, unevaluatedProperties/unevaluatedItems, in the spelling of each dialect with shuffled members; four instances per "
                       "schema built from the schema's own constants and their neighbours; is_valid, reporter, throwing, json_visitor forms, reuse and key-sorted "
                       "containers cross-checked in the harness; verdict judged against the Lean reference validator. non-trivial = a verdict on a schema of some size")
    rng = vlib.rng_for(ctx.seed, "c11")
    streams(ctx, rng, 1 if ctx.tier == "quick" else 6)


def search(ctx):
    return None


def replay(ctx, path):
    print(open(path).read()[:3000])
    return 1
