"""C07 — binary decoders implement their specifications (DESIGN.md §5 C07)."""
import vlib
import wire
import binfmt
from wire import Obj, Tagged

PROP = "C07"
MODULES = ["JV.Props.C07", "JV.Props.C07X"]
HARNESS = "bin"

INTS = [0, 1, 23, 24, 255, 256, 65535, 65536, 2 ** 32 - 1, 2 ** 32, 2 ** 63 - 1, 2 ** 63, 2 ** 64 - 1, -1, -24, -25, -256, -257, -65536, -65537,
        -2 ** 32, -2 ** 32 - 1, -2 ** 63, -2 ** 63 - 1, -2 ** 64]
STRS = [b"", b"a", b"abc", b"x" * 23, b"y" * 24, b"z" * 255, b"w" * 256, b"\xc3\xa9", b"\xf0\x9f\x98\x80", b"\xe2\x82\xac" * 3]
F64 = [0x0, 0x8000000000000000, 0x3ff0000000000000, 0x3ff8000000000000, 0x7ff0000000000000, 0xfff0000000000000, 0x7ff8000000000000, 0x1, 0x7fefffffffffffff,
       0x3ff199999999999a, 0x400921fb54442d18]
F32 = [0x0, 0x80000000, 0x3f800000, 0x3fc00000, 0x7f800000, 0xff800000, 0x7fc00000, 0x1, 0x007fffff, 0x00800000, 0x7f7fffff, 0x3dcccccd, 0x00000100]
F16 = [0x0, 0x8000, 0x3c00, 0x3e00, 0x7c00, 0xfc00, 0x7e00, 0x1, 0x03ff, 0x0400, 0x7bff]


ANY_TAGS = [0, 1, 2, 3, 4, 5, 21, 22, 23, 32, 33, 34, 100, 55799]


def gen_value(rng, depth, fmt="cbor"):
    v = gen_value_(rng, depth, fmt)
    if fmt == "cbor" and rng.random() < 0.15 and not isinstance(v, Tagged):
        # any tag on any item: where the (tag, type) pair has no meaning the tag is ignored, and it never affects a later item
        return Tagged("#%d" % rng.choice(ANY_TAGS), v)
    return v


def gen_value_(rng, depth, fmt="cbor"):
    r = rng.random()
    if depth <= 0 or r < 0.35:
        q = rng.random()
        if q < 0.08:
            return None
        if q < 0.14:
            return rng.random() < 0.5
        if q < 0.4:
            return rng.choice(INTS) if rng.random() < 0.7 else rng.randint(-70000, 70000)
        if q < 0.5:
            return ("d", rng.choice(F64) if rng.random() < 0.7 else rng.getrandbits(64))
        if q < 0.58:
            return ("f32", rng.choice(F32) if rng.random() < 0.7 else rng.getrandbits(32))
        if q < 0.63 and fmt == "cbor":
            return ("e", rng.choice(F16) if rng.random() < 0.7 else rng.getrandbits(16))
        if q < 0.8:
            s = rng.choice(STRS)
            if fmt == "cbor" and rng.random() < 0.2:
                return Tagged(rng.choice(["datetime", "uri", "base64url", "base64", "#55799", "#6"]), s)
            return s
        if q < 0.9:
            b = ("b", bytes(rng.randrange(256) for _ in range(rng.choice([0, 1, 2, 23, 24, 40]))))
            if fmt == "cbor" and rng.random() < 0.3:
                return Tagged(rng.choice(["base64url", "base64", "base16", "#100"]), b)
            return b
        if fmt == "cbor":
            if rng.random() < 0.5:
                return Tagged("bigint", str(rng.choice([0, 1, 255, 256, 2 ** 64, 2 ** 64 - 1, -1, -2 ** 64, -2 ** 64 - 1, 10 ** 30, -10 ** 30])).encode())
            inner = rng.choice([0, 1, -1, 1363896240, -2 ** 40, ("d", 0x41d452d9ec200000), ("f32", 0x4e800000)])
            return Tagged("epoch_second", inner)
        return rng.choice(INTS)
    if r < 0.68:
        return [gen_value(rng, depth - 1, fmt) for _ in range(rng.choice([0, 1, 2, 3, 23, 24] if rng.random() < 0.1 else [0, 1, 2, 3]))]
    keys = [b"a", b"b", b"c", b"", b"\xc3\xa9", b"k" * 24, b"a"]
    n = rng.randint(0, 4)
    return Obj([(rng.choice(keys), gen_value(rng, depth - 1, fmt)) for _ in range(n)])


def cbor_inputs(rng, n, tier):
    out = []
    for _ in range(n):
        v = gen_value(rng, rng.randint(0, 3))
        b = binfmt.cbor_encode(v, rng, minimal=rng.random() < 0.3)
        out.append(b)
        r = rng.random()
        if r < 0.3:
            out.append(binfmt.mutate_bytes(rng, b))
        elif r < 0.4:
            out.append(b[:rng.randrange(len(b) + 1)])
        elif r < 0.45:
            out.append(binfmt.mutate_bytes(rng, binfmt.mutate_bytes(rng, b)))
    # every strict prefix of a few structured items
    for _ in range(12 if tier == "quick" else 100):
        b = binfmt.cbor_encode(gen_value(rng, 2), rng, minimal=False)
        out += [b[:i] for i in range(len(b))][:80]
    return out


def clean_for(fmt, v):
    """restrict a generated value to what the format's reference encoder can express"""
    if isinstance(v, Tagged):
        if fmt == "bson" and v.tag == "epoch_milli":
            return v
        return clean_for(fmt, v.value)
    if isinstance(v, tuple) and v[0] == "e":
        return ("d", 0x3ff0000000000000)
    if isinstance(v, tuple) and v[0] == "f32" and fmt == "bson":
        return ("d", 0x3ff8000000000000)
    if isinstance(v, tuple) and v[0] == "b" and fmt == "bson":
        return v[1].decode("latin-1").encode("utf-8").replace(b"\x00", b"?")
    if isinstance(v, int) and not isinstance(v, bool):
        if fmt in ("ubjson", "bson") and not (-2 ** 63 <= v < 2 ** 63):
            return v % 1000
        if fmt == "msgpack" and not (-2 ** 63 <= v < 2 ** 64):
            return v % 1000
    if isinstance(v, bytes) and fmt == "bson":
        return v.replace(b"\x00", b"?")
    if isinstance(v, list):
        return [clean_for(fmt, x) for x in v]
    if isinstance(v, Obj):
        ms = [(k.replace(b"\x00", b"?") if fmt == "bson" else k, clean_for(fmt, x)) for k, x in v.members]
        return Obj(ms)
    return v


ENCODERS = {"msgpack": binfmt.mp_encode, "ubjson": binfmt.ub_encode, "bson": binfmt.bson_encode}


def fmt_inputs(fmt, rng, n, tier):
    out = []
    enc = ENCODERS[fmt]
    for _ in range(n):
        v = clean_for(fmt, gen_value(rng, rng.randint(0, 3), fmt))
        if fmt == "bson" and rng.random() < 0.2:
            v = Obj([(b"t", Tagged("epoch_milli", rng.choice([0, 1, -1, 1363896240123, -2 ** 63, 2 ** 63 - 1])))] + (v.members if isinstance(v, Obj) else []))
        b = enc(v, rng, minimal=rng.random() < 0.3)
        out.append(b)
        r = rng.random()
        if r < 0.3:
            out.append(binfmt.mutate_bytes(rng, b, (0x00, 0x01, 0x7f, 0x80, 0xff, 0xc1, 0xc0, 0xd9, 0xdc, 0xdf, 0x24, 0x23, 0x5b, 0x5d, 0x7b, 0x7d, 0x4e, 0x53, 0x10)))
        elif r < 0.4:
            out.append(b[:rng.randrange(len(b) + 1)])
        elif r < 0.45:
            out.append(binfmt.mutate_bytes(rng, binfmt.mutate_bytes(rng, b)))
    if fmt == "ubjson":
        # containers whose members are all containers: exercises the strongly typed `$[` / `${` forms
        for _ in range(150 if tier == "quick" else 1500):
            inner = lambda: rng.choice([[], [rng.randint(-3, 300)], [None, True], Obj([]), Obj([(b"k", rng.randint(0, 9))])])
            kind_list = rng.random() < 0.5
            mk = (lambda: [x for x in [inner()] if isinstance(x, list)] or [[]])
            vals = []
            for _ in range(rng.randint(1, 3)):
                x = inner()
                while isinstance(x, list) != kind_list:
                    x = inner()
                vals.append(x)
            v = Obj([(rng.choice([b"a", b"b", b"c", b"dd"]) + bytes([97 + i]), x) for i, x in enumerate(vals)]) if rng.random() < 0.6 else vals
            out.append(enc(v, rng, minimal=False))
    for _ in range(8 if tier == "quick" else 60):
        b = enc(clean_for(fmt, gen_value(rng, 2, fmt)), rng, minimal=False)
        out += [b[:i] for i in range(len(b))][:60]
    return out


def cbor_exhaustive(maxlen, rng=None, sample=None):
    out = [bytes([a]) for a in range(256)]
    if maxlen >= 2:
        out += [bytes([a, b]) for a in range(256) for b in range(256)]
    if maxlen >= 3 and rng is not None:
        for _ in range(sample or 0):
            out.append(bytes([rng.randrange(256), rng.randrange(256), rng.randrange(256)]))
    return out


def dec_line(fmt, kind, data, opts="-"):
    return "bin dec %s %s %s x%s" % (fmt, kind, opts, data.hex())


def ref_line(line):
    t = line.split()
    return "bin sdec %s %s" % (t[2], t[5])


def judge(fmt, kind, impl, ref):
    if ref == "unjudged" or ref == "":
        return None
    if ref == "ill":
        if impl.startswith("ok"):
            return "an ill-formed %s encoding was decoded to a value: %s" % (fmt, impl[:100])
        return None
    want0 = wire.parse_all(ref[3:])[0]
    if has_sub_int64(want0):
        # an integer below -2^63: jsoncons has no native representation; number_too_large or a big-number string are both faithful
        if impl.startswith("err") and impl.endswith(":8"):
            return None
        want0 = big_as_text(want0)
    if not impl.startswith("ok "):
        return "a well-formed %s encoding was rejected: %s (reference: %s)" % (fmt, impl, ref[:80])
    want = wire.canon_nan(wire.normalize_objects(want0, kind))
    have = wire.canon_nan(wire.strip_tag(wire.parse_all(impl[3:])[0], "noesc"))
    if have != want:
        return "decoded value differs from the one the %s specification assigns: got %s, want %s" % (fmt, impl[3:120], ref[3:120])
    return None


def has_sub_int64(v):
    if isinstance(v, int) and not isinstance(v, bool):
        return v < -2 ** 63
    if isinstance(v, Tagged):
        return has_sub_int64(v.value)
    if isinstance(v, list):
        return any(has_sub_int64(x) for x in v)
    if isinstance(v, Obj):
        return any(has_sub_int64(x) for _, x in v.members)
    return False


def big_as_text(v):
    if isinstance(v, int) and not isinstance(v, bool) and v < -2 ** 63:
        return Tagged("bigint", str(v).encode())
    if isinstance(v, Tagged):
        return Tagged(v.tag, big_as_text(v.value))
    if isinstance(v, list):
        return [big_as_text(x) for x in v]
    if isinstance(v, Obj):
        return Obj([(k, big_as_text(x)) for k, x in v.members])
    return v


def oracle(line, impl, model, ref=None):
    t = line.split()
    if t[1] != "dec" or ref is None:
        return None
    return judge(t[2], t[3], impl, ref)


def nontrivial(line, impl):
    t = line.split()
    return t[5] if impl.startswith("ok") and len(t[5]) > 5 else None


def with_ref(lines):
    return [ref_line(l) for l in lines]


def strip_tags(v):
    """the data-model core of a generated value: no tags (the cbor_parser model's fragment)"""
    if isinstance(v, Tagged):
        return v if v.tag == "undefined" else strip_tags(v.value)
    if isinstance(v, list):
        return [strip_tags(x) for x in v]
    if isinstance(v, Obj):
        return Obj([(k, strip_tags(x)) for k, x in v.members])
    return v


def model_inputs(rng, n, tier):
    """inputs for the cbor_parser model beyond `cbor_inputs`: tag-free items in every width and form with their mutations and
    prefixes, maps whose keys are not text strings (integers, booleans, null, undefined, byte strings, floats, containers),
    deep nesting (decoded under small max_nesting_depth limits as well), chunked strings cut inside a UTF-8 sequence"""
    out = []
    for _ in range(n):
        v = strip_tags(gen_value(rng, rng.randint(0, 3)))
        b = binfmt.cbor_encode(v, rng, minimal=rng.random() < 0.3)
        out.append(("-", b))
        r = rng.random()
        if r < 0.4:
            out.append(("-", binfmt.mutate_bytes(rng, b)))
        elif r < 0.5:
            out.append(("-", b[:rng.randrange(len(b) + 1)]))
        elif r < 0.6:
            out.append(("-", binfmt.mutate_bytes(rng, binfmt.mutate_bytes(rng, b))))
        if rng.random() < 0.25:
            out.append(("d%d" % rng.randint(0, 4), b))
    scal = lambda: rng.choice([0, 1, 23, 24, 255, 65536, 2 ** 64 - 1, -1, -25, -2 ** 63, -2 ** 63 - 1, True, False, None, Tagged("undefined", None),
                               ("b", b""), ("b", b"\x00"), ("b", b"\xfb\xff"), ("b", b"abc"), ("b", bytes(rng.randrange(256) for _ in range(rng.randint(0, 7)))),
                               b"a", b"", b"\xc3\xa9", ("e", 0x3c00), ("f32", 0x3fc00000), ("d", 0x3ff8000000000000), [], [1], Obj([])])
    for _ in range(n // 4):
        k = rng.randint(0, 4)
        pairs = [(scal(), strip_tags(gen_value(rng, rng.randint(0, 1)))) for _ in range(k)]
        body = b"".join(binfmt.cbor_encode(a, rng, False) + binfmt.cbor_encode(x, rng, False) for a, x in pairs)
        m = (b"\xbf" + body + b"\xff") if rng.random() < 0.4 else (binfmt.cbor_head(5, k, rng, False) + body)
        out.append(("-", m))
        if rng.random() < 0.3:
            out.append(("-", binfmt.mutate_bytes(rng, m)))
        if rng.random() < 0.2:
            out.append(("-", b"\x81" + m))
    for d in range(0, 8):
        for lim in ("-", "d0", "d1", "d2", "d3", "d7", "d8"):
            out.append((lim, b"\x81" * d + b"\x00"))
            out.append((lim, b"\x9f" * d + b"\xf6" + b"\xff" * d))
            out.append((lim, b"\xa1\x61\x61" * d + b"\x01"))
            out.append((lim, b"\xbf\x60" * d + b"\x9c" + b"\xff" * d))
    for depth in (1023, 1024, 1025):
        out.append(("-", b"\x81" * depth + b"\x00"))
        out.append(("-", b"\x9f" * depth + b"\xff" * depth))
    for s in (b"\x7f\x61\xc3\x61\xa9\xff", b"\x7f\x62\xc3\xa9\xff", b"\x7f\x61\x61\x41\x62\xff", b"\x5f\x41\x61\x61\x62\xff", b"\x7f\x7f\xff\xff",
              b"\x5f\x5f\xff\xff", b"\x7f\x78\x01\x61\x79\x00\x01\x62\xff", b"\x7f\x61\x61", b"\x7f\x7c\xff", b"\x5f\x5b" + b"\xff" * 8, b"\x7b" + b"\xff" * 8,
              b"\x9b" + b"\xff" * 8 + b"\x00", b"\xbb" + b"\xff" * 8 + b"\x60", b"\x3b\x7f" + b"\xff" * 7, b"\x3b\x80" + b"\x00" * 7, b"\x1b" + b"\xff" * 8):
        out.append(("-", s))
        out += [("-", s[:i]) for i in range(len(s))]
    return out


def mp_ext(ty, payload, rng):
    """an ext item in one of the forms that can carry `payload` (fixext where the size allows, ext8/16/32)"""
    n = len(payload)
    forms = []
    fix = {1: 0xd4, 2: 0xd5, 4: 0xd6, 8: 0xd7, 16: 0xd8}
    if n in fix:
        forms.append(bytes([fix[n], ty]))
    if n < 256:
        forms.append(bytes([0xc7, n, ty]))
    if n < 65536:
        forms.append(b"\xc8" + n.to_bytes(2, "big") + bytes([ty]))
    forms.append(b"\xc9" + n.to_bytes(4, "big") + bytes([ty]))
    return rng.choice(forms) + payload


def mp_timestamp(rng):
    """ext type -1 in the 32 / 64 / 96 bit layouts, nanoseconds also beyond 999999999, seconds of both signs"""
    k = rng.choice([4, 8, 12])
    nsec = rng.choice([0, 1, 999999999, 1000000000, 2 ** 30 - 1, rng.getrandbits(30)])
    if k == 4:
        p = rng.choice([0, 1, 2 ** 31, 2 ** 32 - 1, rng.getrandbits(32)]).to_bytes(4, "big")
    elif k == 8:
        sec = rng.choice([0, 1, 2 ** 32, 2 ** 34 - 1, rng.getrandbits(34)])
        p = ((nsec << 34) | sec).to_bytes(8, "big")
    else:
        nsec = rng.choice([nsec, 2 ** 32 - 1, rng.getrandbits(32)])
        sec = rng.choice([0, 1, -1, -2 ** 63, 2 ** 63 - 1, -1363896240, rng.getrandbits(64) - 2 ** 63])
        p = nsec.to_bytes(4, "big") + sec.to_bytes(8, "big", signed=True)
    return mp_ext(0xff, p, rng)


def mp_model_inputs(rng, n, tier):
    """inputs for the msgpack_parser model beyond `fmt_inputs("msgpack")`: ext items of every form and type (timestamps in the three
    layouts, type -1 with other payload sizes, other types with payload sizes 4 / 8 / 12), maps whose keys are not strings (integers,
    booleans, nil, bin, ext, timestamps, floats, containers), nesting at and around the depth limit (also under small max_nesting_depth
    options), every width at its boundary values, 0xc1, prefixes of everything"""
    out = []
    enc = binfmt.mp_encode
    for _ in range(n):
        v = clean_for("msgpack", gen_value(rng, rng.randint(0, 3), "msgpack"))
        b = enc(v, rng, minimal=rng.random() < 0.3)
        r = rng.random()
        if r < 0.4:
            out.append(("-", binfmt.mutate_bytes(rng, b, (0x00, 0x7f, 0x80, 0x8f, 0x90, 0x9f, 0xa0, 0xbf, 0xc0, 0xc1, 0xc7, 0xd4, 0xd6, 0xd7, 0xd8, 0xd9, 0xdc, 0xdf, 0xe0, 0xff))))
        elif r < 0.5:
            out.append(("-", b[:rng.randrange(len(b) + 1)]))
        if rng.random() < 0.25:
            out.append(("d%d" % rng.randint(0, 4), b))
    exts = []
    for _ in range(n // 3):
        ty = rng.choice([0, 1, 5, 0x7f, 0x80, 0xfe, 0xff, 0xff, rng.randrange(256)])
        ln = rng.choice([0, 1, 2, 3, 4, 5, 8, 9, 12, 13, 16, 17, 255, 256])
        exts.append(mp_ext(ty, bytes(rng.randrange(256) for _ in range(ln)), rng))
        exts.append(mp_timestamp(rng))
    for e in exts:
        out.append(("-", e))
        r = rng.random()
        if r < 0.2:
            out.append(("-", e[:rng.randrange(len(e) + 1)]))
        elif r < 0.3:
            out.append(("-", binfmt.mutate_bytes(rng, e, (0xff, 0x04, 0x08, 0x0c, 0xd6, 0xd7, 0xc7))))
        elif r < 0.4:
            out.append(("-", b"\x92" + e + rng.choice(exts)))
    for e in exts[:6]:
        out += [("-", e[:i]) for i in range(len(e))]
    scal = lambda: rng.choice([enc(x, rng, False) for x in (0, 1, 127, 128, 255, 65536, 2 ** 64 - 1, -1, -32, -33, -2 ** 63, True, False, None, ("b", b""), ("b", b"\x00"),
                                                           ("b", b"\xfb\xff"), ("b", b"abc"), b"a", b"", b"\xc3\xa9", ("f32", 0x3fc00000), ("d", 0x3ff8000000000000), [], [1], Obj([]))]
                              + [rng.choice(exts), mp_timestamp(rng), enc(("b", bytes(rng.randrange(256) for _ in range(rng.randint(0, 7)))), rng, False)])
    for _ in range(n // 4):
        k = rng.randint(0, 4)
        body = b"".join(scal() + enc(clean_for("msgpack", gen_value(rng, rng.randint(0, 1), "msgpack")), rng, False) for _ in range(k))
        m = rng.choice([bytes([0x80 + k]), b"\xde" + k.to_bytes(2, "big"), b"\xdf" + k.to_bytes(4, "big")]) + body
        out.append(("-", m))
        if rng.random() < 0.3:
            out.append(("-", binfmt.mutate_bytes(rng, m)))
        if rng.random() < 0.2:
            out.append(("-", b"\x91" + m))
    for d in range(0, 8):
        for lim in ("-", "d0", "d1", "d2", "d3", "d7", "d8"):
            out.append((lim, b"\x91" * d + b"\x00"))
            out.append((lim, b"\xdc\x00\x01" * d + b"\xc0"))
            out.append((lim, b"\x81\xa1\x61" * d + b"\x01"))
            out.append((lim, b"\xdf\x00\x00\x00\x01\xa0" * d + b"\x90"))
            out.append((lim, b"\x91" * d + b"\xdc"))           # the depth check comes before the length is read
    for depth in (1023, 1024, 1025):
        out.append(("-", b"\x91" * depth + b"\x00"))
        out.append(("-", b"\x81\xa0" * depth + b"\xc0"))
        out.append(("-", b"\x91" * depth))
    for s in (b"\xc1", b"\x91\xc1", b"\x81\xc1\x00", b"\x81\xa0\xc1", b"\xcc\xff", b"\xcd\xff\xff", b"\xce" + b"\xff" * 4, b"\xcf" + b"\xff" * 8, b"\xd0\x80", b"\xd0\x7f",
              b"\xd1\x80\x00", b"\xd1\x7f\xff", b"\xd2\x80\x00\x00\x00", b"\xd2\x7f\xff\xff\xff", b"\xd3\x80" + b"\x00" * 7, b"\xd3\x7f" + b"\xff" * 7, b"\xd3" + b"\xff" * 8,
              b"\xe0", b"\xff", b"\x7f", b"\xa2\xc3\xa9", b"\xa1\xff", b"\xd9\x02\xc3\x28", b"\xda\x00\x01\x80", b"\xdb\x00\x00\x00\x04\xf0\x9f\x98\x80", b"\xa3\xed\xa0\x80",
              b"\xdb\xff\xff\xff\xff\x61", b"\xc6\xff\xff\xff\xff\x61", b"\xc9\xff\xff\xff\xff\x01\x61", b"\xdd\xff\xff\xff\xff\x00", b"\xdf\xff\xff\xff\xff\xa0\x00",
              b"\xd6\xff\x00\x00\x00\x01", b"\xd7\xff" + b"\xff" * 8, b"\xd7\xff\xee\x6b\x28\x00\x00\x00\x00\x00", b"\xc7\x0c\xff" + b"\xff" * 12, b"\xc7\x0c\xff\x3b\x9a\xca\x00" + b"\x80" + b"\x00" * 7,
              b"\xc7\x0c\xff\x00\x00\x00\x00" + b"\xff" * 8, b"\xc8\x00\x04\xff\x00\x00\x00\x02", b"\xc9\x00\x00\x00\x08\xff" + b"\x01" * 8, b"\xd4\xff\x00", b"\xd8\xff" + b"\x00" * 16,
              b"\xc7\x00\xff", b"\xc7\x04\x01\x00\x00\x00\x01", b"\x81\xd6\xff\x00\x00\x00\x07\x01", b"\x81\xd7\xff\x00\x00\x00\x04\x00\x00\x00\x07\x01",
              b"\x82\x01\x02\xa1\x31\x03", b"\x82\xc4\x01\x61\x01\xd4\x05\x61\x02"):
        out.append(("-", s))
        out += [("-", s[:i]) for i in range(len(s))]
    return out


def ubj_model_inputs(rng, n, tier):
    """inputs for the ubjson_parser model beyond the reference's fragment: high-precision numbers, no-op markers in every position, typed
    containers of every element type (also of containers), counts on both sides of max_items, nesting around the depth option, bad keys,
    negative / non-integer lengths, prefixes of everything"""
    out = []
    i8 = lambda k: b"i" + bytes([k % 256])
    ln = lambda k: rng.choice([i8(k), b"U" + bytes([k]), b"I" + k.to_bytes(2, "big"), b"l" + k.to_bytes(4, "big"), b"L" + k.to_bytes(8, "big")]) if k < 128 else \
        rng.choice([b"I" + k.to_bytes(2, "big"), b"l" + k.to_bytes(4, "big"), b"L" + k.to_bytes(8, "big")])
    payload = {ord("Z"): lambda: b"", ord("N"): lambda: b"", ord("T"): lambda: b"", ord("F"): lambda: b"",
               ord("i"): lambda: bytes([rng.randrange(256)]), ord("U"): lambda: bytes([rng.randrange(256)]),
               ord("I"): lambda: bytes(rng.randrange(256) for _ in range(2)), ord("l"): lambda: bytes(rng.randrange(256) for _ in range(4)),
               ord("L"): lambda: bytes(rng.randrange(256) for _ in range(8)), ord("d"): lambda: bytes(rng.randrange(256) for _ in range(4)),
               ord("D"): lambda: bytes(rng.randrange(256) for _ in range(8)), ord("C"): lambda: bytes([rng.choice([0x61, 0x00, 0x7f, 0x80, 0xff, rng.randrange(256)])]),
               ord("S"): lambda: rng.choice([ln(0), ln(1) + b"a", ln(2) + b"\xc3\xa9", ln(2) + b"\xc3\x28", ln(3) + b"\xed\xa0\x80", ln(4) + b"\xf0\x9f\x98\x80"]),
               ord("H"): lambda: rng.choice([ln(0), ln(1) + b"7", ln(2) + b"-1", ln(1) + b"-", ln(3) + b"1.5", ln(3) + b"1e5", ln(2) + b"\xff\xfe", ln(20) + b"12345678901234567890", ln(3) + b"+12", ln(2) + b"1-"]),
               ord("["): lambda: rng.choice([b"]", b"#" + ln(0), b"#" + ln(1) + b"Z", b"$U#" + ln(2) + b"\x01\x02", b"i\x05]", b"N]", b"$N#" + ln(3)]),
               ord("{"): lambda: rng.choice([b"}", b"#" + ln(0), b"#" + ln(1) + ln(1) + b"kT", b"$i#" + ln(1) + ln(1) + b"a\x07", ln(1) + b"bF}", b"N}"])}
    marks = sorted(payload)
    item = lambda: (lambda m: bytes([m]) + payload[m]())(rng.choice(marks))
    key = lambda: rng.choice([ln(0), ln(1) + b"a", ln(1) + b"b", ln(2) + b"\xc3\xa9", ln(1) + b"\xff", b"N", b"S" + ln(1) + b"a", b"i\xff", b"Z"])
    for _ in range(n):
        r = rng.random()
        k = rng.randint(0, 4)
        if r < 0.15:
            b = item()
        elif r < 0.3:
            ty = rng.choice(marks + [0x58, 0x5d, 0x23, 0x24])
            b = b"[$" + bytes([ty]) + b"#" + ln(k) + b"".join(payload.get(ty, lambda: b"")() for _ in range(k))
        elif r < 0.45:
            ty = rng.choice(marks + [0x58, 0x7d])
            b = b"{$" + bytes([ty]) + b"#" + ln(k) + b"".join(key() + payload.get(ty, lambda: b"")() for _ in range(k))
        elif r < 0.6:
            b = b"[#" + ln(k) + b"".join(item() for _ in range(k))
        elif r < 0.7:
            b = b"{#" + ln(k) + b"".join(key() + item() for _ in range(k))
        elif r < 0.85:
            b = b"[" + b"".join(item() for _ in range(k)) + b"]"
        else:
            b = b"{" + b"".join(key() + item() for _ in range(k)) + b"}"
        o = rng.choice(["m4096", "m4096", "m4096", "m4096d%d" % rng.randint(0, 3), "m%d" % rng.randint(0, 3), "d%dm%d" % (rng.randint(1, 3), rng.randint(1, 4))])
        out.append((o, b))
        r = rng.random()
        if r < 0.3:
            out.append((o, b[:rng.randrange(len(b) + 1)]))
        elif r < 0.5:
            out.append((o, binfmt.mutate_bytes(rng, b, (0x24, 0x23, 0x4e, 0x5b, 0x5d, 0x7b, 0x7d, 0x48, 0x53, 0x43, 0x69, 0x55, 0x49, 0x6c, 0x4c, 0xff, 0x80, 0x00))))
    for d in range(0, 6):
        for lim in ("m4096", "m4096d0", "m4096d1", "m4096d2", "m4096d5", "m0", "m1", "m2"):
            out.append((lim, b"[" * d + b"Z" + b"]" * d))
            out.append((lim, b"[#i\x01" * d + b"T"))
            out.append((lim, b"[$[#i\x01" * d + b"]"))
            out.append((lim, b"{i\x01a" * d + b"F" + b"}" * d))
            out.append((lim, b"{$[#i\x01i\x01k" * d + b"]"))
            out.append((lim, b"[" * d))
    for cnt in (0, 1, 2, 3, 4095, 4096, 4097, 65535):
        for lim in ("m4096", "m2", "m4095"):
            out.append((lim, b"[$Z#l" + cnt.to_bytes(4, "big")))
            out.append((lim, b"[$N#I" + (cnt % 32768).to_bytes(2, "big")))
            out.append((lim, b"[#L" + cnt.to_bytes(8, "big") + b"T" * min(cnt, 5000)))
            out.append((lim, b"{$T#l" + cnt.to_bytes(4, "big") + b"i\x01a" * min(cnt, 5000)))
            out.append((lim, b"[" + b"N" * min(cnt, 5000) + b"]"))
            out.append((lim, b"[" + b"F" * min(cnt, 5000) + b"]"))
            out.append((lim, b"{" + b"i\x01aZ" * min(cnt, 5000) + b"}"))
    for s in (b"N", b"[N]", b"[#i\x02NN", b"{i\x01aN}", b"{#i\x01i\x01aN", b"{$N#i\x01i\x01a", b"[$N#i\x03", b"[$", b"[$i", b"[$iX", b"[$i#", b"[$i#S", b"[$i#i\xff", b"[#I\x80\x00",
              b"[#l\x80\x00\x00\x00", b"[#L\x80" + b"\x00" * 7, b"[#L\x7f" + b"\xff" * 7, b"SL\x7f" + b"\xff" * 7 + b"a", b"HU\x03123", b"HU\x02-5", b"HU\x011", b"HU\x00", b"Hi\x031.5",
              b"HU\x02\xc3\x28", b"C\x80", b"Ca", b"C", b"{N}", b"{Z", b"{i\xff", b"{i\x01", b"{i\x01\xff", b"{U\x01aC", b"{$", b"{$i", b"{$i#", b"{$iX", b"{#", b"X", b"[X]", b"[$X#i\x00", b"[$X#i\x01",
              b"{$X#i\x00", b"[$]#i\x01", b"[$##i\x01", b"[$$#i\x01", b"[$S#i\x02i\x01ai\x01b", b"[$H#i\x02i\x011i\x03-.5", b"{$S#i\x01i\x01ki\x01v", b"{${#i\x01i\x01k}",
              b"{${#i\x01i\x01k$Z#i\x01i\x01z", b"[$C#i\x02a\xff", b"[$d#i\x01\x7f\xc0\x00\x00", b"[$D#i\x01" + b"\x7f\xf8" + b"\x00" * 6, b"[i\x01", b"[#i\x05i\x01"):
        for lim in ("m4096", "m4096d1", "m1"):
            out.append((lim, s))
        out += [("m4096", s[:i]) for i in range(len(s))]
    return out


def model_line(line):
    t = line.split()
    return "bin mdec %s %s %s" % (t[2], t[4], t[5])


def model_tie(stats):
    """the cbor_parser model against the real decoder: the same error code, or the same value once the model's member lists went
    through what a json_decoder does to them (first duplicate wins, sorted for `json`); `skip` = outside the modelled fragment"""
    def compare(line, impl, model):
        if model == "skip":
            stats["skip"] += 1
            return True
        stats["tied"] += 1
        if not model.startswith("ok "):
            if model.startswith("err"):
                stats["errors"] += 1
            return impl == model
        if not impl.startswith("ok "):
            return False
        if impl == model:
            return True
        try:
            want = wire.canon_nan(wire.normalize_objects(wire.parse_all(model[3:])[0], line.split()[3]))
            have = wire.canon_nan(wire.strip_tag(wire.parse_all(impl[3:])[0], "noesc"))
        except RecursionError:
            return False
        return have == want
    return compare


def mp_timestamp_lines():
    """MessagePack timestamp 64 (fixext8, type -1: nsec in the upper 30 bits) and timestamp 96 (ext8 of 12 bytes: nsec, then int64 seconds) with the
    nanoseconds on both sides of the specification's limit ("nanoseconds must not be larger than 999999999")"""
    ls = []
    for nsec in (0, 1, 999999998, 999999999, 1000000000, 1000000001, 2 ** 30 - 1):
        for sec in (0, 1, 2 ** 34 - 1):
            ls.append(dec_line("msgpack", "j", bytes([0xd7, 0xff]) + ((nsec << 34) | sec).to_bytes(8, "big")))
    for nsec in (0, 999999999, 1000000000, 2 ** 31, 2 ** 32 - 1):
        for sec in (0, -1, 2 ** 40, -2 ** 63):
            ls.append(dec_line("msgpack", "j", bytes([0xc7, 0x0c, 0xff]) + nsec.to_bytes(4, "big") + (sec % 2 ** 64).to_bytes(8, "big")))
    return ls


def mp_timestamp_nsec(line):
    b = bytes.fromhex(line.split()[-1][1:])
    if b[:2] == bytes([0xd7, 0xff]) and len(b) == 10:
        return int.from_bytes(b[2:], "big") >> 34
    if b[:3] == bytes([0xc7, 0x0c, 0xff]) and len(b) == 15:
        return int.from_bytes(b[3:7], "big")
    return None


def mp_timestamp_oracle(line, impl, model, ref=None):
    nsec = mp_timestamp_nsec(line)
    if nsec is None:
        return None
    if nsec > 999999999 and impl.startswith("ok"):
        return "a MessagePack timestamp with %d nanoseconds (> 999999999, ill-formed by the specification) was accepted: %s" % (nsec, impl[:80])
    if nsec <= 999999999 and not impl.startswith("ok"):
        return "a well-formed MessagePack timestamp was refused: " + impl[:80]
    return None


@vlib.known_matcher("D90")
def _match_d90(stream, line, impl, model):
    """timestamp 64 / 96 with nanoseconds above 999999999, accepted"""
    t = line.split()
    if t[:3] != ["bin", "dec", "msgpack"]:
        return False
    nsec = mp_timestamp_nsec(line)
    return nsec is not None and nsec > 999999999 and impl.startswith("ok")


def streams(ctx, rng, scale):
    lt = mp_timestamp_lines()
    ctx.correspond("msgpack-timestamp-range", HARNESS, lt, mp_timestamp_oracle, nontrivial, want_model=False)
    lw = vlib.witness_lines(PROP)
    ctx.correspond("finding-witnesses", HARNESS, lw, oracle, nontrivial, ref_lines=with_ref(lw), want_model=False)
    lc = [dec_line("cbor", "j" if rng.random() < 0.7 else "o", b) for b in cbor_inputs(rng, 2500 * scale, ctx.tier)]
    ctx.correspond("cbor-generated", HARNESS, lc, oracle, nontrivial, ref_lines=with_ref(lc), want_model=False)
    le = [dec_line("cbor", "j", b) for b in cbor_exhaustive(2 if ctx.tier == "quick" else 3, rng, 200000)]
    ctx.correspond("cbor-exhaustive-short", HARNESS, le, oracle, nontrivial, ref_lines=with_ref(le), want_model=False)
    # every IEEE 754 binary16 pattern (both signs of zero, subnormals, normals, infinities, NaNs), alone and inside a float16 typed array,
    # and binary32 patterns along the exponent range with both signs
    lh = [dec_line("cbor", "j", b"\xf9" + bytes([h >> 8, h & 0xff])) for h in range(0, 65536, 1 if ctx.tier == "thorough" else 3)]
    lh += [dec_line("cbor", "j", b"\xf9" + bytes([h >> 8, h & 0xff])) for h in (0x0000, 0x8000, 0x0001, 0x8001, 0x03ff, 0x83ff, 0x0400, 0x8400, 0x7bff, 0xfbff, 0x7c00, 0xfc00, 0x7e00, 0xfe00, 0x7c01)]
    lh += [dec_line("cbor", "j", b"\xfa" + bytes([s | (e >> 1), ((e & 1) << 7) | m, 0, m2])) for s in (0, 0x80) for e in range(0, 256, 5) for m in (0, 1, 0x40, 0x7f) for m2 in (0, 1)]
    ctx.correspond("cbor-float16-every-pattern", HARNESS, lh, oracle, nontrivial, ref_lines=with_ref(lh), want_model=False)
    # … and the double each pattern denotes: binary::decode_half, as<double>() of a half-holding value and decode_cbor<double> against the
    # Lean widening f16ToF64 (Props.C07.half_sign_symmetric / half_normal), plus encode_half back to the same pattern
    lhv = ["bin half %04x" % h for h in range(0, 65536, 1 if ctx.tier == "thorough" else 3)] + ["bin half %04x" % h for h in (0x8000, 0x8001, 0x83ff, 0x8400, 0xfbff, 0xfc00, 0x7c00, 0x7e00)]
    ctx.correspond("float16-values", HARNESS, lhv, lambda line, impl, model, ref=None: None, lambda l, i: l, model_lines=lhv)
    kept = {}
    for fmt in ("msgpack", "ubjson", "bson"):
        fo = "m4096" if fmt == "ubjson" else "-"       # keep hostile counts from building 16M-element arrays in the harness
        lf = [dec_line(fmt, "j" if rng.random() < 0.7 else "o", b, fo) for b in fmt_inputs(fmt, rng, 1500 * scale, ctx.tier)]
        ctx.correspond(fmt + "-generated", HARNESS, lf, oracle, nontrivial, ref_lines=with_ref(lf), want_model=False)
        kept[fmt] = list(lf)
        if fmt != "bson":
            lx = [dec_line(fmt, "j", b, "m4096" if fmt == "ubjson" else "-") for b in cbor_exhaustive(2 if ctx.tier == "quick" else 3, rng, 100000)]
            ctx.correspond(fmt + "-exhaustive-short", HARNESS, lx, oracle, nontrivial, ref_lines=with_ref(lx), want_model=False)
            kept[fmt] += lx
    # the cbor_parser MODEL (JV.Model.CborParser: read_item / read_uint64 / read_int64 / iterate_string_chunks / the parse_mode stack /
    # the key-rendering adaptor) against the real decoder, on the inputs judged above and on tag-free inputs of its own
    lm = lc + le + ["bin dec cbor %s %s x%s" % ("j" if rng.random() < 0.7 else "o", o, b.hex()) for o, b in model_inputs(rng, 1500 * scale, ctx.tier)]
    stats = {"skip": 0, "tied": 0, "errors": 0}
    st = ctx.correspond("cbor-decoder-model", HARNESS, lm, None, nontrivial, compare=model_tie(stats), model_lines=[model_line(l) for l in lm])
    st.update({"model_answered": stats["tied"], "model_answered_error": stats["errors"], "outside_fragment": stats["skip"]})
    # the msgpack_parser MODEL (JV.Model.MsgpackParser: the read_item type-byte dispatch / get_size / ext and timestamps / the parse_mode
    # stack / the key-rendering adaptor) against the real decoder, on the MessagePack inputs judged above and on inputs of its own
    # (a separate PRNG stream, so that the streams above see the same inputs as before)
    rng2 = vlib.rng_for(ctx.seed * 7919 + scale, "c07-msgpack-model")
    lp = kept["msgpack"] + ["bin dec msgpack %s %s x%s" % ("j" if rng2.random() < 0.7 else "o", o, b.hex()) for o, b in mp_model_inputs(rng2, 1500 * scale, ctx.tier)]
    stats2 = {"skip": 0, "tied": 0, "errors": 0}
    st2 = ctx.correspond("msgpack-decoder-model", HARNESS, lp, None, nontrivial, compare=model_tie(stats2), model_lines=[model_line(l) for l in lp])
    st2.update({"model_answered": stats2["tied"], "model_answered_error": stats2["errors"], "outside_fragment": stats2["skip"]})
    # the ubjson_parser MODEL (JV.Model.UbjsonParser: read_value / get_length / read_key / begin_array / begin_object with $type and #count /
    # the nine container parse modes / max_items / max_nesting_depth) against the real decoder, on the UBJSON inputs judged above and on
    # inputs of its own (a separate PRNG stream)
    rng3 = vlib.rng_for(ctx.seed * 7919 + scale, "c07-ubjson-model")
    lu = kept["ubjson"] + ["bin dec ubjson %s %s x%s" % ("j" if rng3.random() < 0.7 else "o", o, b.hex()) for o, b in ubj_model_inputs(rng3, 1000 * scale, ctx.tier)]
    stats3 = {"skip": 0, "tied": 0, "errors": 0}
    st3 = ctx.correspond("ubjson-decoder-model", HARNESS, lu, None, nontrivial, compare=model_tie(stats3), model_lines=[model_line(l) for l in lu])
    st3.update({"model_answered": stats3["tied"], "model_answered_error": stats3["errors"], "outside_fragment": stats3["skip"]})


def run(ctx):
    ctx.prove(MODULES, leancheck=(ctx.tier == "thorough"))
    ctx.cov["rule"] = ("byte strings: outputs of independent reference encoders (Python, from the format specs) over data-model values using every "
                       "legal argument width (minimal and non-minimal), definite and indefinite strings/containers, float16/32/64, tags; single-byte "
                       "and structural mutations; every strict prefix; every 1- and 2-byte sequence (thorough: plus 200k sampled 3-byte sequences); every third (thorough: every) binary16 pattern and a grid of binary32 patterns. "
                       "The real decoder's outcome is judged against the Lean reference decoder written from the specification (value / ill-formed / "
                       "unjudged for jsoncons-specific renderings). non-trivial = accepted input of >= 3 bytes; distinct by input")
    rng = vlib.rng_for(ctx.seed, "c07")
    streams(ctx, rng, 1 if ctx.tier == "quick" else 10)


def search(ctx):
    for extra in range(1, 4):
        rng = vlib.rng_for(ctx.seed * 1000 + extra, "c07-search")
        before = len(ctx.fail_inputs)
        streams(ctx, rng, 3)
        if len(ctx.fail_inputs) > before:
            return ctx.fail_inputs[before]
    return None


def replay(ctx, path):
    lines = [l[4:].rstrip("\n") for l in open(path) if l.startswith("op: ")]
    if not lines:
        print(open(path).read())
        return 1
    ctx.correspond("replay", HARNESS, lines, oracle, nontrivial, ref_lines=with_ref(lines), want_model=False)
    for (stream, line, io, mo, why) in ctx.fail_inputs:
        print("op: %s\nimpl: %s\nwhy: %s" % (line, io, why))
    return 1 if ctx.fail_inputs or ctx.broken else 0
