"""C17 — typed encoding and decoding are inverse and route-independent (DESIGN.md §5 C17)."""
import vlib
import wire
import typed
from wire import Obj

PROP = "C17"
MODULES = ["JV.Props.C17"]
HARNESS = "ty"
FORMATS = ["json", "cbor", "msgpack", "ubjson"]


def split_out(impl):
    body, flags = (impl.split(" ||") + [""])[:2]
    a_ok = body.startswith("A:ok")
    a_val = b_val = None
    b_ok = " B:ok" in body
    if a_ok:
        end = body.index(" B:")
        a_val = body[5:end].strip()
    if b_ok:
        b_val = body[body.index(" B:ok") + 6:].strip()
    return a_ok, a_val, b_ok, b_val, body, flags.split()


def canon(s):
    return wire.render(wire.canon(wire.strip_tag(wire.parse_all(s)[0], "noesc")))


def oracle(line, impl, model, ref=None):
    if not impl.startswith("A:"):
        return "an exception escaped a try_ conversion or the harness aborted: " + impl[:120]
    a_ok, a_val, b_ok, b_val, body, flags = split_out(impl)
    if " B:unencodable" in body:
        return None                      # the format cannot hold the input (e.g. UBJSON and integers above INT64_MAX)
    for f in flags:
        if f.isupper() or "(" in f:
            return "the typed routes disagree with themselves: " + f
    if a_ok != b_ok:
        return "the basic_json route %s, the streaming route %s" % ("converts" if a_ok else "reports a conversion error", "converts" if b_ok else "reports a conversion error")
    if a_ok and canon(a_val) != canon(b_val):
        return "the two routes decode different values: %s vs %s" % (a_val[:150], b_val[:150])
    if model is None or model == "unjudged" or model == "bad-op":
        return None
    if model == "err":
        if a_ok:
            return "input that does not fit the type is converted (to %s) instead of reported as a conversion error" % a_val[:150]
        return None
    want = model[3:]
    if not a_ok:
        return "a value of the type is rejected by both routes (expected %s)" % want[:150]
    if canon(a_val) != canon(want):
        return "the decoded value %s is not the value that was encoded (%s)" % (a_val[:150], want[:150])
    return None


@vlib.known_matcher("D57")
def _match_d57(stream, line, impl, model):
    """as<std::string>() serializes any non-string value, decode_X<std::string> rejects it: route disagreement on mis-shaped input"""
    if not impl.startswith("A:"):
        return False
    a_ok, a_val, b_ok, b_val, body, flags = split_out(impl)
    return model == "unjudged" and a_ok and not b_ok and wants_string_somewhere(line)


def wants_string_somewhere(line):
    tid = line.split()[1]
    return tid in ("str", "tup", "vos", "s1", "s2", "s3", "pair", "sets", "var", "sps1", "vs1", "ms3")


def nontrivial(line, impl):
    return line if impl.startswith("A:ok") and len(line) > 40 else ("E" + line if impl.startswith("A:err") else None)


def gen_lines(rng, n):
    out = []
    for _ in range(n):
        tid = rng.choice(list(typed.TYPES))
        d = typed.TYPES[tid]
        v = typed.gen(rng, d)
        if rng.random() < 0.35:
            v = typed.misshape(rng, d, v)
        fmt = rng.choice(FORMATS + (["bson"] if tid in typed.OBJECT_ROOTED else []))
        if fmt == "bson" and not isinstance(v, Obj):
            fmt = "cbor"
        out.append("ty %s %s | %s" % (tid, fmt, wire.render(v)))
    return out


def streams(ctx, rng, scale):
    lw = vlib.witness_lines(PROP)
    ctx.correspond("finding-witnesses", HARNESS, lw, oracle, nontrivial, compare=lambda l, i, m: True)
    ctx.correspond("typed-conversions", HARNESS, gen_lines(rng, 5000 * scale), oracle, nontrivial, compare=lambda l, i, m: True)


def run(ctx):
    ctx.prove(MODULES, leancheck=(ctx.tier == "thorough"))
    ctx.cov["rule"] = ("23 C++ types (integers of four widths, string, bool, vector, map, tuple, pair, std::array, optional, shared_ptr, set, enum, variant, "
                       "N_MEMBER and ALL_MEMBER structs incl. nested ones, containers of structs) x JSON/CBOR/MessagePack/UBJSON/BSON; values generated from the type "
                       "descriptor (boundary integers, absent/present optionals, unknown and shuffled members) and mis-shaped ones (wrong kind at any depth, missing "
                       "mandatory member, short/long tuple and array, bad enumerator); both routes, try_ variants, typed re-encoding and round trip in the harness; "
                       "result judged against the Lean conversion model. non-trivial = a converted value or a conversion error")
    rng = vlib.rng_for(ctx.seed, "c17")
    streams(ctx, rng, 1 if ctx.tier == "quick" else 8)


def search(ctx):
    return None


def replay(ctx, path):
    print(open(path).read()[:3000])
    return 1
