"""C17 — typed encoding and decoding are inverse and route-independent (DESIGN.md §5 C17)."""
import concurrent.futures
import hashlib
import os
import vlib
import wire
import typed
from wire import Obj

PROP = "C17"
MODULES = ["JV.Props.C17"]
HARNESS = "ty"
FORMATS = ["json", "cbor", "msgpack", "ubjson"]


def split_out(impl):
    body, flags = (impl.split(" ||") + [""])[:2]
    a_ok = body.startswith("A:ok")
    a_val = b_val = None
    b_ok = " B:ok" in body
    if a_ok:
        end = body.index(" B:")
        a_val = body[5:end].strip()
    if b_ok:
        b_val = body[body.index(" B:ok") + 6:].strip()
    return a_ok, a_val, b_ok, b_val, body, flags.split()


def family_flags():
    """the slices share harness/ty_family.hpp, which build_harness does not hash: make it part of the cache key"""
    h = hashlib.sha256(open(os.path.join(vlib.ROOT, "harness", "ty_family.hpp"), "rb").read()).hexdigest()[:12]
    return ("-DTY_FAMILY_REV=0x" + h,)


def prebuild(ctx):
    """the four slices are heavy template TUs: compile them side by side (correspond() then finds them in the cache)"""
    vlib._TREE_HASH = vlib._TREE_HASH or vlib.tree_hash()
    with concurrent.futures.ThreadPoolExecutor(len(typed.PARTS)) as ex:
        list(ex.map(lambda h: vlib.build_harness(h, family_flags()), list(typed.PARTS)))


def unordered(d, v):
    """v with the elements of every unordered_set node sorted (their order is not defined, and differs between the routes)"""
    k = d[0]
    if k in ("opt", "ptr"):
        return v if v is None else unordered(d[1], v)
    if k in typed.SEQS + ("array",) and isinstance(v, list):
        xs = [unordered(d[1], x) for x in v]
        return sorted(xs, key=wire.render) if k == "uset" else xs
    if k in ("tuple", "pair") and isinstance(v, list):
        ds = d[1] if k == "tuple" else [d[1], d[2]]
        return [unordered(ds[i], x) if i < len(ds) else x for i, x in enumerate(v)]
    if k == "map" and isinstance(v, Obj):
        return Obj([(n, unordered(d[1], x)) for n, x in v.members])
    if k == "struct" and isinstance(v, Obj):
        known = {n: md for n, md, _ in d[1]}
        return Obj([(n, unordered(known[n], x) if n in known else x) for n, x in v.members])
    return v


HAS_USET = {tid for tid, d in typed.TYPES.items() if typed.contains(d, "uset")}


def canon(s, tid=None):
    v = wire.canon(wire.strip_tag(wire.parse_all(s)[0], "noesc"))
    if tid in HAS_USET:
        v = unordered(typed.TYPES[tid], v)
    return wire.render(v)


def oracle(line, impl, model, ref=None):
    if not impl.startswith("A:"):
        return "an exception escaped a try_ conversion or the harness aborted: " + impl[:120]
    a_ok, a_val, b_ok, b_val, body, flags = split_out(impl)
    tid = line.split()[1]
    if " B:unencodable" in body:
        return None                      # the format cannot hold the input (e.g. UBJSON and integers above INT64_MAX)
    for f in flags:
        if f.isupper() or "(" in f:
            return "the typed routes disagree with themselves: " + f
    if a_ok != b_ok:
        return "the basic_json route %s, the streaming route %s" % ("converts" if a_ok else "reports a conversion error", "converts" if b_ok else "reports a conversion error")
    if a_ok and canon(a_val, tid) != canon(b_val, tid):
        return "the two routes decode different values: %s vs %s" % (a_val[:150], b_val[:150])
    if model is None or model == "unjudged" or model == "bad-op":
        return None
    if model == "err":
        if a_ok:
            return "input that does not fit the type is converted (to %s) instead of reported as a conversion error" % a_val[:150]
        return None
    want = model[3:]
    if not a_ok:
        return "a value of the type is rejected by both routes (expected %s)" % want[:150]
    if canon(a_val, tid) != canon(want, tid):
        return "the decoded value %s is not the value that was encoded (%s)" % (a_val[:150], want[:150])
    return None


@vlib.known_matcher("D57")
def _match_d57(stream, line, impl, model):
    """as<std::string>() serializes any non-string value, decode_X<std::string> rejects it: route disagreement on mis-shaped input"""
    if not impl.startswith("A:"):
        return False
    a_ok, a_val, b_ok, b_val, body, flags = split_out(impl)
    return model == "unjudged" and a_ok and not b_ok and wants_string_somewhere(line)


WANTS_STRING = {tid for tid, d in typed.TYPES.items() if typed.contains(d, "str")}


def wants_string_somewhere(line):
    return line.split()[1] in WANTS_STRING


def nontrivial(line, impl):
    return line if impl.startswith("A:ok") and len(line) > 40 else ("E" + line if impl.startswith("A:err") else None)


def formats_of(tid):
    return FORMATS + (["bson"] if tid in typed.OBJECT_ROOTED else [])


def gen_lines(rng, n):
    out = []
    for _ in range(n):
        tid = rng.choice(list(typed.TYPES))
        d = typed.TYPES[tid]
        v = typed.gen(rng, d)
        if rng.random() < 0.35:
            v = typed.misshape(rng, d, v)
        fmt = rng.choice(formats_of(tid))
        if fmt == "bson" and not isinstance(v, Obj):
            fmt = "cbor"
        out.append("ty %s %s | %s" % (tid, fmt, wire.render(v)))
    return out


def every_type_lines(rng, per):
    """every type x every format it can be held in x fitting values (the empty container, the full one, generated ones): no (type, format,
    route) combination depends on the seed"""
    out = []
    for tid, d in typed.TYPES.items():
        vals = [typed.gen(rng, d, 0), typed.gen_full(rng, d)] + [typed.gen(rng, d) for _ in range(per)]
        for fmt in formats_of(tid):
            for v in vals:
                if fmt == "bson" and not isinstance(v, Obj):
                    continue
                out.append("ty %s %s | %s" % (tid, fmt, wire.render(v)))
    return out


def shape_lines(rng, rounds):
    """every fixed-shape node (pair, tuple<N>, array<T,N>; at the root or nested) of every type x every format x an array that is empty,
    one short, exact, one and two too long (extra elements of the element type and foreign ones); both routes in the harness"""
    out = []
    for tid, d in typed.TYPES.items():
        for _ in range(rounds):
            for v, path, n, m in typed.shape_cases(rng, d):
                for fmt in formats_of(tid):
                    if fmt == "bson" and not isinstance(v, Obj):
                        continue
                    out.append("ty %s %s | %s" % (tid, fmt, wire.render(v)))
    return out


def corr(ctx, stream, lines):
    """route every line to the harness slice that holds its type"""
    by = {h: [] for h in typed.PARTS}
    for l in lines:
        by[typed.HARNESS_OF.get(l.split()[1], "ty")].append(l)
    for h, ls in by.items():
        if ls:
            ctx.correspond("%s/%s" % (stream, h), h, ls, oracle, nontrivial, compare=lambda l, i, m: True, extra_flags=family_flags())


def streams(ctx, rng, scale):
    prebuild(ctx)
    corr(ctx, "finding-witnesses", vlib.witness_lines(PROP))
    corr(ctx, "every-type-every-format", every_type_lines(rng, 3 * scale))
    corr(ctx, "fixed-shapes", shape_lines(rng, scale))
    corr(ctx, "typed-conversions", gen_lines(rng, 5000 * scale))


def run(ctx):
    ctx.prove(MODULES, leancheck=(ctx.tier == "thorough"))
    ctx.cov["rule"] = ("%d C++ types (integers of four widths, string, bool, vector, forward_list, list, deque, map, unordered_map, set, multiset, unordered_set, "
                       "tuple<1..3>, pair, std::array, optional, shared_ptr, enum, variant, N_MEMBER and ALL_MEMBER structs incl. nested ones; pairs, tuples, arrays "
                       "and optionals nested in each other and in containers) x JSON/CBOR/MessagePack/UBJSON and BSON for object-rooted types; every type in every "
                       "format with fitting values; every fixed-shape node with arrays that are too short, exact and too long; values generated from the type "
                       "descriptor (boundary integers, absent/present optionals, unknown and shuffled members) and mis-shaped ones (wrong kind at any depth, missing "
                       "mandatory member, bad enumerator); both routes, try_ variants, typed re-encoding and round trip in the harness; "
                       "result judged against the Lean conversion model. non-trivial = a converted value or a conversion error" % len(typed.TYPES))
    rng = vlib.rng_for(ctx.seed, "c17")
    streams(ctx, rng, 1 if ctx.tier == "quick" else 8)


def search(ctx):
    return None


def replay(ctx, path):
    print(open(path).read()[:3000])
    return 1
