"""C05 — no input or option can make a decoder, compiler or encoder misbehave (DESIGN.md §5 C05)."""
import struct
import vlib
import wire
import binfmt
import jsontext
import jpath
import jmes
import schema as sg
import tables
from wire import Obj, Tagged

PROP = "C05"
MODULES = ["JV.Props.C05", "JV.Props.C05X"]
HARNESS = "fz"


def oracle(line, impl, model, ref=None):
    if not impl.startswith("ok"):
        return "an exception that is not a json_exception escaped, or the harness aborted: " + impl[:160]
    for part in impl.split()[1:]:
        if ":ASSERTION" in part:
            return "an internal assertion tripped: " + part[:160]
        if ":FOREIGN" in part:
            return "a foreign exception type escaped: " + part[:160]
        if part.endswith(":bad_alloc"):
            return "the input made the library run out of memory: " + part
    return None


@vlib.known_matcher("D73")
def _match_d73(stream, line, impl, model):
    """a csv column_types option string outside the accepted grammar (',' right after '*') trips the assertion in parse_column_types"""
    if not line.startswith("fz dec csv") or "ASSERTION(assertion 'false'" not in impl:
        return False
    return any(b"*," in bytes.fromhex(t[1:]) for t in line.split()[4:] if len(t) > 1 and t[0] == "t")


def nontrivial(line, impl):
    return line if ":ok" in impl else ("E" + line if ":err" in impl else None)


def leaf(rng):
    return rng.choice([None, True, False, 0, 1, -1, 23, 24, 255, 256, 65536, 2 ** 32, 2 ** 63 - 1, -2 ** 63, 2 ** 64 - 1, b"", b"a", b"\xc3\xa9", b"x" * 30,
                       ("d", struct.unpack("<Q", struct.pack("<d", rng.choice([0.0, 1.5, -2.25, 1e308, 5e-324, 1e-7, 123456789.125])))[0]), ("b", b"\x00\x01\xff")])


def value(rng, depth):
    if depth <= 0 or rng.random() < 0.3:
        return leaf(rng)
    if rng.random() < 0.5:
        return [value(rng, depth - 1) for _ in range(rng.randint(0, 4))]
    return Obj([(k, value(rng, depth - 1)) for k in rng.sample([b"a", b"b", b"c", b"", b"\xc3\xa9", b"long key " * 3], rng.randint(0, 4))])


def clean_bson(v):
    def fix(x):
        if isinstance(x, int) and not isinstance(x, bool) and not (-2 ** 63 <= x < 2 ** 63):
            return 0
        if isinstance(x, list):
            return [fix(y) for y in x]
        if isinstance(x, Obj):
            return Obj([(k.replace(b"\x00", b""), fix(y)) for k, y in x.members])
        return x
    v = fix(v)
    return v if isinstance(v, Obj) else Obj([(b"v", v)])


def mutate(rng, b, times=None):
    for _ in range(times if times is not None else rng.choice([0, 1, 1, 2, 3])):
        b = binfmt.mutate_bytes(rng, b)
    if rng.random() < 0.15:
        b = b[:rng.randrange(len(b) + 1)]
    return b


def cbor_hostile(rng):
    """stringref namespaces with indices at and past the table size, typed arrays with odd lengths, bignums, deep nesting, huge claimed lengths"""
    out = []
    for n in range(0, 4):
        strs = b"".join(b"\x63" + bytes([97 + i]) * 3 for i in range(n))
        for idx in [0, n - 1, n, n + 1, 23, 24, 255, 2 ** 32]:
            if idx < 0:
                continue
            out.append(b"\xd9\x01\x00" + bytes([0x80 + n + 1]) + strs + b"\xd8\x19" + binfmt.cbor_head(0, idx))
    for tag in range(64, 88):
        for ln in [0, 1, 2, 3, 4, 7, 8, 9, 16]:
            out.append(b"\xd8" + bytes([tag]) + binfmt.cbor_head(2, ln) + bytes(range(ln)))
        out.append(b"\xd8" + bytes([tag]) + b"\x5a\xff\xff\xff\xff\x00")
    out += [b"\xc2\x40", b"\xc3\x40", b"\xc2\x5b\xff\xff\xff\xff\xff\xff\xff\xff", b"\xc4\x82\x20\xc2\x41\x01", b"\xc5\x82\x3b\xff\xff\xff\xff\xff\xff\xff\xff\x01",
            b"\x9b\xff\xff\xff\xff\xff\xff\xff\xff", b"\xbb\x7f\xff\xff\xff\xff\xff\xff\xff", b"\x7b\x7f\xff\xff\xff\xff\xff\xff\xff\x61", b"\x81" * 2000 + b"\x00",
            b"\x9f" * 1500, b"\xbf\x61\x61" * 600, b"\xd8\x28\x82\x82\x02\x02\x84\x01\x02\x03\x04", b"\xd9\x04\x10\x82\x82\x02\x02\x84\x01\x02\x03\x04",
            b"\xd8\x28\x82\x82\x1b\xff\xff\xff\xff\xff\xff\xff\xff\x02\x80", b"\xd8\x28\x82\x80\x80", b"\xd8\x28\x80"]
    out += cbor_mdarrays((4,) if getattr(rng, 'quick_tier', True) else (4, 6))
    return out


def cbor_mdarrays(counts=(4,)):
    """RFC 8746 multi-dimensional arrays (tags 40 row-major / 1040 column-major) over every typed-array storage (tags 64..87) and a classical
    array, with extents that match, are off by one, are zero, are huge, or only match after wrapping: a product of extents, or that product
    times the element size, that is congruent to the real element count modulo 2^64"""
    out = []
    ELEM = {64: 1, 65: 2, 66: 4, 67: 8, 68: 1, 69: 2, 70: 4, 71: 8, 72: 1, 73: 2, 74: 4, 75: 8, 76: 1, 77: 2, 78: 4, 79: 8,
            80: 2, 81: 4, 82: 8, 83: 16, 84: 2, 85: 4, 86: 8, 87: 16}
    M = 2 ** 64
    for md in (b"\xd8\x28", b"\xd9\x04\x10"):
        for tag, es in ELEM.items():
            for count in counts:
                storage = b"\xd8" + bytes([tag]) + binfmt.cbor_head(2, count * es) + bytes((7 * i + 1) % 251 for i in range(count * es))
                exts = [[2, count // 2], [count], [count + 1], [count - 1], [0], [count, 0], [1, count, 1], [M - 1], [2 ** 63, 2], [2 ** 32, 2 ** 32], [2 ** 32, 2 ** 32, count]]
                for k in range(1, min(es, 8)):
                    m = count + k * (M // es)          # (m * es) mod 2^64 = count * es: only the byte-length comparison wraps
                    if m < M:
                        exts.append([m])
                        if m % 2 == 0:
                            exts.append([2, m // 2])
                exts.append([2 ** 63 + count // 2, 2])   # the product of the extents itself wraps to `count`
                for e in exts:
                    ea = binfmt.cbor_head(4, len(e)) + b"".join(binfmt.cbor_head(0, x) for x in e)
                    out.append(md + b"\x82" + ea + storage)
        plain = b"\x86" + bytes([1, 2, 3, 4, 5, 6])
        for e in ([2, 3], [3, 2], [6], [7], [2, 2], [0], [M - 1, 2], [2 ** 63 + 3, 2], [2 ** 32, 2 ** 32]):
            ea = binfmt.cbor_head(4, len(e)) + b"".join(binfmt.cbor_head(0, x) for x in e)
            out.append(md + b"\x82" + ea + plain)
    return out


def dec_lines(rng, scale):
    out = []
    for _ in range(250 * scale):
        v = value(rng, rng.randint(0, 3))
        out.append("fz dec cbor " + mutate(rng, binfmt.cbor_encode(v, rng, minimal=rng.random() < 0.5)).hex())
        try:
            out.append("fz dec msgpack " + mutate(rng, binfmt.mp_encode(v, rng, minimal=rng.random() < 0.5)).hex())
        except Exception:
            pass
        try:
            out.append("fz dec ubjson " + mutate(rng, binfmt.ub_encode(wire.strip_tag(v, "x"), rng, minimal=rng.random() < 0.5)).hex())
        except Exception:
            pass
        try:
            out.append("fz dec bson " + mutate(rng, binfmt.bson_encode(clean_bson(v), rng)).hex())
        except Exception:
            pass
    for b in cbor_hostile(rng):
        out.append("fz dec cbor " + b.hex())
        if rng.random() < 0.5:
            out.append("fz dec cbor " + mutate(rng, b, 1).hex())
    # JSON text
    for _ in range(500 * scale):
        t = jsontext.render(rng, jsontext.gen_value(rng, 3), comments=rng.random() < 0.2, trailing=rng.random() < 0.1)
        for _ in range(rng.choice([0, 1, 2, 4])):
            t = jsontext.mutate_text(rng, t)
        out.append("fz dec json " + t.hex())
    out += ["fz dec json " + (b"[" * 2000).hex(), "fz dec json " + (b'{"a":' * 1500).hex(), "fz dec json " + (b"1" * 5000).hex(), "fz dec json " + (b"0." + b"9" * 3000 + b"e-999999999999").hex(),
            "fz dec json " + (b'"' + b"\\ud800" * 500).hex(), "fz dec json " + b"\xef\xbb\xbf".hex(), "fz dec json " + b"\xff\xfe[\x001\x00]\x00".hex()]
    # CSV with typed columns and defaults
    types = [b"float,float", b"integer,string", b"float", b"boolean,float,integer", b"string*", b"[integer,float]*", b"integer,[string,float]*,boolean", b"float,float,float,float"]
    defaults = [b"0.0", b"", b"1,2", b"0.0,x", b",,,", b"abc"]
    cells = [b"1", b"2.5", b"abc", b"", b"true", b"-", b"1e999", b"0x10", b'"q"', b"a;b", b"NaN", b" 7 "]
    for _ in range(600 * scale):
        rows = [b",".join(rng.choice(cells) for _ in range(rng.randint(1, 5))) for _ in range(rng.randint(1, 4))]
        text = rng.choice([b"\n", b"\r\n"]).join(rows) + rng.choice([b"", b"\n"])
        if rng.random() < 0.3:
            text = jsontext.mutate_text(rng, text)
        opts = []
        if rng.random() < 0.7:
            opts.append("t" + rng.choice(types).hex())
        if rng.random() < 0.6:
            opts.append("f" + rng.choice(defaults).hex())
        if rng.random() < 0.4:
            opts.append("h")
        opts.append("m" + rng.choice("roc"))
        if rng.random() < 0.2:
            opts.append("s;")
        if rng.random() < 0.2:
            opts.append("c#")
        if rng.random() < 0.2:
            opts.append("x")
        out.append("fz dec csv %s %s" % (text.hex() or "-", " ".join(opts)))
    # TOON
    seeds = [b"a: 1\nb:\n  c: x\n  d[2]: 1,2", b"[3]: a,b,c", b"items[2]{id,name}:\n  1,Ann\n  2,Bob", b"[2]:\n  - a: 1\n    b: 2\n  - 5", b"k[2|]: 1|2", b'"q\\"": "x\\n"', b"a[0]:",
             b"a:\n\tb: 1", b"[1]:\n  - [2]: 1,2", b"x: -0.5e3", b"deep:\n  a:\n    b:\n      c:\n        d: 1"]
    for _ in range(500 * scale):
        t = rng.choice(seeds)
        for _ in range(rng.choice([0, 1, 2, 3])):
            t = jsontext.mutate_text(rng, t)
        if rng.random() < 0.2:
            t = t + b"\n" + rng.choice(seeds)
        out.append("fz dec toon " + t.hex())
    out.append("fz dec toon " + (b"a:\n" + b"".join(b" " * (2 * i) + b"k:\n" for i in range(1, 400))).hex())
    return out


def expr_lines(rng, scale):
    out = []
    doc = wire.render(wire.sort_keys(Obj([(b"a", [1, 2, [3, 4], Obj([(b"b", b"x")])]), (b"b", Obj([(b"c", None), (b"d", [Obj([(b"e", 1)]), Obj([(b"e", 2)])])])), (b"s", b"text")])))
    junk = [b"$", b"@", b"[", b"]", b"(", b")", b"?", b"*", b"..", b".", b",", b":", b"'", b'"', b"\\", b"&", b"|", b"!", b"=", b"<", b">", b"-", b"0", b"9" * 30, b"\x00", b"\xc3", b"`", b"{", b"}", b"^", b"~",
            b"length", b"sum(", b"=~", b"/a+/", b"&&", b"||", b"\\u00e9", b"\\ud800", b" "]

    def mut(t):
        for _ in range(rng.choice([0, 1, 1, 2, 4])):
            if t and rng.random() < 0.4:
                i = rng.randrange(len(t))
                t = t[:i] + t[i + 1:]
            else:
                i = rng.randrange(len(t) + 1)
                t = t[:i] + rng.choice(junk) + t[i:]
        return t
    d0 = jpath.gen_doc(rng, 3)
    for _ in range(350 * scale):
        segs = jpath.gen_expr(rng, d0)
        out.append("fz expr jsonpath %s | %s" % (mut(jpath.text(rng, segs)).hex(), doc))
        g = jmes.G(rng)
        out.append("fz expr jmespath %s | %s" % (mut(jmes.expr_text(rng, g.expr(jmes.UNKNOWN, 2))).hex(), doc))
    for fn in ["length", "count", "avg", "sum", "min", "max", "abs", "ceil", "floor", "keys", "tokenize", "contains", "starts_with", "ends_with", "to_number", "prod"]:
        for arg in [b"@", b"@.a", b"@.s", b"1", b"'x'", b"@.a, 1", b"", b"@.a[*]", b"$..e", b"@.s, '['", b"@.s, '(a+)+$'", b"@.s, '\\\\'"]:
            out.append("fz expr jsonpath %s | %s" % ((b"$[?(" + fn.encode() + b"(" + arg + b") == 1)]").hex(), doc))
    for rx in [b"/a/", b"/(/", b"/[/", b"/a{999999}/", b"/(a+)+$/i", b"/\\/", b"/a/x", b"//"]:
        out.append("fz expr jsonpath %s | %s" % ((b"$[?(@.s =~ " + rx + b")]").hex(), doc))
    ptrs = [b"", b"/", b"/a", b"/a/0", b"/a/-", b"/a/01", b"/a/99999999999999999999", b"/b/d/1/e", b"/~", b"/~2", b"/~0~1", b"a", b"/a//", b"/a/2/0", b"/s/0", b"/\xc3", b"/a/-1", b"/a/+1", b"/a/1e0"]
    for p in ptrs:
        out.append("fz expr pointer %s | %s" % (p.hex(), doc))
        out.append("fz expr pointer %s | %s" % (mut(p).hex(), doc))
    uris = [b"http://a/b/c/d;p?q#f", b"", b"//", b"a:", b":", b"http://[::1]:80/", b"http://[::1", b"http://a:99999999999/", b"http://a:-1/", b"%", b"%zz", b"http://u:p@h:1/p?q#f", b"../../../g", b"g;x=1/../y",
            b"http://a/b/../../../../c", b"file:///", b"urn:x:y", b"http://\xc3\xa9/", b"#", b"?", b"a b", b"http://a/%00", b"HTTP://A/%7e", b"x" * 3000, b"http://a/" + b"../" * 500]
    for u in uris:
        out.append("fz expr uri %s |" % (u.hex() or "-"))
        out.append("fz expr uri %s |" % (mut(u).hex() or "-"))
    for _ in range(250 * scale):
        draft = rng.choice(sg.DRAFTS)
        g = sg.G(rng, draft)
        s = g.schema(2)
        if s is True or s is False or "ref" in s:
            s = {"kws": [("allof", [s])], "up": None, "ui": None}
        text = jsontext.render(rng, to_py(sg.render(s, draft, g.defs, rng)))
        if rng.random() < 0.5:
            text = jsontext.mutate_text(rng, text)
        out.append("fz expr schema %s | %s" % (text.hex(), wire.render(sg.gen_value(rng, 2))))
    hostile_schemas = [b'{"$ref":"#"}', b'{"$ref":"#/x"}', b'{"$ref":"http://unknown/x.json"}', b'{"type":5}', b'{"type":"nosuch"}', b'{"pattern":"("}', b'{"pattern":"(a+)+$"}', b'{"patternProperties":{"[":{}}}',
                       b'{"multipleOf":0}', b'{"multipleOf":-1}', b'{"minLength":-1}', b'{"required":5}', b'{"items":[{}],"additionalItems":5}', b'{"$schema":"http://nosuch"}', b'{"$id":"%"}', b'{"$anchor":"1"}',
                       b'{"$dynamicRef":"#x"}', b'{"$recursiveRef":"#"}', b'{"format":"hostname"}', b'{"format":"email"}', b'{"format":"date-time"}', b'{"format":"ipv6"}', b'{"format":"regex"}', b'{"enum":5}',
                       b'{"dependencies":{"a":5}}', b'{"if":5}', b'{"allOf":[]}', b'{"allOf":5}', b'{"properties":{"a":{"$ref":"#/properties/a"}}}', b'{"$defs":{"a":{"$ref":"#/$defs/b"},"b":{"$ref":"#/$defs/a"}},"$ref":"#/$defs/a"}',
                       b'{"contentEncoding":"base64","contentMediaType":"application/json"}', b'{"maxLength":1e400}', b'{"minimum":"1"}', b'{"uniqueItems":1}', b'true', b'5', b'[]']
    insts = [b"", b"a", b".", b"a.", b"-a", b"a@b", b"x" * 300, b"1.2.3.4", b"::", b"2020-01-01T00:00:00Z", b"(", b"a..b", b"a-.b"]
    for hs in hostile_schemas:
        for inst in rng.sample(insts, 4) + [b""]:
            out.append("fz expr schema %s | %s" % (hs.hex(), wire.render(rng.choice([inst, {"x": 1} and Obj([(b"a", inst)]), [inst]]))))
    return out


def to_py(v):
    return v


def enc_lines(rng, scale):
    out = []
    dbl = lambda f: ("d", struct.unpack("<Q", struct.pack("<d", f))[0])
    specials = [dbl(1e308), dbl(-1e308), dbl(1.7976931348623157e308), dbl(5e-324), dbl(2.2250738585072014e-308), dbl(1e-7), dbl(123456789012345680000.0), dbl(0.1), dbl(-0.0),
                ("d", 0x7ff0000000000000), ("d", 0xfff0000000000000), ("d", 0x7ff8000000000000), Tagged("bigint", b"123456789012345678901234567890"), Tagged("bigint", b"-1"), Tagged("bigint", b"not a number"),
                Tagged("bigdec", b"1.5e400"), Tagged("bigfloat", b"0x1p+5"), ("b", b""), ("b", b"\x00\xff" * 40), Tagged("base64", ("b", b"abc")), Tagged("datetime", b"2020"), Tagged("epoch_second", 5), ("e", 0x7c00), ("e", 0x3c00),
                b"\xf0\x9f\x98\x80", b"\x00\x1f\x7f", b"/"]
    for _ in range(500 * scale):
        v = value(rng, rng.randint(0, 3))
        if rng.random() < 0.6:
            v = [v, rng.choice(specials), Obj([(b"k", rng.choice(specials))])]
        opts = []
        if rng.random() < 0.5:
            opts.append("i%d" % rng.choice([0, 1, 4, 8, 255]))
        if rng.random() < 0.6:
            opts.append("p%d" % rng.choice([0, 1, 5, 17, 30, 100, 127]))
        if rng.random() < 0.6:
            opts.append("f" + rng.choice("gfsx"))
        if rng.random() < 0.3:
            opts.append(rng.choice(["n", "N"]))
        if rng.random() < 0.3:
            opts.append("l%d" % rng.choice([0, 1, 10, 120]))
        for o in ["e", "s", "o"]:
            if rng.random() < 0.2:
                opts.append(o)
        if rng.random() < 0.3:
            opts.append("b" + rng.choice("rn6u"))
        if rng.random() < 0.3:
            opts.append("B" + rng.choice("6uh"))
        if rng.random() < 0.15:
            opts.append("d%d" % rng.choice([0, 1, 2, 3]))
        out.append("fz enc %s | %s" % (" ".join(opts), wire.render(v)))
    out.append("fz enc | " + "[ " * 1100 + "i1" + " ]" * 1100)
    return out


def streams(ctx, rng, scale):
    lw = vlib.witness_lines(PROP)
    ctx.correspond("finding-witnesses", HARNESS, lw, oracle, nontrivial, want_model=False)
    ctx.correspond("decoders", HARNESS, dec_lines(rng, scale), oracle, nontrivial, want_model=False)
    ctx.correspond("compilers", HARNESS, expr_lines(rng, scale), oracle, nontrivial, want_model=False)
    ctx.correspond("encoders", HARNESS, enc_lines(rng, scale), oracle, nontrivial, want_model=False)


def run(ctx):
    ctx.prove(MODULES, leancheck=(ctx.tier == "thorough"))
    ctx.cov["rule"] = ("spec-derived seeds (reference encoders for CBOR/MessagePack/UBJSON/BSON, JSON text, CSV with typed columns and defaults, TOON, JSONPath and JMESPath "
                       "expressions from their grammars, JSON Pointers, URIs, JSON Schemas of five dialects) mutated structurally and bytewise, plus hand-built hostile "
                       "inputs (stringref indices at the table size, typed arrays with odd lengths, claimed lengths of 2^64-1, nesting 2000 deep, catastrophic regexes, "
                       "self-referential schemas); every entry point per format (buffer, stream, cursor, reader, typed); encoders under random option sets with extreme "
                       "doubles, big numbers, byte strings; all under ASan+UBSan with every exception classified. non-trivial = at least one entry point accepted or "
                       "rejected the input through the error channel")
    ctx.impl_timeout, ctx.impl_chunk = 150, 300          # a call that does not return within the budget of its batch is a finding (termination)
    rng = vlib.rng_for(ctx.seed, "c05")
    streams(ctx, rng, 1 if ctx.tier == "quick" else 5)


def search(ctx):
    return None


def replay(ctx, path):
    print(open(path).read()[:3000])
    return 1
