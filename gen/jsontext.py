"""JSON text generation: render data-model values with random spellings, mutate, enumerate token strings;
and the mapping from the Lean Spec's parse tree (numbers as literals) to the value jsoncons must produce."""
import re
import struct
import wire
from wire import Obj, Tagged

U64 = 2 ** 64 - 1
I64MIN = -2 ** 63
INT_RE = re.compile(rb"^-?(0|[1-9][0-9]*)$")

TOKENS = [b"{", b"}", b"[", b"]", b",", b":", b'"', b"\\", b"/", b"u", b"0", b"1", b"-", b".", b"e", b"E", b"t", b"n", b"f", b"a",
          b" ", b"\r", b"\n", b"\t", b"*", b"\x01", b"\x7f", b"\xc3", b"\xa9", b"true", b"null", b"false", b'"a"', b"\\u00e9", b"12", b"+"]


def bits_of(f):
    return struct.unpack("<Q", struct.pack("<d", f))[0]


# ---- rendering -------------------------------------------------------------------------------------


def render_string(rng, s, fancy=True):
    """s: bytes (valid UTF-8) -> JSON string literal with random escape choices"""
    out = bytearray(b'"')
    text = s.decode("utf-8")
    for ch in text:
        cp = ord(ch)
        r = rng.random() if fancy else 1.0
        if ch == '"':
            out += b'\\"' if r > 0.1 else b"\\u0022"
        elif ch == "\\":
            out += b"\\\\" if r > 0.1 else b"\\u005c"
        elif cp < 0x20:
            short = {8: b"\\b", 12: b"\\f", 10: b"\\n", 13: b"\\r", 9: b"\\t"}
            if cp in short and r > 0.3:
                out += short[cp]
            else:
                out += b"\\u%04x" % cp if r > 0.5 else b"\\u%04X" % cp
        elif ch == "/" and r < 0.3:
            out += b"\\/"
        elif r < 0.15:
            if cp > 0xFFFF:
                c = cp - 0x10000
                out += b"\\u%04x\\u%04x" % (0xD800 + (c >> 10), 0xDC00 + (c & 0x3FF))
            else:
                out += b"\\u%04x" % cp
        else:
            out += ch.encode("utf-8")
    out += b'"'
    return bytes(out)


def render_int(rng, v):
    return str(v).encode()


def render_double_literal(rng):
    ip = str(rng.choice([0, 1, 7, 12, 123456789, 10 ** 20 + 3]))
    fp = rng.choice(["", ".0", ".5", ".25", ".000001", ".123456789012345678", ".10"])
    ex = rng.choice(["", "e0", "E+2", "e-3", "e10", "E308", "e-320", "e400"])
    if not fp and not ex:
        fp = ".0"
    return (("-" if rng.random() < 0.3 else "") + ip + fp + ex).encode()


def ws(rng, comments=False):
    r = rng.random()
    if r < 0.55:
        return b""
    if comments and r > 0.9:
        return rng.choice([b"/**/", b"/* c */", b"// x\n", b" /*a*//*b*/ ", b"//\r\n", b"/* * / */"])
    return rng.choice([b" ", b"\n", b"\t", b"\r\n", b"  ", b" \n ", b"\r"])


class Num:
    """a number literal inside a generated document"""

    def __init__(self, lit):
        self.lit = lit


def render(rng, v, comments=False, trailing=False, dup=False):
    w = lambda: ws(rng, comments)
    if v is None:
        return b"null"
    if v is True:
        return b"true"
    if v is False:
        return b"false"
    if isinstance(v, Num):
        return v.lit
    if isinstance(v, int):
        return render_int(rng, v)
    if isinstance(v, bytes):
        return render_string(rng, v)
    if isinstance(v, list):
        parts = [w() + render(rng, x, comments, trailing, dup) + w() for x in v]
        tail = b"," + w() if (trailing and parts and rng.random() < 0.5) else b""
        return b"[" + w() + b",".join(parts) + tail + b"]"
    if isinstance(v, Obj):
        ms = list(v.members)
        if dup and ms and rng.random() < 0.5:
            k, x = rng.choice(ms)
            ms.insert(rng.randrange(len(ms) + 1), (k, rng.choice([None, 1, b"dup"])))
        parts = [w() + render_string(rng, k) + w() + b":" + w() + render(rng, x, comments, trailing, dup) + w() for k, x in ms]
        tail = b"," + w() if (trailing and parts and rng.random() < 0.5) else b""
        return b"{" + w() + b",".join(parts) + tail + b"}"
    raise TypeError(v)


KEYS = [b"a", b"b", b"", b"k\xc3\xa9", b'q"', b"b\\", b"\xf0\x9f\x98\x80", b"a/b", b"\x7f", b"\n", b"z" * 20]
STRS = [b"", b"x", b"\xc3\xa9", b"\xe2\x82\xac", b"\xf0\x9f\x98\x80", b'"', b"\\", b"/", b"\x08\x0c\n\r\t", b"\x01\x1f", b"\x7f", b"a\x00b",
        b"\xef\xbf\xbf", b"\xed\x9f\xbf", b"\xee\x80\x80", b"\xf4\x8f\xbf\xbf", b"plain ascii text", b"\xc2\x80"]
INTS = [0, 1, -1, 9, 10, 2 ** 31, -2 ** 31 - 1, 2 ** 53 + 1, 2 ** 63 - 1, 2 ** 63, -2 ** 63, -2 ** 63 - 1, 2 ** 64 - 1, 2 ** 64, 10 ** 25, -10 ** 30]


def gen_value(rng, depth, numbers=True):
    r = rng.random()
    if depth <= 0 or r < 0.3:
        q = rng.random()
        if q < 0.12:
            return None
        if q < 0.22:
            return rng.random() < 0.5
        if q < 0.5:
            return rng.choice(INTS) if rng.random() < 0.6 else rng.randint(-10 ** 6, 10 ** 6)
        if q < 0.65 and numbers:
            return Num(render_double_literal(rng))
        return rng.choice(STRS)
    if r < 0.65:
        return [gen_value(rng, depth - 1, numbers) for _ in range(rng.randint(0, 4))]
    ks = rng.sample(KEYS, rng.randint(0, 4))
    return Obj([(k, gen_value(rng, depth - 1, numbers)) for k in ks])


def mutate_text(rng, t):
    if not t:
        return rng.choice(TOKENS)
    r = rng.random()
    i = rng.randrange(len(t))
    if r < 0.3:
        return t[:i] + t[i + 1:]
    if r < 0.6:
        return t[:i] + rng.choice(TOKENS) + t[i:]
    if r < 0.8:
        return t[:i] + rng.choice(TOKENS) + t[i + 1:]
    if r < 0.9:
        return t[:i]
    j = rng.randrange(len(t))
    lo, hi = min(i, j), max(i, j)
    return t[:lo] + t[hi:]


def token_strings(maxlen, alphabet=None):
    alphabet = alphabet or TOKENS[:29]
    out = [b""]
    frontier = [b""]
    for _ in range(maxlen):
        frontier = [s + c for s in frontier for c in alphabet]
        out += frontier
    return out


# ---- from the Spec's tree to the expected jsoncons value -----------------------------------------------


def parse_spec_tokens(s):
    """wire-like tokens where numbers are N<hex literal>"""
    toks = s.split()

    def go(pos):
        t = toks[pos]
        pos += 1
        if t == "n":
            return None, pos
        if t == "t":
            return True, pos
        if t == "f":
            return False, pos
        if t[0] == "N":
            return Num(bytes.fromhex(t[1:])), pos
        if t[0] == "s":
            return bytes.fromhex(t[1:]), pos
        if t == "[":
            xs = []
            while toks[pos] != "]":
                x, pos = go(pos)
                xs.append(x)
            return xs, pos + 1
        if t == "{":
            ms = []
            while toks[pos] != "}":
                k = bytes.fromhex(toks[pos][1:])
                x, pos = go(pos + 1)
                ms.append((k, x))
            return Obj(ms), pos + 1
        raise ValueError(t)

    v, _ = go(0)
    return v


class Unjudged(Exception):
    pass


def number_value(lit, lossless_number, lossless_bignum):
    if INT_RE.match(lit):
        v = int(lit)
        if (lit.startswith(b"-") and v >= I64MIN) or (not lit.startswith(b"-") and v <= U64):
            return v
        if lossless_bignum:
            return Tagged("bigint", lit)
        return ("d", bits_of(float(v)))
    if lossless_number:
        return Tagged("bigdec", lit)
    try:
        f = float(lit)
    except (OverflowError, ValueError):
        raise Unjudged()
    m = re.match(rb"^-?([0-9]+)(?:\.([0-9]+))?", lit)
    is_zero = int(m.group(1) + (m.group(2) or b"")) == 0
    if f in (float("inf"), float("-inf")) or (f == 0 and not is_zero):
        # out of the normal double range: strtod reports ERANGE
        if lossless_bignum:
            return Tagged("bigdec", lit)
        raise Unjudged()
    return ("d", bits_of(f))


def expected_value(v, kind, lossless_number=False, lossless_bignum=True):
    if isinstance(v, Num):
        return number_value(v.lit, lossless_number, lossless_bignum)
    if isinstance(v, list):
        return [expected_value(x, kind, lossless_number, lossless_bignum) for x in v]
    if isinstance(v, Obj):
        seen = {}
        order = []
        for k, x in v.members:
            if k not in seen:
                seen[k] = expected_value(x, kind, lossless_number, lossless_bignum)
                order.append(k)
        if kind == "j":
            order = sorted(order)
        return Obj([(k, seen[k]) for k in order])
    return v


def strip_noesc(v):
    if isinstance(v, Tagged):
        if v.tag == "noesc":
            return strip_noesc(v.value)
        return Tagged(v.tag, strip_noesc(v.value))
    if isinstance(v, list):
        return [strip_noesc(x) for x in v]
    if isinstance(v, Obj):
        return Obj([(k, strip_noesc(x)) for k, x in v.members])
    return v


LONE_SURROGATE = re.compile(rb"\\u[dD][89a-fA-F][0-9a-fA-F]{2}")


def has_surrogate_escape(text):
    """texts with \\uD800-\\uDFFF escapes: pairing makes them valid or not; jsoncons' handling of the
    unpaired ones is outside the property (they denote no scalar value), so only well-paired ones are judged"""
    i = 0
    esc = list(LONE_SURROGATE.finditer(text))
    if not esc:
        return False
    # well paired: high immediately followed by low, all of them
    pos = 0
    while pos < len(esc):
        m = esc[pos]
        hi = int(m.group(0)[2:], 16)
        if 0xD800 <= hi <= 0xDBFF and pos + 1 < len(esc) and esc[pos + 1].start() == m.end():
            lo = int(esc[pos + 1].group(0)[2:], 16)
            if 0xDC00 <= lo <= 0xDFFF:
                pos += 2
                continue
        return True
    return False
