"""JSONPath expression generation for C12: an AST (what the Lean model evaluates), its token form for the line protocol,
and a textual rendering with random spelling choices (what jsoncons compiles)."""
from wire import Obj
import wire

KEYS = [b"a", b"b", b"c", b"x", b"y", b"", b"k\xc3\xa9", b"q'q", b'd"q', b"b\\s", b"sp ace", b"A_1", b"n\nl", b"t\tb", b"\xf0\x9f\x98\x80", b"*", b"a.b", b"$", b"@", b"[0]"]
STRS = [b"", b"x", b"y", b"foo", b"bar", b"q'q", b'd"q', b"b\\s", b"\xc3\xa9", b"10", b"9", b"A", b"a"]


def gen_doc(rng, depth=3, width=4):
    r = rng.random()
    if depth <= 0 or r < 0.25:
        q = rng.random()
        if q < 0.1:
            return None
        if q < 0.2:
            return rng.random() < 0.5
        if q < 0.65:
            return rng.choice([0, 1, 2, 3, 5, 10, -1, -7, 100, 2 ** 40])
        return rng.choice(STRS)
    if r < 0.6:
        return [gen_doc(rng, depth - 1, width) for _ in range(rng.choice([0, 1, 2, 3, 4, 5, 7]))]
    ks = rng.sample(KEYS[:8] if rng.random() < 0.7 else KEYS, rng.randint(0, width))
    return Obj([(k, gen_doc(rng, depth - 1, width)) for k in ks])


def all_keys(v, acc):
    if isinstance(v, Obj):
        for k, x in v.members:
            acc.append(k)
            all_keys(x, acc)
    elif isinstance(v, list):
        for x in v:
            all_keys(x, acc)
    return acc


def array_sizes(v, acc):
    if isinstance(v, list):
        acc.append(len(v))
        for x in v:
            array_sizes(x, acc)
    elif isinstance(v, Obj):
        for _, x in v.members:
            array_sizes(x, acc)
    return acc


def is_plain_name(k):
    """names that must not be written: they are integers (an identifier applied to an array is an index) or `length`"""
    if k == b"length":
        return False
    s = k[1:] if k[:1] == b"-" else k
    if s and all(48 <= c <= 57 for c in s):
        return False
    return True


# ---- AST ------------------------------------------------------------------------------------------------------------------------
# seg: ("C", [sel…]) | ("D", [sel…])
# sel: ("N", key) | ("I", int) | ("W",) | ("S", start|None, stop|None, step) | ("F", fe)
# fe:  ("L", value) | ("P", from_root, [("n", key) | ("i", int)…]) | ("NOT", fe) | ("AND", a, b) | ("OR", a, b) | (cmp, a, b)

CMPS = ["EQ", "NE", "LT", "LE", "GT", "GE"]
CMP_TEXT = {"EQ": "==", "NE": "!=", "LT": "<", "LE": "<=", "GT": ">", "GE": ">="}


def gen_index(rng, sizes):
    n = rng.choice(sizes) if sizes else 3
    return rng.choice([0, 1, -1, n - 1, n, -n, -n - 1, n + 1, 2, -2, rng.randint(-9, 9)])


def gen_bound(rng, sizes):
    if rng.random() < 0.3:
        return None
    n = rng.choice(sizes) if sizes else 3
    return rng.choice([0, 1, 2, -1, -2, n, n - 1, -n, -n - 1, n + 1, 100, -100, rng.randint(-8, 8), 2 ** 63 - 1, -2 ** 63])


def gen_slice(rng, sizes):
    step = rng.choice([1, 1, 1, 2, 3, -1, -1, -2, -3, 7, -7, 2 ** 63 - 1, -2 ** 63, -2 ** 63 + 1])
    return ("S", gen_bound(rng, sizes), gen_bound(rng, sizes), step)


def gen_fpath(rng, keys, sizes, maxlen=2):
    steps = []
    for _ in range(rng.choice([0, 1, 1, 1, 2][:maxlen + 3])):
        if rng.random() < 0.75 and keys:
            steps.append(("n", rng.choice(keys)))
        else:
            steps.append(("i", gen_index(rng, sizes)))
    return ("P", rng.random() < 0.12, steps)


def gen_literal(rng):
    r = rng.random()
    if r < 0.5:
        return ("L", rng.choice([0, 1, 2, 3, 5, 10, -1, 100]))
    if r < 0.8:
        return ("L", rng.choice(STRS))
    return ("L", rng.choice([None, True, False]))


def gen_fe(rng, keys, sizes, depth=2):
    r = rng.random()
    if depth <= 0 or r < 0.5:
        op = rng.choice(CMPS)
        a = gen_fpath(rng, keys, sizes)
        b = gen_literal(rng) if rng.random() < 0.8 else gen_fpath(rng, keys, sizes)
        if rng.random() < 0.15:
            a, b = b, a
        return (op, a, b)
    if r < 0.6:
        return gen_fpath(rng, keys, sizes)            # existence / truthiness
    if r < 0.7:
        return ("NOT", gen_fe(rng, keys, sizes, depth - 1))
    if r < 0.85:
        return ("AND", gen_fe(rng, keys, sizes, depth - 1), gen_fe(rng, keys, sizes, depth - 1))
    return ("OR", gen_fe(rng, keys, sizes, depth - 1), gen_fe(rng, keys, sizes, depth - 1))


def gen_sel(rng, keys, sizes, allow_filter=True):
    r = rng.random()
    if r < 0.3 and keys:
        return ("N", rng.choice(keys))
    if r < 0.5:
        return ("I", gen_index(rng, sizes))
    if r < 0.65:
        return ("W",)
    if r < 0.85 or not allow_filter:
        return gen_slice(rng, sizes)
    return ("F", gen_fe(rng, keys, sizes))


def gen_expr(rng, doc):
    keys = [k for k in set(all_keys(doc, [])) if is_plain_name(k)] or [b"a"]
    if rng.random() < 0.15:
        keys = keys + [k for k in KEYS if is_plain_name(k)]
    sizes = array_sizes(doc, []) or [3]
    segs = []
    for _ in range(rng.choice([1, 1, 2, 2, 3, 3, 4])):
        kind = "D" if rng.random() < 0.2 else "C"
        nalt = 1 if rng.random() < 0.7 else rng.randint(2, 4)
        # jsoncons unions do not take filters next to other alternatives in every spelling: keep filters single
        alts = [gen_sel(rng, keys, sizes, allow_filter=(nalt == 1)) for _ in range(nalt)]
        segs.append((kind, alts))
    return segs


# ---- tokens for the Lean driver ------------------------------------------------------------------------------------------

def fe_tokens(e, out):
    t = e[0]
    if t == "L":
        out.append("L")
        out.append(wire.render(e[1]))
    elif t == "P":
        out.append("P$" if e[1] else "P@")
        out.append(str(len(e[2])))
        for s in e[2]:
            out.append(("n" + s[1].hex()) if s[0] == "n" else ("i%d" % s[1]))
    elif t == "NOT":
        out.append("NOT")
        fe_tokens(e[1], out)
    else:
        out.append(t)
        fe_tokens(e[1], out)
        fe_tokens(e[2], out)


def sel_tokens(s, out):
    if s[0] == "N":
        out.append("N" + s[1].hex())
    elif s[0] == "I":
        out.append("I%d" % s[1])
    elif s[0] == "W":
        out.append("W")
    elif s[0] == "S":
        out += ["S", "_" if s[1] is None else str(s[1]), "_" if s[2] is None else str(s[2]), str(s[3])]
    else:
        out.append("F")
        fe_tokens(s[1], out)


def tokens(segs):
    out = []
    for kind, alts in segs:
        out += [kind, str(len(alts))]
        for s in alts:
            sel_tokens(s, out)
    return " ".join(out)


# ---- text --------------------------------------------------------------------------------------------------------------------

def quote(rng, k, q=None):
    q = q or rng.choice(["'", '"'])
    out = bytearray(q.encode())
    for c in k:
        ch = bytes([c])
        if ch == q.encode() or ch == b"\\":
            out += b"\\" + ch
        elif ch == b"\n":
            out += b"\\n"
        elif ch == b"\t":
            out += b"\\t"
        elif ch == b"/" and rng.random() < 0.3:
            out += b"\\/"
        else:
            out += ch
    out += q.encode()
    return bytes(out)


def is_identifier(k):
    if not k or not is_plain_name(k):
        return False
    if 48 <= k[0] <= 57:
        return False
    return all((48 <= c <= 57) or (65 <= c <= 90) or (97 <= c <= 122) or c == 95 or c > 127 for c in k)


def sp(rng):
    return b" " if rng.random() < 0.15 else b""


def slice_text(s):
    a = b"" if s[1] is None else str(s[1]).encode()
    b = b"" if s[2] is None else str(s[2]).encode()
    return a + b":" + b + b":" + str(s[3]).encode()


def slice_text_r(rng, s):
    a = b"" if s[1] is None else str(s[1]).encode()
    b = b"" if s[2] is None else str(s[2]).encode()
    if s[3] == 1 and rng.random() < 0.6:
        return a + b":" + b                 # two-part slice
    return a + b":" + b + b":" + str(s[3]).encode()


PREC = {"OR": 1, "AND": 2, "EQ": 3, "NE": 3, "LT": 3, "LE": 3, "GT": 3, "GE": 3, "NOT": 4, "P": 5, "L": 5}


def literal_text(rng, v):
    if v is None:
        return b"null"
    if v is True:
        return b"true"
    if v is False:
        return b"false"
    if isinstance(v, int):
        return str(v).encode()
    return quote(rng, v)


def fpath_text(rng, e):
    out = bytearray(b"$" if e[1] else b"@")
    for s in e[2]:
        if s[0] == "n":
            if is_identifier(s[1]) and rng.random() < 0.7:
                out += b"." + s[1]
            else:
                out += b"[" + quote(rng, s[1]) + b"]"
        else:
            out += b"[" + str(s[1]).encode() + b"]"
    return bytes(out)


def fe_text(rng, e, full, parent=0):
    t = e[0]
    if t == "L":
        return literal_text(rng, e[1])
    if t == "P":
        return fpath_text(rng, e)
    if t == "NOT":
        inner = fe_text(rng, e[1], full, 9)
        if e[1][0] not in ("P", "L") or full:
            inner = b"(" + inner + b")"
        return b"!" + inner
    if t in ("AND", "OR"):
        op = b"&&" if t == "AND" else b"||"
        # left-associative chains of the same operator need no parentheses; a lower-precedence child always gets them
        a = fe_text(rng, e[1], full, PREC[t])
        b = fe_text(rng, e[2], full, PREC[t] + 1)
        s = a + b" " + op + b" " + b
    else:
        a = fe_text(rng, e[1], full, 4)
        b = fe_text(rng, e[2], full, 4)
        s = a + sp(rng) + CMP_TEXT[t].encode() + sp(rng) + b
    if full or PREC[t] < parent:
        return b"(" + s + b")"
    return s


def sel_text_inner(rng, s):
    if s[0] == "N":
        return quote(rng, s[1])
    if s[0] == "I":
        return str(s[1]).encode()
    if s[0] == "W":
        return b"*"
    if s[0] == "S":
        return slice_text_r(rng, s)
    full = rng.random() < 0.4
    body = fe_text(rng, s[1], full)
    if rng.random() < 0.6:
        return b"?(" + body + b")"
    return b"?" + body


def text(rng, segs):
    out = bytearray(b"$")
    for kind, alts in segs:
        if kind == "D":
            out += b".."
        if len(alts) == 1:
            s = alts[0]
            if s[0] == "N" and is_identifier(s[1]) and rng.random() < 0.6:
                out += (b"" if kind == "D" else b".") + s[1]
                continue
            if s[0] == "W" and rng.random() < 0.5:
                out += (b"" if kind == "D" else b".") + b"*"
                continue
        out += b"[" + sp(rng) + (b"," + sp(rng)).join(sel_text_inner(rng, s) for s in alts) + sp(rng) + b"]"
    return bytes(out)


# ---- normalized paths ---------------------------------------------------------------------------------------------------------

def parse_normalized(p):
    """'$['a'][0]' -> [('n', b'a'), ('i', 0)]  (None when it is not a normalized path)"""
    if not p.startswith(b"$"):
        return None
    i = 1
    out = []
    while i < len(p):
        if p[i:i + 1] != b"[":
            return None
        i += 1
        if p[i:i + 1] == b"'":
            i += 1
            name = bytearray()
            while True:
                if i >= len(p):
                    return None
                c = p[i:i + 1]
                if c == b"\\":
                    d = p[i + 1:i + 2]
                    m = {b"\\": b"\\", b"'": b"'", b"b": b"\b", b"f": b"\f", b"n": b"\n", b"r": b"\r", b"t": b"\t"}
                    if d not in m:
                        return None
                    name += m[d]
                    i += 2
                elif c == b"'":
                    i += 1
                    break
                else:
                    name += c
                    i += 1
            if p[i:i + 1] != b"]":
                return None
            i += 1
            out.append(("n", bytes(name)))
        else:
            j = i
            while j < len(p) and 48 <= p[j] <= 57:
                j += 1
            if j == i or p[j:j + 1] != b"]":
                return None
            out.append(("i", int(p[i:j])))
            i = j + 1
    return out


def resolve(doc, steps):
    cur = doc
    for kind, x in steps:
        if kind == "n":
            if not isinstance(cur, Obj):
                return KeyError
            for k, v in cur.members:
                if k == x:
                    cur = v
                    break
            else:
                return KeyError
        else:
            if not isinstance(cur, list) or x >= len(cur):
                return KeyError
            cur = cur[x]
    return cur


def path_key(steps):
    """sort key implementing basic_path_node::operator< : names before indices, names bytewise, a prefix first"""
    return [((0, x) if kind == "n" else (1, x)) for kind, x in steps]


def set_at(doc, steps, nv):
    if not steps:
        return nv
    kind, x = steps[0]
    if kind == "n" and isinstance(doc, Obj):
        return Obj([(k, set_at(v, steps[1:], nv) if k == x else v) for k, v in doc.members])
    if kind == "i" and isinstance(doc, list) and x < len(doc):
        return [set_at(v, steps[1:], nv) if i == x else v for i, v in enumerate(doc)]
    return doc
