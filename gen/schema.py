"""C11: JSON Schema generation — an AST (what the Lean reference validator evaluates), its token form, its rendering as a schema
document in each dialect, and instances steered towards and just past the constraints."""
from wire import Obj
import wire

KEYS = [b"a", b"b", b"c", b"d"]
STRS = [b"", b"a", b"ab", b"abc", b"\xc3\xa9\xc3\xa9", b"hello"]
INTS = [0, 1, 2, 3, 5, 10, -1, -5, 100, 2 ** 63 - 1, 2 ** 63, 2 ** 64 - 1, -2 ** 63]
TYPES = ["null", "boolean", "integer", "number", "string", "array", "object"]
DRAFTS = ["4", "6", "7", "2019", "2020"]


def dnum(d):
    return {"4": 4, "6": 6, "7": 7, "2019": 2019, "2020": 2020}[d]


def gen_value(rng, depth=2):
    r = rng.random()
    if depth <= 0 or r < 0.45:
        q = rng.random()
        if q < 0.1:
            return None
        if q < 0.2:
            return rng.random() < 0.5
        if q < 0.65:
            return rng.choice(INTS[:9]) if rng.random() < 0.85 else rng.choice(INTS)
        return rng.choice(STRS)
    if r < 0.7:
        return [gen_value(rng, depth - 1) for _ in range(rng.choice([0, 1, 2, 3]))]
    return Obj([(k, gen_value(rng, depth - 1)) for k in rng.sample(KEYS, rng.choice([0, 1, 2, 3]))])


class G:
    def __init__(self, rng, draft):
        self.rng = rng
        self.d = dnum(draft)
        self.defs = []          # (name, schema)

    def leaf_kw(self):
        rng = self.rng
        opts = ["type", "enum", "min", "max", "xmin", "xmax", "mult", "minlen", "maxlen", "minitems", "maxitems", "uniq", "req", "minprops", "maxprops"]
        if self.d >= 6:
            opts.append("const")
        k = rng.choice(opts)
        if k == "type":
            return ("type", rng.sample(TYPES, rng.choice([1, 1, 1, 2])))
        if k == "enum":
            return ("enum", [gen_value(rng, 1) for _ in range(rng.randint(1, 3))])
        if k == "const":
            return ("const", gen_value(rng, 1))
        if k in ("min", "max", "xmin", "xmax"):
            return (k, rng.choice(INTS))
        if k == "mult":
            return ("mult", rng.choice([1, 2, 3, 5, 10]))
        if k in ("minlen", "maxlen", "minitems", "maxitems", "minprops", "maxprops"):
            return (k, rng.choice([0, 1, 2, 3]))
        if k == "uniq":
            return ("uniq", rng.random() < 0.8)
        return ("req", rng.sample(KEYS, rng.choice([1, 1, 2])))

    def kw(self, depth):
        rng = self.rng
        if depth <= 0 or rng.random() < 0.45:
            return self.leaf_kw()
        opts = ["items", "props", "allof", "anyof", "oneof", "not", "depreq"]
        if self.d >= 6:
            opts += ["contains", "pnames"]
        if self.d >= 7:
            opts.append("cond")
        k = rng.choice(opts)
        sub = lambda: self.schema(depth - 1)
        if k == "items":
            pre = [sub() for _ in range(rng.choice([0, 0, 1, 2]))]
            rest = sub() if rng.random() < 0.6 or not pre else None
            return ("items", pre, rest)
        if k == "contains":
            if self.d >= 2019 and rng.random() < 0.5:
                return ("contains", sub(), rng.choice([0, 1, 2]), rng.choice([None, 1, 2]))
            return ("contains", sub(), 1, None)
        if k == "props":
            ps = [(kk, sub()) for kk in rng.sample(KEYS, rng.choice([1, 2, 3]))]
            add = sub() if rng.random() < 0.5 else None
            return ("props", ps, add)
        if k == "pnames":
            return ("pnames", {"kws": [rng.choice([("maxlen", rng.choice([0, 1, 2])), ("enum", rng.sample(KEYS, 2)), ("minlen", 1)])], "up": None, "ui": None})
        if k == "depreq":
            return ("depreq", [(kk, rng.sample(KEYS, rng.choice([1, 2]))) for kk in rng.sample(KEYS, rng.choice([1, 2]))])
        if k in ("allof", "anyof", "oneof"):
            subs = [sub() for _ in range(rng.choice([1, 2, 2, 3]))]
            if rng.random() < 0.25:
                subs[rng.randrange(len(subs))] = self.ref(depth - 1)
            return (k, subs)
        if k == "not":
            return ("not", sub())
        return ("cond", sub(), sub() if rng.random() < 0.7 else None, sub() if rng.random() < 0.6 else None)

    def ref(self, depth):
        """a schema reached through $ref: defined once under $defs / definitions"""
        rng = self.rng
        done = [d for d in self.defs if d[1] is not None]          # only finished definitions: no cycles
        if done and rng.random() < 0.5:
            name = rng.choice(done)[0]
        else:
            name = "d%d" % len(self.defs)
            self.defs.append((name, None))                       # reserve (no cycles: the body only sees earlier names)
            body = self.schema(depth)
            self.defs = [(n, body if n == name else b) for n, b in self.defs]
        return {"ref": name}

    def schema(self, depth):
        rng = self.rng
        r = rng.random()
        if r < 0.06:
            return rng.random() < 0.6 if self.d >= 6 else {"kws": [], "up": None, "ui": None}
        if self.d >= 2019 and r < 0.16:
            # a schema object holding nothing but one unevaluated* keyword (what an applicator above it must still evaluate)
            inner = rng.choice([False, False, {"kws": [self.leaf_kw()], "up": None, "ui": None}])
            return {"kws": [], "up": inner, "ui": None} if rng.random() < 0.6 else {"kws": [], "up": None, "ui": inner}
        kws = []
        kinds = set()
        for _ in range(rng.choice([1, 1, 2, 2, 3])):
            k = self.kw(depth)
            kind = {"xmin": "min", "xmax": "max"}.get(k[0], k[0]) if self.d == 4 else k[0]     # draft 4 spells both with `minimum` / `maximum`
            if kind in kinds:
                continue
            kinds.add(kind)
            kws.append(k)
        up = ui = None
        if self.d >= 2019 and depth > 0 and rng.random() < 0.25:
            if rng.random() < 0.6:
                up = rng.choice([False, False, self.schema(0)])
            else:
                ui = rng.choice([False, False, self.schema(0)])
                kws = [k for k in kws if k[0] != "contains"]          # contains also annotates items (2020-12): kept apart
        return {"kws": kws, "up": up, "ui": ui}


# ---- tokens (refs inlined) --------------------------------------------------------------------------------------------------

def tokens(s, defs, out=None):
    top = out is None
    out = [] if out is None else out
    if s is True or s is False:
        out += ["B", "t" if s else "f"]
    elif "ref" in s:
        tokens(dict(defs)[s["ref"]], defs, out)
    else:
        out += ["N", str(len(s["kws"]))]
        for k in s["kws"]:
            kw_tokens(k, defs, out)
        if s["up"] is not None:
            out.append("UP")
            tokens(s["up"], defs, out)
        else:
            out.append("NOUP")
        if s["ui"] is not None:
            out.append("UI")
            tokens(s["ui"], defs, out)
        else:
            out.append("NOUI")
    return " ".join(out) if top else None


SIMPLE = {"min": "MIN", "max": "MAX", "xmin": "XMIN", "xmax": "XMAX", "mult": "MULT", "minlen": "MINLEN", "maxlen": "MAXLEN", "minitems": "MINITEMS",
          "maxitems": "MAXITEMS", "minprops": "MINPROPS", "maxprops": "MAXPROPS"}


def kw_tokens(k, defs, out):
    t = k[0]
    if t == "type":
        out += ["TYPE", str(len(k[1]))] + k[1]
    elif t == "enum":
        out += ["ENUM", str(len(k[1]))] + [wire.render(wire.sort_keys(v)) for v in k[1]]
    elif t == "const":
        out += ["CONST", wire.render(wire.sort_keys(k[1]))]
    elif t in SIMPLE:
        out += [SIMPLE[t], str(k[1])]
    elif t == "uniq":
        out += ["UNIQ", "t" if k[1] else "f"]
    elif t == "items":
        out += ["ITEMS", str(len(k[1]))]
        for s in k[1]:
            tokens(s, defs, out)
        if k[2] is not None:
            out.append("REST")
            tokens(k[2], defs, out)
        else:
            out.append("NOREST")
    elif t == "contains":
        out.append("CONTAINS")
        tokens(k[1], defs, out)
        out += [str(k[2]), "_" if k[3] is None else str(k[3])]
    elif t == "props":
        out += ["PROPS", str(len(k[1]))]
        for name, s in k[1]:
            out.append("P" + name.hex())
            tokens(s, defs, out)
        if k[2] is not None:
            out.append("ADD")
            tokens(k[2], defs, out)
        else:
            out.append("NOADD")
    elif t == "req":
        out += ["REQ", str(len(k[1]))] + ["K" + x.hex() for x in k[1]]
    elif t == "pnames":
        out.append("PNAMES")
        tokens(k[1], defs, out)
    elif t == "depreq":
        out += ["DEPREQ", str(len(k[1]))]
        for name, ks in k[1]:
            out += ["K" + name.hex(), str(len(ks))] + ["K" + x.hex() for x in ks]
    elif t in ("allof", "anyof", "oneof"):
        out += [t.upper(), str(len(k[1]))]
        for s in k[1]:
            tokens(s, defs, out)
    elif t == "not":
        out.append("NOT")
        tokens(k[1], defs, out)
    elif t == "cond":
        out.append("COND")
        tokens(k[1], defs, out)
        if k[2] is not None:
            out.append("T")
            tokens(k[2], defs, out)
        else:
            out.append("NOT_T")
        if k[3] is not None:
            out.append("E")
            tokens(k[3], defs, out)
        else:
            out.append("NOE")
    else:
        raise ValueError(t)


# ---- the schema document ---------------------------------------------------------------------------------------------------------

def B(s):
    return s.encode()


def render(s, draft, defs=None, rng=None):
    """schema AST -> JSON value (wire Python form) in the spelling of the dialect; defs only at the root"""
    d = dnum(draft)
    if s is True or s is False:
        return s
    if "ref" in s:
        return Obj([(b"$ref", B("#/%s/%s" % ("$defs" if d >= 2019 else "definitions", s["ref"])))])
    ms = []
    for k in s["kws"]:
        t = k[0]
        if t == "type":
            ms.append((b"type", B(k[1][0]) if len(k[1]) == 1 else [B(x) for x in k[1]]))
        elif t == "enum":
            ms.append((b"enum", list(k[1])))
        elif t == "const":
            ms.append((b"const", k[1]))
        elif t == "min":
            ms.append((b"minimum", k[1]))
        elif t == "max":
            ms.append((b"maximum", k[1]))
        elif t == "xmin":
            if d == 4:
                ms += [(b"minimum", k[1]), (b"exclusiveMinimum", True)]
            else:
                ms.append((b"exclusiveMinimum", k[1]))
        elif t == "xmax":
            if d == 4:
                ms += [(b"maximum", k[1]), (b"exclusiveMaximum", True)]
            else:
                ms.append((b"exclusiveMaximum", k[1]))
        elif t == "mult":
            ms.append((b"multipleOf", k[1]))
        elif t in ("minlen", "maxlen", "minitems", "maxitems", "minprops", "maxprops"):
            name = {"minlen": b"minLength", "maxlen": b"maxLength", "minitems": b"minItems", "maxitems": b"maxItems", "minprops": b"minProperties",
                    "maxprops": b"maxProperties"}[t]
            ms.append((name, k[1]))
        elif t == "uniq":
            ms.append((b"uniqueItems", k[1]))
        elif t == "items":
            pre, rest = k[1], k[2]
            if d >= 2020:
                if pre:
                    ms.append((b"prefixItems", [render(x, draft) for x in pre]))
                if rest is not None:
                    ms.append((b"items", render(rest, draft)))
            else:
                if pre:
                    ms.append((b"items", [render(x, draft) for x in pre]))
                    if rest is not None:
                        ms.append((b"additionalItems", render(rest, draft)))
                elif rest is not None:
                    ms.append((b"items", render(rest, draft)))
        elif t == "contains":
            ms.append((b"contains", render(k[1], draft)))
            if (k[2], k[3]) != (1, None):
                ms.append((b"minContains", k[2]))
                if k[3] is not None:
                    ms.append((b"maxContains", k[3]))
        elif t == "props":
            ms.append((b"properties", Obj([(n, render(x, draft)) for n, x in k[1]])))
            if k[2] is not None:
                ms.append((b"additionalProperties", render(k[2], draft)))
        elif t == "req":
            ms.append((b"required", list(k[1])))
        elif t == "pnames":
            ms.append((b"propertyNames", render(k[1], draft)))
        elif t == "depreq":
            ms.append((b"dependentRequired" if d >= 2019 else b"dependencies", Obj([(n, list(ks)) for n, ks in k[1]])))
        elif t in ("allof", "anyof", "oneof"):
            ms.append(({"allof": b"allOf", "anyof": b"anyOf", "oneof": b"oneOf"}[t], [render(x, draft) for x in k[1]]))
        elif t == "not":
            ms.append((b"not", render(k[1], draft)))
        elif t == "cond":
            ms.append((b"if", render(k[1], draft)))
            if k[2] is not None:
                ms.append((b"then", render(k[2], draft)))
            if k[3] is not None:
                ms.append((b"else", render(k[3], draft)))
    if s["up"] is not None:
        ms.append((b"unevaluatedProperties", render(s["up"], draft)))
    if s["ui"] is not None:
        ms.append((b"unevaluatedItems", render(s["ui"], draft)))
    if defs:
        ms.append((b"$defs" if d >= 2019 else b"definitions", Obj([(B(n), render(b, draft)) for n, b in defs])))
    if rng is not None and rng.random() < 0.5:
        rng.shuffle(ms)
    return Obj(ms)


def empty_schema_fix(s, draft):
    """draft 4 has no boolean schemas: true is {} and false is {"not": {}}"""
    return s


# ---- instances ---------------------------------------------------------------------------------------------------------------------

def constants(s, defs, acc):
    """values mentioned by the schema: instances are built from them and their neighbours"""
    if s is True or s is False:
        return acc
    if "ref" in s:
        return constants(dict(defs)[s["ref"]], defs, acc)
    for k in s["kws"]:
        t = k[0]
        if t == "enum":
            acc["vals"] += k[1]
        elif t == "const":
            acc["vals"].append(k[1])
        elif t in ("min", "max", "xmin", "xmax"):
            acc["ints"] += [k[1], k[1] - 1, k[1] + 1]
        elif t == "mult":
            acc["ints"] += [k[1], k[1] * 2, k[1] + 1]
        elif t == "items":
            for x in k[1]:
                constants(x, defs, acc)
            if k[2] is not None:
                constants(k[2], defs, acc)
        elif t in ("contains", "not", "pnames"):
            constants(k[1], defs, acc)
        elif t == "props":
            for _, x in k[1]:
                constants(x, defs, acc)
            if k[2] is not None:
                constants(k[2], defs, acc)
        elif t in ("allof", "anyof", "oneof"):
            for x in k[1]:
                constants(x, defs, acc)
        elif t == "cond":
            for x in k[1:]:
                if x is not None:
                    constants(x, defs, acc)
    for x in (s["up"], s["ui"]):
        if x is not None:
            constants(x, defs, acc)
    return acc


def gen_instance(rng, consts, depth=2):
    r = rng.random()
    if depth <= 0 or r < 0.4:
        q = rng.random()
        if consts["vals"] and q < 0.25:
            return rng.choice(consts["vals"])
        if consts["ints"] and q < 0.55:
            return max(-2 ** 63, min(2 ** 64 - 1, rng.choice(consts["ints"])))     # what int64/uint64 storage holds
        return gen_value(rng, 0)
    if r < 0.7:
        xs = [gen_instance(rng, consts, depth - 1) for _ in range(rng.choice([0, 1, 2, 3, 4]))]
        if xs and rng.random() < 0.2:
            xs.append(xs[0])                           # a duplicate, for uniqueItems
        return xs
    return Obj([(k, gen_instance(rng, consts, depth - 1)) for k in rng.sample(KEYS, rng.choice([0, 1, 2, 3, 4]))])
