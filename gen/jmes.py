"""JMESPath expression generation for C13: an AST in chain form (what the Lean reference interpreter evaluates), its token form,
and a textual rendering (what jsoncons compiles)."""
import json
from wire import Obj
import wire

KEYS = [b"a", b"b", b"c", b"foo", b"bar", b"x", b"", b"k\xc3\xa9", b'q"q', b"b\\s", b"sp ace", b"A_1", b"n\nl", b"\xf0\x9f\x98\x80", b"0", b"a.b"]
STRS = [b"", b"x", b"y", b"foo", b"bar", b"foobar", b"\xc3\xa9t\xc3\xa9", b"10", b"9", b"A", b"a", b"ab", b"b", b"\xf0\x9f\x98\x80z", b"-3", b"007"]
INTS = [0, 1, 2, 3, 5, 10, -1, -7, 100, 2 ** 40]
FUNCS = {  # name -> (arity or None, argument kinds)
    "abs": ["num"], "contains": ["arrstr", "any"], "ends_with": ["str", "str"], "starts_with": ["str", "str"], "join": ["str", "arr"],
    "keys": ["obj"], "values": ["obj"], "length": ["sized"], "map": ["&", "arr"], "max": ["arr"], "min": ["arr"], "max_by": ["arr", "&"],
    "min_by": ["arr", "&"], "merge": ["obj", "obj"], "not_null": ["any", "any"], "reverse": ["arrstr"], "sort": ["arr"], "sort_by": ["arr", "&"],
    "sum": ["arr"], "to_array": ["any"], "to_number": ["any"], "to_string": ["str"], "type": ["any"],
}


def gen_doc(rng, depth=3, width=4):
    r = rng.random()
    if depth <= 0 or r < 0.25:
        q = rng.random()
        if q < 0.1:
            return None
        if q < 0.2:
            return rng.random() < 0.5
        if q < 0.6:
            return rng.choice(INTS)
        return rng.choice(STRS)
    if r < 0.6:
        n = rng.choice([0, 1, 2, 3, 4, 5])
        if rng.random() < 0.5:
            # homogeneous arrays (numbers / strings / objects with the same keys): where sort, max, join, sort_by are defined
            k = rng.choice(["int", "str", "obj", "arr"])
            if k == "int":
                return [rng.choice(INTS) for _ in range(n)]
            if k == "str":
                return [rng.choice(STRS) for _ in range(n)]
            if k == "arr":
                return [[rng.choice(INTS) for _ in range(rng.randint(0, 3))] for _ in range(n)]
            ks = rng.sample(KEYS[:6], rng.randint(1, 3))
            return [Obj([(kk, rng.choice(INTS) if i % 2 == 0 or rng.random() < 0.8 else rng.choice(STRS + [None])) for i, kk in enumerate(ks)]) for _ in range(n)]
        return [gen_doc(rng, depth - 1, width) for _ in range(n)]
    ks = rng.sample(KEYS[:7] if rng.random() < 0.75 else KEYS, rng.randint(0, width))
    return Obj([(k, gen_doc(rng, depth - 1, width)) for k in ks])


def kind_of(v):
    if v is None:
        return "null"
    if isinstance(v, bool):
        return "bool"
    if isinstance(v, int):
        return "num"
    if isinstance(v, bytes):
        return "str"
    if isinstance(v, list):
        return "arr"
    return "obj"


# ---- AST -----------------------------------------------------------------------------------------------------------------------
# expr:  ("CH", start, [step…]) | ("PIPE", a, b) | ("OR", a, b) | ("AND", a, b) | ("NOT", a) | (cmp, a, b) | ("FLATX", a, [step…])
# start: ("ID", key) | ("CUR",) | ("LIT", value) | ("PAR", expr) | ("CALL", name, [arg…]) | ("ML", [expr…]) | ("MH", [(key, expr)…])
# step:  ("F", key) | ("IX", int) | ("STAR",) | ("OSTAR",) | ("SL", a, b, c) | ("FILT", expr) | ("ML", …) | ("MH", …) | ("CALL", name, args)
# arg:   ("V", expr) | ("R", expr)

CMPS = ["EQ", "NE", "LT", "LE", "GT", "GE"]
CMP_TEXT = {"EQ": "==", "NE": "!=", "LT": "<", "LE": "<=", "GT": ">", "GE": ">="}


class G:
    def __init__(self, rng):
        self.rng = rng

    def bound(self, n):
        rng = self.rng
        if rng.random() < 0.3:
            return None
        return rng.choice([0, 1, 2, -1, -2, n, n - 1, -n, -n - 1, n + 1, 50, -50, 2 ** 63 - 1, -2 ** 63])

    def walk(self, v, depth, in_proj=False):
        """steps that mostly resolve on v; returns (steps, value-or-UNKNOWN)"""
        rng = self.rng
        steps = []
        cur = v
        for _ in range(depth):
            r = rng.random()
            k = kind_of(cur) if cur is not UNKNOWN else "unknown"
            if k == "obj" and cur.members and r < 0.75:
                key, nxt = rng.choice(cur.members)
                if rng.random() < 0.08:
                    key, nxt = rng.choice(KEYS), UNKNOWN
                steps.append(("F", key))
                cur = nxt
            elif k == "obj" and r < 0.9:
                steps.append(("OSTAR",))
                cur = UNKNOWN
            elif k == "arr" and r < 0.3 and cur:
                i = rng.randrange(len(cur))
                steps.append(("IX", rng.choice([i, i - len(cur)])))
                cur = cur[i]
            elif k == "arr" and r < 0.4:
                steps.append(("IX", rng.choice([len(cur), -len(cur) - 1, 99])))
                cur = None
            elif k == "arr" and r < 0.6:
                steps.append(("STAR",))
                cur = cur[0] if cur and rng.random() < 0.9 else UNKNOWN
                # after a projection the remaining steps apply per element: keep walking the first element as a guide
                steps += self.walk(cur, rng.randint(0, 2), True)[0] if cur is not UNKNOWN else []
                return steps, UNKNOWN
            elif k == "arr" and r < 0.8:
                n = len(cur)
                steps.append(("SL", self.bound(n), self.bound(n), rng.choice([1, 1, 2, -1, -2, 3, 2 ** 63 - 1, -2 ** 63, 0] if rng.random() < 0.9 else [0])))
                guide = cur[0] if cur else UNKNOWN
                steps += self.walk(guide, rng.randint(0, 2), True)[0] if guide is not UNKNOWN else []
                return steps, UNKNOWN
            elif k == "arr" and r < 0.95:
                guide = cur[0] if cur else UNKNOWN
                steps.append(("FILT", self.cond(guide)))
                steps += self.walk(guide, rng.randint(0, 1), True)[0] if guide is not UNKNOWN else []
                return steps, UNKNOWN
            elif r < 0.1:
                steps.append(rng.choice([("F", rng.choice(KEYS)), ("IX", rng.choice([0, -1])), ("STAR",), ("OSTAR",)]))
                cur = UNKNOWN
            else:
                break
        return steps, cur

    def literal(self, like=None):
        rng = self.rng
        k = kind_of(like) if like is not None and like is not UNKNOWN else rng.choice(["num", "str", "num", "str", "null", "bool", "arr", "obj"])
        if k == "num":
            return ("LIT", rng.choice(INTS))
        if k == "str":
            return ("LIT", rng.choice(STRS))
        if k == "null":
            return ("LIT", None)
        if k == "bool":
            return ("LIT", rng.random() < 0.5)
        if k == "arr":
            return ("LIT", [rng.choice(INTS) for _ in range(rng.randint(0, 3))])
        return ("LIT", wire.sort_keys(Obj([(kk, rng.choice(INTS)) for kk in rng.sample(KEYS[:4], rng.randint(0, 2))])))

    def cond(self, guide, depth=1):
        """a filter condition on elements shaped like `guide`"""
        rng = self.rng
        r = rng.random()
        if depth > 0 and r < 0.15:
            return (rng.choice(["AND", "OR"]), self.cond(guide, depth - 1), self.cond(guide, depth - 1))
        if depth > 0 and r < 0.22:
            return ("NOT", self.cond(guide, depth - 1))
        steps, val = self.walk(guide, rng.randint(0, 2)) if guide is not UNKNOWN else ([("F", rng.choice(KEYS[:6]))], UNKNOWN)
        lhs = ("CH", ("CUR",), steps)
        if r < 0.3:
            return lhs               # truthiness
        rhs = ("CH", self.literal(val if rng.random() < 0.85 else None), [])
        return (rng.choice(CMPS), lhs, rhs)

    def arg_for(self, kind, doc):
        rng = self.rng
        if kind == "&":
            guide = UNKNOWN
            e = self.expr(doc_guide_elem(rng, doc), 1)
            return ("R", e)
        if rng.random() < 0.25:
            return ("V", ("CH", self.literal(), []))
        return ("V", self.expr(doc, 1, want=kind))

    def find_path(self, doc, want, tries=12):
        """a resolving chain whose value has the wanted kind, when the document has one"""
        rng = self.rng
        for _ in range(tries):
            steps, val = self.walk(doc, rng.randint(0, 3))
            if val is UNKNOWN:
                if want in ("arr", "arrstr", "any", "sized"):
                    return steps
                continue
            k = kind_of(val)
            if want == "any" or want == k or (want == "arrstr" and k in ("arr", "str")) or (want == "sized" and k in ("arr", "str", "obj")):
                return steps
        return None

    def expr(self, doc, depth=2, want=None):
        rng = self.rng
        r = rng.random()
        if depth <= 0 or r < 0.45:
            steps = self.find_path(doc, want or "any") if want else self.walk(doc, rng.randint(0, 4))[0]
            if steps is None:
                steps = self.walk(doc, rng.randint(0, 3))[0]
            return self.chain_from(steps)
        if r < 0.6:
            name = rng.choice(list(FUNCS))
            kinds = FUNCS[name]
            args = [self.arg_for(k, doc) for k in kinds]
            q = rng.random()
            if q < 0.04:
                args = args[:-1]                                  # wrong arity
            elif q < 0.08:
                args.append(("V", ("CH", self.literal(), [])))
            elif q < 0.1:
                name = rng.choice(["no_such_function", "lenght", "Length"])
            if name in ("merge", "not_null") and rng.random() < 0.4:
                args.append(self.arg_for("any" if name == "not_null" else "obj", doc))
            start = ("CALL", name, args)
            return ("CH", start, self.walk(UNKNOWN, rng.randint(0, 1))[0] if rng.random() < 0.2 else [])
        if r < 0.68:
            a = self.expr(doc, depth - 1)
            return ("PIPE", a, self.expr(UNKNOWN if rng.random() < 0.5 else doc, depth - 1))
        if r < 0.74:
            return (rng.choice(["OR", "AND"]), self.expr(doc, depth - 1), self.expr(doc, depth - 1))
        if r < 0.78:
            return ("NOT", self.expr(doc, depth - 1))
        if r < 0.84:
            return (rng.choice(CMPS), self.expr(doc, depth - 1), self.expr(doc, depth - 1) if rng.random() < 0.5 else ("CH", self.literal(), []))
        if r < 0.9:
            a = self.expr(doc, depth - 1, want="arr")
            return ("FLATX", a, self.walk(UNKNOWN, rng.randint(0, 2))[0] if rng.random() < 0.4 else [])
        if r < 0.95:
            return ("CH", ("ML", [self.expr(doc, depth - 1) for _ in range(rng.randint(1, 3))]), [])
        ks = rng.sample(KEYS[:8], rng.randint(1, 3))
        return ("CH", ("MH", [(k, self.expr(doc, depth - 1)) for k in ks]), [])

    def chain_from(self, steps):
        rng = self.rng
        if steps and steps[0][0] == "F" and rng.random() < 0.8:
            return ("CH", ("ID", steps[0][1]), steps[1:])
        return ("CH", ("CUR",), steps)


class _Unknown:
    pass


UNKNOWN = _Unknown()


def doc_guide_elem(rng, doc):
    """an element of some array inside the document (what an expression reference will be applied to)"""
    arrays = []

    def rec(v):
        if isinstance(v, list):
            if v:
                arrays.append(v)
            for x in v:
                rec(x)
        elif isinstance(v, Obj):
            for _, x in v.members:
                rec(x)
    if doc is not UNKNOWN:
        rec(doc)
    if not arrays:
        return UNKNOWN
    return rng.choice(rng.choice(arrays))


# ---- tokens ----------------------------------------------------------------------------------------------------------------------

def tok_expr(e, out):
    t = e[0]
    if t == "CH":
        out.append("CH")
        tok_start(e[1], out)
        out.append(str(len(e[2])))
        for s in e[2]:
            tok_step(s, out)
    elif t == "NOT":
        out.append("NOT")
        tok_expr(e[1], out)
    elif t == "FLATX":
        out.append("FLATX")
        tok_expr(e[1], out)
        out.append(str(len(e[2])))
        for s in e[2]:
            tok_step(s, out)
    else:
        out.append(t)
        tok_expr(e[1], out)
        tok_expr(e[2], out)


def tok_call(name, args, out):
    out += ["CALL", name, str(len(args))]
    for a in args:
        out.append(a[0])
        tok_expr(a[1], out)


def tok_multi(s, out):
    if s[0] == "ML":
        out += ["ML", str(len(s[1]))]
        for e in s[1]:
            tok_expr(e, out)
    else:
        out += ["MH", str(len(s[1]))]
        for k, e in s[1]:
            out.append("K" + k.hex())
            tok_expr(e, out)


def tok_start(s, out):
    t = s[0]
    if t == "ID":
        out.append("ID" + s[1].hex())
    elif t == "CUR":
        out.append("CUR")
    elif t == "LIT":
        out += ["LIT", wire.render(s[1])]
    elif t == "PAR":
        out.append("PAR")
        tok_expr(s[1], out)
    elif t == "CALL":
        tok_call(s[1], s[2], out)
    else:
        tok_multi(s, out)


def tok_step(s, out):
    t = s[0]
    if t == "F":
        out.append("F" + s[1].hex())
    elif t == "IX":
        out.append("IX%d" % s[1])
    elif t in ("STAR", "OSTAR"):
        out.append(t)
    elif t == "SL":
        out += ["SL", "_" if s[1] is None else str(s[1]), "_" if s[2] is None else str(s[2]), str(s[3])]
    elif t == "FILT":
        out.append("FILT")
        tok_expr(s[1], out)
    elif t == "CALL":
        tok_call(s[1], s[2], out)
    else:
        tok_multi(s, out)


def tokens(e):
    out = []
    tok_expr(e, out)
    return " ".join(out)


# ---- text --------------------------------------------------------------------------------------------------------------------------

def is_unquoted(k):
    if not k:
        return False
    if not ((65 <= k[0] <= 90) or (97 <= k[0] <= 122) or k[0] == 95):
        return False
    return all((48 <= c <= 57) or (65 <= c <= 90) or (97 <= c <= 122) or c == 95 for c in k)


def ident_text(rng, k):
    if is_unquoted(k) and rng.random() < 0.8:
        return k
    return json.dumps(k.decode("utf-8"), ensure_ascii=rng.random() < 0.3).encode("utf-8")


def to_py(v):
    if isinstance(v, bytes):
        return v.decode("utf-8")
    if isinstance(v, list):
        return [to_py(x) for x in v]
    if isinstance(v, Obj):
        return {k.decode("utf-8"): to_py(x) for k, x in v.members}
    return v


def literal_text(rng, v):
    if isinstance(v, bytes) and b"'" not in v and b"\\" not in v and rng.random() < 0.6:
        return b"'" + v + b"'"                      # raw string
    s = json.dumps(to_py(v), ensure_ascii=rng.random() < 0.3, separators=(",", ":") if rng.random() < 0.5 else (", ", ": "))
    return b"`" + s.replace("`", "\\`").encode("utf-8") + b"`"


PREC = {"PIPE": 1, "OR": 2, "AND": 3, "EQ": 5, "NE": 5, "LT": 5, "LE": 5, "GT": 5, "GE": 5, "NOT": 8, "FLATX": 9, "CH": 9}


def args_text(rng, args):
    return b", ".join((b"&" if a[0] == "R" else b"") + expr_text(rng, a[1], 0 if a[0] == "V" else 8) for a in args)


def multi_text(rng, s):
    if s[0] == "ML":
        parts = [expr_text(rng, e, 0) for e in s[1]]
        if len(parts) == 1 and parts[0] == b"*":
            parts = [b"(*)"]                    # `[*]` is the list wildcard, not a multiselect of `*`
        return b"[" + b", ".join(parts) + b"]"
    return b"{" + b", ".join(ident_text(rng, k) + b": " + expr_text(rng, e, 0) for k, e in s[1]) + b"}"


def slice_text(rng, s):
    a = b"" if s[1] is None else str(s[1]).encode()
    b = b"" if s[2] is None else str(s[2]).encode()
    if s[3] == 1 and rng.random() < 0.6:
        return b"[" + a + b":" + b + b"]"
    return b"[" + a + b":" + b + b":" + str(s[3]).encode() + b"]"


def steps_text(rng, steps, bare_first=False):
    out = bytearray()
    for n, s in enumerate(steps):
        t = s[0]
        first = bare_first and n == 0
        if t == "F":
            out += (b"" if first else b".") + ident_text(rng, s[1])
        elif t == "IX":
            out += b"[" + str(s[1]).encode() + b"]"
        elif t == "STAR":
            out += b"[*]"
        elif t == "OSTAR":
            out += b"*" if first else b".*"
        elif t == "SL":
            out += slice_text(rng, s)
        elif t == "FILT":
            out += b"[?" + expr_text(rng, s[1], 0) + b"]"
        elif t == "CALL":
            out += (b"" if first else b".") + s[1].encode() + b"(" + args_text(rng, s[2]) + b")"
        else:
            out += (b"" if first else b".") + multi_text(rng, s)
    return bytes(out)


def expr_text(rng, e, parent=0):
    t = e[0]
    if t == "CH":
        st, steps = e[1], e[2]
        if st[0] == "CUR" and steps and steps[0][0] in ("IX", "STAR", "SL", "FILT", "OSTAR") and rng.random() < 0.7:
            return steps_text(rng, steps, bare_first=True) if steps[0][0] == "OSTAR" else steps_text(rng, steps)
        if st[0] == "ID":
            head = ident_text(rng, st[1])
        elif st[0] == "CUR":
            head = b"@"
        elif st[0] == "LIT":
            head = literal_text(rng, st[1])
        elif st[0] == "PAR":
            head = b"(" + expr_text(rng, st[1], 0) + b")"
        elif st[0] == "CALL":
            head = st[1].encode() + b"(" + args_text(rng, st[2]) + b")"
        else:
            head = multi_text(rng, st)
        return head + steps_text(rng, steps)
    if t == "FLATX":
        inner = expr_text(rng, e[1], 9)
        if e[1][0] not in ("CH", "FLATX"):
            inner = b"(" + expr_text(rng, e[1], 0) + b")"
        return inner + b"[]" + steps_text(rng, e[2])
    if t == "NOT":
        a = e[1]
        simple = a[0] == "CH" and not a[2] and a[1][0] in ("ID", "CUR", "PAR")
        s = b"!" + (expr_text(rng, a, 9) if simple else b"(" + expr_text(rng, a, 0) + b")")
        return s
    p = PREC[t]
    if t in ("PIPE", "OR", "AND"):
        op = {"PIPE": b" | ", "OR": b" || ", "AND": b" && "}[t]
        s = expr_text(rng, e[1], p) + op + expr_text(rng, e[2], p + 1)
    else:
        s = expr_text(rng, e[1], p + 1) + b" " + CMP_TEXT[t].encode() + b" " + expr_text(rng, e[2], p + 1)
    if p < parent:
        return b"(" + s + b")"
    return s


# ---- static errors ------------------------------------------------------------------------------------------------------------------

VARIADIC = {"merge": 1, "not_null": 1}


def static_errors(e, acc=None):
    """error kinds a compiler may report without evaluating anything: unknown function, wrong number of arguments, slice step 0"""
    acc = set() if acc is None else acc

    def call(name, args):
        if name not in FUNCS:
            acc.add("unknown-function")
        elif name in VARIADIC:
            if len(args) < VARIADIC[name]:
                acc.add("invalid-arity")
        elif len(args) != len(FUNCS[name]):
            acc.add("invalid-arity")
        for a in args:
            static_errors(a[1], acc)

    def multi(s):
        if s[0] == "ML":
            for x in s[1]:
                static_errors(x, acc)
        else:
            for _, x in s[1]:
                static_errors(x, acc)

    def steps(ss):
        for s in ss:
            if s[0] == "SL" and s[3] == 0:
                acc.add("invalid-value")
            elif s[0] == "FILT":
                static_errors(s[1], acc)
            elif s[0] == "CALL":
                call(s[1], s[2])
            elif s[0] in ("ML", "MH"):
                multi(s)

    t = e[0]
    if t == "CH":
        st = e[1]
        if st[0] == "PAR":
            static_errors(st[1], acc)
        elif st[0] == "CALL":
            call(st[1], st[2])
        elif st[0] in ("ML", "MH"):
            multi(st)
        steps(e[2])
    elif t == "NOT":
        static_errors(e[1], acc)
    elif t == "FLATX":
        static_errors(e[1], acc)
        steps(e[2])
    else:
        static_errors(e[1], acc)
        static_errors(e[2], acc)
    return acc
