"""Structure-aware generators for data-model values (Python-side form of gen/wire.py)."""
from wire import Obj

KEYS_SMALL = [b"a", b"b", b"c"]
KEYS_MED = [b"a", b"b", b"c", b"", b"ab", b"a/b", b"~", b"0", b"1", b"01", b"-", b"\xc3\xa9", b'"', b"\\", b"z" * 24]
INT_BOUNDARY = [0, 1, -1, 2, 23, 24, 255, 256, 65535, 65536, 2**31 - 1, 2**31, -2**31, -2**31 - 1, 2**32 - 1, 2**32,
                2**53, 2**63 - 1, -2**63, 2**63, 2**64 - 1]
STRS = [b"", b"x", b"foo", b"bar", b"a\nb", b"\xe2\x82\xac", b"\xf0\x9f\x98\x80", b"q\"q", b"b\\s", b"\x7f", b"\x01", b"/", b"1", b"-1", b"true", b"null"]


def leaf(rng, small=False):
    r = rng.random()
    if r < 0.2:
        return None
    if r < 0.3:
        return rng.random() < 0.5
    if r < 0.65:
        if small:
            return rng.choice([0, 1, 2])
        return rng.choice(INT_BOUNDARY) if rng.random() < 0.5 else rng.randint(-1000, 1000)
    return rng.choice(STRS[:4] if small else STRS)


def value(rng, depth=3, keys=KEYS_MED, small=False, width=4, p_leaf=0.35):
    if depth <= 0 or rng.random() < p_leaf:
        return leaf(rng, small)
    if rng.random() < 0.4:
        return [value(rng, depth - 1, keys, small, width, p_leaf) for _ in range(rng.randint(0, width))]
    n = rng.randint(0, width)
    ks = rng.sample(keys, min(n, len(keys)))
    return Obj([(k, value(rng, depth - 1, keys, small, width, p_leaf)) for k in ks])


def mutate(rng, v, depth=3, keys=KEYS_MED, small=False, p=0.3):
    """a value that shares structure and member names with v"""
    if rng.random() < 0.08:
        return value(rng, depth, keys, small)
    if isinstance(v, Obj):
        ms = []
        for k, x in v.members:
            r = rng.random()
            if r < 0.15:
                continue                      # drop
            if r < 0.3:
                ms.append((k, None))          # null it
            elif r < 0.3 + p:
                ms.append((k, mutate(rng, x, depth - 1, keys, small, p)))
            else:
                ms.append((k, x))
        for _ in range(rng.randint(0, 2)):
            k = rng.choice(keys)
            if k not in [kk for kk, _ in ms]:
                ms.append((k, value(rng, max(depth - 1, 0), keys, small)))
        rng.shuffle(ms)
        return Obj(ms)
    if isinstance(v, list):
        xs = [mutate(rng, x, depth - 1, keys, small, p) if rng.random() < p else x for x in v]
        if xs and rng.random() < 0.3:
            xs.pop(rng.randrange(len(xs)))
        if rng.random() < 0.3:
            xs.insert(rng.randint(0, len(xs)), value(rng, max(depth - 1, 0), keys, small))
        return xs
    return leaf(rng, small) if rng.random() < 0.5 else v


def all_values(depth, keys, leaves, width):
    """every value of nesting depth <= depth with at most `width` children (keys in given order, subsets)"""
    if depth == 0:
        return list(leaves)
    sub = all_values(depth - 1, keys, leaves, width)
    out = list(leaves)
    # arrays
    def seqs(n):
        if n == 0:
            return [[]]
        return [[x] + r for x in sub for r in seqs(n - 1)]
    for n in range(0, width + 1):
        out.extend(seqs(n))
    # objects over subsets of keys
    from itertools import combinations, product
    for n in range(0, min(width, len(keys)) + 1):
        for ks in combinations(keys, n):
            for vs in product(sub, repeat=n):
                out.append(Obj(list(zip(ks, vs))))
    return out
