"""Wire syntax of the line protocol (mirror of lean/JV/Basic/Wire.lean and harness/common.hpp).

Python-side values:  None | bool | int | ('d', bits:int) | bytes (string) | ('b', bytes) (byte string)
                     | list | Obj (ordered list of (bytes key, value) pairs)
"""


class Obj:
    __slots__ = ("members",)

    def __init__(self, members=None):
        self.members = list(members or [])

    def get(self, k):
        for kk, v in self.members:
            if kk == k:
                return v
        return KeyError

    def keys(self):
        return [k for k, _ in self.members]

    def __repr__(self):
        return "Obj(%r)" % (self.members,)

    def __eq__(self, other):
        return isinstance(other, Obj) and self.members == other.members


def render(v):
    out = []
    _render(v, out)
    return " ".join(out)


class Tagged:
    """a value carrying a jsoncons semantic tag (rendered as a @tag suffix on its first token)"""
    __slots__ = ("tag", "value")

    def __init__(self, tag, value):
        self.tag = tag
        self.value = value

    def __eq__(self, other):
        return isinstance(other, Tagged) and self.tag == other.tag and self.value == other.value

    def __repr__(self):
        return "Tagged(%r, %r)" % (self.tag, self.value)


def _render(v, out):
    if isinstance(v, Tagged):
        n = len(out)
        _render(v.value, out)
        out[n] = out[n] + "@" + v.tag
        return
    if v is None:
        out.append("n")
    elif v is True:
        out.append("t")
    elif v is False:
        out.append("f")
    elif isinstance(v, int):
        out.append("i%d" % v)
    elif isinstance(v, bytes):
        out.append("s" + v.hex())
    elif isinstance(v, tuple) and v[0] == "d":
        out.append("d%016x" % v[1])
    elif isinstance(v, tuple) and v[0] == "b":
        out.append("b" + v[1].hex())
    elif isinstance(v, tuple) and v[0] == "e":
        out.append("e%04x" % v[1])
    elif isinstance(v, list):
        out.append("[")
        for x in v:
            _render(x, out)
        out.append("]")
    elif isinstance(v, Obj):
        out.append("{")
        for k, x in v.members:
            out.append("k" + k.hex())
            _render(x, out)
        out.append("}")
    else:
        raise TypeError(v)


def parse(toks, pos=0):
    """returns (value, newpos)"""
    t = toks[pos]
    if "@" in t:
        base, tag = t.split("@", 1)
        v, p2 = parse([base] + toks[pos + 1:], 0)
        return Tagged(tag, v), pos + p2
    pos += 1
    if t == "n":
        return None, pos
    if t == "t":
        return True, pos
    if t == "f":
        return False, pos
    if t == "[":
        xs = []
        while toks[pos] != "]":
            x, pos = parse(toks, pos)
            xs.append(x)
        return xs, pos + 1
    if t == "{":
        ms = []
        while toks[pos] != "}":
            k = bytes.fromhex(toks[pos][1:])
            x, pos = parse(toks, pos + 1)
            ms.append((k, x))
        return Obj(ms), pos + 1
    c = t[0]
    if c == "i":
        return int(t[1:]), pos
    if c == "s":
        return bytes.fromhex(t[1:]), pos
    if c == "d":
        return ("d", int(t[1:], 16)), pos
    if c == "b":
        return ("b", bytes.fromhex(t[1:])), pos
    if c == "e":
        return ("e", int(t[1:], 16)), pos
    raise ValueError("bad token %r" % t)


def parse_all(s):
    toks = s.split()
    vals = []
    pos = 0
    while pos < len(toks):
        v, pos = parse(toks, pos)
        vals.append(v)
    return vals


def canon(v):
    """JSON-value canonical form: object members sorted by key (for order-insensitive equality)."""
    if isinstance(v, Tagged):
        return Tagged(v.tag, canon(v.value))
    if isinstance(v, list):
        return [canon(x) for x in v]
    if isinstance(v, Obj):
        return Obj(sorted(((k, canon(x)) for k, x in v.members), key=lambda m: m[0]))
    return v


def sort_keys(v):
    """what jsoncons::json does on construction: objects sorted by key, first duplicate wins"""
    if isinstance(v, list):
        return [sort_keys(x) for x in v]
    if isinstance(v, Obj):
        seen = {}
        for k, x in v.members:
            if k not in seen:
                seen[k] = sort_keys(x)
        return Obj(sorted(seen.items(), key=lambda m: m[0]))
    return v


def depth(v):
    if isinstance(v, list):
        return 1 + max([depth(x) for x in v], default=0)
    if isinstance(v, Obj):
        return 1 + max([depth(x) for _, x in v.members], default=0)
    return 0


def has_null_member(v):
    if isinstance(v, list):
        return any(has_null_member(x) for x in v)
    if isinstance(v, Obj):
        return any(x is None or has_null_member(x) for _, x in v.members)
    return False


def normalize_objects(v, kind):
    """what a json_decoder does to member lists: first duplicate wins; 'j' (sorted policy) orders by key"""
    if isinstance(v, Tagged):
        return Tagged(v.tag, normalize_objects(v.value, kind))
    if isinstance(v, list):
        return [normalize_objects(x, kind) for x in v]
    if isinstance(v, Obj):
        seen = {}
        order = []
        for k, x in v.members:
            if k not in seen:
                seen[k] = normalize_objects(x, kind)
                order.append(k)
        if kind == "j":
            order = sorted(order)
        return Obj([(k, seen[k]) for k in order])
    return v


def strip_tag(v, name):
    if isinstance(v, Tagged):
        inner = strip_tag(v.value, name)
        return inner if v.tag == name else Tagged(v.tag, inner)
    if isinstance(v, list):
        return [strip_tag(x, name) for x in v]
    if isinstance(v, Obj):
        return Obj([(k, strip_tag(x, name)) for k, x in v.members])
    return v


def canon_nan(v):
    """every NaN is the same value for comparison purposes (payload and quiet bit are not preserved by float conversions)"""
    if isinstance(v, tuple) and v[0] == "d" and (v[1] >> 52) & 0x7FF == 0x7FF and v[1] & ((1 << 52) - 1):
        return ("d", 0x7FF8000000000000)
    if isinstance(v, tuple) and v[0] == "e" and (v[1] >> 10) & 0x1F == 0x1F and v[1] & 0x3FF:
        return ("e", 0x7E00)
    if isinstance(v, Tagged):
        return Tagged(v.tag, canon_nan(v.value))
    if isinstance(v, list):
        return [canon_nan(x) for x in v]
    if isinstance(v, Obj):
        return Obj([(k, canon_nan(x)) for k, x in v.members])
    return v
