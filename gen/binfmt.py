"""Independent reference *encoders* (written from the format specifications) used to generate decoder inputs in every legal width and
form, plus mutation helpers. Values: None | bool | int | ('d', bits) | ('f32', bits32) | ('e', bits16) | bytes (text) | ('b', bytes) |
list | Obj | Tagged(tag, value) as in gen/wire.py."""
import struct
from wire import Obj, Tagged


def bits_of(f):
    return struct.unpack("<Q", struct.pack("<d", f))[0]


# ---------------------------------------------------------------- CBOR (RFC 8949) ------------------------------------------------

def cbor_head(major, n, rng=None, minimal=True):
    widths = []
    if n < 24:
        widths.append(0)
    if n < 2 ** 8:
        widths.append(1)
    if n < 2 ** 16:
        widths.append(2)
    if n < 2 ** 32:
        widths.append(4)
    widths.append(8)
    w = widths[0] if (minimal or rng is None or rng.random() < 0.6) else rng.choice(widths)
    if w == 0:
        return bytes([major << 5 | n])
    ai = {1: 24, 2: 25, 4: 26, 8: 27}[w]
    return bytes([major << 5 | ai]) + n.to_bytes(w, "big")


CBOR_TEXT_TAGS = {"datetime": 0, "uri": 32, "base64url": 33, "base64": 34}
CBOR_BYTES_TAGS = {"base64url": 21, "base64": 22, "base16": 23}


def cbor_encode(v, rng=None, minimal=True):
    r = (lambda: rng.random()) if rng is not None else (lambda: 1.0)
    nm = minimal
    if isinstance(v, Tagged):
        inner = v.value
        if v.tag == "undefined":
            return b"\xf7"
        if v.tag == "bigint":
            n = int(inner)
            if n >= 0:
                return cbor_head(6, 2, rng, nm) + cbor_encode(("b", n.to_bytes(max((n.bit_length() + 7) // 8, 1 if r() < 0.5 else 0), "big")), rng, nm)
            m = -1 - n
            return cbor_head(6, 3, rng, nm) + cbor_encode(("b", m.to_bytes(max((m.bit_length() + 7) // 8, 0), "big")), rng, nm)
        if v.tag == "epoch_second":
            return cbor_head(6, 1, rng, nm) + cbor_encode(inner, rng, nm)
        if isinstance(inner, bytes) and v.tag in CBOR_TEXT_TAGS:
            return cbor_head(6, CBOR_TEXT_TAGS[v.tag], rng, nm) + cbor_encode(inner, rng, nm)
        if isinstance(inner, tuple) and inner[0] == "b" and v.tag in CBOR_BYTES_TAGS:
            return cbor_head(6, CBOR_BYTES_TAGS[v.tag], rng, nm) + cbor_encode(inner, rng, nm)
        if v.tag.startswith("#"):            # an arbitrary (ignored) tag number
            return cbor_head(6, int(v.tag[1:]), rng, nm) + cbor_encode(inner, rng, nm)
        raise ValueError(v.tag)
    if v is None:
        return b"\xf6"
    if v is True:
        return b"\xf5"
    if v is False:
        return b"\xf4"
    if isinstance(v, int):
        return cbor_head(0, v, rng, nm) if v >= 0 else cbor_head(1, -1 - v, rng, nm)
    if isinstance(v, tuple) and v[0] == "d":
        return b"\xfb" + v[1].to_bytes(8, "big")
    if isinstance(v, tuple) and v[0] == "f32":
        return b"\xfa" + v[1].to_bytes(4, "big")
    if isinstance(v, tuple) and v[0] == "e":
        return b"\xf9" + v[1].to_bytes(2, "big")
    if isinstance(v, bytes) or (isinstance(v, tuple) and v[0] == "b"):
        major = 3 if isinstance(v, bytes) else 2
        data = v if isinstance(v, bytes) else v[1]
        if not nm and rng is not None and rng.random() < 0.25:
            # indefinite: definite chunks of the same major type (text chunks cut at character boundaries)
            out = bytes([major << 5 | 31])
            if major == 3:
                chars = [c.encode("utf-8") for c in data.decode("utf-8")]
            else:
                chars = [bytes([b]) for b in data]
            i = 0
            while i < len(chars):
                k = rng.randint(0, 3)
                piece = b"".join(chars[i:i + k])
                out += cbor_head(major, len(piece), rng, nm) + piece
                i += k
            return out + b"\xff"
        return cbor_head(major, len(data), rng, nm) + data
    if isinstance(v, list):
        if not nm and rng is not None and rng.random() < 0.3:
            return b"\x9f" + b"".join(cbor_encode(x, rng, nm) for x in v) + b"\xff"
        return cbor_head(4, len(v), rng, nm) + b"".join(cbor_encode(x, rng, nm) for x in v)
    if isinstance(v, Obj):
        body = b"".join(cbor_encode(k, rng, nm) + cbor_encode(x, rng, nm) for k, x in v.members)
        if not nm and rng is not None and rng.random() < 0.3:
            return b"\xbf" + body + b"\xff"
        return cbor_head(5, len(v.members), rng, nm) + body
    raise TypeError(v)


# ---------------------------------------------------------------- mutation ---------------------------------------------------------

def mutate_bytes(rng, b, interesting=(0x00, 0x17, 0x18, 0x19, 0x1a, 0x1b, 0x1c, 0x1f, 0x7f, 0x80, 0xff, 0xf6, 0xfe, 0x5f, 0x9f, 0xbf)):
    if not b:
        return bytes([rng.randrange(256)])
    r = rng.random()
    i = rng.randrange(len(b))
    if r < 0.3:
        return b[:i] + bytes([rng.choice(interesting) if rng.random() < 0.5 else rng.randrange(256)]) + b[i + 1:]
    if r < 0.45:
        return b[:i] + bytes([b[i] ^ (1 << rng.randrange(8))]) + b[i + 1:]
    if r < 0.6:
        return b[:i] + b[i + 1:]
    if r < 0.75:
        return b[:i] + bytes([rng.randrange(256)]) + b[i:]
    if r < 0.9:
        return b[:i]
    return b + bytes([rng.choice(interesting)])
