"""Independent reference *encoders* (written from the format specifications) used to generate decoder inputs in every legal width and
form, plus mutation helpers. Values: None | bool | int | ('d', bits) | ('f32', bits32) | ('e', bits16) | bytes (text) | ('b', bytes) |
list | Obj | Tagged(tag, value) as in gen/wire.py."""
import struct
from wire import Obj, Tagged


def bits_of(f):
    return struct.unpack("<Q", struct.pack("<d", f))[0]


# ---------------------------------------------------------------- CBOR (RFC 8949) ------------------------------------------------

def cbor_head(major, n, rng=None, minimal=True):
    widths = []
    if n < 24:
        widths.append(0)
    if n < 2 ** 8:
        widths.append(1)
    if n < 2 ** 16:
        widths.append(2)
    if n < 2 ** 32:
        widths.append(4)
    widths.append(8)
    w = widths[0] if (minimal or rng is None or rng.random() < 0.6) else rng.choice(widths)
    if w == 0:
        return bytes([major << 5 | n])
    ai = {1: 24, 2: 25, 4: 26, 8: 27}[w]
    return bytes([major << 5 | ai]) + n.to_bytes(w, "big")


CBOR_TEXT_TAGS = {"datetime": 0, "uri": 32, "base64url": 33, "base64": 34}
CBOR_BYTES_TAGS = {"base64url": 21, "base64": 22, "base16": 23}


def cbor_encode(v, rng=None, minimal=True):
    r = (lambda: rng.random()) if rng is not None else (lambda: 1.0)
    nm = minimal
    if isinstance(v, Tagged):
        inner = v.value
        if v.tag == "undefined":
            return b"\xf7"
        if v.tag == "bigint":
            n = int(inner)
            if n >= 0:
                return cbor_head(6, 2, rng, nm) + cbor_encode(("b", n.to_bytes(max((n.bit_length() + 7) // 8, 1 if r() < 0.5 else 0), "big")), rng, nm)
            m = -1 - n
            return cbor_head(6, 3, rng, nm) + cbor_encode(("b", m.to_bytes(max((m.bit_length() + 7) // 8, 0), "big")), rng, nm)
        if v.tag == "epoch_second":
            return cbor_head(6, 1, rng, nm) + cbor_encode(inner, rng, nm)
        if isinstance(inner, bytes) and v.tag in CBOR_TEXT_TAGS:
            return cbor_head(6, CBOR_TEXT_TAGS[v.tag], rng, nm) + cbor_encode(inner, rng, nm)
        if isinstance(inner, tuple) and inner[0] == "b" and v.tag in CBOR_BYTES_TAGS:
            return cbor_head(6, CBOR_BYTES_TAGS[v.tag], rng, nm) + cbor_encode(inner, rng, nm)
        if v.tag.startswith("#"):            # an arbitrary (ignored) tag number
            return cbor_head(6, int(v.tag[1:]), rng, nm) + cbor_encode(inner, rng, nm)
        raise ValueError(v.tag)
    if v is None:
        return b"\xf6"
    if v is True:
        return b"\xf5"
    if v is False:
        return b"\xf4"
    if isinstance(v, int):
        return cbor_head(0, v, rng, nm) if v >= 0 else cbor_head(1, -1 - v, rng, nm)
    if isinstance(v, tuple) and v[0] == "d":
        return b"\xfb" + v[1].to_bytes(8, "big")
    if isinstance(v, tuple) and v[0] == "f32":
        return b"\xfa" + v[1].to_bytes(4, "big")
    if isinstance(v, tuple) and v[0] == "e":
        return b"\xf9" + v[1].to_bytes(2, "big")
    if isinstance(v, bytes) or (isinstance(v, tuple) and v[0] == "b"):
        major = 3 if isinstance(v, bytes) else 2
        data = v if isinstance(v, bytes) else v[1]
        if not nm and rng is not None and rng.random() < 0.25:
            # indefinite: definite chunks of the same major type (text chunks cut at character boundaries)
            out = bytes([major << 5 | 31])
            if major == 3:
                chars = [c.encode("utf-8") for c in data.decode("utf-8")]
            else:
                chars = [bytes([b]) for b in data]
            i = 0
            while i < len(chars):
                k = rng.randint(0, 3)
                piece = b"".join(chars[i:i + k])
                out += cbor_head(major, len(piece), rng, nm) + piece
                i += k
            return out + b"\xff"
        return cbor_head(major, len(data), rng, nm) + data
    if isinstance(v, list):
        if not nm and rng is not None and rng.random() < 0.3:
            return b"\x9f" + b"".join(cbor_encode(x, rng, nm) for x in v) + b"\xff"
        return cbor_head(4, len(v), rng, nm) + b"".join(cbor_encode(x, rng, nm) for x in v)
    if isinstance(v, Obj):
        body = b"".join(cbor_encode(k, rng, nm) + cbor_encode(x, rng, nm) for k, x in v.members)
        if not nm and rng is not None and rng.random() < 0.3:
            return b"\xbf" + body + b"\xff"
        return cbor_head(5, len(v.members), rng, nm) + body
    raise TypeError(v)


# ---------------------------------------------------------------- mutation ---------------------------------------------------------

def mutate_bytes(rng, b, interesting=(0x00, 0x17, 0x18, 0x19, 0x1a, 0x1b, 0x1c, 0x1f, 0x7f, 0x80, 0xff, 0xf6, 0xfe, 0x5f, 0x9f, 0xbf)):
    if not b:
        return bytes([rng.randrange(256)])
    r = rng.random()
    i = rng.randrange(len(b))
    if r < 0.3:
        return b[:i] + bytes([rng.choice(interesting) if rng.random() < 0.5 else rng.randrange(256)]) + b[i + 1:]
    if r < 0.45:
        return b[:i] + bytes([b[i] ^ (1 << rng.randrange(8))]) + b[i + 1:]
    if r < 0.6:
        return b[:i] + b[i + 1:]
    if r < 0.75:
        return b[:i] + bytes([rng.randrange(256)]) + b[i:]
    if r < 0.9:
        return b[:i]
    return b + bytes([rng.choice(interesting)])


# ---------------------------------------------------------------- MessagePack ---------------------------------------------------

def mp_encode(v, rng=None, minimal=True):
    pick = (lambda opts: opts[0]) if (minimal or rng is None) else (lambda opts: rng.choice(opts) if rng.random() < 0.5 else opts[0])
    if v is None:
        return b"\xc0"
    if v is True:
        return b"\xc3"
    if v is False:
        return b"\xc2"
    if isinstance(v, int):
        forms = []
        if 0 <= v <= 0x7f:
            forms.append(bytes([v]))
        if -32 <= v < 0:
            forms.append(bytes([v + 256]))
        if v >= 0:
            for code, w in ((0xcc, 1), (0xcd, 2), (0xce, 4), (0xcf, 8)):
                if v < 256 ** w:
                    forms.append(bytes([code]) + v.to_bytes(w, "big"))
        for code, w in ((0xd0, 1), (0xd1, 2), (0xd2, 4), (0xd3, 8)):
            if -(1 << (8 * w - 1)) <= v < (1 << (8 * w - 1)):
                forms.append(bytes([code]) + v.to_bytes(w, "big", signed=True))
        return pick(forms)
    if isinstance(v, tuple) and v[0] == "d":
        return b"\xcb" + v[1].to_bytes(8, "big")
    if isinstance(v, tuple) and v[0] == "f32":
        return b"\xca" + v[1].to_bytes(4, "big")
    if isinstance(v, bytes):
        n = len(v)
        forms = []
        if n < 32:
            forms.append(bytes([0xa0 + n]) + v)
        if n < 256:
            forms.append(b"\xd9" + bytes([n]) + v)
        if n < 65536:
            forms.append(b"\xda" + n.to_bytes(2, "big") + v)
        forms.append(b"\xdb" + n.to_bytes(4, "big") + v)
        return pick(forms)
    if isinstance(v, tuple) and v[0] == "b":
        n = len(v[1])
        forms = []
        if n < 256:
            forms.append(b"\xc4" + bytes([n]) + v[1])
        if n < 65536:
            forms.append(b"\xc5" + n.to_bytes(2, "big") + v[1])
        forms.append(b"\xc6" + n.to_bytes(4, "big") + v[1])
        return pick(forms)
    if isinstance(v, list):
        n = len(v)
        body = b"".join(mp_encode(x, rng, minimal) for x in v)
        forms = []
        if n < 16:
            forms.append(bytes([0x90 + n]))
        if n < 65536:
            forms.append(b"\xdc" + n.to_bytes(2, "big"))
        forms.append(b"\xdd" + n.to_bytes(4, "big"))
        return pick(forms) + body
    if isinstance(v, Obj):
        n = len(v.members)
        body = b"".join(mp_encode(k, rng, minimal) + mp_encode(x, rng, minimal) for k, x in v.members)
        forms = []
        if n < 16:
            forms.append(bytes([0x80 + n]))
        if n < 65536:
            forms.append(b"\xde" + n.to_bytes(2, "big"))
        forms.append(b"\xdf" + n.to_bytes(4, "big"))
        return pick(forms) + body
    if isinstance(v, Tagged):
        return mp_encode(v.value, rng, minimal)
    raise TypeError(v)


# ---------------------------------------------------------------- UBJSON (draft 12) ----------------------------------------------

def ub_int(v, rng=None, minimal=True):
    forms = []
    for m, w, signed in ((b"i", 1, True), (b"U", 1, False), (b"I", 2, True), (b"l", 4, True), (b"L", 8, True)):
        lo, hi = (-(1 << (8 * w - 1)), (1 << (8 * w - 1)) - 1) if signed else (0, 255)
        if lo <= v <= hi:
            forms.append(m + v.to_bytes(w, "big", signed=signed))
    if not forms:
        raise OverflowError(v)
    if minimal or rng is None or rng.random() < 0.5:
        return forms[0]
    return rng.choice(forms)


def ub_encode(v, rng=None, minimal=True):
    if v is None:
        return b"Z"
    if v is True:
        return b"T"
    if v is False:
        return b"F"
    if isinstance(v, int):
        return ub_int(v, rng, minimal)
    if isinstance(v, tuple) and v[0] == "d":
        return b"D" + v[1].to_bytes(8, "big")
    if isinstance(v, tuple) and v[0] == "f32":
        return b"d" + v[1].to_bytes(4, "big")
    if isinstance(v, bytes):
        if len(v) == 1 and v[0] < 128 and rng is not None and not minimal and rng.random() < 0.3:
            return b"C" + v
        return b"S" + ub_int(len(v), rng, minimal) + v
    if isinstance(v, tuple) and v[0] == "b":
        return b"[$U#" + ub_int(len(v[1]), rng, minimal) + v[1]
    noop = lambda: b"N" if (rng is not None and not minimal and rng.random() < 0.1) else b""
    if isinstance(v, list):
        r = rng.random() if (rng is not None and not minimal) else 1.0
        if r < 0.25:
            return b"[#" + ub_int(len(v), rng, minimal) + b"".join(ub_encode(x, rng, minimal) for x in v)
        if r < 0.4 and v and all(isinstance(x, int) and not isinstance(x, bool) and -128 <= x <= 127 for x in v):
            return b"[$i#" + ub_int(len(v), rng, minimal) + b"".join(x.to_bytes(1, "big", signed=True) for x in v)
        if r < 0.6 and v and all(isinstance(x, list) for x in v):
            return b"[$[#" + ub_int(len(v), rng, minimal) + b"".join(ub_encode(x, rng, minimal)[1:] for x in v)
        if r < 0.6 and v and all(isinstance(x, Obj) for x in v):
            return b"[${#" + ub_int(len(v), rng, minimal) + b"".join(ub_encode(x, rng, minimal)[1:] for x in v)
        if r < 0.45 and v and all(x is None for x in v):
            return b"[$Z#" + ub_int(len(v), rng, minimal)
        return b"[" + b"".join(noop() + ub_encode(x, rng, minimal) for x in v) + noop() + b"]"
    if isinstance(v, Obj):
        key = lambda k: ub_int(len(k), rng, minimal) + k
        r = rng.random() if (rng is not None and not minimal) else 1.0
        if r < 0.25:
            return b"{#" + ub_int(len(v.members), rng, minimal) + b"".join(key(k) + ub_encode(x, rng, minimal) for k, x in v.members)
        if r < 0.6 and v.members and all(isinstance(x, list) for _, x in v.members):
            # a typed object whose values are arrays: after the `[` type marker each value is an array body
            return b"{$[#" + ub_int(len(v.members), rng, minimal) + b"".join(key(k) + ub_encode(x, rng, minimal)[1:] for k, x in v.members)
        if r < 0.6 and v.members and all(isinstance(x, Obj) for _, x in v.members):
            return b"{${#" + ub_int(len(v.members), rng, minimal) + b"".join(key(k) + ub_encode(x, rng, minimal)[1:] for k, x in v.members)
        if r < 0.5 and v.members and all(isinstance(x, int) and not isinstance(x, bool) and 0 <= x <= 255 for _, x in v.members):
            return b"{$U#" + ub_int(len(v.members), rng, minimal) + b"".join(key(k) + bytes([x]) for k, x in v.members)
        return b"{" + b"".join(key(k) + ub_encode(x, rng, minimal) for k, x in v.members) + b"}"
    if isinstance(v, Tagged):
        return ub_encode(v.value, rng, minimal)
    raise TypeError(v)


# ---------------------------------------------------------------- BSON 1.1 -------------------------------------------------------

def bson_element(name, v, rng=None):
    nm = name + b"\x00"
    if v is None:
        return b"\x0a" + nm
    if v is True or v is False:
        return b"\x08" + nm + (b"\x01" if v else b"\x00")
    if isinstance(v, int):
        if -2 ** 31 <= v < 2 ** 31 and (rng is None or rng.random() < 0.7):
            return b"\x10" + nm + v.to_bytes(4, "little", signed=True)
        return b"\x12" + nm + v.to_bytes(8, "little", signed=True)
    if isinstance(v, tuple) and v[0] == "d":
        return b"\x01" + nm + v[1].to_bytes(8, "little")
    if isinstance(v, bytes):
        return b"\x02" + nm + (len(v) + 1).to_bytes(4, "little") + v + b"\x00"
    if isinstance(v, list):
        return b"\x04" + nm + bson_document([(str(i).encode(), x) for i, x in enumerate(v)], rng)
    if isinstance(v, Obj):
        return b"\x03" + nm + bson_document(v.members, rng)
    if isinstance(v, Tagged) and v.tag == "epoch_milli":
        return b"\x09" + nm + v.value.to_bytes(8, "little", signed=True)
    if isinstance(v, Tagged):
        return bson_element(name, v.value, rng)
    raise TypeError(v)


def bson_document(members, rng=None):
    body = b"".join(bson_element(k, x, rng) for k, x in members) + b"\x00"
    return (len(body) + 4).to_bytes(4, "little") + body


def bson_encode(v, rng=None, minimal=True):
    if not isinstance(v, Obj):
        v = Obj([(b"v", v)])
    return bson_document(v.members, rng)


# a small BSON walker used only to classify *why* an input is ill-formed (for the known-findings signatures)
class _Ill(Exception):
    pass


def bson_walk(data, lenient_bool=False, lenient_strterm=False):
    """raises _Ill if the input is not well-formed BSON (core types) under the given leniencies; returns leniencies used"""
    used = set()

    def doc(b, pos):
        if pos + 4 > len(b):
            raise _Ill()
        size = int.from_bytes(b[pos:pos + 4], "little")
        if size < 5 or pos + size > len(b):
            raise _Ill()
        end = pos + size
        p = pos + 4
        while True:
            if p >= end:
                raise _Ill()
            t = b[p]
            p += 1
            if t == 0:
                if p != end:
                    raise _Ill()
                return end
            z = b.find(b"\x00", p, end)
            if z < 0:
                raise _Ill()
            p = z + 1
            if t == 0x01 or t == 0x09 or t == 0x12 or t == 0x11:
                p += 8
            elif t == 0x10:
                p += 4
            elif t == 0x0A:
                pass
            elif t == 0x08:
                if p >= end:
                    raise _Ill()
                if b[p] not in (0, 1):
                    if not lenient_bool:
                        raise _Ill()
                    used.add("bool")
                p += 1
            elif t in (0x02, 0x0D, 0x0E):
                if p + 4 > end:
                    raise _Ill()
                n = int.from_bytes(b[p:p + 4], "little")
                p += 4
                if n < 1 or p + n > end:
                    raise _Ill()
                if b[p + n - 1] != 0:
                    if not lenient_strterm:
                        raise _Ill()
                    used.add("strterm")
                try:
                    b[p:p + n - 1].decode("utf-8")
                except UnicodeDecodeError:
                    raise _Ill()
                p += n
            elif t in (0x03, 0x04):
                p = doc(b, p)
            else:
                raise _Ill()
            if p > end:
                raise _Ill()

    doc(data, 0)
    return used
