"""C17: a fixed family of C++ types described by shape descriptors; generators of fitting and mis-shaped JSON values."""
from wire import Obj

# descriptor: ("int", lo, hi) | ("str",) | ("bool",) | ("seq", d) | ("map", d) | ("tuple", [d…]) | ("opt", d) | ("array", d, n) | ("set", d)
#             | ("enum", [names]) | ("variant", [d…]) | ("ptr", d) | ("struct", [(name, d, mandatory)…], all_mandatory)
I8 = ("int", -2 ** 7, 2 ** 7 - 1)
U8 = ("int", 0, 2 ** 8 - 1)
I16 = ("int", -2 ** 15, 2 ** 15 - 1)
U16 = ("int", 0, 2 ** 16 - 1)
I32 = ("int", -2 ** 31, 2 ** 31 - 1)
I64 = ("int", -2 ** 63, 2 ** 63 - 1)
U64 = ("int", 0, 2 ** 64 - 1)
STR = ("str",)
BOOL = ("bool",)
S1 = ("struct", [(b"zeta", STR, True), (b"alpha", I32, True), (b"mid", ("opt", I32), False), (b"note", ("opt", STR), False)])
S2 = ("struct", [(b"items", ("seq", S1), True), (b"by_name", ("map", S1), True), (b"flag", BOOL, True)])
S3 = ("struct", [(b"id", U16, True), (b"label", ("ptr", STR), False), (b"bytes", ("opt", ("seq", I8)), False)])
TYPES = {
    "i32": I32, "u8": U8, "i64": I64, "u64": U64, "str": STR, "bool": BOOL, "vi32": ("seq", I32), "mi16": ("map", I16),
    "tup": ("tuple", [I32, STR, BOOL]), "oi32": ("opt", I32), "vos": ("seq", ("opt", STR)), "s1": S1, "s2": S2, "s3": S3,
    "pair": ("tuple", [I32, STR]), "arr3": ("array", I32, 3), "vvu16": ("seq", ("seq", U16)), "sets": ("set", STR),
    "enum": ("enum", [b"red", b"green", b"blue"]), "var": ("variant", [I32, STR]), "sps1": ("ptr", S1), "vs1": ("seq", S1), "ms3": ("map", S3),
}
OBJECT_ROOTED = ["s1", "s2", "s3", "mi16", "ms3"]
STRS = [b"", b"a", b"zeta", b"\xc3\xa9", b"hello world", b"5", b"true", b"null", b"x" * 20, b'q"\\']
KEYS = [b"a", b"b", b"k", b"", b"\xc3\xa9", b"zeta", b"x y"]


def gen(rng, d, depth=3):
    k = d[0]
    if k == "int":
        lo, hi = d[1], d[2]
        return rng.choice([lo, hi, 0, 1, min(hi, 100), max(lo, -1), rng.randint(lo, hi)])
    if k == "str":
        return rng.choice(STRS)
    if k == "bool":
        return rng.random() < 0.5
    if k in ("seq", "set"):
        return [gen(rng, d[1], depth - 1) for _ in range(rng.choice([0, 1, 2, 3]) if depth > 0 else 0)]
    if k == "map":
        ks = rng.sample(KEYS, rng.choice([0, 1, 2, 3]) if depth > 0 else 0)
        return Obj([(kk, gen(rng, d[1], depth - 1)) for kk in ks])
    if k == "tuple":
        return [gen(rng, x, depth - 1) for x in d[1]]
    if k == "array":
        return [gen(rng, d[1], depth - 1) for _ in range(d[2])]
    if k in ("opt", "ptr"):
        return None if rng.random() < 0.35 else gen(rng, d[1], depth)
    if k == "enum":
        return rng.choice(d[1])
    if k == "variant":
        return gen(rng, rng.choice(d[1]), depth - 1)
    if k == "struct":
        ms = []
        for name, md, mandatory in d[1]:
            if mandatory or rng.random() < 0.6:
                v = gen(rng, md, depth - 1)
                if not mandatory and v is None and rng.random() < 0.7:
                    continue                      # an empty optional is normally left out
                ms.append((name, v))
        if rng.random() < 0.25:
            ms.insert(rng.randrange(len(ms) + 1), (rng.choice([b"extra", b"a", b"zz"]), rng.choice([1, b"x", [1, Obj([(b"y", 2)])], Obj([(b"n", Obj([]))])])))
        if rng.random() < 0.5:
            rng.shuffle(ms)
        return Obj(ms)
    raise ValueError(d)


WRONG = [None, True, 5, -1, b"text", [], [1], Obj([]), Obj([(b"a", 1)])]


def misshape(rng, d, v):
    """one deliberate defect somewhere in v (which fits d): returns a value that does not fit"""
    k = d[0]
    children = []
    if k in ("seq", "set", "array") and v:
        i = rng.randrange(len(v))
        children.append(("elem", i, d[1]))
    if k == "tuple" and v:
        i = rng.randrange(len(v))
        children.append(("elem", i, d[1][i]))
    if k == "map" and v.members:
        i = rng.randrange(len(v.members))
        children.append(("member", i, d[1]))
    if k == "struct" and v.members:
        known = {n: md for n, md, _ in d[1]}
        idx = [i for i, (n, _) in enumerate(v.members) if n in known]
        if idx:
            i = rng.choice(idx)
            children.append(("member", i, known[v.members[i][0]]))
    if k in ("opt", "ptr") and v is not None:
        return misshape(rng, d[1], v)
    if children and rng.random() < 0.6:
        kind, i, cd = children[0]
        if kind == "elem":
            return [misshape(rng, cd, x) if j == i else x for j, x in enumerate(v)]
        return Obj([(n, misshape(rng, cd, x) if j == i else x) for j, (n, x) in enumerate(v.members)])
    # break this node
    if k == "tuple" and rng.random() < 0.5:
        return v[:-1]
    if k == "array" and rng.random() < 0.6:
        return v[:-1] if rng.random() < 0.5 else v + [0]
    if k == "struct" and rng.random() < 0.6:
        mand = [n for n, _, m in d[1] if m]
        drop = rng.choice(mand)
        return Obj([(n, x) for n, x in v.members if n != drop])
    if k == "enum":
        return rng.choice([b"pink", b"", b"RED", 5])
    cands = [w for w in WRONG if not fits_kind(d, w)]
    if not cands:
        return None if k not in ("opt", "ptr") and not fits_kind(d, None) else v      # nothing definitely wrong exists for this kind
    return rng.choice(cands)


def fits_kind(d, w):
    """could w be accepted for d at the top level (kind only)? used to pick a value of a definitely different kind"""
    k = d[0]
    if k == "int":
        return isinstance(w, (int, bool, bytes))          # jsoncons converts booleans and numeric strings to integers
    if k == "str":
        return True                                        # as<std::string> accepts anything (D57): never used as a defect
    if k == "bool":
        return isinstance(w, (bool, int))
    if k in ("seq", "set", "array", "tuple"):
        return isinstance(w, list)
    if k in ("map", "struct"):
        return isinstance(w, Obj)
    if k in ("opt", "ptr"):
        return w is None or fits_kind(d[1], w)
    if k == "enum":
        return isinstance(w, bytes)
    if k == "variant":
        return any(fits_kind(x, w) for x in d[1])
    return False
