"""C17: a fixed family of C++ types described by shape descriptors; generators of fitting and mis-shaped JSON values."""
from wire import Obj

# descriptor: ("int", lo, hi) | ("str",) | ("bool",) | ("seq", d) | ("map", d) | ("tuple", [d…]) | ("pair", a, b) | ("opt", d) | ("array", d, n)
#             | ("set", d) | ("mset", d) (multiset) | ("uset", d) (unordered_set: element order not defined)
#             | ("enum", [names]) | ("variant", [d…]) | ("ptr", d) | ("struct", [(name, d, mandatory)…], all_mandatory)
# fixed shapes: tuple (takes the leading elements of a longer array, by design, on both routes), pair and array (exact length)
I8 = ("int", -2 ** 7, 2 ** 7 - 1)
U8 = ("int", 0, 2 ** 8 - 1)
I16 = ("int", -2 ** 15, 2 ** 15 - 1)
U16 = ("int", 0, 2 ** 16 - 1)
I32 = ("int", -2 ** 31, 2 ** 31 - 1)
I64 = ("int", -2 ** 63, 2 ** 63 - 1)
U64 = ("int", 0, 2 ** 64 - 1)
STR = ("str",)
BOOL = ("bool",)
S1 = ("struct", [(b"zeta", STR, True), (b"alpha", I32, True), (b"mid", ("opt", I32), False), (b"note", ("opt", STR), False)])
S2 = ("struct", [(b"items", ("seq", S1), True), (b"by_name", ("map", S1), True), (b"flag", BOOL, True)])
S3 = ("struct", [(b"id", U16, True), (b"label", ("ptr", STR), False), (b"bytes", ("opt", ("seq", I8)), False)])
PIS = ("pair", I32, STR)
PII = ("pair", I32, I32)
S4 = ("struct", [(b"fl", ("seq", STR), True), (b"li", ("seq", BOOL), True), (b"dq", ("seq", STR), True), (b"pr", PIS, True), (b"tp", ("tuple", [I32, STR]), True),
                 (b"ar", ("array", I32, 2), True), (b"st", ("mset", STR), True), (b"op", ("opt", PII), False)])
# the family, by harness slice (harness/ty.cpp, ty2.cpp, ty3.cpp, ty4.cpp: see ty_family.hpp)
PARTS = {
    "ty": {
        "i32": I32, "u8": U8, "i64": I64, "u64": U64, "str": STR, "bool": BOOL, "vi32": ("seq", I32), "mi16": ("map", I16),
        "tup": ("tuple", [I32, STR, BOOL]), "oi32": ("opt", I32), "vos": ("seq", ("opt", STR)),
        "pair": PIS, "arr3": ("array", I32, 3), "vvu16": ("seq", ("seq", U16)), "sets": ("set", STR),
        "enum": ("enum", [b"red", b"green", b"blue"]), "var": ("variant", [I32, STR]),
    },
    "ty2": {"s1": S1, "s2": S2, "s3": S3, "sps1": ("ptr", S1), "vs1": ("seq", S1), "ms3": ("map", S3)},
    "ty3": {   # forward_list (no size(), insert_after), list, deque, multiset, unordered_set, unordered_map, optional around / inside containers
        "fls": ("seq", STR), "flp": ("seq", PIS), "lso": ("seq", ("opt", I32)), "lss": ("seq", STR), "dqb": ("seq", BOOL), "dqs": ("seq", ("opt", STR)),
        "msets": ("mset", STR), "usets": ("uset", STR), "umi": ("map", I32), "ovi": ("opt", ("seq", I32)), "moi": ("map", ("opt", I32)), "mfl": ("map", ("seq", STR)),
    },
    "ty4": {   # fixed shapes alone, in each other and in containers
        "vpair": ("seq", PIS), "mpair": ("map", PII), "vtup": ("seq", ("tuple", [I32, STR])), "mtup": ("map", ("tuple", [BOOL, I32, STR])),
        "tup1": ("tuple", [I32]), "tup2": ("tuple", [STR, I32]), "ppair": ("pair", PII, STR), "pvo": ("pair", ("opt", I32), ("seq", STR)),
        "arr2s": ("array", STR, 2), "arr22": ("array", ("array", I32, 2), 2), "varr": ("seq", ("array", I32, 2)), "marr": ("map", ("array", I32, 3)),
        "opair": ("opt", PIS), "s4": S4,
    },
}
TYPES = {tid: d for part in PARTS.values() for tid, d in part.items()}
HARNESS_OF = {tid: h for h, part in PARTS.items() for tid in part}


def root_is_object(d):
    return d[0] in ("map", "struct")


OBJECT_ROOTED = [tid for tid, d in TYPES.items() if root_is_object(d)]       # BSON holds documents only


def contains(d, kind):
    """does a node of this kind occur anywhere in the descriptor"""
    if d[0] == kind:
        return True
    return any(contains(c, kind) for c in child_descs(d))


def child_descs(d):
    k = d[0]
    if k in ("seq", "set", "mset", "uset", "map", "opt", "ptr", "array"):
        return [d[1]]
    if k in ("tuple", "variant"):
        return list(d[1])
    if k == "pair":
        return [d[1], d[2]]
    if k == "struct":
        return [md for _, md, _ in d[1]]
    return []
STRS = [b"", b"a", b"zeta", b"\xc3\xa9", b"hello world", b"5", b"true", b"null", b"x" * 20, b'q"\\']
KEYS = [b"a", b"b", b"k", b"", b"\xc3\xa9", b"zeta", b"x y"]


SEQS = ("seq", "set", "mset", "uset")


def gen(rng, d, depth=3):
    k = d[0]
    if k == "int":
        lo, hi = d[1], d[2]
        return rng.choice([lo, hi, 0, 1, min(hi, 100), max(lo, -1), rng.randint(lo, hi)])
    if k == "str":
        return rng.choice(STRS)
    if k == "bool":
        return rng.random() < 0.5
    if k in SEQS:
        return [gen(rng, d[1], depth - 1) for _ in range(rng.choice([0, 1, 2, 3]) if depth > 0 else 0)]
    if k == "map":
        ks = rng.sample(KEYS, rng.choice([0, 1, 2, 3]) if depth > 0 else 0)
        return Obj([(kk, gen(rng, d[1], depth - 1)) for kk in ks])
    if k == "tuple":
        return [gen(rng, x, depth - 1) for x in d[1]]
    if k == "pair":
        return [gen(rng, d[1], depth - 1), gen(rng, d[2], depth - 1)]
    if k == "array":
        return [gen(rng, d[1], depth - 1) for _ in range(d[2])]
    if k in ("opt", "ptr"):
        return None if rng.random() < 0.35 else gen(rng, d[1], depth)
    if k == "enum":
        return rng.choice(d[1])
    if k == "variant":
        return gen(rng, rng.choice(d[1]), depth - 1)
    if k == "struct":
        ms = []
        for name, md, mandatory in d[1]:
            if mandatory or rng.random() < 0.6:
                v = gen(rng, md, depth - 1)
                if not mandatory and v is None and rng.random() < 0.7:
                    continue                      # an empty optional is normally left out
                ms.append((name, v))
        if rng.random() < 0.25:
            ms.insert(rng.randrange(len(ms) + 1), (rng.choice([b"extra", b"a", b"zz"]), rng.choice([1, b"x", [1, Obj([(b"y", 2)])], Obj([(b"n", Obj([]))])])))
        if rng.random() < 0.5:
            rng.shuffle(ms)
        return Obj(ms)
    raise ValueError(d)


WRONG = [None, True, 5, -1, b"text", [], [1], Obj([]), Obj([(b"a", 1)])]


def misshape(rng, d, v):
    """one deliberate defect somewhere in v (which fits d): returns a value that does not fit"""
    k = d[0]
    children = []
    if k in SEQS + ("array",) and v:
        i = rng.randrange(len(v))
        children.append(("elem", i, d[1]))
    if k == "pair" and v:
        i = rng.randrange(2)
        children.append(("elem", i, d[1 + i]))
    if k == "tuple" and v:
        i = rng.randrange(len(v))
        children.append(("elem", i, d[1][i]))
    if k == "map" and v.members:
        i = rng.randrange(len(v.members))
        children.append(("member", i, d[1]))
    if k == "struct" and v.members:
        known = {n: md for n, md, _ in d[1]}
        idx = [i for i, (n, _) in enumerate(v.members) if n in known]
        if idx:
            i = rng.choice(idx)
            children.append(("member", i, known[v.members[i][0]]))
    if k in ("opt", "ptr") and v is not None:
        return misshape(rng, d[1], v)
    if children and rng.random() < 0.6:
        kind, i, cd = children[0]
        if kind == "elem":
            return [misshape(rng, cd, x) if j == i else x for j, x in enumerate(v)]
        return Obj([(n, misshape(rng, cd, x) if j == i else x) for j, (n, x) in enumerate(v.members)])
    # break this node
    if k == "tuple" and rng.random() < 0.5:
        return v[:-1]
    if k == "array" and rng.random() < 0.6:
        return v[:-1] if rng.random() < 0.5 else v + [0]
    if k == "pair" and rng.random() < 0.6:
        return v[:rng.choice([0, 1])] if rng.random() < 0.5 else v + [rng.choice([0, b"x", None, v[1]])]
    if k == "struct" and rng.random() < 0.6:
        mand = [n for n, _, m in d[1] if m]
        drop = rng.choice(mand)
        return Obj([(n, x) for n, x in v.members if n != drop])
    if k == "enum":
        return rng.choice([b"pink", b"", b"RED", 5])
    cands = [w for w in WRONG if not fits_kind(d, w)]
    if not cands:
        return None if k not in ("opt", "ptr") and not fits_kind(d, None) else v      # nothing definitely wrong exists for this kind
    return rng.choice(cands)


def fits_kind(d, w):
    """could w be accepted for d at the top level (kind only)? used to pick a value of a definitely different kind"""
    k = d[0]
    if k == "int":
        return isinstance(w, (int, bool, bytes))          # jsoncons converts booleans and numeric strings to integers
    if k == "str":
        return True                                        # as<std::string> accepts anything (D57): never used as a defect
    if k == "bool":
        return isinstance(w, (bool, int))
    if k in SEQS + ("array", "tuple", "pair"):
        return isinstance(w, list)
    if k in ("map", "struct"):
        return isinstance(w, Obj)
    if k in ("opt", "ptr"):
        return w is None or fits_kind(d[1], w)
    if k == "enum":
        return isinstance(w, bytes)
    if k == "variant":
        return any(fits_kind(x, w) for x in d[1])
    return False


# ---- systematic streams -------------------------------------------------------------------------------------------------------------

def fixed_paths(d, path=()):
    """paths (tuples of steps) to every fixed-shape node of the descriptor, with its length; a step is 'elem' (first element of a sequence,
    made to exist), ('idx', i), 'member' (first member of a map, made to exist), ('key', name), 'some' (the engaged optional)"""
    k = d[0]
    out = []
    if k == "tuple":
        out.append((path, len(d[1]), d))
        for i, c in enumerate(d[1]):
            out += fixed_paths(c, path + (("idx", i),))
    elif k == "pair":
        out.append((path, 2, d))
        out += fixed_paths(d[1], path + (("idx", 0),)) + fixed_paths(d[2], path + (("idx", 1),))
    elif k == "array":
        out.append((path, d[2], d))
        out += fixed_paths(d[1], path + (("idx", 0),))
    elif k in SEQS:
        out += fixed_paths(d[1], path + ("elem",))
    elif k == "map":
        out += fixed_paths(d[1], path + ("member",))
    elif k in ("opt", "ptr"):
        out += fixed_paths(d[1], path + ("some",))
    elif k == "struct":
        for name, md, _ in d[1]:
            out += fixed_paths(md, path + (("key", name),))
    return out


def gen_full(rng, d, depth=4):
    """a fitting value in which every container has at least one element, every optional is engaged and every declared member is present
    (so that every path of fixed_paths exists)"""
    k = d[0]
    if k in SEQS:
        return [gen_full(rng, d[1], depth - 1) for _ in range(rng.choice([1, 2, 3]))]
    if k == "map":
        return Obj([(kk, gen_full(rng, d[1], depth - 1)) for kk in rng.sample(KEYS, rng.choice([1, 2]))])
    if k == "tuple":
        return [gen_full(rng, x, depth - 1) for x in d[1]]
    if k == "pair":
        return [gen_full(rng, d[1], depth - 1), gen_full(rng, d[2], depth - 1)]
    if k == "array":
        return [gen_full(rng, d[1], depth - 1) for _ in range(d[2])]
    if k in ("opt", "ptr"):
        return gen_full(rng, d[1], depth)
    if k == "struct":
        return Obj([(name, gen_full(rng, md, depth - 1)) for name, md, _ in d[1]])
    return gen(rng, d, depth)


def at_path(v, path, f):
    """copy of v with the node at path replaced by f(node)"""
    if not path:
        return f(v)
    step, rest = path[0], path[1:]
    if step == "some":
        return at_path(v, rest, f)
    if step == "elem":
        return [at_path(v[0], rest, f)] + v[1:] if len(v) < 2 else v[:-1] + [at_path(v[-1], rest, f)]       # the last element: the ones before it are well-formed
    if step == "member":
        return Obj(v.members[:-1] + [(v.members[-1][0], at_path(v.members[-1][1], rest, f))])
    if step[0] == "idx":
        return [at_path(x, rest, f) if i == step[1] else x for i, x in enumerate(v)]
    return Obj([(n, at_path(x, rest, f) if n == step[1] else x) for n, x in v.members])


EXTRAS = [0, b"x", None, True, [], [1, 2]]


def resize(rng, d, v, n, like):
    """the array v of the fixed-shape node d cut or extended to n elements; extra elements are of the element type ('like') or foreign"""
    if n <= len(v):
        return v[:n]
    out = list(v)
    while len(out) < n:
        if like:
            ed = d[1] if d[0] == "array" else (d[1][-1] if d[0] == "tuple" else d[2])
            out.append(gen_full(rng, ed))
        else:
            out.append(rng.choice(EXTRAS))
    return out


def shape_cases(rng, d):
    """for every fixed-shape node of d: a full value in which that node's array has 0, n-1, n, n+1, n+2 elements -> [(value, path, n, length)]"""
    out = []
    for path, n, fd in fixed_paths(d):
        for m in sorted({0, max(n - 1, 0), n, n + 1, n + 2}):
            for like in ((True, False) if m > n else (True,)):
                v = gen_full(rng, d)
                out.append((at_path(v, path, lambda node: resize(rng, fd, node, m, like)), path, n, m))
    return out
