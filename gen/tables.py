"""Generators for C18: CSV tables x options, JSON values for TOON."""
import struct
from wire import Obj

CELLS = [b"", b"a", b"abc", b"a,b", b"a;b", b"a\tb", b"a|b", b'"', b'a"b', b'""', b"'", b"a'b", b"\\", b"a\\b", b"a\\", b'\\"', b"\n", b"a\nb", b"\r", b"a\r\nb", b" a", b"a ", b"  ",
         b"\xc3\xa9", b"\xe2\x82\xac\xf0\x9f\x98\x80", b"null", b"true", b"false", b"1", b"-1", b"1.5", b"1e5", b"0x10", b"007", b"-", b"#c", b"a#b", b"NaN", b"x" * 40, b",", b",,", b'","']
KEYS = [b"a", b"b", b"c", b"col 1", b"x,y", b'q"q', b"\xc3\xa9", b"1", b"k\\", b"true"]
SCALARS = [0, 1, -5, 12345678901, True, False, None]


def gen_cell(rng, strings_only):
    if strings_only or rng.random() < 0.7:
        return rng.choice(CELLS)
    return rng.choice(SCALARS)


def gen_csv_case(rng):
    delim = rng.choice([44, 44, 59, 9, 124])
    quote = rng.choice([34, 34, 39])
    esc = quote if rng.random() < 0.6 else 92
    style = rng.choice(["a", "n", "m"])
    infer = 0 if style == "m" else rng.choice([0, 1])
    line = rng.choice(["0a", "0d0a"])
    shape = rng.choice(["a", "a", "o", "c"])
    strings_only = infer == 0
    ncols = rng.choice([1, 2, 3, 4])
    nrows = rng.choice([1, 1, 2, 3, 5])          # a table without rows has no CSV text (decode_csv of the empty text is an error)
    if shape == "a":
        table = [[gen_cell(rng, strings_only) for _ in range(ncols)] for _ in range(nrows)]
    else:
        keys = rng.sample(KEYS, ncols)
        if shape == "o":
            nrows = max(nrows, 1)
            table = [Obj([(k, gen_cell(rng, strings_only)) for k in keys]) for _ in range(nrows)]
        else:
            table = Obj([(k, [gen_cell(rng, strings_only) for _ in range(nrows)]) for k in keys])
    opts = "d%d q%d e%d s%s l%s i%d" % (delim, quote, esc, style, line, infer)
    return shape, opts, table


TOON_STRS = [b"", b"a", b"hello world", b"true", b"false", b"null", b"1", b"-1", b"1.5", b"1e5", b"007", b"-", b"- x", b" a", b"a ", b"a:b", b"a: b", b"[x]", b"[2]:", b"{", b"}", b"#",
             b"a,b", b"a|b", b"a\tb", b"\t", b"\\", b"a\\", b'\\"', b'"', b'a"b', b"\n", b"a\nb", b"\r", b"\xc3\xa9", b"\xf0\x9f\x98\x80", b"C:\\", b"x" * 30, b"0x1", b"+1", b".5", b"5.",
             b"-0", b"1_0", b"a[1]", b"k{a,b}:"]
TOON_KEYS = [b"a", b"b", b"c", b"id", b"name", b"x y", b"a.b", b"a:b", b"1", b"", b"-", b'q"', b"\xc3\xa9", b"k\\", b"[0]", b"a,b", b"true"]


def gen_toon_value(rng, depth=3):
    r = rng.random()
    if depth <= 0 or r < 0.3:
        q = rng.random()
        if q < 0.1:
            return None
        if q < 0.2:
            return rng.random() < 0.5
        if q < 0.4:
            return rng.choice([0, 1, -1, 42, 10 ** 12, -7])
        if q < 0.45:
            return ("d", struct.unpack("<Q", struct.pack("<d", rng.choice([0.5, 0.25, -0.5, 1.5, 100.25, 0.001, -0.0625])))[0])
        return rng.choice(TOON_STRS)
    if r < 0.65:
        n = rng.choice([0, 1, 2, 3, 4])
        k = rng.random()
        if k < 0.3:
            return [gen_toon_value(rng, 0) for _ in range(n)]                 # primitives: inline array
        if k < 0.42:
            return [[gen_toon_value(rng, 0) for _ in range(rng.choice([0, 1, 2, 3]))] for _ in range(n)]      # array of arrays of primitives: "- [N]: …" rows
        if k < 0.7:
            keys = rng.sample(TOON_KEYS, rng.randint(1, 3))                   # uniform objects: tabular form
            return [Obj([(kk, gen_toon_value(rng, 0)) for kk in keys]) for _ in range(n)]
        return [gen_toon_value(rng, depth - 1) for _ in range(n)]             # mixed: list form
    keys = rng.sample(TOON_KEYS, rng.randint(0, 4))
    return Obj([(k, gen_toon_value(rng, depth - 1)) for k in keys])


# ---- TOON: systematic nesting -------------------------------------------------------------------------------------------------------
# payload x position (x position) x delimiter x indent. The encoder has one code path per (kind of array, where it stands): an array of
# arrays / of uniform objects / of primitives is written by different functions as a member value, as the first field of a list-item
# object, as a later field, as an element of a mixed array and at the root; each writes its own "[N<delimiter>]" header.

DELIM_CHAR = {"c": b",", "t": b"\t", "p": b"|"}


def toon_payloads(dl):
    """arrays of arrays, tabular arrays, inline arrays and strings, with and without the active delimiter inside strings"""
    ds = b"a" + DELIM_CHAR[dl] + b"b"
    return [
        ("aa", [[1, 2], [3, 4]]),
        ("aa-str", [[b"a", b"b"], [b"c"]]),
        ("aa-delim", [[ds, b"x"], [True, None]]),
        ("aa-one", [[1], [2]]),
        ("aa-empty-row", [[], [1, 2]]),
        ("aa-single", [[1, 2, 3]]),
        ("tab", [Obj([(b"id", 1), (b"name", b"a")]), Obj([(b"id", 2), (b"name", b"b")])]),
        ("tab-delim", [Obj([(b"id", 1), (b"name", ds)]), Obj([(b"id", 2), (b"name", DELIM_CHAR[dl])])]),
        ("tab-one-col", [Obj([(b"a", ds)])]),
        ("prims", [1, b"x", True]),
        ("prims-delim", [ds, 2, DELIM_CHAR[dl]]),
        ("prims-empty", []),
        ("str-delim", ds),
        ("objs", [Obj([(b"a", 1)]), Obj([(b"b", ds)])]),
        ("mixed", [1, b"a", [2, 3]]),
    ]


TOON_POSITIONS = [
    ("member", lambda p: Obj([(b"k", p)])),
    ("later-member", lambda p: Obj([(b"a", 1), (b"k", p), (b"z", b"end")])),
    ("item-first-field", lambda p: Obj([(b"items", [Obj([(b"m", p), (b"name", b"x")])])])),
    ("item-later-field", lambda p: Obj([(b"items", [Obj([(b"name", b"x"), (b"m", p)])])])),
    ("root-item-first-field", lambda p: [Obj([(b"m", p), (b"n", 1)]), Obj([(b"m", p)])]),
    ("mixed-elem", lambda p: Obj([(b"items", [1, p])])),
    ("root-mixed-elem", lambda p: [1, p]),
    ("root-mixed-first", lambda p: [p, b"s", p]),
]


def toon_shapes():
    """[(tag, indent, delimiter letter, value)]"""
    out = []
    for dl in "ctp":
        for ptag, p in toon_payloads(dl):
            ctxs = [("root", lambda x: x)] + TOON_POSITIONS
            for ind in (1, 2, 3, 4):
                for ctag, f in ctxs:
                    out.append(("%s@%s" % (ptag, ctag), ind, dl, f(p)))
            for ind in (2, 4):
                for otag, f in TOON_POSITIONS:                  # nested twice
                    for itag, g in TOON_POSITIONS:
                        out.append(("%s@%s@%s" % (ptag, itag, otag), ind, dl, f(g(p))))
    return out
