"""Shared machinery for every check (DESIGN.md §3.5).

A property module in checks/ supplies the theorems' file, the harness TU, a generator and the
property oracle; this file builds the Lean library and the C++ harness from /repo's *current*
working tree, audits axioms, runs both sides over the same op lines, diffs, searches for a
failing input when something broke, handles known findings and writes evidence.
"""
import hashlib
import json
import os
import random
import re
import shutil
import subprocess
import sys
import time

ROOT = os.path.dirname(os.path.abspath(__file__))
LEAN = os.path.join(ROOT, "lean")
REPO = os.environ.get("VERIF_REPO", "/repo")
CACHE = os.path.join(ROOT, ".cache")
OUT = os.environ.get("VERIF_OUT") or os.path.join(ROOT, "out")            # VERIF_OUT: scratch output when trying a changed tree (VERIF_REPO)
EVID = os.path.join(OUT, "evidence") if os.environ.get("VERIF_OUT") else os.path.join(ROOT, "evidence")
DRIVER = os.path.join(LEAN, ".lake", "build", "bin", "jvdriver")
GUARD = "JSONCONS_VERIF"
CXXFLAGS = ["-std=c++17", "-O1", "-g", "-fsanitize=address,undefined",
            "-fno-sanitize=nonnull-attribute", "-fno-sanitize-recover=all",
            "-D" + GUARD, "-I" + os.path.join(REPO, "include"), "-I" + os.path.join(ROOT, "harness")]
ALLOWED_AXIOMS = {"propext", "Classical.choice", "Quot.sound"}
FORBIDDEN = re.compile(r"\b(sorry|admit|native_decide|bv_decide|implemented_by|unsafe)\b|^\s*axiom\s|maxHeartbeats\s+0")

TRUSTED_BASE = [
    "Lean 4.33 kernel; axioms allowed: propext, Classical.choice, Quot.sound (audited by #print axioms on every run)",
    "Lean compiler/runtime executing the Model definitions in jvdriver (same definitions the theorems are about)",
    "correspondence harness (harness/*.cpp), generators (checks/*.py, gen/*.py) and differ (vlib.py)",
    "g++ 12 with ASan/UBSan building the harness from /repo's working tree",
]


def log(*a):
    print(*a, flush=True)


def sh(cmd, cwd=None, timeout=None, inp=None, env=None):
    p = subprocess.run(cmd, cwd=cwd, input=inp, stdout=subprocess.PIPE, stderr=subprocess.STDOUT,
                       timeout=timeout, env=env)
    return p.returncode, p.stdout.decode("utf-8", "replace")


# ----------------------------------------------------------------------------------------------
# Lean side


def lake_lock():
    """serialise lake invocations across concurrently running checks"""
    import fcntl
    os.makedirs(CACHE, exist_ok=True)
    f = open(os.path.join(CACHE, "lake.lock"), "w")
    fcntl.flock(f, fcntl.LOCK_EX)
    return f


def run_extract():
    """regenerate lean/JV/Extracted/*.lean from /repo (translator tie); returns (ok, log)"""
    ex = os.path.join(ROOT, "tools", "extract.py")
    if not os.path.exists(ex):
        return True, ""
    rc, out = sh([sys.executable, ex, "--repo", REPO, "--out", os.path.join(LEAN, "JV", "Extracted")])
    return rc == 0, out


def build_lean(targets):
    """lake build the given module targets plus the driver; returns (ok, log)"""
    lock = lake_lock()
    try:
        ok_x, log_x = run_extract()
        rc, out = sh(["lake", "build"] + list(targets) + ["jvdriver"], cwd=LEAN, timeout=3600)
        return (rc == 0 and ok_x), (log_x + out), ok_x
    finally:
        lock.close()


def theorem_names(props_file):
    src = open(props_file).read()
    # strip block and line comments
    src = re.sub(r"/-.*?-/", "", src, flags=re.S)
    src = re.sub(r"--.*", "", src)
    return re.findall(r"^\s*theorem\s+([A-Za-z_][A-Za-z0-9_'.]*)", src, flags=re.M)


def strip_comments(src):
    src = re.sub(r"/-.*?-/", "", src, flags=re.S)
    return re.sub(r"--.*", "", src)


def lean_sources_for(module):
    """transitive JV.* imports of a module (paths)"""
    seen = {}
    todo = [module]
    while todo:
        m = todo.pop()
        if m in seen:
            continue
        p = os.path.join(LEAN, *m.split(".")) + ".lean"
        if not os.path.exists(p):
            continue
        seen[m] = p
        for imp in re.findall(r"^import\s+(JV\.[A-Za-z0-9_.]+)", open(p).read(), flags=re.M):
            todo.append(imp)
    return seen


def audit(prop_module):
    """returns dict(theorems=[...], bad=[(name, reason)], forbidden=[(file, line)])"""
    props_file = os.path.join(LEAN, *prop_module.split(".")) + ".lean"
    names = theorem_names(props_file)
    res = {"theorems": names, "bad": [], "forbidden": [], "axioms": {}}
    for m, p in lean_sources_for(prop_module).items():
        for i, line in enumerate(strip_comments(open(p).read()).split("\n")):
            if FORBIDDEN.search(line):
                res["forbidden"].append((m, i + 1, line.strip()))
    if not names:
        res["bad"].append(("<none>", "no theorem found in " + prop_module))
        return res
    ns = prop_module  # theorems live in namespace = module name
    tmp = os.path.join(CACHE, "audit_%s_%d.lean" % (prop_module.replace(".", "_"), os.getpid()))
    with open(tmp, "w") as f:
        f.write("import %s\n" % prop_module)
        for n in names:
            f.write("#print axioms %s.%s\n" % (ns, n))
    lock = lake_lock()
    try:
        rc, out = sh(["lake", "env", "lean", tmp], cwd=LEAN, timeout=1200)
    finally:
        lock.close()
    os.unlink(tmp)
    got = {}
    for m in re.finditer(r"'([^']+)' depends on axioms: \[([^\]]*)\]", out.replace("\n", " ")):
        got[m.group(1)] = [a.strip() for a in m.group(2).split(",") if a.strip()]
    for m in re.finditer(r"'([^']+)' does not depend on any axioms", out):
        got[m.group(1)] = []
    for n in names:
        full = ns + "." + n
        if full not in got:
            res["bad"].append((n, "not found by #print axioms: " + out[-400:]))
            continue
        res["axioms"][n] = got[full]
        extra = [a for a in got[full] if a not in ALLOWED_AXIOMS]
        if extra:
            res["bad"].append((n, "axioms " + ",".join(extra)))
    return res


def leanchecker(module):
    lock = lake_lock()
    try:
        rc, out = sh(["lake", "env", "leanchecker", module], cwd=LEAN, timeout=3600)
    finally:
        lock.close()
    return rc == 0, out


# ----------------------------------------------------------------------------------------------
# C++ side


def tree_hash():
    h = hashlib.sha256()
    inc = os.path.join(REPO, "include")
    for d, dirs, files in os.walk(inc):
        dirs.sort()
        for fn in sorted(files):
            p = os.path.join(d, fn)
            h.update(os.path.relpath(p, inc).encode())
            with open(p, "rb") as f:
                h.update(f.read())
    return h.hexdigest()


_TREE_HASH = None


def build_harness(name, extra_flags=(), flags=None):
    """compile harness/<name>.cpp against /repo's current working tree; cached by content hash"""
    global _TREE_HASH
    if _TREE_HASH is None:
        _TREE_HASH = tree_hash()
    src = os.path.join(ROOT, "harness", name + ".cpp")
    use = list(flags if flags is not None else CXXFLAGS) + list(extra_flags)
    h = hashlib.sha256()
    h.update(_TREE_HASH.encode())
    for p in [src, os.path.join(ROOT, "harness", "common.hpp")]:
        h.update(open(p, "rb").read())
    h.update(" ".join(use).encode())
    key = h.hexdigest()[:20]
    os.makedirs(CACHE, exist_ok=True)
    exe = os.path.join(CACHE, "%s_%s" % (name, key))
    if os.path.exists(exe):
        os.utime(exe, None)
        return True, exe, "cached"
    # keep the two most recent binaries of this harness (clean tree + one variant), drop older ones
    mine = sorted((fn for fn in os.listdir(CACHE) if fn.startswith(name + "_") and ".tmp" not in fn and not fn.endswith(".lock")),
                  key=lambda fn: os.path.getmtime(os.path.join(CACHE, fn)), reverse=True)
    for fn in mine[2:]:
        try:
            os.unlink(os.path.join(CACHE, fn))
        except OSError:
            pass
    tmp = exe + ".tmp%d" % os.getpid()
    rc, out = sh(["g++"] + use + [src, "-o", tmp], timeout=1800)
    if rc != 0:
        return False, None, out
    os.replace(tmp, exe)
    return True, exe, out


def run_lines(exe, lines, timeout=1800, env=None):
    """feed op lines; returns (list of output lines, returncode, stderr-tail)"""
    data = ("\n".join(lines) + "\n").encode()
    e = dict(os.environ)
    e["ASAN_OPTIONS"] = "detect_leaks=1:abort_on_error=0:exitcode=97:allocator_may_return_null=1:hard_rss_limit_mb=6000:max_allocation_size_mb=3000"
    e["UBSAN_OPTIONS"] = "print_stacktrace=1:halt_on_error=1:exitcode=98"
    e["TSAN_OPTIONS"] = "halt_on_error=1:exitcode=66:second_deadlock_stack=1"
    if env:
        e.update(env)
    try:
        p = subprocess.run([exe], input=data, stdout=subprocess.PIPE, stderr=subprocess.PIPE, timeout=timeout, env=e)
        stdout, rc, stderr = p.stdout, p.returncode, p.stderr
    except subprocess.TimeoutExpired as ex:
        stdout, rc, stderr = (ex.stdout or b""), -9, b"timeout: no progress (the call did not return)"
    out = stdout.decode("utf-8", "replace").split("\n")
    if out and out[-1] == "":
        out.pop()
    elif out and rc == -9:
        out.pop()                      # a partial last line
    return out, rc, stderr.decode("utf-8", "replace")[-3000:]


def run_impl(exe, lines, timeout=1800, chunk=None):
    """run the harness; if it dies (sanitizer abort / crash) or stops making progress (timeout) isolate the offending line.
    returns (outputs, crashes) with outputs[i] = 'CRASH <kind>' for the crashing line"""
    if chunk:
        outs, crashes = [], []
        for i in range(0, len(lines), chunk):
            o, c = run_impl(exe, lines[i:i + chunk], timeout)
            outs.extend(o)
            crashes.extend((i + idx, kind, err) for idx, kind, err in c)
        return outs, crashes
    outs = []
    crashes = []
    start = 0
    while start < len(lines):
        o, rc, err = run_lines(exe, lines[start:], timeout)
        outs.extend(o[:len(lines) - start])
        if rc == 0 and len(o) >= len(lines) - start:
            break
        # crashed at line start+len(o)
        idx = start + len(o)
        if idx >= len(lines):
            break
        kind = "rc%d" % rc if rc != -9 else "HANG(no_result_within_%ds)" % timeout
        m = re.search(r"(AddressSanitizer|LeakSanitizer|ThreadSanitizer|runtime error)[^\n]*", err)
        if m:
            kind = m.group(0)[:160].replace(" ", "_")
        if len(outs) > idx:
            outs = outs[:idx]
        outs.append("CRASH " + kind)
        crashes.append((idx, kind, err))
        start = idx + 1
        if len(crashes) > 50:
            outs.extend(["CRASH skipped"] * (len(lines) - len(outs)))
            break
    return outs, crashes


def run_model(lines, timeout=1800):
    o, rc, err = run_lines(DRIVER, lines, timeout)
    if rc != 0 or len(o) != len(lines):
        raise RuntimeError("jvdriver failed rc=%s out=%d/%d %s" % (rc, len(o), len(lines), err))
    return o


# ----------------------------------------------------------------------------------------------
# findings, evidence, reporting


def load_known(prop):
    p = os.path.join(ROOT, "known_findings.json")
    if not os.path.exists(p):
        return []
    return [k for k in json.load(open(p))["findings"] if k["property"] == prop and k["status"] == "known"]


def witness_lines(prop):
    """witness op lines of every recorded finding of this property (known and fixed): replayed first on every run,
    so a known finding is re-derived (and printed) each time and a fixed one is reported again if it returns"""
    p = os.path.join(ROOT, "known_findings.json")
    if not os.path.exists(p):
        return []
    return [k["witness"] for k in json.load(open(p))["findings"] if k["property"] == prop and k.get("witness")]


class Report:
    def __init__(self, prop, tier, seed):
        self.prop = prop
        self.tier = tier
        self.seed = seed
        self.t0 = time.time()
        self.violations = []      # (replay_path, note)
        self.known_hits = {}      # signature -> count
        self.cov = {"evaluations": 0, "distinct_nontrivial": 0, "samples": [], "obligations": 0, "discharged": 0,
                    "checker_cmd": "", "trusted_base": list(TRUSTED_BASE), "streams": {}}
        self.assumptions = []
        self.notes = []

    def replay_path(self, tag):
        d = os.path.join(OUT, "replay")
        os.makedirs(d, exist_ok=True)
        return os.path.join(d, "%s_%s_%d_%d.txt" % (self.prop, tag, self.seed, len(self.violations)))

    def violation(self, tag, body, found_input=True):
        p = self.replay_path(tag)
        with open(p, "w") as f:
            f.write(body)
        self.violations.append((p, tag, found_input))
        return p

    def finish(self):
        wall = time.time() - self.t0
        os.makedirs(EVID, exist_ok=True)
        ev = {"property_id": self.prop, "tier": self.tier, "seed": self.seed, "level": "proof",
              "coverage": self.cov, "assumptions": self.assumptions, "wall_s": round(wall, 2),
              "violations": len(self.violations)}
        if self.notes:
            ev["coverage"]["notes"] = self.notes
        with open(os.path.join(EVID, self.prop + ".json"), "w") as f:
            json.dump(ev, f, indent=1, sort_keys=True)
            f.write("\n")
        for sig, (n, what) in self.known_hits.items():
            log("KNOWN-FINDING: property=%s %s (%s; seen %d times this run)" % (self.prop, what, sig, n))
        if self.violations:
            for p, tag, found in self.violations[:3]:
                log("VIOLATION property=%s replay=%s%s" % (self.prop, p, "" if found else " no-failing-input-found"))
            return 1
        log("OK property=%s tier=%s seed=%d obligations=%d discharged=%d evaluations=%d wall=%.1fs" % (
            self.prop, self.tier, self.seed, self.cov["obligations"], self.cov["discharged"],
            self.cov["evaluations"], wall))
        return 0


def rng_for(seed, tag):
    return random.Random("%d/%s" % (seed, tag))


# ----------------------------------------------------------------------------------------------
# the generic flow (DESIGN.md §3.5)


class Ctx(Report):
    """one run of one property's check"""

    def __init__(self, prop, tier, seed):
        super().__init__(prop, tier, seed)
        self.known = load_known(prop)
        self.broken = []          # (kind, name, detail): proof obligations / ties that no longer check
        self.fail_inputs = []     # (stream, line, impl, model, why): concrete property failures on the real code
        self.seen_nontrivial = set()
        self.proof_ok = None

    # -- step 1+2: proofs and audit ------------------------------------------------------------
    def prove(self, modules, leancheck=False):
        if isinstance(modules, str):
            modules = [modules]
        ok, out, ok_x = build_lean(modules)
        self.cov["checker_cmd"] = "cd lean && lake build %s jvdriver && lake env lean <#print axioms for every theorem>%s" % (
            " ".join(modules), " && lake env leanchecker <module>" if leancheck else "")
        if not ok_x:
            self.broken.append(("translator", "tools/extract.py", out[-2000:]))
        if not ok:
            errs = "\n".join(l for l in out.split("\n") if "error" in l.lower())[:3000]
            self.broken.append(("proof", "lake build " + " ".join(modules), errs or out[-3000:]))
            # the driver may be stale or missing; try building it alone so that the search can still run
            lock = lake_lock()
            try:
                rc, out2 = sh(["lake", "build", "jvdriver"], cwd=LEAN, timeout=3600)
            finally:
                lock.close()
            self.proof_ok = False
            if rc != 0 and not os.path.exists(DRIVER):
                self.broken.append(("driver", "jvdriver", out2[-2000:]))
            # count the theorems that exist in the file even though they did not build
            for m in modules:
                names = theorem_names(os.path.join(LEAN, *m.split(".")) + ".lean")
                self.cov["obligations"] += len(names)
            return False
        allok = True
        thms = []
        for m in modules:
            a = audit(m)
            self.cov["obligations"] += len(a["theorems"])
            badnames = {n for n, _ in a["bad"]}
            self.cov["discharged"] += len([n for n in a["theorems"] if n not in badnames])
            thms += ["%s.%s %s" % (m, n, a["axioms"].get(n)) for n in a["theorems"]]
            for n, why in a["bad"]:
                self.broken.append(("audit", m + "." + n, why))
                allok = False
            for f in a["forbidden"]:
                self.broken.append(("audit", "forbidden construct", "%s:%d %s" % f))
                allok = False
            if leancheck:
                okc, outc = leanchecker(m)
                if not okc:
                    self.broken.append(("leanchecker", m, outc[-2000:]))
                    allok = False
        self.cov["theorems"] = thms
        self.proof_ok = allok
        return allok

    # -- step 3+4: correspondence and property oracle -----------------------------------------
    def match_known(self, stream, line, impl, model):
        """a known finding suppresses a violation only if its signature function says so"""
        for k in self.known:
            fn = KNOWN_MATCHERS.get(k["id"])
            if fn and fn(stream, line, impl, model):
                return k
        return None

    def correspond(self, stream, harness, lines, oracle=None, nontrivial=None, compare=None,
                   extra_flags=(), model_lines=None, want_model=True, ref_lines=None, flags=None):
        """run `lines` through the real code (harness) and through the Lean model; compare line by line.
        oracle(line, impl_out, model_out) -> None | str   : property judged on the real output
        compare(line, impl_out, model_out) -> bool        : tie (default: string equality)
        nontrivial(line, impl_out) -> hashable | None     : key of a non-trivial case"""
        st = {"cases": 0, "tie_mismatch": 0, "oracle_fail": 0, "crash": 0, "known": 0}
        self.cov["streams"][stream] = st
        if not lines:
            return st
        ok, exe, out = build_harness(harness, extra_flags, flags)
        if not ok:
            self.broken.append(("harness-build", harness, out[-3000:]))
            return st
        impl, crashes = run_impl(exe, lines, getattr(self, "impl_timeout", 1800), getattr(self, "impl_chunk", None))
        if want_model and os.path.exists(DRIVER):
            model = run_model(model_lines if model_lines is not None else lines)
        else:
            model = [None] * len(lines)
        ref = None
        if ref_lines is not None and os.path.exists(DRIVER):
            ref = run_model(ref_lines)
        st["cases"] = len(lines)
        self.cov["evaluations"] += len(lines)
        for i, line in enumerate(lines):
            io = impl[i] if i < len(impl) else "MISSING"
            mo = model[i]
            if nontrivial is not None:
                key = nontrivial(line, io)
                if key is not None:
                    self.seen_nontrivial.add((stream, key))
            why = None
            if io.startswith("CRASH") or io == "MISSING":
                st["crash"] += 1
                why = "the real code aborted: " + io
            elif io == "exc-foreign":
                why = "a foreign exception type escaped"
            elif oracle is not None:
                why = oracle(line, io, mo, ref[i]) if ref is not None else oracle(line, io, mo)
            if why:
                k = self.match_known(stream, line, io, mo)
                if k:
                    st["known"] += 1
                    n, _ = self.known_hits.get(k["id"], (0, k["what"]))
                    self.known_hits[k["id"]] = (n + 1, k["what"])
                    continue
                st["oracle_fail"] += 1
                self.fail_inputs.append((stream, line, io, mo, why))
                continue
            if mo is not None:
                same = compare(line, io, mo) if compare else (io == mo)
                if not same:
                    k = self.match_known(stream, line, io, mo)
                    if k:
                        st["known"] += 1
                        n, _ = self.known_hits.get(k["id"], (0, k["what"]))
                        self.known_hits[k["id"]] = (n + 1, k["what"])
                        continue
                    st["tie_mismatch"] += 1
                    if st["tie_mismatch"] <= 25:
                        self.broken.append(("correspondence", stream, "op: %s\nimpl: %s\nmodel: %s" % (line, io, mo)))
        st["_impl"] = impl
        if len(self.cov["samples"]) < 12:
            for j in (0, len(lines) // 2, len(lines) - 1):
                self.cov["samples"].append({"stream": stream, "op": lines[j][:600], "impl": (impl[j] if j < len(impl) else "")[:300]})
        return st

    # -- step 5-7 ----------------------------------------------------------------------------
    def conclude(self, search=None):
        self.cov["distinct_nontrivial"] = len(self.seen_nontrivial)
        # known findings listed in the file must still reproduce; print them even if this run's
        # streams did not happen to hit them (their witnesses are replayed by the property module)
        if self.fail_inputs:
            for (stream, line, io, mo, why) in self.fail_inputs[:10]:
                self.violation("input", "# property %s: failing input found on the real code\n# stream: %s\n# why: %s\nop: %s\nimpl: %s\nmodel: %s\n" % (
                    self.prop, stream, why, line, io, mo))
        elif self.broken:
            found = search(self) if search else None
            body = "# property %s: a proof obligation or correspondence no longer checks\n" % self.prop
            for kind, name, detail in self.broken[:25]:
                body += "## %s: %s\n%s\n" % (kind, name, detail)
            if found:
                (stream, line, io, mo, why) = found
                self.violation("input", body + "# search found a failing input on the real code\n# stream: %s\n# why: %s\nop: %s\nimpl: %s\nmodel: %s\n" % (
                    stream, why, line, io, mo))
            else:
                self.violation("broken", body + "# search over the implementation found no input on which the property itself fails\n", found_input=False)
        self.cov["broken"] = [(k, n) for k, n, _ in self.broken]
        for st in self.cov["streams"].values():
            st.pop("_impl", None)
        if self.cov["obligations"] == 0:
            self.cov["obligations"] = 1  # schema: proof level needs >= 1; none discharged
        return self.finish()


KNOWN_MATCHERS = {}


def known_matcher(fid):
    def deco(fn):
        KNOWN_MATCHERS[fid] = fn
        return fn
    return deco
