// C14 correspondence harness: real jsonpointer operations (error_code overloads, string locations).
#include "common.hpp"
#include <jsoncons_ext/jsonpointer/jsonpointer.hpp>
using namespace jvh;
namespace jp = jsoncons::jsonpointer;

static std::string xarg(const std::string& t)
{
    if (t.empty() || t[0] != 'x') throw bad_op{};
    return unhex(t, 1);
}

static std::string toklist(const jp::json_pointer& p)
{
    std::string out;
    bool first = true;
    for (const auto& t : p)
    {
        if (!first) out += " ";
        first = false;
        out += "t" + hex(t);
    }
    return out;
}

template <class Json>
static std::string run(const toks_t& t)
{
    const std::string& op = t[1];
    if (op == "get" || op == "contains")
    {
        std::string loc = xarg(t[3]);
        std::size_t pos = 4;
        const Json d = read_val<Json>(t, pos);
        if (pos != t.size()) throw bad_op{};
        std::error_code ec;
        if (op == "get")
        {
            const Json& r = jp::get(d, loc, ec);
            if (ec) return "err";
            return "ok " + show(r);
        }
        return jp::contains(d, loc) ? "ok t" : "ok f";
    }
    if (op == "flatten")
    {
        std::size_t pos = 3;
        Json d = read_val<Json>(t, pos);
        if (pos != t.size()) throw bad_op{};
        return "ok " + show(jp::flatten(d));
    }
    if (op == "flatrt" || op == "unflat")
    {
        // ptr flatrt|unflat <j|o> <0|1> <doc>: 1 = unflatten_options::assume_object
        auto opt = t.at(3) == "1" ? jp::unflatten_options::assume_object : jp::unflatten_options::none;
        std::size_t pos = 4;
        Json d = read_val<Json>(t, pos);
        if (pos != t.size()) throw bad_op{};
        try
        {
            Json f = op == "flatrt" ? jp::flatten(d) : d;
            Json u = jp::unflatten(f, opt);
            return "ok " + show(u);
        }
        catch (const jp::jsonpointer_error&)
        {
            return "err";
        }
    }
    bool create = t.at(3) == "1";
    std::string loc = xarg(t.at(4));
    std::size_t pos = 5;
    Json d = read_val<Json>(t, pos);
    std::error_code ec;
    if (op == "remove")
    {
        if (pos != t.size()) throw bad_op{};
        jp::remove(d, loc, ec);
    }
    else
    {
        Json v = read_val<Json>(t, pos);
        if (pos != t.size()) throw bad_op{};
        if (op == "add") jp::add(d, loc, v, create, ec);
        else if (op == "addia") jp::add_if_absent(d, loc, v, create, ec);
        else if (op == "replace") jp::replace(d, loc, v, create, ec);
        else throw bad_op{};
    }
    return std::string(ec ? "err " : "ok ") + show(d);
}

std::string jvh::handle(const toks_t& t)
{
    if (t.size() < 2 || t[0] != "ptr") throw bad_op{};
    if (t[1] == "parse")
    {
        std::string s = xarg(t.at(2));
        std::error_code ec;
        auto p = jp::json_pointer::parse(s, ec);
        if (ec) return "err";
        std::string tl = toklist(p);
        return "ok " + tl + " | x" + hex(p.to_string());
    }
    if (t[1] == "tostr")
    {
        jp::json_pointer p;
        for (std::size_t i = 2; i < t.size(); ++i)
        {
            if (t[i].empty() || t[i][0] != 't') throw bad_op{};
            p /= unhex(t[i], 1);
        }
        std::string s = p.to_string();
        std::error_code ec;
        auto q = jp::json_pointer::parse(s, ec);
        if (ec) return "ok x" + hex(s) + " | err";
        return "ok x" + hex(s) + " | " + toklist(q);
    }
    if (t.size() < 3) throw bad_op{};
    if (t[2] == "j") return run<jsoncons::json>(t);
    if (t[2] == "o") return run<jsoncons::ojson>(t);
    throw bad_op{};
}

int main() { return run_main(); }
