// C04 correspondence harness: integer/double text conversions, JSON number classification, bigint.
#include "common.hpp"
#include <jsoncons/utility/bigint.hpp>
#include <jsoncons/utility/read_number.hpp>
#include <jsoncons/utility/write_number.hpp>
#include <jsoncons_ext/csv/csv.hpp>
using namespace jvh;

static std::string xarg(const std::string& t)
{
    if (t.empty() || t[0] != 'x') throw bad_op{};
    return unhex(t, 1);
}

template <class T>
static std::string dec_to(const std::string& s)
{
    T v{};
    auto r = jsoncons::dec_to_integer(s.data(), s.size(), v);
    if (r) return "ok " + std::to_string(v);
    if (r.ec == std::errc::result_out_of_range) return "err range";
    return "err invalid";
}

static std::string dbits(double d)
{
    uint64_t b;
    std::memcpy(&b, &d, 8);
    return hex64(b);
}

// fmt <g|f|s> <precision 0..127> <16 hex: IEEE bits>: the double as the JSON encoder and the CSV encoder write it under
// float_format general / fixed / scientific with that precision (0 = "shortest that reads back"). Prints both texts.
static std::string fmt_op(const toks_t& t)
{
    const std::string& f = t.at(2);
    jsoncons::float_chars_format ff = f == "g" ? jsoncons::float_chars_format::general
                                    : f == "f" ? jsoncons::float_chars_format::fixed
                                    : f == "s" ? jsoncons::float_chars_format::scientific : throw bad_op{};
    long p = std::strtol(t.at(3).c_str(), nullptr, 10);
    if (p < 0 || p > 127) throw bad_op{};
    uint64_t bits = std::strtoull(t.at(4).c_str(), nullptr, 16);
    double d;
    std::memcpy(&d, &bits, 8);
    std::string js;
    jsoncons::json(d).dump(js, jsoncons::json_options{}.float_format(ff).precision(static_cast<int8_t>(p)));
    jsoncons::json table(jsoncons::json_array_arg);
    jsoncons::json row(jsoncons::json_array_arg);
    row.push_back(d);
    table.push_back(row);
    std::string cs;
    jsoncons::csv::encode_csv(table, cs, jsoncons::csv::csv_options{}.float_format(ff).precision(static_cast<int8_t>(p)));
    while (!cs.empty() && (cs.back() == '\n' || cs.back() == '\r')) cs.pop_back();
    return "ok x" + hex(js) + " x" + hex(cs);
}

static jsoncons::bigint big_of(const std::string& s) { return jsoncons::bigint(s.data(), s.size()); }


// ---- limb-exact bigint ops ("bigl ..."): operands/results are p|n + little-endian hex words, e.g. n1,0,ff ----
static jsoncons::bigint limbs_of(const std::string& t)
{
    if (t.empty() || (t[0] != 'p' && t[0] != 'n')) throw bad_op{};
    std::vector<uint64_t> ws;
    std::size_t i = 1;
    while (i < t.size())
    {
        std::size_t j = t.find(',', i);
        if (j == std::string::npos) j = t.size();
        ws.push_back(std::strtoull(t.substr(i, j - i).c_str(), nullptr, 16));
        i = j + 1;
    }
    jsoncons::bigint a;
    a.resize(ws.size());
    auto v = a.get_storage_view();
    for (std::size_t k = 0; k < ws.size(); ++k) v[k] = ws[k];
    a.set_negative(t[0] == 'n');
    return a;
}

static std::string limbs_to(const jsoncons::bigint& a)
{
    std::string s = a.is_negative() ? "n" : "p";
    auto v = a.get_storage_view();
    char buf[32];
    for (std::size_t k = 0; k < v.size(); ++k)
    {
        std::snprintf(buf, sizeof buf, "%s%llx", k ? "," : "", (unsigned long long)v[k]);
        s += buf;
    }
    return s;
}

static std::string bigl(const toks_t& t)
{
    const std::string& op = t.at(1);
    if (op == "parse")
    {
        std::string s = xarg(t.at(2));
        try { jsoncons::bigint a(s.data(), s.size()); return "ok " + limbs_to(a); }
        catch (const std::invalid_argument&) { return "err"; }
    }
    if (op == "frombytes")
    {
        int signum = std::atoi(t.at(2).c_str());
        std::string s = xarg(t.at(3));
        jsoncons::bigint a = jsoncons::bigint::from_bytes_be(signum, reinterpret_cast<const uint8_t*>(s.data()), s.size());
        return "ok " + limbs_to(a);
    }
    jsoncons::bigint a = limbs_of(t.at(2));
    if (op == "mulw") { a *= static_cast<uint64_t>(std::strtoull(t.at(3).c_str(), nullptr, 16)); return "ok " + limbs_to(a); }
    if (op == "mul") { a *= limbs_of(t.at(3)); return "ok " + limbs_to(a); }
    if (op == "add") { a += limbs_of(t.at(3)); return "ok " + limbs_to(a); }
    if (op == "sub") { a -= limbs_of(t.at(3)); return "ok " + limbs_to(a); }
    if (op == "shl") { a <<= static_cast<std::size_t>(std::strtoull(t.at(3).c_str(), nullptr, 10)); return "ok " + limbs_to(a); }
    if (op == "shr") { a >>= static_cast<std::size_t>(std::strtoull(t.at(3).c_str(), nullptr, 10)); return "ok " + limbs_to(a); }
    if (op == "tobytes")
    {
        int signum;
        std::vector<uint8_t> v;
        a.write_bytes_be(signum, v);
        return "ok " + std::to_string(signum) + " x" + hex(v.begin(), v.end());
    }
    if (op == "divw")
    {
        uint64_t d = std::strtoull(t.at(3).c_str(), nullptr, 16);
        if (d == 0) return "divzero";
        jsoncons::bigint q, r;
        a.divide(jsoncons::bigint(d), q, r, true);
        return "ok " + limbs_to(q) + " " + limbs_to(r);
    }
    if (op == "tostr")
    {
        std::string s;
        a.write_string(s);
        return "ok x" + hex(s);
    }
    throw bad_op{};
}

std::string jvh::handle(const toks_t& t)
{
    if (t.size() < 2) throw bad_op{};
    if (t[0] == "bigl") return bigl(t);
    if (t[0] == "num")
    {
        const std::string& op = t[1];
        if (op == "decu") return dec_to<uint64_t>(xarg(t.at(2)));
        if (op == "deci") return dec_to<int64_t>(xarg(t.at(2)));
        if (op == "fromi")
        {
            std::string s;
            jsoncons::from_integer(static_cast<int64_t>(std::strtoll(t.at(2).c_str(), nullptr, 10)), s);
            return "ok x" + hex(s);
        }
        if (op == "fromu")
        {
            std::string s;
            jsoncons::from_integer(static_cast<uint64_t>(std::strtoull(t.at(2).c_str(), nullptr, 10)), s);
            return "ok x" + hex(s);
        }
        if (op == "jint" || op == "atod")
        {
            std::string text = xarg(t.at(2));
            auto opts = jsoncons::json_options{};
            if (op == "jint") opts.lossless_bignum(t.at(3) == "1");
            std::error_code ec;
            jsoncons::json_decoder<jsoncons::json> dec;
            jsoncons::json_string_reader reader(text, dec, opts);
            reader.read(ec);
            if (ec || !dec.is_valid()) return "err";
            jsoncons::json j = dec.get_result();
            if (j.is_int64() && !j.is_uint64()) return "i64 " + std::to_string(j.as<int64_t>());
            if (j.is_uint64()) return (j.type() == jsoncons::json_type::uint64 ? "u64 " : "i64 ") + std::to_string(j.as<uint64_t>());
            if (j.is_double()) return "dbl " + dbits(j.as<double>());
            if (j.is_string())
            {
                auto sv = j.as_string_view();
                const char* tag = j.tag() == jsoncons::semantic_tag::bigint ? "big" : (j.tag() == jsoncons::semantic_tag::bigdec ? "bigdec" : "str");
                return std::string(tag) + " x" + hex(sv.begin(), sv.end());
            }
            return "other";
        }
        if (op == "fmt") return fmt_op(t);
        if (op == "dtoa")
        {
            uint64_t bits = std::strtoull(t.at(2).c_str(), nullptr, 16);
            double d;
            std::memcpy(&d, &bits, 8);
            std::string s;
            jsoncons::json(d).dump(s);
            // and what the library itself reads back
            jsoncons::json back = jsoncons::json::parse(s);
            std::string kind = back.is_double() ? "dbl " + dbits(back.as<double>()) : (back.is_null() ? "null" : "other");
            return "ok x" + hex(s) + " " + kind;
        }
    }
    if (t[0] == "big")
    {
        const std::string& op = t[1];
        jsoncons::bigint a = big_of(t.at(2));
        if (op == "tostr") return "ok " + a.to_string();
        if (op == "hex") return "ok " + a.to_string_hex();
        if (op == "neg") return "ok " + (-a).to_string();
        if (op == "shl" || op == "shr")
        {
            std::size_t k = std::strtoull(t.at(3).c_str(), nullptr, 10);
            if (op == "shl") a <<= k; else a >>= k;
            return "ok " + a.to_string();
        }
        if (op == "bytes")
        {
            int signum;
            std::vector<uint8_t> v;
            a.write_bytes_be(signum, v);
            jsoncons::bigint b = jsoncons::bigint::from_bytes_be(signum, v.data(), v.size());
            return "ok " + std::to_string(signum) + " " + hex(v.begin(), v.end()) + " " + b.to_string();
        }
        jsoncons::bigint b = big_of(t.at(3));
        if (op == "add") return "ok " + (a + b).to_string();
        if (op == "sub") return "ok " + (a - b).to_string();
        if (op == "mul") return "ok " + (a * b).to_string();
        if (op == "div") { if (b == 0) return "divzero"; return "ok " + (a / b).to_string(); }
        if (op == "mod") { if (b == 0) return "divzero"; return "ok " + (a % b).to_string(); }
        if (op == "cmp") return "ok " + std::to_string(a.compare(b) < 0 ? -1 : (a.compare(b) > 0 ? 1 : 0)) + " " + (a == b ? "eq" : "ne") + " " + (a < b ? "lt" : "ge");
        if (op == "addeq") { a += b; return "ok " + a.to_string(); }
        if (op == "subeq") { a -= b; return "ok " + a.to_string(); }
    }
    throw bad_op{};
}

int main() { return run_main(); }
