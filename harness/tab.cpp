// C18 harness: CSV and TOON round trips on the real jsoncons.
//   csv rt <a|o|c> d<byte> q<byte> e<byte> s<m|a|n|x> l<hex line delimiter> i<0|1> | <table>
//       a: array of arrays (n_rows), o: array of objects (header + n_objects), c: object of columns (m_columns)
//       -> ok <csv text hex> | <decoded>          err enc <msg> / err dec <texthex> <msg>
//   toon rt <indent> <c|t|p> | <value>   -> ok <text hex> | <decoded>
#include "common.hpp"
#include <jsoncons_ext/csv/csv.hpp>
#include <jsoncons_ext/toon/toon.hpp>
#include <jsoncons_ext/toon/decode_toon.hpp>

using namespace jvh;
namespace jc = jsoncons;

static std::string csv_rt(const toks_t& t)
{
    char shape = t.at(2).at(0);
    jc::csv::csv_options o;
    std::size_t p = 3;
    bool infer = true;
    for (; p < t.size() && t[p] != "|"; ++p)
    {
        const std::string& a = t[p];
        switch (a[0])
        {
            case 'd': o.field_delimiter(static_cast<char>(std::stoi(a.substr(1)))); break;
            case 'q': o.quote_char(static_cast<char>(std::stoi(a.substr(1)))); break;
            case 'e': o.quote_escape_char(static_cast<char>(std::stoi(a.substr(1)))); break;
            case 's':
                o.quote_style(a[1] == 'm' ? jc::csv::quote_style_kind::minimal : a[1] == 'a' ? jc::csv::quote_style_kind::all
                              : a[1] == 'n' ? jc::csv::quote_style_kind::nonnumeric : jc::csv::quote_style_kind::none);
                break;
            case 'l': o.line_delimiter(unhex(a, 1)); break;
            case 'i': infer = a[1] == '1'; o.infer_types(infer); break;
            default: throw bad_op{};
        }
    }
    if (p >= t.size()) throw bad_op{};
    ++p;
    jc::ojson table = read_val<jc::ojson>(t, p);
    if (shape == 'a') { o.assume_header(false); o.mapping_kind(jc::csv::csv_mapping_kind::n_rows); }
    else if (shape == 'o') { o.assume_header(true); o.mapping_kind(jc::csv::csv_mapping_kind::n_objects); }
    else { o.assume_header(true); o.mapping_kind(jc::csv::csv_mapping_kind::m_columns); }
    std::string text;
    try { jc::csv::encode_csv(table, text, o); }
    catch (const jc::json_exception& e) { return std::string("err enc ") + e.what(); }
    try
    {
        jc::ojson back = jc::csv::decode_csv<jc::ojson>(text, o);
        return "ok " + hex(text) + " | " + show(back);
    }
    catch (const jc::json_exception& e) { return "err dec " + hex(text) + " " + e.what(); }
}

// csv dec d<byte> q<byte> e<byte> | <text hex>   -> ok <rows>   (n_rows, no header, no type inference)   or err <message>
static std::string csv_dec(const toks_t& t)
{
    jc::csv::csv_options o;
    std::size_t p = 2;
    for (; p < t.size() && t[p] != "|"; ++p)
    {
        const std::string& a = t[p];
        switch (a[0])
        {
            case 'd': o.field_delimiter(static_cast<char>(std::stoi(a.substr(1)))); break;
            case 'q': o.quote_char(static_cast<char>(std::stoi(a.substr(1)))); break;
            case 'e': o.quote_escape_char(static_cast<char>(std::stoi(a.substr(1)))); break;
            default: break;
        }
    }
    if (p + 1 >= t.size() + 1) throw bad_op{};
    std::string text = p + 1 < t.size() ? unhex(t.at(p + 1)) : std::string();
    o.assume_header(false).mapping_kind(jc::csv::csv_mapping_kind::n_rows).infer_types(false);
    try
    {
        jc::ojson back = jc::csv::decode_csv<jc::ojson>(text, o);
        return "ok " + show(back);
    }
    catch (const jc::json_exception& e) { return std::string("err ") + e.what(); }
}

static std::string toon_rt(const toks_t& t)
{
    jc::toon::toon_options o;
    o.indent(static_cast<std::size_t>(std::stoi(t.at(2))));
    char d = t.at(3).at(0);
    o.delimiter(d == 'c' ? jc::toon::toon_delimiter_kind::comma : d == 't' ? jc::toon::toon_delimiter_kind::tab : jc::toon::toon_delimiter_kind::pipe);
    if (t.at(4) != "|") throw bad_op{};
    std::size_t p = 5;
    jc::ojson v = read_val<jc::ojson>(t, p);
    std::string text;
    try { jc::toon::encode_toon(v, text, o); }
    catch (const jc::json_exception& e) { return std::string("err enc ") + e.what(); }
    try
    {
        jc::ojson back = jc::toon::decode_toon<jc::ojson>(text, o);
        return "ok " + hex(text) + " | " + show(back);
    }
    catch (const jc::json_exception& e) { return "err dec " + hex(text) + " " + e.what(); }
}

std::string jvh::handle(const toks_t& t)
{
    if (t.size() < 3) throw bad_op{};
    if (t[0] == "csv" && t[1] == "rt") return csv_rt(t);
    if (t[0] == "csv" && t[1] == "dec") return csv_dec(t);
    if (t[0] == "toon" && t[1] == "rt") return toon_rt(t);
    throw bad_op{};
}

int main() { return run_main(); }
