// C17 harness, slice 4 of the type family (see ty_family.hpp)
#define TY_PART 4
#include "ty_family.hpp"
