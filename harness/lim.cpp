// C10 harness (built WITHOUT sanitizers): allocation meter and stack-depth meter around the real decoders and basic_json.
#include <cstdlib>
#include <cstdint>
#include <new>
static std::size_t g_maxreq = 0, g_live = 0, g_peak = 0, g_total = 0, g_count = 0;
static char* g_stack_base = nullptr;
static std::size_t g_stack_max = 0;
static bool g_meter = false;
static inline void note_stack()
{
    char probe;
    if (g_stack_base)
    {
        std::size_t used = static_cast<std::size_t>(g_stack_base - &probe);
        if (g_stack_base > &probe && used > g_stack_max) g_stack_max = used;
    }
}
void* operator new(std::size_t n)
{
    if (g_meter)
    {
        note_stack();
        if (n > g_maxreq) g_maxreq = n;
        g_total += n; ++g_count;
        if (n > (std::size_t(1) << 31)) throw std::bad_alloc();   // never actually grab gigabytes in the harness
    }
    void* p = std::malloc(n + 16);
    if (!p) throw std::bad_alloc();
    *static_cast<std::size_t*>(p) = n;
    if (g_meter) { g_live += n; if (g_live > g_peak) g_peak = g_live; }
    return static_cast<char*>(p) + 16;
}
void operator delete(void* p) noexcept
{
    if (!p) return;
    char* q = static_cast<char*>(p) - 16;
    if (g_meter) { note_stack(); std::size_t n = *reinterpret_cast<std::size_t*>(q); g_live = g_live >= n ? g_live - n : 0; }
    std::free(q);
}
void operator delete(void* p, std::size_t) noexcept { operator delete(p); }

#include "common.hpp"
#include <jsoncons_ext/cbor/cbor.hpp>
#include <jsoncons_ext/msgpack/msgpack.hpp>
#include <jsoncons_ext/ubjson/ubjson.hpp>
#include <jsoncons_ext/bson/bson.hpp>
#include <sstream>
using namespace jvh;
namespace jc = jsoncons;
using jc::json;

static void meter_on() { g_maxreq = g_live = g_peak = g_total = g_count = 0; g_stack_max = 0; g_meter = true; }
static std::string meter_off()
{
    g_meter = false;
    return " maxreq=" + std::to_string(g_maxreq) + " peak=" + std::to_string(g_peak) + " total=" + std::to_string(g_total) + " allocs=" + std::to_string(g_count);
}

template <class BytesReader, class StreamReader, class IterReader>
static std::string alloc_run(const std::string& src, const std::string& bytes)
{
    std::error_code ec;
    std::string res;
    jc::json_decoder<json> dec;
    std::vector<uint8_t> v(bytes.begin(), bytes.end());
    meter_on();
    try
    {
        if (src == "bytes") { BytesReader r(v, dec); r.read(ec); }
        else if (src == "stream") { std::istringstream is(bytes); StreamReader r(is, dec); r.read(ec); }
        else if (src == "iter") { IterReader r(jc::iterator_source<std::vector<uint8_t>::const_iterator>(v.begin(), v.end()), dec); r.read(ec); }
        else throw bad_op{};
        res = ec ? "err" : "ok";
    }
    catch (const std::bad_alloc&) { res = "badalloc"; }
    return res + meter_off();
}

static json build(const std::string& shape, std::size_t depth)
{
    json cur = shape == "obj" ? json(jc::json_object_arg) : json(jc::json_array_arg);
    for (std::size_t i = 0; i < depth; ++i)
    {
        bool as_obj = shape == "obj" || (shape == "alt" && i % 2 == 0) || (shape == "alt2" && i % 2 == 1);
        if (as_obj) { json next(jc::json_object_arg); next.try_emplace("a", std::move(cur)); cur = std::move(next); }
        else { json next(jc::json_array_arg); next.push_back(std::move(cur)); cur = std::move(next); }
    }
    return cur;
}

std::string jvh::handle(const toks_t& t)
{
    if (t.size() < 2 || t[0] != "lim") throw bad_op{};
    if (t[1] == "alloc")
    {
        const std::string& f = t.at(2);
        const std::string& src = t.at(3);
        std::string bytes = unhex(t.at(4), 1);
        using it = std::vector<uint8_t>::const_iterator;
        if (f == "cbor") return alloc_run<jc::cbor::cbor_bytes_reader, jc::cbor::cbor_stream_reader, jc::cbor::basic_cbor_reader<jc::iterator_source<it>>>(src, bytes);
        if (f == "msgpack") return alloc_run<jc::msgpack::msgpack_bytes_reader, jc::msgpack::msgpack_stream_reader, jc::msgpack::basic_msgpack_reader<jc::iterator_source<it>>>(src, bytes);
        if (f == "ubjson") return alloc_run<jc::ubjson::ubjson_bytes_reader, jc::ubjson::ubjson_stream_reader, jc::ubjson::basic_ubjson_reader<jc::iterator_source<it>>>(src, bytes);
        if (f == "bson") return alloc_run<jc::bson::bson_bytes_reader, jc::bson::bson_stream_reader, jc::bson::basic_bson_reader<jc::iterator_source<it>>>(src, bytes);
        throw bad_op{};
    }
    if (t[1] == "stack")
    {
        const std::string& shape = t.at(2);
        std::size_t depth = std::strtoull(t.at(3).c_str(), nullptr, 10);
        const std::string& op = t.at(4);
        json v = build(shape, depth);
        char base;
        std::string extra;
        if (op == "destroy")
        {
            g_stack_base = &base; meter_on();
            { json doomed(std::move(v)); }
            g_stack_base = nullptr;
        }
        else if (op == "copy")
        {
            g_stack_base = &base; meter_on();
            json c(v);
            g_stack_base = nullptr; g_meter = false;
            extra = c == v ? " same" : " DIFFERENT";
        }
        else if (op == "compare")
        {
            json c(v);
            g_stack_base = &base; meter_on();
            bool eq = (c == v);
            g_stack_base = nullptr;
            extra = eq ? " same" : " DIFFERENT";
        }
        else if (op == "dump")
        {
            std::string s;
            g_stack_base = &base; meter_on();
            try { v.dump(s); extra = " len=" + std::to_string(s.size()); }
            catch (const jc::ser_error& e) { extra = " err" + std::to_string(e.code().value()); }
            g_stack_base = nullptr;
        }
        else throw bad_op{};
        std::size_t used = g_stack_max;
        g_meter = false;
        return "ok stack=" + std::to_string(used) + extra;
    }
    throw bad_op{};
}

int main() { return run_main(); }
