// C17 harness, slice 3 of the type family (see ty_family.hpp)
#define TY_PART 3
#include "ty_family.hpp"
