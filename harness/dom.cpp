// C09 harness: operation sequences over a pool of json / ojson values; relational laws; is<T>/as<T>.
#include "common.hpp"
#include <map>
using namespace jvh;
using jsoncons::json;
using jsoncons::ojson;
namespace jc = jsoncons;

template <class Json>
static std::string pool_state(const std::vector<Json>& pool)
{
    std::string out;
    for (std::size_t i = 0; i < pool.size(); ++i)
    {
        out += (i ? " ; " : "");
        out += show(pool[i]);
    }
    return out;
}

// `dom seq <j|o> <nslots> op… ` where ops are separated by the token "/" ; the reply lists the observable result of every op
// and finally the state of every slot, so aliasing between copies shows as a difference
template <class Json>
static std::string seq(const toks_t& t)
{
    std::size_t nslots = std::strtoull(t.at(3).c_str(), nullptr, 10);
    std::vector<Json> pool(nslots);
    std::string out = "ok";
    std::size_t i = 4;
    auto slot = [&](const std::string& s) -> Json& { return pool.at(std::strtoull(s.c_str(), nullptr, 10)); };
    while (i < t.size())
    {
        std::size_t j = i;
        while (j < t.size() && t[j] != "/") ++j;
        toks_t op(t.begin() + i, t.begin() + j);
        i = j + 1;
        if (op.empty()) continue;
        const std::string& name = op[0];
        std::string res = "-";
        try
        {
            if (name == "new") { std::size_t p = 2; slot(op.at(1)) = read_val<Json>(op, p); }
            else if (name == "copy") { Json c(slot(op.at(2))); slot(op.at(1)) = c; }
            else if (name == "assign") { slot(op.at(1)) = slot(op.at(2)); }
            else if (name == "move") { slot(op.at(1)) = std::move(slot(op.at(2))); res = show(slot(op.at(2))); }
            else if (name == "movector") { Json tmp(std::move(slot(op.at(2)))); slot(op.at(1)) = std::move(tmp); }
            else if (name == "swap") { slot(op.at(1)).swap(slot(op.at(2))); }
            else if (name == "stdswap") { std::swap(slot(op.at(1)), slot(op.at(2))); }
            else if (name == "selfassign") { Json& a = slot(op.at(1)); a = a; }
            else if (name == "set") { std::size_t p = 3; Json v = read_val<Json>(op, p); auto r = slot(op.at(1)).insert_or_assign(unhex(op.at(2), 1), v); res = r.second ? "ins" : "upd"; }
            else if (name == "emplace") { std::size_t p = 3; Json v = read_val<Json>(op, p); auto r = slot(op.at(1)).try_emplace(unhex(op.at(2), 1), v); res = r.second ? "ins" : "kept"; }
            else if (name == "index") { std::size_t p = 3; Json v = read_val<Json>(op, p); slot(op.at(1))[unhex(op.at(2), 1)] = v; }
            else if (name == "erase") { slot(op.at(1)).erase(unhex(op.at(2), 1)); }
            else if (name == "find")
            {
                Json& a = slot(op.at(1));
                auto it = a.find(unhex(op.at(2), 1));
                res = it == a.object_range().end() ? "absent" : show((*it).value());
            }
            else if (name == "contains") { res = slot(op.at(1)).contains(unhex(op.at(2), 1)) ? "t" : "f"; }
            else if (name == "count") { res = std::to_string(slot(op.at(1)).count(unhex(op.at(2), 1))); }
            else if (name == "at") { res = show(slot(op.at(1)).at(unhex(op.at(2), 1))); }
            else if (name == "getor") { res = show(slot(op.at(1)).at_or_null(unhex(op.at(2), 1))); }
            else if (name == "size") { res = std::to_string(slot(op.at(1)).size()); }
            else if (name == "empty") { res = slot(op.at(1)).empty() ? "t" : "f"; }
            else if (name == "clear") { slot(op.at(1)).clear(); }
            else if (name == "push") { std::size_t p = 2; slot(op.at(1)).push_back(read_val<Json>(op, p)); }
            else if (name == "insat")
            {
                Json& a = slot(op.at(1));
                std::size_t idx = std::strtoull(op.at(2).c_str(), nullptr, 10);
                std::size_t p = 3;
                Json v = read_val<Json>(op, p);
                if (idx > a.size()) res = "range"; else a.insert(a.array_range().begin() + idx, v);
            }
            else if (name == "eraseat")
            {
                Json& a = slot(op.at(1));
                std::size_t idx = std::strtoull(op.at(2).c_str(), nullptr, 10);
                if (idx >= a.size()) res = "range"; else a.erase(a.array_range().begin() + idx);
            }
            else if (name == "eraserange")
            {
                Json& a = slot(op.at(1));
                std::size_t lo = std::strtoull(op.at(2).c_str(), nullptr, 10), hi = std::strtoull(op.at(3).c_str(), nullptr, 10);
                if (!a.is_object() && !a.is_array()) { a.array_range(); res = "exc"; }      // not a container: array_range() throws
                else if (lo > hi || hi > a.size()) res = "range";
                else if (a.is_object()) a.erase(a.object_range().begin() + lo, a.object_range().begin() + hi);
                else a.erase(a.array_range().begin() + lo, a.array_range().begin() + hi);
            }
            else if (name == "resize") { slot(op.at(1)).resize(std::strtoull(op.at(2).c_str(), nullptr, 10)); }
            else if (name == "resizev") { std::size_t p = 3; Json v = read_val<Json>(op, p); slot(op.at(1)).resize(std::strtoull(op.at(2).c_str(), nullptr, 10), v); }
            else if (name == "atidx") { res = show(slot(op.at(1)).at(std::strtoull(op.at(2).c_str(), nullptr, 10))); }
            else if (name == "merge") { slot(op.at(1)).merge(slot(op.at(2))); }
            else if (name == "mergeupd") { slot(op.at(1)).merge_or_update(slot(op.at(2))); }
            else if (name == "rangeins")
            {
                // object.insert(first, last) from a vector of pairs given as k<hex> <value> …
                std::vector<std::pair<std::string, Json>> items;
                std::size_t p = 2;
                while (p < op.size())
                {
                    std::string k = unhex(op.at(p), 1);
                    ++p;
                    items.emplace_back(k, read_val<Json>(op, p));
                }
                slot(op.at(1)).insert(items.begin(), items.end());
            }
            else if (name == "iter")
            {
                std::string ks;
                for (const auto& m : slot(op.at(1)).object_range()) ks += "k" + hex(m.key().begin(), m.key().end()) + ",";
                res = ks.empty() ? "none" : ks;
            }
            else throw bad_op{};
        }
        catch (const bad_op&) { throw; }
        catch (const jc::json_exception&) { res = "exc"; }
        catch (const std::out_of_range&) { res = "exc"; }
        out += " <" + res + ">";
    }
    return out + " || " + pool_state(pool);
}

template <class Json>
static std::string cmp(const toks_t& t)
{
    std::size_t p = 3;
    Json a = read_val<Json>(t, p);
    Json b = read_val<Json>(t, p);
    std::string out = "ok";
    out += (a == b) ? " eq" : " ne";
    out += (a != b) ? " NE" : " EQ";
    out += (a < b) ? " lt" : " nl";
    out += (a > b) ? " gt" : " ng";
    out += (a <= b) ? " le" : " nle";
    out += (a >= b) ? " ge" : " nge";
    out += (b == a) ? " req" : " rne";
    out += (b < a) ? " rlt" : " rnl";
    std::string sa, sb;
    a.dump(sa); b.dump(sb);
    out += (sa == sb) ? " samedump" : " diffdump";
    out += " c" + std::to_string(a.compare(b) < 0 ? -1 : (a.compare(b) > 0 ? 1 : 0));
    return out;
}

// icmp <I|U><dec> <I|U><dec>: the integer arms of compare() with the storage kind chosen explicitly
static jc::json stored_int(const std::string& tok)
{
    if (tok.size() < 2) throw bad_op{};
    errno = 0;
    if (tok[0] == 'I') { long long v = std::strtoll(tok.c_str() + 1, nullptr, 10); if (errno) throw bad_op{}; return jc::json(static_cast<int64_t>(v)); }
    if (tok[0] == 'U') { if (tok[1] == '-') throw bad_op{}; unsigned long long v = std::strtoull(tok.c_str() + 1, nullptr, 10); if (errno) throw bad_op{}; return jc::json(static_cast<uint64_t>(v)); }
    throw bad_op{};
}

static std::string icmp(const toks_t& t)
{
    jc::json a = stored_int(t.at(2)), b = stored_int(t.at(3));
    int c = a.compare(b);
    std::string out = "ok c" + std::to_string(c < 0 ? -1 : (c > 0 ? 1 : 0));
    out += (a == b) ? " eq" : " ne";
    out += (a < b) ? " lt" : " nl";
    return out;
}

// mcmp <value> <value>: the whole of compare() and the six operators, with the storage kind of every node chosen explicitly
// (tokens: n t f E(=json()) I<dec> U<dec> d<16 hex> e<4 hex> s<hex> b<hex> [ ... ] { k<hex> <value> ... })
static jc::json read_cval(const toks_t& t, std::size_t& pos)
{
    if (pos >= t.size()) throw bad_op{};
    const std::string& tok = t[pos++];
    if (tok == "n") return jc::json::null();
    if (tok == "t") return jc::json(true);
    if (tok == "f") return jc::json(false);
    if (tok == "E") return jc::json();
    if (tok == "[")
    {
        jc::json a(jc::json_array_arg);
        while (true)
        {
            if (pos >= t.size()) throw bad_op{};
            if (t[pos] == "]") { ++pos; break; }
            a.push_back(read_cval(t, pos));
        }
        return a;
    }
    if (tok == "{")
    {
        jc::json o(jc::json_object_arg);
        while (true)
        {
            if (pos >= t.size()) throw bad_op{};
            if (t[pos] == "}") { ++pos; break; }
            if (t[pos].empty() || t[pos][0] != 'k') throw bad_op{};
            std::string key = unhex(t[pos], 1);
            ++pos;
            jc::json v = read_cval(t, pos);
            o.try_emplace(key, std::move(v));
        }
        return o;
    }
    if (tok.size() < 1) throw bad_op{};
    if (tok[0] == 'I' || tok[0] == 'U') return stored_int(tok);
    if (tok[0] == 'd')
    {
        if (tok.size() != 17) throw bad_op{};
        uint64_t bits = std::strtoull(tok.c_str() + 1, nullptr, 16);
        double d;
        std::memcpy(&d, &bits, 8);
        return jc::json(d);
    }
    if (tok[0] == 'e')
    {
        if (tok.size() != 5) throw bad_op{};
        return jc::json(jc::half_arg, static_cast<uint16_t>(std::strtoul(tok.c_str() + 1, nullptr, 16)));
    }
    if (tok[0] == 's') return jc::json(unhex(tok, 1));
    if (tok[0] == 'b')
    {
        std::string raw = unhex(tok, 1);
        return jc::json(jc::byte_string_arg, std::vector<uint8_t>(raw.begin(), raw.end()));
    }
    throw bad_op{};
}

static int sign_of(int c) { return c < 0 ? -1 : (c > 0 ? 1 : 0); }

static std::string mcmp(const toks_t& t)
{
    std::size_t p = 2;
    jc::json a = read_cval(t, p);
    jc::json b = read_cval(t, p);
    if (p != t.size()) throw bad_op{};
    std::string out = "ok c" + std::to_string(sign_of(a.compare(b)));
    out += (a == b) ? " eq" : " ne";
    out += (a != b) ? " NE" : " EQ";
    out += (a < b) ? " lt" : " nl";
    out += (a > b) ? " gt" : " ng";
    out += (a <= b) ? " le" : " nle";
    out += (a >= b) ? " ge" : " nge";
    out += " r" + std::to_string(sign_of(b.compare(a)));
    return out;
}

template <class T, class Json>
static std::string isas1(const Json& v, const char* name)
{
    std::string out = std::string(" ") + name + ":";
    bool is = v.template is<T>();
    out += is ? "is" : "no";
    if (is)
    {
        T x = v.template as<T>();
        if (std::is_floating_point<T>::value) { double d = static_cast<double>(x); uint64_t b; std::memcpy(&b, &d, 8); out += "=" + hex64(b); }
        else if (std::is_signed<T>::value) out += "=" + std::to_string(static_cast<long long>(x));
        else out += "=" + std::to_string(static_cast<unsigned long long>(x));
    }
    return out;
}

static std::string isas(const toks_t& t)
{
    std::size_t p = 2;
    json v = read_val<json>(t, p);
    std::string out = "ok";
    out += isas1<int8_t>(v, "i8") + isas1<uint8_t>(v, "u8") + isas1<int16_t>(v, "i16") + isas1<uint16_t>(v, "u16");
    out += isas1<int32_t>(v, "i32") + isas1<uint32_t>(v, "u32") + isas1<int64_t>(v, "i64") + isas1<uint64_t>(v, "u64");
    out += isas1<double>(v, "f64") + isas1<float>(v, "f32");
    out += v.is<bool>() ? " bool" : "";
    out += v.is<std::string>() ? " str" : "";
    return out;
}

std::string jvh::handle(const toks_t& t)
{
    if (t.size() < 3 || t[0] != "dom") throw bad_op{};
    if (t[1] == "seq") return t[2] == "j" ? seq<json>(t) : seq<ojson>(t);
    if (t[1] == "cmp") return t[2] == "j" ? cmp<json>(t) : cmp<ojson>(t);
    if (t[1] == "isas") return isas(t);
    if (t[1] == "icmp") return icmp(t);
    if (t[1] == "mcmp") return mcmp(t);
    throw bad_op{};
}

int main() { return run_main(); }
