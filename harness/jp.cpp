// C12 harness: JSONPath queries, normalized paths, result options, json_replace on the real jsoncons.
//   jp q <j|o> <opts> <exprhex> | <doc> [| ast…]      opts: letters n (nodups) s (sort) d (sort_descending) or -
//       -> ok <count> p<pathhex>=<value> ;… || flags     (flags: cross-checks between the result forms, see below)
//   jp r <j|o> <exprhex> | <doc> | <new value> [| ast…] -> ok <doc after json_replace> || flags
//   jp x <exprhex>                                      -> compiles only: ok | err <message>
#include "common.hpp"
#include <jsoncons_ext/jsonpath/jsonpath.hpp>

using namespace jvh;
namespace jc = jsoncons;
namespace jp = jsoncons::jsonpath;

static jp::result_options opts_of(const std::string& s)
{
    jp::result_options o = jp::result_options();
    for (char c : s)
    {
        if (c == 'n') o |= jp::result_options::nodups;
        else if (c == 's') o |= jp::result_options::sort;
        else if (c == 'd') o |= jp::result_options::sort_descending;
        else if (c == '-') {}
        else throw bad_op{};
    }
    return o;
}

static std::size_t bar(const toks_t& t, std::size_t from)
{
    for (std::size_t i = from; i < t.size(); ++i) if (t[i] == "|") return i;
    return t.size();
}

template <class Json>
static std::string query(const toks_t& t)
{
    jp::result_options o = opts_of(t.at(3));
    std::string expr = unhex(t.at(4));
    std::size_t p = 6;
    if (t.at(5) != "|") throw bad_op{};
    Json doc = read_val<Json>(t, p);
    const Json before = doc;
    const Json& cdoc = doc;
    std::string out;
    std::string flags;
    try
    {
        // (1) callback form: path and value together
        std::vector<std::pair<std::string, const Json*>> nodes;
        jp::json_query(cdoc, expr, [&](const std::string& path, const Json& v) { nodes.emplace_back(path, &v); }, o);
        out = "ok " + std::to_string(nodes.size());
        bool addr_ok = true, val_ok = true;
        for (auto& n : nodes)
        {
            out += " p" + hex(n.first) + "=" + show(*n.second) + " ;";
            // the normalized path, parsed back and resolved against the document, addresses exactly that value
            std::error_code ec;
            auto loc = jp::json_location::parse(n.first, ec);
            if (ec) { addr_ok = false; continue; }
            auto r = jp::get(doc, loc);
            if (!r.second || r.first == nullptr) { addr_ok = false; continue; }
            if (r.first != n.second) addr_ok = false;
            if (!(*r.first == *n.second)) val_ok = false;
            // and the path string is what to_string(location) gives back
            if (jp::to_string(loc) != n.first) addr_ok = false;
        }
        flags += addr_ok ? " addr" : " ADDR-MISMATCH";
        flags += val_ok ? " val" : " VALUE-MISMATCH";
        // (2) value-returning form
        Json vals = jp::json_query(cdoc, expr, o);
        bool same = vals.is_array() && vals.size() == nodes.size();
        for (std::size_t i = 0; same && i < nodes.size(); ++i) same = (vals[i] == *nodes[i].second) && show(vals[i]) == show(*nodes[i].second);
        flags += same ? " values" : " VALUES-DIFFER";
        // (3) path-returning form
        Json paths = jp::json_query(cdoc, expr, o | jp::result_options::path);
        same = paths.is_array() && paths.size() == nodes.size();
        for (std::size_t i = 0; same && i < nodes.size(); ++i) same = paths[i].is_string() && paths[i].as_string() == nodes[i].first;
        flags += same ? " paths" : " PATHS-DIFFER";
        // (4) compiled expression, evaluated twice, value / path / callback forms
        auto compiled = jp::make_expression<Json>(expr);
        for (int round = 0; round < 2; ++round)
        {
            Json v2 = compiled.evaluate(cdoc, o);
            Json p2 = compiled.evaluate(cdoc, o | jp::result_options::path);
            std::vector<std::pair<std::string, const Json*>> n2;
            compiled.evaluate(cdoc, [&](const std::string& path, const Json& v) { n2.emplace_back(path, &v); }, o);
            bool eq = (v2 == vals) && (p2 == paths) && n2.size() == nodes.size();
            for (std::size_t i = 0; eq && i < nodes.size(); ++i) eq = n2[i].first == nodes[i].first && n2[i].second == nodes[i].second;
            flags += eq ? " compiled" : " COMPILED-DIFFERS";
        }
        // (5) select_paths / select on the compiled expression
        {
            auto locs = compiled.select_paths(cdoc, o);
            bool eq = locs.size() == nodes.size();
            for (std::size_t i = 0; eq && i < nodes.size(); ++i) eq = jp::to_string(locs[i]) == nodes[i].first;
            flags += eq ? " selpaths" : " SELECT-PATHS-DIFFERS";
            // select with a path_node callback: jsonpath::select(root, path_node) resolves to the same address
            std::size_t i = 0; bool sel_ok = true;
            compiled.select(cdoc, [&](const jp::path_node& pn, const Json& v) {
                if (i >= nodes.size() || jp::to_string(pn) != nodes[i].first || &v != nodes[i].second) sel_ok = false;
                const Json* q = jp::select(cdoc, pn);
                if (q != &v) sel_ok = false;
                ++i; }, o);
            if (i != nodes.size()) sel_ok = false;
            flags += sel_ok ? " select" : " SELECT-DIFFERS";
        }
        flags += (doc == before && show(doc) == show(before)) ? " const" : " DOCUMENT-MODIFIED";
    }
    catch (const jp::jsonpath_error& e) { return std::string("err ") + e.code().message(); }
    catch (const jc::json_exception& e) { return std::string("err json_exception ") + e.what(); }
    // the plain (option-less) selection, for judging the options against it
    std::string plain;
    try
    {
        jp::json_query(cdoc, expr, [&](const std::string& path, const Json&) { plain += " p" + hex(path); });
    }
    catch (const jc::json_exception&) { plain = " failed"; }
    return out + " ||" + flags + " || plain" + plain;
}

template <class Json>
static std::string replace(const toks_t& t)
{
    std::string expr = unhex(t.at(3));
    if (t.at(4) != "|") throw bad_op{};
    std::size_t p = 5;
    Json doc = read_val<Json>(t, p);
    if (t.at(p) != "|") throw bad_op{};
    ++p;
    Json nv = read_val<Json>(t, p);
    std::string flags;
    try
    {
        Json d1 = doc;
        jp::json_replace(d1, expr, Json(nv));
        // binary callback form (path, value&) and unary callback form must produce the same document
        Json d2 = doc;
        std::vector<std::string> touched;
        jp::json_replace(d2, expr, [&](const std::string& path, Json& v) { touched.push_back(path); v = nv; });
        Json d3 = doc;
        jp::json_replace(d3, expr, [&](const Json&) { return nv; });
        flags += (d1 == d2 && show(d1) == show(d2)) ? " cb2" : " BINARY-CALLBACK-DIFFERS";
        flags += (d1 == d3 && show(d1) == show(d3)) ? " cb1" : " UNARY-CALLBACK-DIFFERS";
        // compiled update
        Json d4 = doc;
        auto compiled = jp::make_expression<Json>(expr);
        compiled.update(d4, [&](const jp::path_node&, Json& v) { v = nv; });
        flags += (d1 == d4 && show(d1) == show(d4)) ? " update" : " COMPILED-UPDATE-DIFFERS";
        std::string out = "ok " + show(d1) + " ||" + flags + " touched";
        for (auto& s : touched) out += " p" + hex(s);
        return out;
    }
    catch (const jp::jsonpath_error& e) { return std::string("err ") + e.code().message(); }
    catch (const jc::json_exception& e) { return std::string("err json_exception ") + e.what(); }
}

static std::string compile_only(const toks_t& t)
{
    std::string expr = unhex(t.at(2));
    std::error_code ec;
    auto e = jp::make_expression<jc::json>(expr, ec);
    if (ec) return "err " + ec.message();
    return "ok";
}

std::string jvh::handle(const toks_t& t)
{
    if (t.size() < 3 || t[0] != "jp") throw bad_op{};
    if (t[1] == "q") return t.at(2) == "j" ? query<jc::json>(t) : query<jc::ojson>(t);
    if (t[1] == "r") return t.at(2) == "j" ? replace<jc::json>(t) : replace<jc::ojson>(t);
    if (t[1] == "x") return compile_only(t);
    throw bad_op{};
}

int main() { return run_main(); }
