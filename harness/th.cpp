// C20 harness: immutable artifacts shared across threads, under ThreadSanitizer.
//   th schema <threads> <rounds> | <schema> | <instances as an array>
//   th jsonpath <threads> <rounds> | <expr hex> | <doc>
//   th jmespath <threads> <rounds> | <expr hex> | <doc>
//   th json <threads> <rounds> | <doc>
//   -> ok threads=<n> rounds=<r> ops=<k>   |   MISMATCH <what>
// Every round builds a *fresh* shared artifact (so first-use effects such as lazily built caches happen concurrently), takes the
// expected results from a separately built copy, releases all threads at once and compares what each thread saw with the expectation.
// A data race makes TSan abort the process (exit code 66); the check reports that as a crash of this line.
#include "common.hpp"
#include <jsoncons_ext/jsonschema/jsonschema.hpp>
#include <jsoncons_ext/jsonpath/jsonpath.hpp>
#include <jsoncons_ext/jmespath/jmespath.hpp>
#include <atomic>
#include <thread>

using namespace jvh;
namespace jc = jsoncons;

template <class Work>
static std::string race(int threads, Work work, const std::vector<std::string>& expected)
{
    std::atomic<int> ready{0};
    std::atomic<bool> go{false};
    std::vector<std::vector<std::string>> seen(static_cast<std::size_t>(threads));
    std::vector<std::thread> pool;
    for (int i = 0; i < threads; ++i)
    {
        pool.emplace_back([&, i] {
            ++ready;
            while (!go.load(std::memory_order_acquire)) {}
            // different threads walk the work list from different starting points
            seen[static_cast<std::size_t>(i)] = work(i);
        });
    }
    while (ready.load() < threads) {}
    go.store(true, std::memory_order_release);
    for (auto& t : pool) t.join();
    for (int i = 0; i < threads; ++i)
    {
        if (seen[static_cast<std::size_t>(i)] != expected)
        {
            const auto& s = seen[static_cast<std::size_t>(i)];
            for (std::size_t k = 0; k < expected.size() && k < s.size(); ++k)
                if (s[k] != expected[k]) return "MISMATCH thread " + std::to_string(i) + " op " + std::to_string(k) + ": " + s[k].substr(0, 120) + " instead of " + expected[k].substr(0, 120);
            return "MISMATCH thread " + std::to_string(i) + " result count";
        }
    }
    return "";
}

static std::vector<std::string> schema_work(const jc::jsonschema::json_schema<jc::json>& s, const jc::json& instances, int start)
{
    std::vector<std::string> out(instances.size());
    for (std::size_t k = 0; k < instances.size(); ++k)
    {
        std::size_t i = (k + static_cast<std::size_t>(start)) % instances.size();
        std::string r = s.is_valid(instances[i]) ? "valid" : "invalid";
        s.validate(instances[i], [&](const jc::jsonschema::validation_message& m) { r += "|" + m.message() + "@" + m.instance_location().string(); return jc::jsonschema::walk_result::advance; });
        out[i] = r;
    }
    return out;
}

std::string jvh::handle(const toks_t& t)
{
    if (t.size() < 6 || t[0] != "th" || t[4] != "|") throw bad_op{};
    const std::string kind = t[1];
    int threads = std::stoi(t[2]);
    int rounds = std::stoi(t[3]);
    std::size_t p = 5;
    std::size_t ops = 0;
    for (int r = 0; r < rounds; ++r)
    {
        p = 5;
        std::string bad;
        if (kind == "schema")
        {
            jc::json schema = read_val<jc::json>(t, p); ++p;
            jc::json instances = read_val<jc::json>(t, p);
            auto reference = jc::jsonschema::make_json_schema(schema);
            std::vector<std::string> expected = schema_work(reference, instances, 0);
            auto shared = jc::jsonschema::make_json_schema(schema);
            bad = race(threads, [&](int i) { return schema_work(shared, instances, i); }, expected);
            ops += instances.size();
        }
        else if (kind == "jsonpath" || kind == "jmespath")
        {
            std::string text = unhex(t.at(p)); p += 2;
            const jc::json doc = read_val<jc::json>(t, p);
            std::vector<std::string> expected;
            if (kind == "jsonpath")
            {
                auto reference = jc::jsonpath::make_expression<jc::json>(text);
                auto w = [&](const jc::jsonpath::jsonpath_expression<jc::json>& e, int) {
                    std::vector<std::string> out;
                    for (int k = 0; k < 4; ++k)
                    {
                        try
                        {
                            out.push_back(e.evaluate(doc).to_string());
                            out.push_back(e.evaluate(doc, jc::jsonpath::result_options::path | jc::jsonpath::result_options::nodups | jc::jsonpath::result_options::sort).to_string());
                        }
                        catch (const jc::json_exception& ex) { out.push_back(std::string("error ") + ex.what()); }
                    }
                    return out;
                };
                expected = w(reference, 0);
                auto shared = jc::jsonpath::make_expression<jc::json>(text);
                bad = race(threads, [&](int i) { return w(shared, i); }, expected);
            }
            else
            {
                auto reference = jc::jmespath::make_expression<jc::json>(text);
                auto w = [&](const jc::jmespath::jmespath_expression<jc::json>& e, int) {
                    std::vector<std::string> out;
                    for (int k = 0; k < 6; ++k)
                    {
                        try { out.push_back(e.evaluate(doc).to_string()); }
                        catch (const jc::json_exception& ex) { out.push_back(std::string("error ") + ex.what()); }
                    }
                    return out;
                };
                expected = w(reference, 0);
                auto shared = jc::jmespath::make_expression<jc::json>(text);
                bad = race(threads, [&](int i) { return w(shared, i); }, expected);
            }
            ops += 8;
        }
        else if (kind == "json")
        {
            const jc::json doc = read_val<jc::json>(t, p);
            const jc::json other = doc;
            auto w = [&](int) {
                std::vector<std::string> out;
                out.push_back(doc.to_string());
                std::string pretty; doc.dump_pretty(pretty); out.push_back(pretty);
                out.push_back(doc == other ? "eq" : "ne");
                out.push_back(std::to_string(doc.size()));
                jc::json copy(doc); out.push_back(copy.to_string());
                if (doc.is_object())
                {
                    std::string keys;
                    for (const auto& m : doc.object_range()) { keys += std::string(m.key()) + "=" + m.value().to_string() + ";"; out.push_back(doc.contains(m.key()) ? "has" : "no"); out.push_back(doc.at(m.key()).to_string()); }
                    out.push_back(keys);
                    out.push_back(doc.contains("no such key") ? "has" : "no");
                    out.push_back(doc.get_value_or<int>("no such key", 7) == 7 ? "default" : "other");
                }
                if (doc.is_array()) for (std::size_t k = 0; k < doc.size(); ++k) out.push_back(doc[k].to_string() + (doc[k] < doc[0] ? "<" : ">="));
                return out;
            };
            std::vector<std::string> expected = w(0);
            bad = race(threads, w, expected);
            ops += expected.size();
        }
        else throw bad_op{};
        if (!bad.empty()) return bad + " (round " + std::to_string(r) + ")";
    }
    return "ok threads=" + std::to_string(threads) + " rounds=" + std::to_string(rounds) + " ops=" + std::to_string(ops);
}

int main() { return run_main(); }
