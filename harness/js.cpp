// C11 harness: JSON Schema verdicts on the real jsoncons.
//   js <draft: 4|6|7|2019|2020> | <schema> | <instance> [| ast…]
//   -> ok valid|invalid || flags      or   err compile <message>
//   flags: rep (validate with a reporter reports an error exactly when is_valid is false), thr (the throwing validate agrees),
//          vis (the json_visitor form agrees), again (a second use of the compiled schema agrees), sorted (the same schema and instance
//          held in key-sorted json instead of insertion-ordered ojson give the same verdict), walk (walk completes)
#include "common.hpp"
#include <jsoncons_ext/jsonschema/jsonschema.hpp>

using namespace jvh;
namespace jc = jsoncons;
namespace js = jsoncons::jsonschema;

static std::string version_of(const std::string& d)
{
    if (d == "4") return js::schema_version::draft4();
    if (d == "6") return js::schema_version::draft6();
    if (d == "7") return js::schema_version::draft7();
    if (d == "2019") return js::schema_version::draft201909();
    return js::schema_version::draft202012();
}

template <class Json>
static bool verdicts(const js::json_schema<Json>& compiled, const Json& instance, std::string& flags)
{
    bool valid = compiled.is_valid(instance);
    std::size_t errors = 0;
    compiled.validate(instance, [&](const js::validation_message&) { ++errors; return js::walk_result::advance; });
    flags += ((errors == 0) == valid) ? " rep" : " REPORTER-DISAGREES";
    bool threw = false;
    try { compiled.validate(instance); } catch (const js::validation_error&) { threw = true; }
    flags += (threw == !valid) ? " thr" : " THROWING-VALIDATE-DISAGREES";
    jc::json_decoder<jc::ojson> dec;
    compiled.validate(instance, dec);
    jc::ojson out = dec.get_result();
    flags += ((out.is_array() && out.empty()) == valid) ? " vis" : " VISITOR-FORM-DISAGREES";
    flags += (compiled.is_valid(instance) == valid) ? " again" : " SECOND-USE-DISAGREES";
    return valid;
}

std::string jvh::handle(const toks_t& t)
{
    if (t.size() < 6 || t[0] != "js" || t[2] != "|") throw bad_op{};
    std::size_t p = 3;
    jc::ojson schema = read_val<jc::ojson>(t, p);
    if (t.at(p) != "|") throw bad_op{};
    ++p;
    jc::ojson instance = read_val<jc::ojson>(t, p);
    auto options = js::evaluation_options{}.default_version(version_of(t[1]));
    std::string flags;
    try
    {
        auto compiled = js::make_json_schema(schema, options);
        bool valid = verdicts(compiled, instance, flags);
        // the same documents in key-sorted containers
        {
            jc::json s2 = jc::json::parse(schema.to_string());
            jc::json i2 = jc::json::parse(instance.to_string());
            auto c2 = js::make_json_schema(s2, options);
            flags += (c2.is_valid(i2) == valid) ? " sorted" : " MEMBER-ORDER-CHANGES-VERDICT";
        }
        std::size_t steps = 0;
        compiled.walk(instance, [&](const std::string&, const jc::ojson&, const jc::uri&, const jc::ojson&, const jc::jsonpointer::json_pointer&) { ++steps; return js::walk_result::advance; });
        flags += " walk";
        return std::string("ok ") + (valid ? "valid" : "invalid") + " ||" + flags;
    }
    catch (const js::schema_error& e) { return std::string("err compile ") + e.what(); }
    catch (const jc::json_exception& e) { return std::string("err other ") + e.what(); }
}

int main() { return run_main(); }
