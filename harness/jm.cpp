// C13 harness: JMESPath search on the real jsoncons.
//   jm s <exprhex> | <doc> [| ast…]  -> ok <value> || flags     or   err <kind> [message]
//   flags: compiled (compiled expression, evaluated twice, equals one-shot), const (document unchanged), ec (error_code overload agrees)
#include "common.hpp"
#include <jsoncons_ext/jmespath/jmespath.hpp>

using namespace jvh;
namespace jc = jsoncons;
namespace jm = jsoncons::jmespath;

static std::string kind_of(const std::error_code& ec)
{
    if (ec.category() != jm::jmespath_error_category()) return std::string("foreign-category ") + ec.category().name();
    switch (static_cast<jm::jmespath_errc>(ec.value()))
    {
        case jm::jmespath_errc::invalid_type: return "invalid-type";
        case jm::jmespath_errc::invalid_arity: return "invalid-arity";
        case jm::jmespath_errc::unknown_function: return "unknown-function";
        case jm::jmespath_errc::step_cannot_be_zero: return "invalid-value";
        case jm::jmespath_errc::invalid_argument: return "invalid-argument";
        default: return "syntax " + ec.message();
    }
}

template <class Json>
static std::string search(const toks_t& t)
{
    std::string expr = unhex(t.at(2));
    if (t.at(3) != "|") throw bad_op{};
    std::size_t p = 4;
    Json doc = read_val<Json>(t, p);
    const Json before = doc;
    const Json& cdoc = doc;
    std::string flags;
    std::error_code ec;
    Json r = jm::search(cdoc, expr, ec);
    // throwing overload agrees with the error_code overload
    bool threw = false; std::error_code tec; Json r2;
    try { r2 = jm::search(cdoc, expr); }
    catch (const jm::jmespath_error& e) { threw = true; tec = e.code(); }
    if (threw != bool(ec) || (threw && tec != ec) || (!threw && !(r2 == r && show(r2) == show(r)))) flags += " THROWING-OVERLOAD-DIFFERS";
    else flags += " ec";
    // compiled expression, twice
    {
        std::error_code cec;
        auto compiled = jm::make_expression<Json>(expr, cec);
        bool same = true;
        if (cec) same = bool(ec) && cec == ec;
        else
            for (int round = 0; round < 2; ++round)
            {
                std::error_code eec;
                Json v = compiled.evaluate(cdoc, eec);
                if (bool(eec) != bool(ec) || (eec && eec != ec) || (!eec && !(v == r && show(v) == show(r)))) same = false;
            }
        flags += same ? " compiled" : " COMPILED-DIFFERS";
    }
    flags += (doc == before && show(doc) == show(before)) ? " const" : " DOCUMENT-MODIFIED";
    if (ec) return "err " + kind_of(ec) + " ||" + flags;
    return "ok " + show(r) + " ||" + flags;
}

std::string jvh::handle(const toks_t& t)
{
    if (t.size() < 3 || t[0] != "jm") throw bad_op{};
    if (t[1] == "s") return search<jc::json>(t);
    if (t[1] == "o") return search<jc::ojson>(t);
    throw bad_op{};
}

int main() { return run_main(); }
