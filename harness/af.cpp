// C19 harness: allocation failure injected at the 1st, 2nd, … n-th allocation of an operation.
//   af <scenario> | <args as wire values / hex>
//   -> ok allocs=<N> injected=<k> | LEAK n=<i> blocks=<b> | CHANGED n=<i> | INVALID n=<i> <what> | FOREIGN n=<i> <type>
// Global operator new/delete are replaced by a counting allocator (no sanitizer in this harness). Injection is armed only while the
// operation runs; destruction of survivors happens disarmed (destructors are noexcept and may allocate).
#include <cstdio>
#include <cstdlib>
#include <new>

namespace inj {
    long long live_blocks = 0;
    long long countdown = 0;
    long long count = 0;
    bool armed = false;
    bool fired = false;
    bool counting = false;
    struct header { std::size_t size; std::size_t magic; };
    inline void* alloc(std::size_t n)
    {
        if (counting) ++count;
        if (armed && --countdown == 0) { armed = false; fired = true; throw std::bad_alloc(); }
        void* raw = std::malloc(n + sizeof(header));
        if (!raw) throw std::bad_alloc();
        header* h = static_cast<header*>(raw);
        h->size = n; h->magic = 0xA110CA7Eu;
        ++live_blocks;
        return h + 1;
    }
    inline void release(void* p) noexcept
    {
        if (!p) return;
        header* h = static_cast<header*>(p) - 1;
        if (h->magic != 0xA110CA7Eu) { std::fprintf(stderr, "FATAL: bad delete\n"); std::abort(); }
        h->magic = 0;
        --live_blocks;
        std::free(h);
    }
}
// the nothrow forms report an injected failure by returning null (what std::stable_sort's temporary buffer expects)
void* operator new(std::size_t n, const std::nothrow_t&) noexcept
{
    if (inj::counting) ++inj::count;
    if (inj::armed && --inj::countdown == 0) { inj::armed = false; return nullptr; }
    try { bool c = inj::counting; inj::counting = false; bool a = inj::armed; inj::armed = false; void* p = inj::alloc(n); inj::counting = c; inj::armed = a; return p; }
    catch (...) { return nullptr; }
}
void* operator new[](std::size_t n, const std::nothrow_t& t) noexcept { return operator new(n, t); }
void operator delete(void* p, const std::nothrow_t&) noexcept { inj::release(p); }
void operator delete[](void* p, const std::nothrow_t&) noexcept { inj::release(p); }
void* operator new(std::size_t n) { return inj::alloc(n); }
void* operator new[](std::size_t n) { return inj::alloc(n); }
void operator delete(void* p) noexcept { inj::release(p); }
void operator delete[](void* p) noexcept { inj::release(p); }
void operator delete(void* p, std::size_t) noexcept { inj::release(p); }
void operator delete[](void* p, std::size_t) noexcept { inj::release(p); }

#include "common.hpp"
#include <jsoncons_ext/cbor/cbor.hpp>
#include <jsoncons_ext/msgpack/msgpack.hpp>
#include <jsoncons_ext/ubjson/ubjson.hpp>
#include <jsoncons_ext/bson/bson.hpp>
#include <jsoncons_ext/jsonpatch/jsonpatch.hpp>
#include <jsoncons_ext/jsonpath/jsonpath.hpp>
#include <jsoncons_ext/jmespath/jmespath.hpp>
#include <jsoncons_ext/jsonschema/jsonschema.hpp>
#include <jsoncons_ext/mergepatch/mergepatch.hpp>
#include <functional>

using namespace jvh;
namespace jc = jsoncons;

// One scenario = setup (disarmed, builds the state), op (armed), check (disarmed; returns "" or a complaint), teardown (disarmed)
struct scenario
{
    std::function<void()> setup;
    std::function<void()> op;
    std::function<std::string()> check;
    std::function<void()> teardown;
};

static std::string sweep(scenario& s, long long max_points)
{
    // count the allocations of one clean run
    s.setup();
    inj::count = 0; inj::counting = true;
    try { s.op(); } catch (const jc::json_exception&) {}
    inj::counting = false;
    long long total = inj::count;
    s.teardown();
    long long injected = 0;
    long long limit = total < max_points ? total : max_points;
    for (long long n = 1; n <= limit; ++n)
    {
        long long base = inj::live_blocks;
        s.setup();
        long long before_op = inj::live_blocks;
        (void)before_op;
        bool failed = false;
        std::string foreign;
        inj::countdown = n; inj::fired = false; inj::armed = true;
        try { s.op(); }
        catch (const std::bad_alloc&) { failed = true; }
        catch (const jc::json_exception& e) { failed = true; }          // an error code carrying the failure is fine
        catch (const std::exception& e) { foreign = typeid(e).name(); }
        inj::armed = false;
        if (!foreign.empty()) { s.teardown(); return "FOREIGN n=" + std::to_string(n) + " " + foreign; }
        if (failed) ++injected;
// (a failure absorbed inside a noexcept destructor or by a nothrow new cannot reach the caller and is not one the property speaks of)
        std::string complaint = failed ? s.check() : std::string();
        s.teardown();
        if (!complaint.empty()) return complaint + " n=" + std::to_string(n) + " of " + std::to_string(total);
        if (inj::live_blocks != base) return "LEAK n=" + std::to_string(n) + " of " + std::to_string(total) + " blocks=" + std::to_string(inj::live_blocks - base);
    }
    return "ok allocs=" + std::to_string(total) + " injected=" + std::to_string(injected);
}

template <class Json>
static std::string valid(const Json& j)
{
    // a value is valid if it can be serialized, compared with itself and copied (all disarmed)
    try { std::string s; j.dump(s); Json c(j); if (!(c == j)) return "INVALID not-equal-to-its-copy"; }
    catch (const std::exception& e) { return std::string("INVALID ") + e.what(); }
    return "";
}

std::string jvh::handle(const toks_t& t)
{
    if (t.size() < 3 || t[0] != "af" || t[2] != "|") throw bad_op{};
    const std::string& sc = t[1];
    std::size_t p = 3;
    long long max_points = 400;
    scenario s;
    if (sc == "parse")
    {
        auto text = std::make_shared<std::string>(unhex(t.at(3)));
        auto out = std::make_shared<std::unique_ptr<jc::json>>();
        s.setup = [] {};
        s.op = [=] { out->reset(new jc::json(jc::json::parse(*text))); };
        s.check = [=] { return std::string(); };
        s.teardown = [=] { out->reset(); };
        return sweep(s, max_points);
    }
    if (sc == "decode")
    {
        std::string fmt = t.at(3);
        auto bytes = std::make_shared<std::vector<uint8_t>>();
        { std::string b = unhex(t.at(4)); bytes->assign(b.begin(), b.end()); }
        auto out = std::make_shared<std::unique_ptr<jc::ojson>>();
        s.setup = [] {};
        s.op = [=] {
            if (fmt == "cbor") out->reset(new jc::ojson(jc::cbor::decode_cbor<jc::ojson>(*bytes)));
            else if (fmt == "msgpack") out->reset(new jc::ojson(jc::msgpack::decode_msgpack<jc::ojson>(*bytes)));
            else if (fmt == "ubjson") out->reset(new jc::ojson(jc::ubjson::decode_ubjson<jc::ojson>(*bytes)));
            else out->reset(new jc::ojson(jc::bson::decode_bson<jc::ojson>(*bytes)));
        };
        s.check = [=] { return std::string(); };
        s.teardown = [=] { out->reset(); };
        return sweep(s, max_points);
    }
    // the remaining scenarios take wire values
    auto a0 = std::make_shared<jc::json>(read_val<jc::json>(t, p));
    std::shared_ptr<jc::json> b0;
    if (p < t.size() && t[p] == "|") { ++p; b0 = std::make_shared<jc::json>(read_val<jc::json>(t, p)); }
    auto a = std::make_shared<std::unique_ptr<jc::json>>();
    auto b = std::make_shared<std::unique_ptr<jc::json>>();
    s.setup = [=] { a->reset(new jc::json(*a0)); if (b0) b->reset(new jc::json(*b0)); };
    s.teardown = [=] { a->reset(); b->reset(); };
    auto unchanged = [=]() -> std::string {
        std::string v = valid(**a); if (!v.empty()) return v;
        if (b0) { v = valid(**b); if (!v.empty()) return v + " (source)"; if (!(**b == *b0)) return "CHANGED source"; }
        return "";
    };
    if (sc == "copy")
    {
        auto out = std::make_shared<std::unique_ptr<jc::json>>();
        s.op = [=] { out->reset(new jc::json(**a)); };
        s.check = [=] { out->reset(); if (!(**a == *a0)) return std::string("CHANGED source"); return valid(**a); };
        auto td = s.teardown; s.teardown = [=] { out->reset(); td(); };
    }
    else if (sc == "assign")
    {
        s.op = [=] { **a = **b; };
        // basic guarantee: both stay valid (same-kind containers are assigned element by element and may stop half way)
        s.check = unchanged;
    }
    else if (sc == "insert")
    {
        s.op = [=] {
            if ((*a)->is_object()) { for (int i = 0; i < 6; ++i) (*a)->insert_or_assign("key" + std::to_string(i), **b); }
            else if ((*a)->is_array()) { for (int i = 0; i < 6; ++i) (*a)->push_back(**b); (*a)->insert((*a)->array_range().begin(), **b); }
        };
        s.check = unchanged;
    }
    else if (sc == "patch")
    {
        s.op = [=] { jc::jsonpatch::apply_patch(**a, **b); };
        s.check = [=] { std::string v = unchanged(); if (!v.empty()) return v; if (!(**a == *a0)) return std::string("CHANGED target-of-failed-apply_patch"); return std::string(); };
    }
    else if (sc == "mergepatch")
    {
        s.op = [=] { jc::mergepatch::apply_merge_patch(**a, **b); };
        s.check = unchanged;
    }
    else if (sc == "jsonpath")
    {
        auto text = std::make_shared<std::string>(b0 ? b0->as<std::string>() : "$..*");
        s.op = [=] { jc::json r = jc::jsonpath::json_query(**a, *text); jc::json r2 = jc::jsonpath::json_query(**a, *text, jc::jsonpath::result_options::path | jc::jsonpath::result_options::nodups | jc::jsonpath::result_options::sort); };
        s.check = [=] { if (!(**a == *a0)) return std::string("CHANGED document"); return valid(**a); };
    }
    else if (sc == "jmespath")
    {
        auto text = std::make_shared<std::string>(b0 ? b0->as<std::string>() : "*");
        s.op = [=] { jc::json r = jc::jmespath::search(**a, *text); };
        s.check = [=] { if (!(**a == *a0)) return std::string("CHANGED document"); return valid(**a); };
    }
    else if (sc == "schema")
    {
        s.op = [=] { auto c = jc::jsonschema::make_json_schema(**a); c.is_valid(**b); std::size_t n = 0; c.validate(**b, [&](const jc::jsonschema::validation_message&) { ++n; return jc::jsonschema::walk_result::advance; }); };
        s.check = unchanged;
    }
    else if (sc == "dump")
    {
        s.op = [=] { std::string o; (*a)->dump(o); std::string o2; (*a)->dump_pretty(o2); std::vector<uint8_t> c; jc::cbor::encode_cbor(**a, c); std::vector<uint8_t> m; jc::msgpack::encode_msgpack(**a, m); };
        s.check = [=] { if (!(**a == *a0)) return std::string("CHANGED document"); return valid(**a); };
    }
    else throw bad_op{};
    return sweep(s, max_points);
}

int main() { return run_main(); }
