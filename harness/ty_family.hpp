// C17 harness: typed conversion through the basic_json route and the streaming route, for a fixed family of C++ types.
// Shared by ty.cpp, ty2.cpp, ty3.cpp, ty4.cpp (TY_PART selects the slice of the family; the slices are built in parallel because
// every type instantiates both routes in every format).
//   ty <typeId> <json|cbor|msgpack|ubjson|bson> | <json value>
//   -> A:<ok value | err> B:<ok value | err> flags
//      A  = j.as<T>() re-expressed as json (the basic_json route)
//      B  = decode_X<T>(encode_X(j)) re-expressed by encode_X(T) and decode_X<json> (the streaming route, both directions)
//      flags: rt (decode_X<T>(encode_X(a)) gives a again), enc (encode_X(a) and encode_X(json(a)) decode to the same json),
//             try (the try_ variants agree with the throwing ones)
#include "common.hpp"
#include <jsoncons_ext/cbor/cbor.hpp>
#include <jsoncons_ext/msgpack/msgpack.hpp>
#include <jsoncons_ext/ubjson/ubjson.hpp>
#include <jsoncons_ext/bson/bson.hpp>
#include <array>
#include <deque>
#include <forward_list>
#include <list>
#include <map>
#include <memory>
#include <optional>
#include <set>
#include <tuple>
#include <unordered_map>
#include <unordered_set>
#include <variant>

using namespace jvh;
namespace jc = jsoncons;

namespace fam {
struct S1                              // N_MEMBER: two mandatory, declaration order not alphabetical
{
    std::string zeta;
    int32_t alpha{0};
    std::optional<int32_t> mid;
    std::optional<std::string> note;
};
struct S2                              // ALL_MEMBER, nesting S1
{
    std::vector<S1> items;
    std::map<std::string, S1> by_name;
    bool flag{false};
};
struct S3                              // N_MEMBER with one mandatory member, the first optional one a smart pointer
{
    uint16_t id{0};
    std::shared_ptr<std::string> label;
    std::optional<std::vector<int8_t>> bytes;
};
enum class Colour { red, green, blue };
struct S4                              // N_MEMBER holding one of every standard container / fixed shape (object-rooted: goes through BSON too)
{
    std::forward_list<std::string> fl;
    std::list<bool> li;                // (list/deque/set of a numeric type do not compile on the streaming route: typed-array path)
    std::deque<std::string> dq;
    std::pair<int32_t, std::string> pr;
    std::tuple<int32_t, std::string> tp;
    std::array<int32_t, 2> ar;
    std::multiset<std::string> st;
    std::optional<std::pair<int32_t, int32_t>> op;
};
}
JSONCONS_N_MEMBER_TRAITS(fam::S1, 2, zeta, alpha, mid, note)
JSONCONS_ALL_MEMBER_TRAITS(fam::S2, items, by_name, flag)
JSONCONS_N_MEMBER_TRAITS(fam::S3, 1, id, label, bytes)
JSONCONS_ENUM_TRAITS(fam::Colour, red, green, blue)
JSONCONS_N_MEMBER_TRAITS(fam::S4, 7, fl, li, dq, pr, tp, ar, st, op)

enum class fmt_t { json, cbor, msgpack, ubjson, bson };

// Bson = false: the type's JSON form is not an object, BSON cannot hold it at the root (the BSON instantiations are left out)
template <bool Bson, class T>
static std::string enc(fmt_t f, const T& v)
{
    std::string s;
    std::vector<uint8_t> b;
    switch (f)
    {
        case fmt_t::json: jc::encode_json(v, s); return s;
        case fmt_t::cbor: jc::cbor::encode_cbor(v, b); break;
        case fmt_t::msgpack: jc::msgpack::encode_msgpack(v, b); break;
        case fmt_t::ubjson: jc::ubjson::encode_ubjson(v, b); break;
        case fmt_t::bson:
            if constexpr (Bson) { jc::bson::encode_bson(v, b); break; }
            else throw bad_op{};
    }
    return std::string(b.begin(), b.end());
}

template <bool Bson, class T>
static T dec(fmt_t f, const std::string& s)
{
    std::vector<uint8_t> b(s.begin(), s.end());
    switch (f)
    {
        case fmt_t::json: return jc::decode_json<T>(s);
        case fmt_t::cbor: return jc::cbor::decode_cbor<T>(b);
        case fmt_t::msgpack: return jc::msgpack::decode_msgpack<T>(b);
        case fmt_t::ubjson: return jc::ubjson::decode_ubjson<T>(b);
        default:
            if constexpr (Bson) return jc::bson::decode_bson<T>(b);
            else throw bad_op{};
    }
}

template <bool Bson, class T>
static bool try_dec_ok(fmt_t f, const std::string& s)
{
    std::vector<uint8_t> b(s.begin(), s.end());
    switch (f)
    {
        case fmt_t::json: return bool(jc::try_decode_json<T>(s));
        case fmt_t::cbor: return bool(jc::cbor::try_decode_cbor<T>(b));
        case fmt_t::msgpack: return bool(jc::msgpack::try_decode_msgpack<T>(b));
        case fmt_t::ubjson: return bool(jc::ubjson::try_decode_ubjson<T>(b));
        default:
            if constexpr (Bson) return bool(jc::bson::try_decode_bson<T>(b));
            else throw bad_op{};
    }
}

// "the same typed value again": through the JSON form, except for unordered_set, whose iteration order is not part of the value
template <class T>
static bool same_value(const T& x, const jc::json& jx, const T&) { return jc::json(x) == jx; }
template <class E>
static bool same_value(const std::unordered_set<E>& x, const jc::json&, const std::unordered_set<E>& y) { return x == y; }

template <class T, bool Bson = false>
static std::string run(fmt_t f, const jc::json& j)
{
    if (f == fmt_t::bson && !Bson) throw bad_op{};
    std::string out;
    std::string flags;
    // route A
    bool a_ok = false;
    jc::json ja;
    std::unique_ptr<T> a;
    try
    {
        a.reset(new T(j.template as<T>()));
        ja = jc::json(*a);
        a_ok = true;
        out += "A:ok " + show(ja);
    }
    catch (const jc::json_exception&) { out += "A:err"; }
    {
        auto r = j.template try_as<T>();
        flags += (bool(r) == a_ok) ? " tryA" : " TRY-AS-DISAGREES";
    }
    // route B
    std::string bytes;
    try { bytes = enc<true>(f, j); }
    catch (const jc::json_exception& e) { return out + " B:unencodable ||" + flags; }
    bool b_ok = false;
    jc::json jb;
    try
    {
        T b = dec<Bson, T>(f, bytes);
        std::string bytes_b = enc<Bson>(f, b);
        jb = dec<true, jc::json>(f, bytes_b);
        b_ok = true;
        out += " B:ok " + show(jb);
    }
    catch (const jc::json_exception&) { out += " B:err"; }
    flags += (try_dec_ok<Bson, T>(f, bytes) == b_ok || !b_ok) ? " tryB" : " TRY-DECODE-DISAGREES";
    if (a_ok)
    {
        // typed round trip and route-independent encodings
        try
        {
            std::string ea = enc<Bson>(f, *a);           // streaming encode of the typed value
            jc::json via_stream = dec<true, jc::json>(f, ea);
            std::string ej = enc<true>(f, ja);           // encode of its basic_json form
            jc::json via_dom = dec<true, jc::json>(f, ej);
            flags += (via_stream == via_dom) ? " enc" : " ENCODINGS-DIFFER";
            T back = dec<Bson, T>(f, ea);
            flags += same_value(back, ja, *a) ? " rt" : " ROUND-TRIP-DIFFERS";
        }
        catch (const jc::json_exception& e) { flags += std::string(" TYPED-ENCODE-OR-DECODE-FAILED(") + e.what() + ")"; }
    }
    return out + " ||" + flags;
}

using T_tuple = std::tuple<int32_t, std::string, bool>;
using T_variant = std::variant<int32_t, std::string>;
using T_pis = std::pair<int32_t, std::string>;
using T_pii = std::pair<int32_t, int32_t>;
using std::string;

static std::string dispatch(const std::string& id, fmt_t f, const jc::json& j)
{
#if TY_PART == 1
    if (id == "i32") return run<int32_t>(f, j);
    if (id == "u8") return run<uint8_t>(f, j);
    if (id == "i64") return run<int64_t>(f, j);
    if (id == "u64") return run<uint64_t>(f, j);
    if (id == "str") return run<std::string>(f, j);
    if (id == "bool") return run<bool>(f, j);
    if (id == "vi32") return run<std::vector<int32_t>>(f, j);
    if (id == "mi16") return run<std::map<std::string, int16_t>, true>(f, j);
    if (id == "tup") return run<T_tuple>(f, j);
    if (id == "oi32") return run<std::optional<int32_t>>(f, j);
    if (id == "vos") return run<std::vector<std::optional<std::string>>>(f, j);
    if (id == "pair") return run<T_pis>(f, j);
    if (id == "arr3") return run<std::array<int32_t, 3>>(f, j);
    if (id == "vvu16") return run<std::vector<std::vector<uint16_t>>>(f, j);
    if (id == "sets") return run<std::set<std::string>>(f, j);
    if (id == "enum") return run<fam::Colour>(f, j);
    if (id == "var") return run<T_variant>(f, j);
#elif TY_PART == 2
    if (id == "s1") return run<fam::S1, true>(f, j);
    if (id == "s2") return run<fam::S2, true>(f, j);
    if (id == "s3") return run<fam::S3, true>(f, j);
    if (id == "sps1") return run<std::shared_ptr<fam::S1>>(f, j);
    if (id == "vs1") return run<std::vector<fam::S1>>(f, j);
    if (id == "ms3") return run<std::map<std::string, fam::S3>, true>(f, j);
#elif TY_PART == 3
    // the standard sequence and set containers (push_back / insert / insert_after construction; with and without size())
    if (id == "fls") return run<std::forward_list<string>>(f, j);
    if (id == "flp") return run<std::forward_list<T_pis>>(f, j);
    if (id == "lso") return run<std::list<std::optional<int32_t>>>(f, j);
    if (id == "lss") return run<std::list<string>>(f, j);
    if (id == "dqb") return run<std::deque<bool>>(f, j);
    if (id == "dqs") return run<std::deque<std::optional<string>>>(f, j);
    if (id == "msets") return run<std::multiset<string>>(f, j);
    if (id == "usets") return run<std::unordered_set<string>>(f, j);
    if (id == "umi") return run<std::unordered_map<string, int32_t>, true>(f, j);
    if (id == "ovi") return run<std::optional<std::vector<int32_t>>>(f, j);
    if (id == "moi") return run<std::map<string, std::optional<int32_t>>, true>(f, j);
    if (id == "mfl") return run<std::map<string, std::forward_list<string>>, true>(f, j);
#elif TY_PART == 4
    // fixed shapes (pair, tuple<N>, array<T,N>) on their own, nested in each other and in containers
    if (id == "vpair") return run<std::vector<T_pis>>(f, j);
    if (id == "mpair") return run<std::map<string, T_pii>, true>(f, j);
    if (id == "vtup") return run<std::vector<std::tuple<int32_t, string>>>(f, j);
    if (id == "mtup") return run<std::map<string, std::tuple<bool, int32_t, string>>, true>(f, j);
    if (id == "tup1") return run<std::tuple<int32_t>>(f, j);
    if (id == "tup2") return run<std::tuple<string, int32_t>>(f, j);
    if (id == "ppair") return run<std::pair<T_pii, string>>(f, j);
    if (id == "pvo") return run<std::pair<std::optional<int32_t>, std::vector<string>>>(f, j);
    if (id == "arr2s") return run<std::array<string, 2>>(f, j);
    if (id == "arr22") return run<std::array<std::array<int32_t, 2>, 2>>(f, j);
    if (id == "varr") return run<std::vector<std::array<int32_t, 2>>>(f, j);
    if (id == "marr") return run<std::map<string, std::array<int32_t, 3>>, true>(f, j);
    if (id == "opair") return run<std::optional<T_pis>>(f, j);
    if (id == "s4") return run<fam::S4, true>(f, j);
#else
#error "TY_PART must be 1..4"
#endif
    throw bad_op{};
}

std::string jvh::handle(const toks_t& t)
{
    if (t.size() < 5 || t[0] != "ty" || t[3] != "|") throw bad_op{};
    fmt_t f = t[2] == "json" ? fmt_t::json : t[2] == "cbor" ? fmt_t::cbor : t[2] == "msgpack" ? fmt_t::msgpack : t[2] == "ubjson" ? fmt_t::ubjson
              : t[2] == "bson" ? fmt_t::bson : throw bad_op{};
    std::size_t p = 4;
    jc::json j = read_val<jc::json>(t, p);
    return dispatch(t[1], f, j);
}

int main() { return run_main(); }
