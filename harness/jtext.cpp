// C01/C02/C03 harness: JSON text parsing (all delivery modes) and serialisation (all layout options).
#include "common.hpp"
#include <jsoncons/json_cursor.hpp>
#include <sstream>
using namespace jvh;
using jsoncons::json;
using jsoncons::ojson;

static std::string xarg(const std::string& t)
{
    if (t.empty() || t[0] != 'x') throw bad_op{};
    return unhex(t, 1);
}

// opts: c<0|1> t<0|1> d<depth> n<0|1> b<0|1>   e.g. c1t0d1024n0b1
static jsoncons::json_options parse_opts(const std::string& s)
{
    jsoncons::json_options o;
    std::size_t i = 0;
    while (i < s.size())
    {
        char k = s[i++];
        std::size_t j = i;
        while (j < s.size() && (std::isdigit(static_cast<unsigned char>(s[j])))) ++j;
        long v = std::strtol(s.substr(i, j - i).c_str(), nullptr, 10);
        i = j;
        switch (k)
        {
            case 'c': o.allow_comments(v != 0); break;
            case 't': o.allow_trailing_comma(v != 0); break;
            case 'd': o.max_nesting_depth(static_cast<int>(v)); break;
            case 'n': o.lossless_number(v != 0); break;
            case 'b': o.lossless_bignum(v != 0); break;
            default: throw bad_op{};
        }
    }
    return o;
}

static std::string errname(const std::error_code& ec)
{
    return "err " + std::to_string(ec.value());
}

template <class Json>
static std::string outcome(jsoncons::json_decoder<Json>& dec, const std::error_code& ec)
{
    if (ec) return errname(ec);
    if (!dec.is_valid()) return "err novalue";
    return "ok " + show(dec.get_result());
}

template <class Json>
static std::string push_chunks(const std::string& text, const std::vector<std::size_t>& cuts, const jsoncons::json_options& o)
{
    jsoncons::json_decoder<Json> dec;
    jsoncons::json_parser p(o);
    std::error_code ec;
    // the pieces, in order (API contract as in basic_json_reader: give the parser more input only when it has
    // consumed what it had; once it has stopped, the rest of the input may only be white space)
    std::vector<std::pair<std::size_t, std::size_t>> pieces;
    std::size_t prev = 0;
    for (std::size_t k = 0; k <= cuts.size(); ++k)
    {
        std::size_t end = k < cuts.size() ? cuts[k] : text.size();
        if (end > prev) pieces.emplace_back(prev, end - prev);
        prev = end;
    }
    std::size_t next = 0;
    while (!ec && !p.stopped())
    {
        if (p.source_exhausted())
        {
            if (next == pieces.size()) break;
            p.update(text.data() + pieces[next].first, pieces[next].second);
            ++next;
        }
        p.parse_some(dec, ec);
    }
    if (!ec && !p.stopped()) p.finish_parse(dec, ec);
    if (!ec) p.check_done(ec);
    while (!ec && next < pieces.size())
    {
        p.update(text.data() + pieces[next].first, pieces[next].second);
        ++next;
        p.check_done(ec);
    }
    return outcome(dec, ec);
}

// events as the cursor / iterators report them
static void ev_str(const jsoncons::staj_event& e, std::string& out)
{
    using jsoncons::staj_event_type;
    switch (e.event_type())
    {
        case staj_event_type::begin_array: out += " BA"; break;
        case staj_event_type::end_array: out += " EA"; break;
        case staj_event_type::begin_object: out += " BO"; break;
        case staj_event_type::end_object: out += " EO"; break;
        case staj_event_type::key: { auto s = e.get<jsoncons::string_view>(); out += " K" + hex(s.begin(), s.end()); break; }
        case staj_event_type::string_value: { auto s = e.get<jsoncons::string_view>(); out += " S" + hex(s.begin(), s.end()) + tag_name(e.tag()); break; }
        case staj_event_type::null_value: out += " N"; break;
        case staj_event_type::bool_value: out += e.get<bool>() ? " T" : " F"; break;
        case staj_event_type::int64_value: out += " I" + std::to_string(e.get<int64_t>()); break;
        case staj_event_type::uint64_value: out += " I" + std::to_string(e.get<uint64_t>()); break;
        case staj_event_type::double_value: { double d = e.get<double>(); uint64_t b; std::memcpy(&b, &d, 8); out += " D" + hex64(b); break; }
        default: out += " ?"; break;
    }
}

struct event_printer : public jsoncons::json_visitor
{
    std::string out;
    bool visit_begin_object(jsoncons::semantic_tag, const jsoncons::ser_context&, std::error_code&) override { out += " BO"; return true; }
    bool visit_end_object(const jsoncons::ser_context&, std::error_code&) override { out += " EO"; return true; }
    bool visit_begin_array(jsoncons::semantic_tag, const jsoncons::ser_context&, std::error_code&) override { out += " BA"; return true; }
    bool visit_end_array(const jsoncons::ser_context&, std::error_code&) override { out += " EA"; return true; }
    bool visit_key(const string_view_type& s, const jsoncons::ser_context&, std::error_code&) override { out += " K" + hex(s.begin(), s.end()); return true; }
    bool visit_null(jsoncons::semantic_tag, const jsoncons::ser_context&, std::error_code&) override { out += " N"; return true; }
    bool visit_string(const string_view_type& s, jsoncons::semantic_tag tag, const jsoncons::ser_context&, std::error_code&) override { out += " S" + hex(s.begin(), s.end()) + tag_name(tag); return true; }
    bool visit_byte_string(const jsoncons::byte_string_view&, jsoncons::semantic_tag, const jsoncons::ser_context&, std::error_code&) override { out += " ?"; return true; }
    bool visit_uint64(uint64_t v, jsoncons::semantic_tag, const jsoncons::ser_context&, std::error_code&) override { out += " I" + std::to_string(v); return true; }
    bool visit_int64(int64_t v, jsoncons::semantic_tag, const jsoncons::ser_context&, std::error_code&) override { out += " I" + std::to_string(v); return true; }
    bool visit_half(uint16_t, jsoncons::semantic_tag, const jsoncons::ser_context&, std::error_code&) override { out += " ?"; return true; }
    bool visit_double(double d, jsoncons::semantic_tag, const jsoncons::ser_context&, std::error_code&) override { uint64_t b; std::memcpy(&b, &d, 8); out += " D" + hex64(b); return true; }
    bool visit_bool(bool v, jsoncons::semantic_tag, const jsoncons::ser_context&, std::error_code&) override { out += v ? " T" : " F"; return true; }
    void visit_flush() override {}
};

// the push parser fed the given pieces, events as the visitor sees them, and (hook) the suspended state after every piece
// that left the parser running:  <ok|err N> |<events> ##<sig>;<sig>...
static std::string parser_sig(const jsoncons::json_parser& p)
{
    std::string out;
#if defined(JSONCONS_VERIF)
    p.verif_inspect([&](int st, int ns, int ss, int level, const auto& stack, const auto& buf, uint32_t cp, uint32_t cp2, bool noesc) {
        out = std::to_string(st) + "/" + std::to_string(level) + "/";
        for (std::size_t i = 0; i < stack.size(); ++i) { if (i) out += "."; out += std::to_string(static_cast<int>(stack[i])); }
        if (st == 17) out += "/n" + std::to_string(ns) + "/" + hex(buf.begin(), buf.end());
        else if (st == 15)
        {
            out += "/s" + std::to_string(ss) + "/" + hex(buf.begin(), buf.end()) + (noesc ? "" : "e");
            if (ss >= 3 && ss <= 8) out += "/" + std::to_string(cp);
            else if (ss >= 9) out += "/" + std::to_string(cp) + "," + std::to_string(cp2);
        }
    });
#endif
    return out;
}

static std::string push_piece_events(const std::string& text, const std::vector<std::size_t>& cuts, const jsoncons::json_options& o)
{
    event_printer pr;
    jsoncons::json_parser p(o);
    std::error_code ec;
    std::vector<std::pair<std::size_t, std::size_t>> pieces;
    std::size_t prev = 0;
    for (std::size_t k = 0; k <= cuts.size(); ++k)
    {
        std::size_t end = k < cuts.size() ? cuts[k] : text.size();
        if (end > prev) pieces.emplace_back(prev, end - prev);
        prev = end;
    }
    std::string sigs;
    std::size_t next = 0;
    bool fed = false;
    while (!ec && !p.stopped())
    {
        if (p.source_exhausted())
        {
            if (fed) { if (!sigs.empty()) sigs += ";"; sigs += parser_sig(p); }
            if (next == pieces.size()) break;
            p.update(text.data() + pieces[next].first, pieces[next].second);
            ++next;
            fed = true;
        }
        p.parse_some(pr, ec);
    }
    if (!ec && !p.stopped()) p.finish_parse(pr, ec);
    if (!ec) p.check_done(ec);
    while (!ec && next < pieces.size())
    {
        p.update(text.data() + pieces[next].first, pieces[next].second);
        ++next;
        p.check_done(ec);
    }
    return (ec ? errname(ec) : std::string("ok")) + " |" + pr.out + " ##" + sigs;
}

static std::string push_events(const std::string& text, const jsoncons::json_options& o)
{
    event_printer pr;
    jsoncons::json_string_reader r(text, pr, o);
    std::error_code ec;
    r.read(ec);
    return (ec ? errname(ec) : std::string("ok")) + " |" + pr.out;
}

template <class Cursor>
static std::string cursor_events(Cursor& cur, std::error_code& ec)
{
    std::string out;
    while (!ec && !cur.done())
    {
        ev_str(cur.current(), out);
        cur.next(ec);
    }
    return (ec ? errname(ec) : std::string("ok")) + " |" + out;
}

static uint64_t fnv(const std::string& s)
{
    uint64_t h = 1469598103934665603ull;
    for (unsigned char c : s) { h ^= c; h *= 1099511628211ull; }
    return h;
}

template <class Json>
static std::string deliver(const std::string& text, const jsoncons::json_options& o)
{
    std::string base = push_chunks<Json>(text, {}, o);
    std::string diffs;
    auto note = [&](const std::string& mode, const std::string& got) {
        if (got != base && diffs.size() < 600) diffs += " [" + mode + ": " + got.substr(0, 120) + "]";
    };
    std::size_t n = text.size();
    if (n <= 64)
        for (std::size_t i = 1; i < n; ++i) note("split@" + std::to_string(i), push_chunks<Json>(text, {i}, o));
    for (std::size_t k = 1; k <= 7 && k < n; ++k)
    {
        std::vector<std::size_t> cuts;
        for (std::size_t c = k; c < n; c += k) cuts.push_back(c);
        note("uniform" + std::to_string(k), push_chunks<Json>(text, cuts, o));
    }
    uint64_t h = fnv(text);
    for (int rep = 0; rep < 3 && n > 2; ++rep)
    {
        std::vector<std::size_t> cuts;
        for (std::size_t c = 1; c < n; ++c) { h = h * 6364136223846793005ull + 1442695040888963407ull; if ((h >> 33) % 4 == 0) cuts.push_back(c); }
        note("random" + std::to_string(rep), push_chunks<Json>(text, cuts, o));
    }
    {
        jsoncons::json_decoder<Json> dec; std::error_code ec;
        jsoncons::json_string_reader r(text, dec, o); r.read(ec);
        note("string_reader", outcome(dec, ec));
    }
    {
        jsoncons::json_decoder<Json> dec; std::error_code ec;
        std::istringstream is(text);
        jsoncons::json_stream_reader r(is, dec, o); r.read(ec);
        note("stream_reader", outcome(dec, ec));
    }
    for (std::size_t buflen : {1u, 2u, 3u, 5u, 16u})
    {
        jsoncons::json_decoder<Json> dec; std::error_code ec;
        std::istringstream is(text);
        jsoncons::json_stream_reader r(jsoncons::stream_source<char>(is, buflen), dec, o); r.read(ec);
        note("stream_reader/buf" + std::to_string(buflen), outcome(dec, ec));
    }
    {
        jsoncons::json_decoder<Json> dec; std::error_code ec;
        jsoncons::basic_json_reader<char, jsoncons::iterator_source<std::string::const_iterator>> r(
            jsoncons::iterator_source<std::string::const_iterator>(text.begin(), text.end()), dec, o);
        r.read(ec);
        note("iterator_reader", outcome(dec, ec));
    }
    {
        jsoncons::json_decoder<Json> dec; std::error_code ec;
        jsoncons::json_string_cursor cur(text, o, ec);
        if (!ec) cur.read_to(dec, ec);
        if (!ec) cur.check_done(ec);
        note("cursor.read_to", outcome(dec, ec));
    }
    {
        // events: push visitor vs pull cursor (string and stream)
        std::string pe = push_events(text, o);
        std::error_code ec;
        jsoncons::json_string_cursor cur(text, o, ec);
        std::string ce = cursor_events(cur, ec);
        if (!ec) { cur.check_done(ec); if (ec) ce = errname(ec) + ce.substr(2); }
        auto same_ev = [](const std::string& a, const std::string& b) {
            // on failure only the error kind has to agree; on success the whole event sequence
            if (a.compare(0, 2, "ok") == 0 || b.compare(0, 2, "ok") == 0) return a == b;
            return a.substr(0, a.find(" |")) == b.substr(0, b.find(" |"));
        };
        if (!same_ev(ce, pe) && diffs.size() < 600) diffs += " [cursor-events: " + ce.substr(0, 100) + " vs " + pe.substr(0, 100) + "]";
        std::error_code ec2;
        std::istringstream is(text);
        jsoncons::json_stream_cursor cur2(jsoncons::stream_source<char>(is, 2), o, ec2);
        std::string ce2 = cursor_events(cur2, ec2);
        if (!ec2) { cur2.check_done(ec2); if (ec2) ce2 = errname(ec2) + ce2.substr(2); }
        if (!same_ev(ce2, pe) && diffs.size() < 600) diffs += " [stream-cursor-events: " + ce2.substr(0, 100) + " vs " + pe.substr(0, 100) + "]";
    }
    if (diffs.empty()) return "same " + base;
    return "DIFF " + base + " ##" + diffs;
}

// dump options: comma separated k=v
static void dump_opts(const std::string& spec, jsoncons::json_options& o, bool& pretty)
{
    pretty = false;
    std::size_t i = 0;
    while (i < spec.size())
    {
        std::size_t j = spec.find(',', i);
        if (j == std::string::npos) j = spec.size();
        std::string kv = spec.substr(i, j - i);
        i = j + 1;
        if (kv.empty() || kv == "-") continue;
        auto eq = kv.find('=');
        if (eq == std::string::npos) throw bad_op{};
        std::string k = kv.substr(0, eq), v = kv.substr(eq + 1);
        long n = std::strtol(v.c_str(), nullptr, 10);
        if (k == "p") pretty = n != 0;
        else if (k == "is") o.indent_size(static_cast<uint8_t>(n));
        else if (k == "ic") o.indent_char(static_cast<char>(n));
        else if (k == "sc") o.spaces_around_colon(static_cast<jsoncons::spaces_option>(n));
        else if (k == "sm") o.spaces_around_comma(static_cast<jsoncons::spaces_option>(n));
        else if (k == "po") o.pad_inside_object_braces(n != 0);
        else if (k == "pa") o.pad_inside_array_brackets(n != 0);
        else if (k == "rl") o.root_line_splits(static_cast<jsoncons::line_split_kind>(n));
        else if (k == "oo") o.object_object_line_splits(static_cast<jsoncons::line_split_kind>(n));
        else if (k == "ao") o.array_object_line_splits(static_cast<jsoncons::line_split_kind>(n));
        else if (k == "oa") o.object_array_line_splits(static_cast<jsoncons::line_split_kind>(n));
        else if (k == "aa") o.array_array_line_splits(static_cast<jsoncons::line_split_kind>(n));
        else if (k == "ll") o.line_length_limit(static_cast<std::size_t>(n));
        else if (k == "nl") o.new_line_chars(unhex(v));
        else if (k == "ea") o.escape_all_non_ascii(n != 0);
        else if (k == "es") o.escape_solidus(n != 0);
        else throw bad_op{};
    }
}

template <class Json>
static std::string dump(const toks_t& t)
{
    jsoncons::json_options o;
    bool pretty;
    dump_opts(t.at(3), o, pretty);
    std::size_t pos = 4;
    Json v = read_val<Json>(t, pos);
    if (pos != t.size()) throw bad_op{};
    std::string s;
    if (pretty) v.dump_pretty(s, o); else v.dump(s, o);
    std::string out = "ok x" + hex(s);
    // re-parse (default options) and re-serialise with the same options
    std::error_code ec;
    jsoncons::json_decoder<Json> dec;
    jsoncons::json_string_reader r(s, dec);
    r.read(ec);
    if (ec || !dec.is_valid()) return out + " | err " + std::to_string(ec.value());
    Json back = dec.get_result();
    std::string s2;
    if (pretty) back.dump_pretty(s2, o); else back.dump(s2, o);
    out += " | " + show(back) + " | " + (s2 == s ? "same" : "diff x" + hex(s2));
    // the other entry points must print the same text
    std::string s3;
    {
        std::ostringstream os;
        if (pretty) os << jsoncons::pretty_print(v, o); else os << jsoncons::print(v, o);
        s3 = os.str();
    }
    std::string s4;
    jsoncons::encode_json(v, s4, o, pretty ? jsoncons::indenting::indent : jsoncons::indenting::no_indent);
    out += (s3 == s && s4 == s) ? " | entry-same" : " | entry-diff";
    std::string sc;
    v.dump(sc, o);
    out += " | cx" + hex(sc);
    return out;
}

std::string jvh::handle(const toks_t& t)
{
    if (t.size() < 3 || t[0] != "jt") throw bad_op{};
    const std::string& op = t[1];
    if (op == "parse")
    {
        auto o = parse_opts(t.at(3));
        std::string text = xarg(t.at(4));
        if (t[2] == "j") return push_chunks<json>(text, {}, o);
        if (t[2] == "o") return push_chunks<ojson>(text, {}, o);
        throw bad_op{};
    }
    if (op == "esc")
    {
        std::string in = xarg(t.at(4));
        std::string out;
        try
        {
            jsoncons::detail::escape_string(in.data(), in.size(), t.at(2) == "1", t.at(3) == "1", out);
        }
        catch (const jsoncons::ser_error&) { return "err"; }
        return "ok x" + hex(out);
    }
    if (op == "pevents")
    {
        auto o = parse_opts(t.at(2));
        std::string text = xarg(t.at(3));
        std::vector<std::size_t> cuts;
        if (t.at(4) != "-")
        {
            std::size_t i = 0; const std::string& c = t[4];
            while (i < c.size()) { std::size_t j = c.find(',', i); if (j == std::string::npos) j = c.size(); cuts.push_back(std::stoul(c.substr(i, j - i))); i = j + 1; }
        }
        return push_piece_events(text, cuts, o);
    }
    if (op == "events") return push_events(xarg(t.at(3)), parse_opts(t.at(2)));
    if (op == "deliver")
    {
        auto o = parse_opts(t.at(3));
        std::string text = xarg(t.at(4));
        if (t[2] == "j") return deliver<json>(text, o);
        if (t[2] == "o") return deliver<ojson>(text, o);
        throw bad_op{};
    }
    if (op == "dump")
    {
        if (t[2] == "j") return dump<json>(t);
        if (t[2] == "o") return dump<ojson>(t);
        throw bad_op{};
    }
    throw bad_op{};
}

int main() { return run_main(); }
