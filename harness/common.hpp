// Shared glue for the correspondence harnesses: the wire syntax of the line protocol
// (see lean/JV/Basic/Wire.lean) read into / printed from real jsoncons values.
//   n  t  f  i<decimal>  d<16 hex: IEEE bits>  s<hex>  b<hex>  [ ... ]  { k<hex> <value> ... }
#pragma once
#include <jsoncons/json.hpp>
#include <cstdint>
#include <cstring>
#include <iostream>
#include <sstream>
#include <string>
#include <vector>

namespace jvh {

using toks_t = std::vector<std::string>;

inline toks_t split(const std::string& line)
{
    toks_t out;
    std::size_t i = 0, n = line.size();
    while (i < n)
    {
        while (i < n && (line[i] == ' ' || line[i] == '\n' || line[i] == '\r')) ++i;
        std::size_t j = i;
        while (j < n && line[j] != ' ' && line[j] != '\n' && line[j] != '\r') ++j;
        if (j > i) out.emplace_back(line.substr(i, j - i));
        i = j;
    }
    return out;
}

inline int hexval(char c)
{
    if (c >= '0' && c <= '9') return c - '0';
    if (c >= 'a' && c <= 'f') return c - 'a' + 10;
    if (c >= 'A' && c <= 'F') return c - 'A' + 10;
    return -1;
}

struct bad_op {};

inline std::string unhex(const std::string& s, std::size_t from = 0)
{
    std::string out;
    if ((s.size() - from) % 2 != 0) throw bad_op{};
    for (std::size_t i = from; i < s.size(); i += 2)
    {
        int a = hexval(s[i]), b = hexval(s[i + 1]);
        if (a < 0 || b < 0) throw bad_op{};
        out.push_back(static_cast<char>(a * 16 + b));
    }
    return out;
}

inline std::string hex(const std::string& s)
{
    static const char* d = "0123456789abcdef";
    std::string out;
    for (unsigned char c : s) { out.push_back(d[c >> 4]); out.push_back(d[c & 15]); }
    return out;
}
template <class It>
inline std::string hex(It b, It e)
{
    static const char* d = "0123456789abcdef";
    std::string out;
    for (; b != e; ++b) { unsigned char c = static_cast<unsigned char>(*b); out.push_back(d[c >> 4]); out.push_back(d[c & 15]); }
    return out;
}

inline std::string hex64(uint64_t x)
{
    char buf[17];
    std::snprintf(buf, sizeof buf, "%016llx", static_cast<unsigned long long>(x));
    return buf;
}

inline const char* tag_name(jsoncons::semantic_tag t)
{
    using st = jsoncons::semantic_tag;
    switch (t)
    {
        case st::none: return "";
        case st::noesc: return "@noesc";
        case st::undefined: return "@undefined";
        case st::datetime: return "@datetime";
        case st::epoch_second: return "@epoch_second";
        case st::epoch_milli: return "@epoch_milli";
        case st::epoch_nano: return "@epoch_nano";
        case st::bigint: return "@bigint";
        case st::bigdec: return "@bigdec";
        case st::bigfloat: return "@bigfloat";
        case st::float128: return "@float128";
        case st::base16: return "@base16";
        case st::base64: return "@base64";
        case st::base64url: return "@base64url";
        case st::uri: return "@uri";
        case st::clamped: return "@clamped";
        case st::multi_dim_row_major: return "@multi_dim_row_major";
        case st::multi_dim_column_major: return "@multi_dim_column_major";
        case st::ext: return "@ext";
        case st::id: return "@id";
        case st::regex: return "@regex";
        case st::code: return "@code";
        default: return "@other";
    }
}

inline jsoncons::semantic_tag tag_of_name(const std::string& n)
{
    using st = jsoncons::semantic_tag;
    static const st all[] = {st::none, st::noesc, st::undefined, st::datetime, st::epoch_second, st::epoch_milli, st::epoch_nano, st::bigint, st::bigdec,
                             st::bigfloat, st::float128, st::base16, st::base64, st::base64url, st::uri, st::clamped, st::multi_dim_row_major,
                             st::multi_dim_column_major, st::ext, st::id, st::regex, st::code};
    for (st t : all) if (n == tag_name(t)) return t;
    throw bad_op{};
}

template <class Json>
void print_val_(const Json& v, std::string& out);

template <class Json>
Json read_val(const toks_t& t, std::size_t& pos)
{
    if (pos >= t.size()) throw bad_op{};
    std::string tok = t[pos++];
    jsoncons::semantic_tag tag = jsoncons::semantic_tag::none;
    {
        auto at = tok.find('@');
        if (at != std::string::npos) { tag = tag_of_name(tok.substr(at)); tok = tok.substr(0, at); }
    }
    if (tok == "n") return Json::null();
    if (tok == "t") return Json(true);
    if (tok == "f") return Json(false);
    if (tok == "[")
    {
        Json a(jsoncons::json_array_arg, tag);
        while (true)
        {
            if (pos >= t.size()) throw bad_op{};
            if (t[pos] == "]") { ++pos; break; }
            a.push_back(read_val<Json>(t, pos));
        }
        return a;
    }
    if (tok == "{")
    {
        Json o(jsoncons::json_object_arg);
        while (true)
        {
            if (pos >= t.size()) throw bad_op{};
            if (t[pos] == "}") { ++pos; break; }
            if (t[pos].empty() || t[pos][0] != 'k') throw bad_op{};
            std::string key = unhex(t[pos], 1);
            ++pos;
            Json v = read_val<Json>(t, pos);
            o.try_emplace(key, std::move(v));
        }
        return o;
    }
    if (tok[0] == 'i')
    {
        const char* p = tok.c_str() + 1;
        if (*p == '-')
        {
            errno = 0;
            long long v = std::strtoll(p, nullptr, 10);
            if (errno) throw bad_op{};
            return Json(static_cast<int64_t>(v), tag);
        }
        errno = 0;
        unsigned long long v = std::strtoull(p, nullptr, 10);
        if (errno) throw bad_op{};
        if (v <= static_cast<unsigned long long>(INT64_MAX)) return Json(static_cast<int64_t>(v), tag);
        return Json(static_cast<uint64_t>(v), tag);
    }
    if (tok[0] == 'd')
    {
        uint64_t bits = std::strtoull(tok.c_str() + 1, nullptr, 16);
        double d;
        std::memcpy(&d, &bits, 8);
        return Json(d, tag);
    }
    if (tok[0] == 'e')
    {
        uint16_t bits = static_cast<uint16_t>(std::strtoul(tok.c_str() + 1, nullptr, 16));
        return Json(jsoncons::half_arg, bits, tag);
    }
    if (tok[0] == 's') return Json(unhex(tok, 1), tag);
    if (tok[0] == 'b')
    {
        std::string raw = unhex(tok, 1);
        return Json(jsoncons::byte_string_arg, std::vector<uint8_t>(raw.begin(), raw.end()), tag);
    }
    throw bad_op{};
}

template <class Json>
void print_val(const Json& v, std::string& out)
{
    print_val_(v, out);
    if (v.type() != jsoncons::json_type::array && v.type() != jsoncons::json_type::object) out += tag_name(v.tag());
}

template <class Json>
void print_val_(const Json& v, std::string& out)
{
    switch (v.type())
    {
        case jsoncons::json_type::null: out += "n"; break;
        case jsoncons::json_type::boolean: out += v.template as<bool>() ? "t" : "f"; break;
        case jsoncons::json_type::int64: out += "i" + std::to_string(v.template as<int64_t>()); break;
        case jsoncons::json_type::uint64: out += "i" + std::to_string(v.template as<uint64_t>()); break;
        case jsoncons::json_type::float16:
        {
            out += "e" + hex64(v.template as<uint16_t>()).substr(12);
            break;
        }
        case jsoncons::json_type::float64:
        {
            double d = v.template as<double>();
            uint64_t bits;
            std::memcpy(&bits, &d, 8);
            out += "d" + hex64(bits);
            break;
        }
        case jsoncons::json_type::string:
        {
            auto sv = v.as_string_view();
            out += "s" + hex(sv.begin(), sv.end());
            break;
        }
        case jsoncons::json_type::byte_string:
        {
            auto bv = v.as_byte_string_view();
            out += "b" + hex(bv.begin(), bv.end());
            break;
        }
        case jsoncons::json_type::array:
            out += "[";
            out += tag_name(v.tag());
            for (const auto& x : v.array_range()) { out += " "; print_val(x, out); }
            out += " ]";
            break;
        case jsoncons::json_type::object:
            out += "{";
            for (const auto& m : v.object_range())
            {
                out += " k" + hex(m.key().begin(), m.key().end()) + " ";
                print_val(m.value(), out);
            }
            out += " }";
            break;
        default: out += "?"; break;
    }
}

template <class Json>
std::string show(const Json& v) { std::string s; print_val(v, s); return s; }

// each domain TU defines this
std::string handle(const toks_t& t);

inline int run_main()
{
    std::ios::sync_with_stdio(false);
    std::string line;
    while (std::getline(std::cin, line))
    {
        toks_t t = split(line);
        if (t.empty()) { std::cout << "\n"; continue; }
        std::string out;
        try { out = handle(t); }
        catch (const bad_op&) { out = "bad-op"; }
        catch (const jsoncons::json_exception& e) { out = std::string("exc-json"); }
        catch (const std::exception& e) { out = std::string("exc-std"); }
        catch (...) { out = "exc-foreign"; }
        std::cout << out << "\n";
    }
    std::cout.flush();
    return 0;
}

} // namespace jvh
