// C05 harness: every public entry point on hostile input, under ASan/UBSan.
//   fz dec <json|cbor|msgpack|ubjson|bson|csv|toon> <hexbytes> [csv options: t<types hex> f<defaults hex> h]
//        decode through: buffer, istream, cursor (pull), error_code and throwing forms
//   fz expr <jsonpath|jmespath|pointer|uri|schema> <hex text> | <doc>
//   fz enc <opts…> | <value>      opts: i<indent> p<precision> f<g|f|s|x> n (nan/inf replacement) l<line length> …
//   -> ok <summary> | err <kind>   ;  "foreign" when an exception that is not a json_exception escapes (printed by run_main as exc-std),
//      an ASan/UBSan report aborts the process (seen by the check as CRASH)
#include "common.hpp"
#include <jsoncons_ext/cbor/cbor.hpp>
#include <jsoncons_ext/msgpack/msgpack.hpp>
#include <jsoncons_ext/ubjson/ubjson.hpp>
#include <jsoncons_ext/bson/bson.hpp>
#include <jsoncons_ext/csv/csv.hpp>
#include <jsoncons_ext/toon/toon.hpp>
#include <jsoncons_ext/toon/decode_toon.hpp>
#include <jsoncons_ext/jsonpath/jsonpath.hpp>
#include <jsoncons_ext/jmespath/jmespath.hpp>
#include <jsoncons_ext/jsonpointer/jsonpointer.hpp>
#include <jsoncons_ext/jsonschema/jsonschema.hpp>
#include <jsoncons/utility/uri.hpp>
#include <sstream>

using namespace jvh;
namespace jc = jsoncons;

template <class F>
static std::string guard(const char* what, F f)
{
    try { f(); return std::string(" ") + what + ":ok"; }
    catch (const jc::assertion_error& e) { return std::string(" ") + what + ":ASSERTION(" + e.what() + ")"; }
    catch (const jc::json_exception&) { return std::string(" ") + what + ":err"; }
    catch (const std::bad_alloc&) { return std::string(" ") + what + ":bad_alloc"; }
    catch (const std::exception& e) { return std::string(" ") + what + ":FOREIGN(" + typeid(e).name() + ")"; }
}

static std::string dec(const toks_t& t)
{
    const std::string fmt = t.at(2);
    std::string bytes = (t.size() > 3 && t[3] != "-") ? unhex(t.at(3)) : std::string();   // "-" stands for the empty input
    std::vector<uint8_t> v(bytes.begin(), bytes.end());
    std::string out = "ok";
    if (fmt == "json")
    {
        out += guard("buf", [&] { jc::json::parse(bytes); });
        out += guard("ec", [&] { std::error_code ec; jc::json_decoder<jc::json> d; jc::json_string_reader r(bytes, d); r.read(ec); });
        out += guard("stream", [&] { std::istringstream is(bytes); jc::json::parse(is); });
        out += guard("cursor", [&] { std::error_code ec; jc::json_string_cursor c(bytes, ec); while (!ec && !c.done()) c.next(ec); });
        out += guard("ojson", [&] { jc::ojson::parse(bytes); });
        out += guard("typed", [&] { jc::decode_json<std::vector<std::map<std::string, double>>>(bytes); });
    }
    else if (fmt == "cbor")
    {
        out += guard("buf", [&] { jc::cbor::decode_cbor<jc::json>(v); });
        out += guard("stream", [&] { std::istringstream is(bytes); jc::cbor::decode_cbor<jc::json>(is); });
        out += guard("cursor", [&] { std::error_code ec; jc::cbor::cbor_bytes_cursor c(v, ec); while (!ec && !c.done()) c.next(ec); });
        out += guard("reader", [&] { std::error_code ec; jc::json_decoder<jc::ojson> d; jc::cbor::cbor_bytes_reader r(v, d); r.read(ec); });
        out += guard("typed", [&] { jc::cbor::decode_cbor<std::vector<double>>(v); });
    }
    else if (fmt == "msgpack")
    {
        out += guard("buf", [&] { jc::msgpack::decode_msgpack<jc::json>(v); });
        out += guard("stream", [&] { std::istringstream is(bytes); jc::msgpack::decode_msgpack<jc::json>(is); });
        out += guard("cursor", [&] { std::error_code ec; jc::msgpack::msgpack_bytes_cursor c(v, ec); while (!ec && !c.done()) c.next(ec); });
        out += guard("typed", [&] { jc::msgpack::decode_msgpack<std::map<std::string, int>>(v); });
    }
    else if (fmt == "ubjson")
    {
        jc::ubjson::ubjson_options o; o.max_items(4096);
        out += guard("buf", [&] { jc::ubjson::decode_ubjson<jc::json>(v, o); });
        out += guard("stream", [&] { std::istringstream is(bytes); jc::ubjson::decode_ubjson<jc::json>(is, o); });
        out += guard("cursor", [&] { std::error_code ec; jc::ubjson::ubjson_bytes_cursor c(v, o, ec); while (!ec && !c.done()) c.next(ec); });
    }
    else if (fmt == "bson")
    {
        out += guard("buf", [&] { jc::bson::decode_bson<jc::json>(v); });
        out += guard("stream", [&] { std::istringstream is(bytes); jc::bson::decode_bson<jc::json>(is); });
        out += guard("cursor", [&] { std::error_code ec; jc::bson::bson_bytes_cursor c(v, ec); while (!ec && !c.done()) c.next(ec); });
    }
    else if (fmt == "csv")
    {
        jc::csv::csv_options o;
        for (std::size_t i = 4; i < t.size(); ++i)
        {
            if (t[i][0] == 't') o.column_types(unhex(t[i], 1));
            else if (t[i][0] == 'f') o.column_defaults(unhex(t[i], 1));
            else if (t[i][0] == 'h') o.assume_header(true);
            else if (t[i][0] == 'm') o.mapping_kind(t[i][1] == 'r' ? jc::csv::csv_mapping_kind::n_rows : t[i][1] == 'o' ? jc::csv::csv_mapping_kind::n_objects : jc::csv::csv_mapping_kind::m_columns);
            else if (t[i][0] == 's') o.subfield_delimiter(t[i][1]);
            else if (t[i][0] == 'c') o.comment_starter(t[i][1]);
            else if (t[i][0] == 'x') { o.trim(true); o.ignore_empty_values(true); }
        }
        out += guard("buf", [&] { jc::csv::decode_csv<jc::ojson>(bytes, o); });
        out += guard("stream", [&] { std::istringstream is(bytes); jc::csv::decode_csv<jc::ojson>(is, o); });
        out += guard("cursor", [&] { std::error_code ec; jc::csv::csv_string_cursor c(bytes, o, ec); while (!ec && !c.done()) c.next(ec); });
    }
    else if (fmt == "toon")
    {
        out += guard("buf", [&] { jc::toon::decode_toon<jc::ojson>(bytes); });
        out += guard("lenient", [&] { jc::toon::toon_options o; o.strict(false); jc::toon::decode_toon<jc::ojson>(bytes, o); });
    }
    else throw bad_op{};
    return out;
}

static std::string expr(const toks_t& t)
{
    const std::string kind = t.at(2);
    std::string text = (t.size() > 3 && t[3] != "|" && t[3] != "-") ? unhex(t.at(3)) : std::string();
    std::size_t p = 3;
    while (p < t.size() && t[p] != "|") ++p;
    jc::json doc;
    if (p + 1 < t.size()) { ++p; doc = read_val<jc::json>(t, p); }
    std::string out = "ok";
    if (kind == "jsonpath")
    {
        out += guard("query", [&] { jc::jsonpath::json_query(doc, text); });
        out += guard("paths", [&] { jc::jsonpath::json_query(doc, text, jc::jsonpath::result_options::path | jc::jsonpath::result_options::nodups | jc::jsonpath::result_options::sort); });
        out += guard("ec", [&] { std::error_code ec; auto e = jc::jsonpath::make_expression<jc::json>(text, ec); if (!ec) e.evaluate(doc); });
        out += guard("replace", [&] { jc::json d2 = doc; jc::jsonpath::json_replace(d2, text, jc::json(1)); });
        out += guard("location", [&] { std::error_code ec; auto loc = jc::jsonpath::json_location::parse(text, ec); if (!ec) jc::jsonpath::get(doc, loc); });
    }
    else if (kind == "jmespath")
    {
        out += guard("search", [&] { jc::jmespath::search(doc, text); });
        out += guard("ec", [&] { std::error_code ec; auto e = jc::jmespath::make_expression<jc::json>(text, ec); if (!ec) { e.evaluate(doc, ec); } });
    }
    else if (kind == "pointer")
    {
        out += guard("get", [&] { jc::jsonpointer::get(doc, text); });
        out += guard("ec", [&] { std::error_code ec; jc::jsonpointer::get(doc, text, ec); jc::jsonpointer::contains(doc, text); });
        out += guard("add", [&] { jc::json d2 = doc; std::error_code ec; jc::jsonpointer::add(d2, text, jc::json(1), true, ec); jc::jsonpointer::remove(d2, text, ec); });
        out += guard("parse", [&] { std::error_code ec; auto ptr = jc::jsonpointer::json_pointer::parse(text, ec); if (!ec) { ptr.to_string(); } });
    }
    else if (kind == "uri")
    {
        out += guard("parse", [&] { std::error_code ec; jc::uri u = jc::uri::parse(text, ec); if (!ec) { u.string(); u.resolve(jc::uri("http://a/b/c/d;p?q")); u.base(); u.path(); u.fragment(); } });
        out += guard("ctor", [&] { jc::uri u(text); u.string(); });
    }
    else if (kind == "schema")
    {
        // `text` is a JSON text of a schema (possibly nonsense); the instance is `doc`
        out += guard("compile", [&] { jc::json s = jc::json::parse(text); auto c = jc::jsonschema::make_json_schema(s); c.is_valid(doc);
                                      c.validate(doc, [](const jc::jsonschema::validation_message&) { return jc::jsonschema::walk_result::advance; }); });
        out += guard("format", [&] { jc::json s = jc::json::parse(text);
                                     auto c = jc::jsonschema::make_json_schema(s, jc::jsonschema::evaluation_options{}.require_format_validation(true)); c.is_valid(doc); });
    }
    else throw bad_op{};
    return out;
}

static std::string enc(const toks_t& t)
{
    jc::json_options o;
    std::size_t p = 2;
    for (; p < t.size() && t[p] != "|"; ++p)
    {
        const std::string& a = t[p];
        switch (a[0])
        {
            case 'i': o.indent_size(static_cast<uint8_t>(std::stoi(a.substr(1)))); break;
            case 'p': o.precision(static_cast<int8_t>(std::stoi(a.substr(1)))); break;
            case 'f': o.float_format(a[1] == 'g' ? jc::float_chars_format::general : a[1] == 'f' ? jc::float_chars_format::fixed : a[1] == 's' ? jc::float_chars_format::scientific : jc::float_chars_format::hex); break;
            case 'n': o.nan_to_str("NaN").inf_to_str("Inf"); break;
            case 'N': o.nan_to_num("0").inf_to_num("1e9999"); break;
            case 'l': o.line_length_limit(static_cast<std::size_t>(std::stoi(a.substr(1)))); break;
            case 'e': o.escape_all_non_ascii(true); break;
            case 's': o.escape_solidus(true); break;
            case 'b': o.bignum_format(a[1] == 'r' ? jc::bignum_format_kind::raw : a[1] == 'n' ? jc::bignum_format_kind::number : a[1] == '6' ? jc::bignum_format_kind::base64 : jc::bignum_format_kind::base64url); break;
            case 'B': o.byte_string_format(a[1] == '6' ? jc::byte_string_chars_format::base64 : a[1] == 'u' ? jc::byte_string_chars_format::base64url : jc::byte_string_chars_format::base16); break;
            case 'o': o.object_array_line_splits(jc::line_split_kind::same_line); o.array_array_line_splits(jc::line_split_kind::multi_line); break;
            case 'd': o.max_nesting_depth(std::stoi(a.substr(1))); break;
            default: throw bad_op{};
        }
    }
    if (p >= t.size()) throw bad_op{};
    ++p;
    jc::json v = read_val<jc::json>(t, p);
    std::string out = "ok";
    out += guard("compact", [&] { std::string s; v.dump(s, o); });
    out += guard("pretty", [&] { std::string s; v.dump_pretty(s, o); });
    out += guard("stream", [&] { std::ostringstream os; os << jc::pretty_print(v, o); });
    out += guard("cbor", [&] { std::vector<uint8_t> b; jc::cbor::encode_cbor(v, b); });
    out += guard("msgpack", [&] { std::vector<uint8_t> b; jc::msgpack::encode_msgpack(v, b); });
    out += guard("ubjson", [&] { std::vector<uint8_t> b; jc::ubjson::encode_ubjson(v, b); });
    out += guard("bson", [&] { std::vector<uint8_t> b; jc::bson::encode_bson(v, b); });
    out += guard("csv", [&] { std::string s; jc::csv::encode_csv(v, s); });
    out += guard("toon", [&] { std::string s; jc::toon::encode_toon(v, s); });
    return out;
}

std::string jvh::handle(const toks_t& t)
{
    if (t.size() < 3 || t[0] != "fz") throw bad_op{};
    if (t[1] == "dec") return dec(t);
    if (t[1] == "expr") return expr(t);
    if (t[1] == "enc") return enc(t);
    throw bad_op{};
}

int main() { return run_main(); }
