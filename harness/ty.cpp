// C17 harness, slice 1 of the type family (see ty_family.hpp)
#define TY_PART 1
#include "ty_family.hpp"
