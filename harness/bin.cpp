// C06/C07/C08/C10 (+C03 binary part) harness: CBOR, MessagePack, UBJSON, BSON encode/decode, all delivery modes.
#include "common.hpp"
#include <jsoncons_ext/cbor/cbor.hpp>
#include <jsoncons_ext/msgpack/msgpack.hpp>
#include <jsoncons_ext/ubjson/ubjson.hpp>
#include <jsoncons_ext/bson/bson.hpp>
#include <sstream>
#include <cstring>
using namespace jvh;
using jsoncons::json;
using jsoncons::ojson;
namespace jc = jsoncons;

static std::string xarg(const std::string& t)
{
    if (t.empty() || t[0] != 'x') throw bad_op{};
    return unhex(t, 1);
}

struct cbor_f
{
    using options = jc::cbor::cbor_options;
    using bytes_reader = jc::cbor::cbor_bytes_reader;
    using stream_reader = jc::cbor::cbor_stream_reader;
    using bytes_cursor = jc::cbor::cbor_bytes_cursor;
    using stream_cursor = jc::cbor::cbor_stream_cursor;
    using bytes_encoder = jc::cbor::cbor_bytes_encoder;
    template <class J> static void encode(const J& j, std::vector<uint8_t>& v, const options& o) { jc::cbor::encode_cbor(j, v, o); }
    static void opt(options& o, char k, long v)
    {
        if (k == 'p') o.pack_strings(v != 0); else if (k == 'y') o.use_typed_arrays(v != 0); else if (k == 'd') o.max_nesting_depth((int)v); else throw bad_op{};
    }
};
struct msgpack_f
{
    using options = jc::msgpack::msgpack_options;
    using bytes_reader = jc::msgpack::msgpack_bytes_reader;
    using stream_reader = jc::msgpack::msgpack_stream_reader;
    using bytes_cursor = jc::msgpack::msgpack_bytes_cursor;
    using stream_cursor = jc::msgpack::msgpack_stream_cursor;
    using bytes_encoder = jc::msgpack::msgpack_bytes_encoder;
    template <class J> static void encode(const J& j, std::vector<uint8_t>& v, const options& o) { jc::msgpack::encode_msgpack(j, v, o); }
    static void opt(options& o, char k, long v) { if (k == 'd') o.max_nesting_depth((int)v); else throw bad_op{}; }
};
struct ubjson_f
{
    using options = jc::ubjson::ubjson_options;
    using bytes_reader = jc::ubjson::ubjson_bytes_reader;
    using stream_reader = jc::ubjson::ubjson_stream_reader;
    using bytes_cursor = jc::ubjson::ubjson_bytes_cursor;
    using stream_cursor = jc::ubjson::ubjson_stream_cursor;
    using bytes_encoder = jc::ubjson::ubjson_bytes_encoder;
    template <class J> static void encode(const J& j, std::vector<uint8_t>& v, const options& o) { jc::ubjson::encode_ubjson(j, v, o); }
    static void opt(options& o, char k, long v)
    {
        if (k == 'd') o.max_nesting_depth((int)v); else if (k == 'm') o.max_items((std::size_t)v); else throw bad_op{};
    }
};
struct bson_f
{
    using options = jc::bson::bson_options;
    using bytes_reader = jc::bson::bson_bytes_reader;
    using stream_reader = jc::bson::bson_stream_reader;
    using bytes_cursor = jc::bson::bson_bytes_cursor;
    using stream_cursor = jc::bson::bson_stream_cursor;
    using bytes_encoder = jc::bson::bson_bytes_encoder;
    template <class J> static void encode(const J& j, std::vector<uint8_t>& v, const options& o) { jc::bson::encode_bson(j, v, o); }
    static void opt(options& o, char k, long v) { if (k == 'd') o.max_nesting_depth((int)v); else throw bad_op{}; }
};

template <class F>
static typename F::options parse_opts(const std::string& s)
{
    typename F::options o;
    std::size_t i = 0;
    while (i < s.size())
    {
        char k = s[i++];
        if (k == '-') continue;
        std::size_t j = i;
        while (j < s.size() && std::isdigit(static_cast<unsigned char>(s[j]))) ++j;
        long v = std::strtol(s.substr(i, j - i).c_str(), nullptr, 10);
        i = j;
        F::opt(o, k, v);
    }
    return o;
}

static std::string errname(const std::error_code& ec) { return "err " + std::string(ec.category().name()) + ":" + std::to_string(ec.value()); }

template <class Json>
static std::string outcome(jc::json_decoder<Json>& dec, const std::error_code& ec)
{
    if (ec) return errname(ec);
    if (!dec.is_valid()) return "err novalue";
    return "ok " + show(dec.get_result());
}

template <class F, class Json>
static std::string dec_bytes(const std::string& bytes, const typename F::options& o)
{
    jc::json_decoder<Json> dec;
    std::error_code ec;
    std::vector<uint8_t> v(bytes.begin(), bytes.end());
    typename F::bytes_reader r(v, dec, o);
    r.read(ec);
    return outcome(dec, ec);
}

template <class Cursor>
static std::string cursor_to_value(Cursor& cur, std::error_code& ec)
{
    jc::json_decoder<json> dec;
    if (!ec) cur.read_to(dec, ec);
    return outcome(dec, ec);
}

template <class F>
static std::string deliver(const std::string& bytes, const typename F::options& o)
{
    std::string base = dec_bytes<F, json>(bytes, o);
    std::string diffs;
    auto note = [&](const std::string& mode, const std::string& got) {
        if (got != base && diffs.size() < 500) diffs += " [" + mode + ": " + got.substr(0, 100) + "]";
    };
    {
        jc::json_decoder<json> dec; std::error_code ec;
        std::istringstream is(bytes);
        typename F::stream_reader r(is, dec, o); r.read(ec);
        note("stream", outcome(dec, ec));
    }
    for (std::size_t buflen : {1u, 2u, 3u, 4u, 5u, 7u, 8u, 16u})
    {
        jc::json_decoder<json> dec; std::error_code ec;
        std::istringstream is(bytes);
        typename F::stream_reader r(jc::stream_source<uint8_t>(is, buflen), dec, o); r.read(ec);
        note("stream/buf" + std::to_string(buflen), outcome(dec, ec));
    }
    {
        std::error_code ec;
        std::vector<uint8_t> v(bytes.begin(), bytes.end());
        typename F::bytes_cursor cur(v, o, ec);
        note("bytes_cursor", cursor_to_value(cur, ec));
    }
    for (std::size_t buflen : {1u, 3u, 16u})
    {
        std::error_code ec;
        std::istringstream is(bytes);
        typename F::stream_cursor cur(jc::stream_source<uint8_t>(is, buflen), o, ec);
        note("stream_cursor/buf" + std::to_string(buflen), cursor_to_value(cur, ec));
    }
    if (diffs.empty()) return "same " + base;
    return "DIFF " + base + " ##" + diffs;
}

template <class F, class Json>
static std::string enc(const toks_t& t)
{
    auto o = parse_opts<F>(t.at(4));
    std::size_t pos = 5;
    Json v = read_val<Json>(t, pos);
    if (pos != t.size()) throw bad_op{};
    std::vector<uint8_t> out;
    try { F::encode(v, out, o); }
    catch (const jc::ser_error& e) { return "err " + std::string(e.code().category().name()) + ":" + std::to_string(e.code().value()); }
    std::string bytes(out.begin(), out.end());
    return "ok x" + hex(bytes) + " | " + dec_bytes<F, Json>(bytes, o);
}

static jc::semantic_tag tok_tag(std::string& tok)
{
    auto at = tok.find('@');
    if (at == std::string::npos) return jc::semantic_tag::none;
    jc::semantic_tag tag = tag_of_name(tok.substr(at));
    tok = tok.substr(0, at);
    return tag;
}

// push an event sequence into any visitor; returns false at the first error
static bool push_events(jc::json_visitor& enc, const toks_t& t, std::size_t from, std::error_code& ec)
{
    jc::ser_context ctx;
    for (std::size_t i = from; i < t.size() && !ec; ++i)
    {
        std::string tok = t[i];
        jc::semantic_tag tag = tok_tag(tok);
        const char c = tok[0];
        const std::string arg = tok.substr(tok.size() > 1 && (tok[1] == 'A' || tok[1] == 'O') ? 2 : 1);
        if (tok.compare(0, 2, "BA") == 0)
        {
            if (arg == "*") enc.begin_array(tag, ctx, ec); else enc.begin_array(std::strtoull(arg.c_str(), nullptr, 10), tag, ctx, ec);
        }
        else if (tok == "EA") enc.end_array(ctx, ec);
        else if (tok.compare(0, 2, "BO") == 0)
        {
            if (arg == "*") enc.begin_object(tag, ctx, ec); else enc.begin_object(std::strtoull(arg.c_str(), nullptr, 10), tag, ctx, ec);
        }
        else if (tok == "EO") enc.end_object(ctx, ec);
        else if (c == 'K') { std::string k = unhex(tok, 1); enc.key(k, ctx, ec); }
        else if (c == 'S') { std::string v = unhex(tok, 1); enc.string_value(v, tag, ctx, ec); }
        else if (c == 'B') { std::string v = unhex(tok, 1); enc.byte_string_value(jc::byte_string_view(reinterpret_cast<const uint8_t*>(v.data()), v.size()), tag, ctx, ec); }
        else if (c == 'I') enc.int64_value(std::strtoll(arg.c_str(), nullptr, 10), tag, ctx, ec);
        else if (c == 'U') enc.uint64_value(std::strtoull(arg.c_str(), nullptr, 10), tag, ctx, ec);
        else if (c == 'D') { uint64_t b = std::strtoull(arg.c_str(), nullptr, 16); double d; std::memcpy(&d, &b, 8); enc.double_value(d, tag, ctx, ec); }
        else if (c == 'H') enc.half_value(static_cast<uint16_t>(std::strtoul(arg.c_str(), nullptr, 16)), tag, ctx, ec);
        else if (c == 'N') enc.null_value(tag, ctx, ec);
        else if (c == 'T') enc.bool_value(true, tag, ctx, ec);
        else if (c == 'F') enc.bool_value(false, tag, ctx, ec);
        else throw bad_op{};
    }
    if (!ec) enc.flush();
    return !ec;
}

template <class F>
static std::string events(const toks_t& t)
{
    auto o = parse_opts<F>(t.at(3));
    std::vector<uint8_t> out;
    typename F::bytes_encoder enc(out, o);
    std::error_code ec;
    try { push_events(enc, t, 4, ec); }
    catch (const jc::ser_error& e) { ec = e.code(); }
    if (ec) return errname(ec);
    std::string bytes(out.begin(), out.end());
    return "ok x" + hex(bytes) + " | " + dec_bytes<F, ojson>(bytes, o);
}

static std::string json_events(const toks_t& t)
{
    // jsonev <c|p> <events…>: the JSON text encoders fed with raw events
    std::string out;
    std::error_code ec;
    try
    {
        if (t.at(2) == "c") { jc::compact_json_string_encoder enc(out); push_events(enc, t, 3, ec); }
        else { jc::json_string_encoder enc(out); push_events(enc, t, 3, ec); }
    }
    catch (const jc::ser_error& e) { ec = e.code(); }
    if (ec) return errname(ec);
    return "ok x" + hex(out);
}

template <class F>
static std::string run(const toks_t& t)
{
    const std::string& op = t[1];
    if (op == "events") return events<F>(t);
    if (op == "tojson")
    {
        // decode, then serialise the decoded value as JSON text (transcoding must stay valid)
        auto o = parse_opts<F>(t.at(3));
        std::string bytes = xarg(t.at(4));
        jc::json_decoder<ojson> dec;
        std::error_code ec;
        std::vector<uint8_t> v(bytes.begin(), bytes.end());
        typename F::bytes_reader r(v, dec, o);
        r.read(ec);
        if (ec || !dec.is_valid()) return errname(ec);
        ojson j = dec.get_result();
        std::string text;
        try { j.dump(text); }
        catch (const jc::ser_error& e) { return "ok " + show(j) + " | err " + std::to_string(e.code().value()); }
        return "ok " + show(j) + " | x" + hex(text);
    }
    if (op == "enc")
    {
        if (t.at(3) == "j") return enc<F, json>(t);
        if (t.at(3) == "o") return enc<F, ojson>(t);
        throw bad_op{};
    }
    if (op == "dec")
    {
        auto o = parse_opts<F>(t.at(4));
        if (t.at(3) == "j") return dec_bytes<F, json>(xarg(t.at(5)), o);
        if (t.at(3) == "o") return dec_bytes<F, ojson>(xarg(t.at(5)), o);
        throw bad_op{};
    }
    if (op == "deliver") return deliver<F>(xarg(t.at(4)), parse_opts<F>(t.at(3)));
    throw bad_op{};
}

// half <4 hex digits>: the double a binary16 pattern denotes, as the library computes it (binary::decode_half, and as<double>() of a
// value holding the half, decode_cbor<double> of the item f9 hh ll). binary::encode_half is not judged: nothing in the library calls it.
static std::string half_op(const toks_t& t)
{
    uint16_t h = static_cast<uint16_t>(std::strtoul(t.at(2).c_str(), nullptr, 16));
    auto bits = [](double d) { if (d != d) return std::string("nan"); uint64_t u; std::memcpy(&u, &d, 8); char buf[32]; std::snprintf(buf, sizeof buf, "d%016llx", (unsigned long long)u); return std::string(buf); };
    double d1 = jc::binary::decode_half(h);
    double d2 = json(jc::half_arg, h).as<double>();
    std::vector<uint8_t> v{0xf9, static_cast<uint8_t>(h >> 8), static_cast<uint8_t>(h & 0xff)};
    double d3 = jc::cbor::decode_cbor<double>(v);
    return "ok " + bits(d1) + " " + bits(d2) + " " + bits(d3);
}

template <class F1, class F2>
static std::string trans(const toks_t& t)
{
    std::string bytes = xarg(t.at(4));
    typename F1::options o1;
    typename F2::options o2;
    jc::json_decoder<ojson> dec;
    std::error_code ec;
    std::vector<uint8_t> v(bytes.begin(), bytes.end());
    typename F1::bytes_reader r(v, dec, o1);
    r.read(ec);
    if (ec || !dec.is_valid()) return errname(ec);
    ojson j = dec.get_result();
    std::vector<uint8_t> out;
    try { F2::encode(j, out, o2); }
    catch (const jc::ser_error& e) { return "ok " + show(j) + " | err " + std::string(e.code().category().name()) + ":" + std::to_string(e.code().value()); }
    std::string b2(out.begin(), out.end());
    return "ok " + show(j) + " | x" + hex(b2) + " | " + dec_bytes<F2, ojson>(b2, o2);
}

template <class F1>
static std::string trans1(const toks_t& t)
{
    const std::string& f2 = t.at(3);
    if (f2 == "cbor") return trans<F1, cbor_f>(t);
    if (f2 == "msgpack") return trans<F1, msgpack_f>(t);
    if (f2 == "ubjson") return trans<F1, ubjson_f>(t);
    if (f2 == "bson") return trans<F1, bson_f>(t);
    throw bad_op{};
}

std::string jvh::handle(const toks_t& t)
{
    if (t.size() >= 3 && t[0] == "bin" && t[1] == "jsonev") return json_events(t);
    if (t.size() == 3 && t[0] == "bin" && t[1] == "half") return half_op(t);
    if (t.size() >= 5 && t[0] == "bin" && t[1] == "trans")
    {
        const std::string& f1 = t[2];
        if (f1 == "cbor") return trans1<cbor_f>(t);
        if (f1 == "msgpack") return trans1<msgpack_f>(t);
        if (f1 == "ubjson") return trans1<ubjson_f>(t);
        if (f1 == "bson") return trans1<bson_f>(t);
        throw bad_op{};
    }
    if (t.size() < 4 || t[0] != "bin") throw bad_op{};
    const std::string& f = t[2];
    if (f == "cbor") return run<cbor_f>(t);
    if (f == "msgpack") return run<msgpack_f>(t);
    if (f == "ubjson") return run<ubjson_f>(t);
    if (f == "bson") return run<bson_f>(t);
    throw bad_op{};
}

int main() { return run_main(); }
