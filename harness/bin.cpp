// C06/C07/C08/C10 (+C03 binary part) harness: CBOR, MessagePack, UBJSON, BSON encode/decode, all delivery modes.
#include "common.hpp"
#include <jsoncons_ext/cbor/cbor.hpp>
#include <jsoncons_ext/msgpack/msgpack.hpp>
#include <jsoncons_ext/ubjson/ubjson.hpp>
#include <jsoncons_ext/bson/bson.hpp>
#include <sstream>
using namespace jvh;
using jsoncons::json;
using jsoncons::ojson;
namespace jc = jsoncons;

static std::string xarg(const std::string& t)
{
    if (t.empty() || t[0] != 'x') throw bad_op{};
    return unhex(t, 1);
}

struct cbor_f
{
    using options = jc::cbor::cbor_options;
    using bytes_reader = jc::cbor::cbor_bytes_reader;
    using stream_reader = jc::cbor::cbor_stream_reader;
    using bytes_cursor = jc::cbor::cbor_bytes_cursor;
    using stream_cursor = jc::cbor::cbor_stream_cursor;
    using bytes_encoder = jc::cbor::cbor_bytes_encoder;
    template <class J> static void encode(const J& j, std::vector<uint8_t>& v, const options& o) { jc::cbor::encode_cbor(j, v, o); }
    static void opt(options& o, char k, long v)
    {
        if (k == 'p') o.pack_strings(v != 0); else if (k == 'y') o.use_typed_arrays(v != 0); else if (k == 'd') o.max_nesting_depth((int)v); else throw bad_op{};
    }
};
struct msgpack_f
{
    using options = jc::msgpack::msgpack_options;
    using bytes_reader = jc::msgpack::msgpack_bytes_reader;
    using stream_reader = jc::msgpack::msgpack_stream_reader;
    using bytes_cursor = jc::msgpack::msgpack_bytes_cursor;
    using stream_cursor = jc::msgpack::msgpack_stream_cursor;
    using bytes_encoder = jc::msgpack::msgpack_bytes_encoder;
    template <class J> static void encode(const J& j, std::vector<uint8_t>& v, const options& o) { jc::msgpack::encode_msgpack(j, v, o); }
    static void opt(options& o, char k, long v) { if (k == 'd') o.max_nesting_depth((int)v); else throw bad_op{}; }
};
struct ubjson_f
{
    using options = jc::ubjson::ubjson_options;
    using bytes_reader = jc::ubjson::ubjson_bytes_reader;
    using stream_reader = jc::ubjson::ubjson_stream_reader;
    using bytes_cursor = jc::ubjson::ubjson_bytes_cursor;
    using stream_cursor = jc::ubjson::ubjson_stream_cursor;
    using bytes_encoder = jc::ubjson::ubjson_bytes_encoder;
    template <class J> static void encode(const J& j, std::vector<uint8_t>& v, const options& o) { jc::ubjson::encode_ubjson(j, v, o); }
    static void opt(options& o, char k, long v)
    {
        if (k == 'd') o.max_nesting_depth((int)v); else if (k == 'm') o.max_items((std::size_t)v); else throw bad_op{};
    }
};
struct bson_f
{
    using options = jc::bson::bson_options;
    using bytes_reader = jc::bson::bson_bytes_reader;
    using stream_reader = jc::bson::bson_stream_reader;
    using bytes_cursor = jc::bson::bson_bytes_cursor;
    using stream_cursor = jc::bson::bson_stream_cursor;
    using bytes_encoder = jc::bson::bson_bytes_encoder;
    template <class J> static void encode(const J& j, std::vector<uint8_t>& v, const options& o) { jc::bson::encode_bson(j, v, o); }
    static void opt(options& o, char k, long v) { if (k == 'd') o.max_nesting_depth((int)v); else throw bad_op{}; }
};

template <class F>
static typename F::options parse_opts(const std::string& s)
{
    typename F::options o;
    std::size_t i = 0;
    while (i < s.size())
    {
        char k = s[i++];
        if (k == '-') continue;
        std::size_t j = i;
        while (j < s.size() && std::isdigit(static_cast<unsigned char>(s[j]))) ++j;
        long v = std::strtol(s.substr(i, j - i).c_str(), nullptr, 10);
        i = j;
        F::opt(o, k, v);
    }
    return o;
}

static std::string errname(const std::error_code& ec) { return "err " + std::string(ec.category().name()) + ":" + std::to_string(ec.value()); }

template <class Json>
static std::string outcome(jc::json_decoder<Json>& dec, const std::error_code& ec)
{
    if (ec) return errname(ec);
    if (!dec.is_valid()) return "err novalue";
    return "ok " + show(dec.get_result());
}

template <class F, class Json>
static std::string dec_bytes(const std::string& bytes, const typename F::options& o)
{
    jc::json_decoder<Json> dec;
    std::error_code ec;
    std::vector<uint8_t> v(bytes.begin(), bytes.end());
    typename F::bytes_reader r(v, dec, o);
    r.read(ec);
    return outcome(dec, ec);
}

template <class Cursor>
static std::string cursor_to_value(Cursor& cur, std::error_code& ec)
{
    jc::json_decoder<json> dec;
    if (!ec) cur.read_to(dec, ec);
    return outcome(dec, ec);
}

template <class F>
static std::string deliver(const std::string& bytes, const typename F::options& o)
{
    std::string base = dec_bytes<F, json>(bytes, o);
    std::string diffs;
    auto note = [&](const std::string& mode, const std::string& got) {
        if (got != base && diffs.size() < 500) diffs += " [" + mode + ": " + got.substr(0, 100) + "]";
    };
    {
        jc::json_decoder<json> dec; std::error_code ec;
        std::istringstream is(bytes);
        typename F::stream_reader r(is, dec, o); r.read(ec);
        note("stream", outcome(dec, ec));
    }
    for (std::size_t buflen : {1u, 2u, 3u, 4u, 5u, 7u, 8u, 16u})
    {
        jc::json_decoder<json> dec; std::error_code ec;
        std::istringstream is(bytes);
        typename F::stream_reader r(jc::stream_source<uint8_t>(is, buflen), dec, o); r.read(ec);
        note("stream/buf" + std::to_string(buflen), outcome(dec, ec));
    }
    {
        std::error_code ec;
        std::vector<uint8_t> v(bytes.begin(), bytes.end());
        typename F::bytes_cursor cur(v, o, ec);
        note("bytes_cursor", cursor_to_value(cur, ec));
    }
    for (std::size_t buflen : {1u, 3u, 16u})
    {
        std::error_code ec;
        std::istringstream is(bytes);
        typename F::stream_cursor cur(jc::stream_source<uint8_t>(is, buflen), o, ec);
        note("stream_cursor/buf" + std::to_string(buflen), cursor_to_value(cur, ec));
    }
    if (diffs.empty()) return "same " + base;
    return "DIFF " + base + " ##" + diffs;
}

template <class F, class Json>
static std::string enc(const toks_t& t)
{
    auto o = parse_opts<F>(t.at(4));
    std::size_t pos = 5;
    Json v = read_val<Json>(t, pos);
    if (pos != t.size()) throw bad_op{};
    std::vector<uint8_t> out;
    try { F::encode(v, out, o); }
    catch (const jc::ser_error& e) { return "err " + std::string(e.code().category().name()) + ":" + std::to_string(e.code().value()); }
    std::string bytes(out.begin(), out.end());
    return "ok x" + hex(bytes) + " | " + dec_bytes<F, Json>(bytes, o);
}

template <class F>
static std::string run(const toks_t& t)
{
    const std::string& op = t[1];
    if (op == "enc")
    {
        if (t.at(3) == "j") return enc<F, json>(t);
        if (t.at(3) == "o") return enc<F, ojson>(t);
        throw bad_op{};
    }
    if (op == "dec")
    {
        auto o = parse_opts<F>(t.at(4));
        if (t.at(3) == "j") return dec_bytes<F, json>(xarg(t.at(5)), o);
        if (t.at(3) == "o") return dec_bytes<F, ojson>(xarg(t.at(5)), o);
        throw bad_op{};
    }
    if (op == "deliver") return deliver<F>(xarg(t.at(4)), parse_opts<F>(t.at(3)));
    throw bad_op{};
}

std::string jvh::handle(const toks_t& t)
{
    if (t.size() < 4 || t[0] != "bin") throw bad_op{};
    const std::string& f = t[2];
    if (f == "cbor") return run<cbor_f>(t);
    if (f == "msgpack") return run<msgpack_f>(t);
    if (f == "ubjson") return run<ubjson_f>(t);
    if (f == "bson") return run<bson_f>(t);
    throw bad_op{};
}

int main() { return run_main(); }
