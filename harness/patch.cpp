// C15 correspondence harness: real jsonpatch::apply_patch / from_diff.
#include "common.hpp"
#include <jsoncons_ext/jsonpatch/jsonpatch.hpp>
using namespace jvh;

template <class Json>
static std::string run(const std::string& op, const toks_t& t)
{
    std::size_t pos = 3;
    Json a = read_val<Json>(t, pos);
    Json b = read_val<Json>(t, pos);
    if (pos != t.size()) throw bad_op{};
    if (op == "apply")
    {
        std::error_code ec;
        jsoncons::jsonpatch::apply_patch(a, b, ec);
        return std::string(ec ? "err " : "ok ") + show(a);
    }
    if (op == "diff")
    {
        return "ok " + show(jsoncons::jsonpatch::from_diff(a, b));
    }
    if (op == "difflaw")
    {
        Json p = jsoncons::jsonpatch::from_diff(a, b);
        std::error_code ec;
        jsoncons::jsonpatch::apply_patch(a, p, ec);
        return std::string(ec ? "err " : "ok ") + show(a);
    }
    throw bad_op{};
}

std::string jvh::handle(const toks_t& t)
{
    if (t.size() < 3 || t[0] != "patch") throw bad_op{};
    if (t[2] == "j") return run<jsoncons::json>(t[1], t);
    if (t[2] == "o") return run<jsoncons::ojson>(t[1], t);
    throw bad_op{};
}

int main() { return run_main(); }
