// C17 harness, slice 2 of the type family (see ty_family.hpp)
#define TY_PART 2
#include "ty_family.hpp"
