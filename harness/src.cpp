// C03 correspondence harness: real jsoncons::stream_source driven by an operation sequence.
#include "common.hpp"
#include <jsoncons/source.hpp>
#include <sstream>
using namespace jvh;

std::string jvh::handle(const toks_t& t)
{
    if (t.size() < 4 || t[0] != "src" || t[1] != "run") throw bad_op{};
    std::size_t k = std::strtoull(t[2].c_str(), nullptr, 10);
    if (t[3].empty() || t[3][0] != 'x') throw bad_op{};
    std::string content = unhex(t[3], 1);
    std::istringstream is(content);
    jsoncons::stream_source<char> src(is, k);
    std::string out = "ok";
    for (std::size_t i = 4; i < t.size(); ++i)
    {
        const std::string& op = t[i];
        std::size_t n = op.size() > 1 ? std::strtoull(op.c_str() + 1, nullptr, 10) : 0;
        switch (op[0])
        {
            case 'r':
            {
                std::vector<char> buf(n + 1);
                std::size_t c = src.read(buf.data(), n);
                out += " r" + std::to_string(c) + ":" + hex(buf.begin(), buf.begin() + c);
                break;
            }
            case 'p':
            {
                auto r = src.peek();
                out += r.eof ? std::string(" p-") : " p" + hex(&r.value, &r.value + 1);
                break;
            }
            case 'i': src.ignore(n); out += " i"; break;
            case 'c':
            {
                auto s = src.read_chunk();
                out += " c" + hex(s.begin(), s.end());
                break;
            }
            case 'e': out += src.eof() ? " e1" : " e0"; break;
            default: throw bad_op{};
        }
    }
    return out;
}

int main() { return run_main(); }
