#!/usr/bin/env python3
"""python3 check.py <property id> [--tier quick|thorough] [--replay FILE]"""
import argparse
import importlib
import os
import sys

ROOT = os.path.dirname(os.path.abspath(__file__))
sys.path.insert(0, ROOT)
sys.path.insert(0, os.path.join(ROOT, "gen"))
import vlib  # noqa: E402


def main():
    ap = argparse.ArgumentParser()
    ap.add_argument("prop")
    ap.add_argument("--tier", default=os.environ.get("VERIF_TIER", "quick"), choices=["quick", "thorough"])
    ap.add_argument("--replay")
    a = ap.parse_args()
    seed = int(os.environ.get("VERIF_SEED", "1"))
    mod = importlib.import_module("checks." + a.prop.lower())
    ctx = vlib.Ctx(a.prop, a.tier, seed)
    if a.replay:
        return mod.replay(ctx, a.replay)
    mod.run(ctx)
    return ctx.conclude(getattr(mod, "search", None))


if __name__ == "__main__":
    sys.exit(main())
