import JV.Basic.JVal
import JV.Basic.Wire
import JV.Model.MergePatch
