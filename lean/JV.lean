import JV.Props.C01
import JV.Props.C02
import JV.Props.C03
import JV.Props.C04
import JV.Props.C07
import JV.Props.C14
import JV.Props.C15
import JV.Props.C16
