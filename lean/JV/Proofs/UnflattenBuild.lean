/-
  JV.Proofs.UnflattenBuild — `unflatten_object` / `try_unflatten_array` on the sorted pointer map
  of a document give the document back, for the documents described by `roundtrippable`.
-/
import JV.Proofs.UnflattenCollect
namespace JV
namespace SMap
open Model Model.Pointer Assoc

/-- a non-empty object that `try_unflatten_array` turns into an array: every member name is an
    RFC 6901 array index and the indices are exactly 0..n-1 -/
def arrayLike (ms : List (Bytes × JVal)) : Bool :=
  match ms.mapM (fun kv => (decToIndex kv.1).map fun n => (n, kv.2)) with
  | none => false
  | some ivs => contiguousFrom 0 (emplaceAll natLt [] ivs)

def sortedB : List (Bytes × JVal) → Bool
  | [] => true
  | [_] => true
  | (k, _) :: (k', v') :: ms => keyLt k k' && sortedB ((k', v') :: ms)

mutual
  /-- the documents `unflatten(flatten(d), options)` gives back unchanged (`assume` = assume_object):
      objects sorted by member name (the `jsoncons::json` representation), arrays shorter than 2^64;
      with `assume_object` no non-empty array; with the default option no non-empty object whose
      member names are exactly the array indices 0..n-1.  Empty containers and scalars anywhere
      (also at the root) are fine. -/
  def roundtrippable (assume : Bool) : JVal → Bool
    | .arr xs => (!assume || xs.isEmpty) && decide (xs.length < 2 ^ 64) && rtList assume xs
    | .obj ms => sortedB ms && (assume || ms.isEmpty || !arrayLike ms) && rtMembers assume ms
    | _ => true
  def rtList (assume : Bool) : List JVal → Bool
    | [] => true
    | x :: xs => roundtrippable assume x && rtList assume xs
  def rtMembers (assume : Bool) : List (Bytes × JVal) → Bool
    | [] => true
    | (_, x) :: ms => roundtrippable assume x && rtMembers assume ms
end

theorem sorted_of_sortedB : ∀ {ms : List (Bytes × JVal)}, sortedB ms = true → Assoc.Sorted ms
  | [], _ => trivial
  | [_], _ => trivial
  | (_, _) :: (_, _) :: _, h => by
    simp only [sortedB, Bool.and_eq_true] at h
    exact ⟨h.1, sorted_of_sortedB h.2⟩

mutual
  theorem rt_wf (assume : Bool) : ∀ (d : JVal), roundtrippable assume d = true → JVal.WF d ∧ SmallArrays d
    | .arr xs, h => by
      simp only [roundtrippable, Bool.and_eq_true, decide_eq_true_eq] at h
      have := rtList_wf assume xs h.2
      exact ⟨by simpa [JVal.WF] using this.1, h.1.2, this.2⟩
    | .obj ms, h => by
      simp only [roundtrippable, Bool.and_eq_true] at h
      have := rtMembers_wf assume ms h.2
      exact ⟨⟨sorted_of_sortedB h.1.1, this.1⟩, by simpa [SmallArrays] using this.2⟩
    | .null, _ => ⟨trivial, trivial⟩
    | .bool _, _ => ⟨trivial, trivial⟩
    | .int _, _ => ⟨trivial, trivial⟩
    | .str _, _ => ⟨trivial, trivial⟩
  theorem rtList_wf (assume : Bool) : ∀ (xs : List JVal), rtList assume xs = true → WFList xs ∧ SmallList xs
    | [], _ => ⟨trivial, trivial⟩
    | x :: xs, h => by
      simp only [rtList, Bool.and_eq_true] at h
      have a := rt_wf assume x h.1
      have b := rtList_wf assume xs h.2
      exact ⟨⟨a.1, b.1⟩, ⟨a.2, b.2⟩⟩
  theorem rtMembers_wf (assume : Bool) : ∀ (ms : List (Bytes × JVal)), rtMembers assume ms = true → WFMembers ms ∧ SmallMembers ms
    | [], _ => ⟨trivial, trivial⟩
    | (_, x) :: ms, h => by
      simp only [rtMembers, Bool.and_eq_true] at h
      have a := rt_wf assume x h.1
      have b := rtMembers_wf assume ms h.2
      exact ⟨⟨a.1, b.1⟩, ⟨a.2, b.2⟩⟩
end

/-! ### option-monad `mapM` on lists -/

theorem mapM_map_opt {α β γ : Type} (f : α → β) (g : β → Option γ) : ∀ l : List α, (l.map f).mapM g = l.mapM (fun a => g (f a))
  | [] => by simp
  | a :: l => by simp [List.mapM_cons, mapM_map_opt f g l]

theorem mapM_congr_opt {α β : Type} {f g : α → Option β} : ∀ {l : List α}, (∀ a ∈ l, f a = g a) → l.mapM f = l.mapM g
  | [], _ => by simp
  | a :: l, h => by
    simp only [List.mapM_cons, h a List.mem_cons_self, mapM_congr_opt (fun b hb => h b (List.mem_cons_of_mem _ hb))]

theorem mapM_some_opt {α β : Type} {f : α → Option β} (g : α → β) : ∀ {l : List α}, (∀ a ∈ l, f a = some (g a)) → l.mapM f = some (l.map g)
  | [], _ => by simp
  | a :: l, h => by
    simp [List.mapM_cons, h a List.mem_cons_self, mapM_some_opt g (fun b hb => h b (List.mem_cons_of_mem _ hb))]

/-! ### shapes -/

theorem SL_cases (d : JVal) (hg : Good d) : SL d = [([], d)] ∨ (SL d ≠ [] ∧ ∀ e ∈ SL d, e.1 ≠ []) := by
  cases d with
  | arr xs =>
    cases xs with
    | nil => left; simp [SL]
    | cons x xs =>
      right; refine ⟨hg.1, ?_⟩
      intro e he
      simp only [SL] at he
      obtain ⟨b, _, e', _, rfl⟩ := mem_joinBlocks.1 he
      simp [pre]
  | obj ms =>
    cases ms with
    | nil => left; simp [SL]
    | cons m ms =>
      right; refine ⟨hg.1, ?_⟩
      intro e he
      simp only [SL] at he
      obtain ⟨b, _, e', _, rfl⟩ := mem_joinBlocks.1 he
      simp [pre]
  | null => left; simp [SL]
  | bool _ => left; simp [SL]
  | int _ => left; simp [SL]
  | str _ => left; simp [SL]

theorem proper_SL (d : JVal) (hg : Good d) : Proper (SL d) := by
  rcases SL_cases d hg with h | h
  · exact Or.inl ⟨d, h⟩
  · exact Or.inr h

theorem itemOfBlock_group (t : Bytes) : ∀ (blk : List Entry), blk ≠ [] → (∀ e ∈ blk, e.1 ≠ []) → itemOfBlock (t, blk) = .group t blk
  | [], h, _ => absurd rfl h
  | ([], _) :: _, _, h => absurd rfl (h _ List.mem_cons_self)
  | (_ :: _, _) :: _, _, _ => rfl

theorem build_leaf (f : Nat) (a t : Bool) (v : JVal) : build false (f + 1) a t [([], v)] = v := by
  cases t <;> simp [build, asArray, asObject, items, idxChild, itemIndex]

theorem objStep_block (sub : List Entry → JVal) (jo : List (Bytes × JVal)) (k : Bytes) (x : JVal) (hg : Good x)
    (hsub : sub (SL x) = x) : objStep false sub jo (itemOfBlock (k, SL x)) = tryEmplace false k x jo := by
  rcases SL_cases x hg with h | h
  · rw [h]; rfl
  · rw [itemOfBlock_group k _ h.1 h.2]; simp [objStep, hsub]

theorem idxChild_block (sub : List Entry → JVal) (k : Bytes) (x : JVal) (hg : Good x)
    (hsub : sub (SL x) = x) : idxChild sub (itemOfBlock (k, SL x)) = (decToIndex k).map (fun n => (n, x)) := by
  rcases SL_cases x hg with h | h
  · rw [h]; rfl
  · rw [itemOfBlock_group k _ h.1 h.2]; simp [idxChild, itemIndex, hsub]

theorem depth_lt_iff : ∀ (es : List Entry) (f : Nat), depth es < f ↔ 0 < f ∧ ∀ e ∈ es, e.1.length < f
  | [], f => by simp [depth]
  | (ts, v) :: es, f => by
    simp only [depth, List.mem_cons]
    rw [Nat.max_lt, depth_lt_iff es f]
    constructor
    · rintro ⟨h1, h2, h3⟩
      refine ⟨h2, ?_⟩
      rintro e (rfl | he)
      · exact h1
      · exact h3 e he
    · rintro ⟨h1, h2⟩
      exact ⟨h2 _ (Or.inl rfl), h1, fun e he => h2 e (Or.inr he)⟩

theorem depth_block {bs : List Block} {b : Block} {f : Nat} (hb : b ∈ bs) (hne : b.2 ≠ [])
    (hd : depth (joinBlocks bs) < f + 1) : depth b.2 < f := by
  have h := (depth_lt_iff _ _).1 hd
  have hall : ∀ e ∈ b.2, e.1.length < f := by
    intro e he
    have := h.2 (pre b.1 e) (mem_joinBlocks.2 ⟨b, hb, e, he, rfl⟩)
    simp [pre] at this; omega
  refine (depth_lt_iff _ _).2 ⟨?_, hall⟩
  cases hb2 : b.2 with
  | nil => exact absurd hb2 hne
  | cons e _ =>
    have := h.2 (pre b.1 e) (mem_joinBlocks.2 ⟨b, hb, e, by rw [hb2]; exact List.mem_cons_self, rfl⟩)
    simp [pre] at this; omega

theorem foldl_tryEmplace_sorted : ∀ (ms acc : List (Bytes × JVal)), SSorted keyLt (acc ++ ms) →
    ms.foldl (fun jo kv => tryEmplace false kv.1 kv.2 jo) acc = acc ++ ms
  | [], acc, _ => by simp
  | (k, v) :: ms, acc, hs => by
    have hstep : tryEmplace false k v acc = acc ++ [(k, v)] := by
      have hacc : SSorted keyLt acc ∧ ∀ e ∈ acc, keyLt e.1 k = true := by
        clear foldl_tryEmplace_sorted
        induction acc with
        | nil => exact ⟨trivial, fun _ h => by cases h⟩
        | cons a acc ih =>
          have ih' := ih hs.2
          refine ⟨⟨fun e he => hs.1 e (List.mem_append_left _ he), ih'.1⟩, ?_⟩
          intro e he
          rcases List.mem_cons.1 he with h | h
          · rw [h]; exact hs.1 (k, v) (List.mem_append_right _ List.mem_cons_self)
          · exact ih'.2 e h
      rw [tryEmplace_eq_mapEmplace k v acc hacc.1]
      clear hs
      induction acc with
      | nil => rfl
      | cons a acc ih =>
        have h1 : keyLt a.1 k = true := hacc.2 a List.mem_cons_self
        simp only [mapEmplace, h1, if_true, List.cons_append]
        rw [ih ⟨hacc.1.2, fun e he => hacc.2 e (List.mem_cons_of_mem _ he)⟩]
    simp only [List.foldl_cons, hstep]
    rw [foldl_tryEmplace_sorted ms (acc ++ [(k, v)]) (by simpa using hs)]
    simp

/-! ### arrays -/

def idxPairs : Nat → List JVal → List (Nat × JVal)
  | _, [] => []
  | i, x :: xs => (i, x) :: idxPairs (i + 1) xs

theorem mem_idxPairs {y : Nat × JVal} : ∀ {xs : List JVal} {i : Nat}, y ∈ idxPairs i xs ↔ ∃ j x, xs[j]? = some x ∧ y = (i + j, x)
  | [], i => by simp [idxPairs]
  | z :: zs, i => by
    simp only [idxPairs, List.mem_cons]
    rw [mem_idxPairs (xs := zs) (i := i + 1)]
    constructor
    · rintro (h | ⟨j, x, hx, h⟩)
      · exact ⟨0, z, by simp, by simpa using h⟩
      · exact ⟨j + 1, x, by simpa using hx, by rw [h]; congr 1; omega⟩
    · rintro ⟨j, x, hx, h⟩
      cases j with
      | zero => simp at hx; subst hx; exact Or.inl (by simpa using h)
      | succ j => exact Or.inr ⟨j, x, by simpa using hx, by rw [h]; congr 1; omega⟩

theorem idxPairs_sorted : ∀ (xs : List JVal) (i : Nat), SSorted natLt (idxPairs i xs)
  | [], _ => trivial
  | x :: xs, i => by
    refine ⟨?_, idxPairs_sorted xs (i + 1)⟩
    intro e he
    obtain ⟨j, y, _, rfl⟩ := mem_idxPairs.1 he
    simp [natLt]; omega

theorem idxPairs_contiguous : ∀ (xs : List JVal) (i : Nat), contiguousFrom i (idxPairs i xs) = true
  | [], _ => rfl
  | x :: xs, i => by simp [idxPairs, contiguousFrom, idxPairs_contiguous xs (i + 1)]

theorem idxPairs_snd : ∀ (xs : List JVal) (i : Nat), (idxPairs i xs).map (·.2) = xs
  | [], _ => rfl
  | x :: xs, i => by simp [idxPairs, idxPairs_snd xs (i + 1)]

theorem functional_of_ssorted {K V : Type} {lt : K → K → Bool} (st : StrictTotal lt) : ∀ {l : List (K × V)}, SSorted lt l → Functional l
  | [], _ => fun _ _ _ h => by cases h
  | (k0, v0) :: l, hs => by
    intro k v v' h1 h2
    rcases List.mem_cons.1 h1 with e1 | m1 <;> rcases List.mem_cons.1 h2 with e2 | m2
    · cases e1; cases e2; rfl
    · cases e1; have := hs.1 _ m2; simp [st.irrefl] at this
    · cases e2; have := hs.1 _ m1; simp [st.irrefl] at this
    · exact functional_of_ssorted st hs.2 k v v' m1 m2

/-! ### the walk gives the document back -/

def Rebuilds (assume : Bool) (d : JVal) : Prop :=
  ∀ fuel, depth (SL d) < fuel → build false fuel (!assume) (!assume) (SL d) = d

theorem asObject_nonroot (sub : List Entry → JVal) : ∀ (es : List Entry), (∀ e ∈ es, e.1 ≠ []) →
    asObject false sub es = .obj ((items es).foldl (objStep false sub) [])
  | [], _ => rfl
  | ([], _) :: _, h => absurd rfl (h _ List.mem_cons_self)
  | (_ :: _, _) :: _, _ => rfl

theorem foldl_congr_mem {α β : Type} {f g : β → α → β} : ∀ {l : List α} {init : β}, (∀ acc, ∀ a ∈ l, f acc a = g acc a) →
    l.foldl f init = l.foldl g init
  | [], _, _ => rfl
  | a :: l, init, h => by
    simp only [List.foldl_cons, h init a List.mem_cons_self]
    exact foldl_congr_mem (fun acc b hb => h acc b (List.mem_cons_of_mem _ hb))

theorem SLMembers_eq_map : ∀ (ms : List (Bytes × JVal)), SLMembers ms = ms.map (fun kv => (kv.1, SL kv.2))
  | [] => rfl
  | (k, x) :: ms => by simp [SLMembers, SLMembers_eq_map ms]

theorem joinBlocks_paths {bs : List Block} : ∀ e ∈ joinBlocks bs, e.1 ≠ [] := by
  intro e he
  obtain ⟨b, _, e', _, rfl⟩ := mem_joinBlocks.1 he
  simp [pre]

theorem rebuild_obj (assume : Bool) (m : Bytes × JVal) (ms : List (Bytes × JVal))
    (hrt : roundtrippable assume (.obj (m :: ms)) = true)
    (hc : ∀ kv ∈ m :: ms, Rebuilds assume kv.2) : Rebuilds assume (.obj (m :: ms)) := by
  intro fuel hd
  cases fuel with
  | zero => omega
  | succ fuel =>
    have hwf := rt_wf assume _ hrt
    have hw' : Assoc.Sorted (m :: ms) ∧ WFMembers (m :: ms) := by simpa [JVal.WF] using hwf.1
    have hgood := goodMembers (m :: ms) hw'.2 (by simpa [SmallArrays] using hwf.2)
    have hss := ssorted_of_sorted hw'.1
    have hSL : SL (.obj (m :: ms)) = joinBlocks (SLMembers (m :: ms)) := by simp [SL]
    rw [hSL] at hd ⊢
    have hitems : items (joinBlocks (SLMembers (m :: ms))) = (SLMembers (m :: ms)).map itemOfBlock :=
      items_joinBlocks (ssorted_SLMembers hss) (by
        intro b hb
        obtain ⟨kv, hkv, rfl⟩ := mem_SLMembers.1 hb
        exact proper_SL _ (hgood kv hkv))
    have hsub : ∀ (a : Bool), a = (!assume) → ∀ kv ∈ m :: ms, build false fuel a a (SL kv.2) = kv.2 := by
      intro a ha kv hkv
      subst ha
      apply hc kv hkv fuel
      exact depth_block (b := (kv.1, SL kv.2)) (mem_SLMembers.2 ⟨kv, hkv, rfl⟩) (hgood kv hkv).1 hd
    have hobj : ∀ (a : Bool), a = (!assume) →
        asObject false (build false fuel a a) (joinBlocks (SLMembers (m :: ms))) = .obj (m :: ms) := by
      intro a ha
      rw [asObject_nonroot _ _ joinBlocks_paths, hitems, SLMembers_eq_map, List.map_map, List.foldl_map]
      have : ((m :: ms).foldl (fun jo kv => objStep false (build false fuel a a) jo ((itemOfBlock ∘ fun kv => (kv.1, SL kv.2)) kv)) []) =
          (m :: ms).foldl (fun jo kv => tryEmplace false kv.1 kv.2 jo) [] := by
        apply foldl_congr_mem
        intro acc kv hkv
        exact objStep_block _ acc kv.1 kv.2 (hgood kv hkv) (hsub a ha kv hkv)
      rw [this, foldl_tryEmplace_sorted (m :: ms) [] (by simpa using hss)]
      simp
    cases assume with
    | true =>
      simp only [Bool.not_true, build, Bool.false_eq_true, if_false]
      exact hobj false rfl
    | false =>
      have hal : arrayLike (m :: ms) = false := by
        simp only [roundtrippable, Bool.and_eq_true, Bool.or_eq_true, Bool.false_eq_true, false_or, List.isEmpty_cons,
          Bool.not_eq_true'] at hrt
        exact hrt.1.2
      have harr : asArray (build false fuel true true) (joinBlocks (SLMembers (m :: ms))) = none := by
        unfold asArray
        rw [hitems, SLMembers_eq_map, List.map_map, mapM_map_opt]
        have hcongr : (m :: ms).mapM (fun kv => idxChild (build false fuel true true) ((itemOfBlock ∘ fun kv => (kv.1, SL kv.2)) kv)) =
            (m :: ms).mapM (fun kv => (decToIndex kv.1).map fun n => (n, kv.2)) := by
          apply mapM_congr_opt
          intro kv hkv
          exact idxChild_block _ kv.1 kv.2 (hgood kv hkv) (hsub true rfl kv hkv)
        rw [hcongr]
        unfold arrayLike at hal
        cases hm : (m :: ms).mapM (fun kv => (decToIndex kv.1).map fun n => (n, kv.2)) with
        | none => rfl
        | some ivs => rw [hm] at hal; simp only [] at hal; simp [hal]
      simp only [Bool.not_false, build, if_true, harr]
      exact hobj true rfl

theorem rebuild_arr (x : JVal) (xs : List JVal) (hrt : roundtrippable false (.arr (x :: xs)) = true)
    (hc : ∀ y ∈ x :: xs, Rebuilds false y) : Rebuilds false (.arr (x :: xs)) := by
  intro fuel hd
  cases fuel with
  | zero => omega
  | succ fuel =>
    have hwf := rt_wf false _ hrt
    have hgood := goodList (x :: xs) (by simpa [JVal.WF] using hwf.1) hwf.2.2
    have hlen : (x :: xs).length < 2 ^ 64 := hwf.2.1
    have hB := arrBlocks_spec (x :: xs) hlen
    have hSL : SL (.arr (x :: xs)) = joinBlocks (emplaceAll keyLt [] (SLElems 0 (x :: xs))) := by simp [SL]
    rw [hSL] at hd ⊢
    generalize hBdef : emplaceAll keyLt [] (SLElems 0 (x :: xs)) = B at hB hd ⊢
    have hmemB : ∀ b ∈ B, ∃ j y, (x :: xs)[j]? = some y ∧ b = (natDigits j, SL y) := by
      intro b hb
      obtain ⟨j, y, hy, e⟩ := mem_SLElems.1 ((hB.2 b).1 hb)
      exact ⟨j, y, hy, by simpa using e⟩
    have hitems : items (joinBlocks B) = B.map itemOfBlock :=
      items_joinBlocks hB.1 (by
        intro b hb
        obtain ⟨j, y, hy, rfl⟩ := hmemB b hb
        exact proper_SL _ (hgood y (List.mem_of_getElem? hy)))
    let sub := build false fuel true true
    have hidx : ∀ b ∈ B, ∃ j y, (x :: xs)[j]? = some y ∧ idxChild sub (itemOfBlock b) = some (j, y) := by
      intro b hb
      obtain ⟨j, y, hy, rfl⟩ := hmemB b hb
      have hym := List.mem_of_getElem? hy
      have hj : j < (x :: xs).length := (List.getElem?_eq_some_iff.1 hy).1
      have hs : sub (SL y) = y := by
        apply hc y hym fuel
        exact depth_block (b := (natDigits j, SL y)) hb (hgood y hym).1 hd
      refine ⟨j, y, hy, ?_⟩
      rw [idxChild_block sub _ y (hgood y hym) hs, decToIndex_natDigits j (by omega)]
      rfl
    let g : Block → Nat × JVal := fun b => match idxChild sub (itemOfBlock b) with | some r => r | none => (0, .null)
    have hg : ∀ b ∈ B, idxChild sub (itemOfBlock b) = some (g b) := by
      intro b hb
      obtain ⟨j, y, _, h⟩ := hidx b hb
      simp only [g, h]
    have hmapM : (items (joinBlocks B)).mapM (idxChild sub) = some (B.map g) := by
      rw [hitems, mapM_map_opt]
      exact mapM_some_opt g hg
    have hmem : ∀ p, p ∈ B.map g ↔ p ∈ idxPairs 0 (x :: xs) := by
      intro p
      rw [mem_idxPairs]
      constructor
      · intro hp
        obtain ⟨b, hb, rfl⟩ := List.mem_map.1 hp
        obtain ⟨j, y, hy, h⟩ := hidx b hb
        exact ⟨j, y, hy, by simp only [g, h]; simp⟩
      · rintro ⟨j, y, hy, rfl⟩
        have hb : (natDigits j, SL y) ∈ B := (hB.2 _).2 (mem_SLElems.2 ⟨j, y, hy, by simp⟩)
        obtain ⟨j', y', hy', h⟩ := hidx _ hb
        refine List.mem_map.2 ⟨_, hb, ?_⟩
        -- the index read back from the block's key is `j`
        have hj : j < (x :: xs).length := (List.getElem?_eq_some_iff.1 hy).1
        have hym := List.mem_of_getElem? hy
        have hs : sub (SL y) = y := by
          apply hc y hym fuel
          exact depth_block (b := (natDigits j, SL y)) hb (hgood y hym).1 hd
        have h2 : idxChild sub (itemOfBlock (natDigits j, SL y)) = some (j, y) := by
          rw [idxChild_block sub _ y (hgood y hym) hs, decToIndex_natDigits j (by omega)]; rfl
        simp only [g, h2]; simp
    have hsorted := idxPairs_sorted (x :: xs) 0
    have hfun : Functional ([] ++ B.map g) := by
      intro k v v' h1 h2
      simp only [List.nil_append] at h1 h2
      exact functional_of_ssorted natLt_st hsorted k v v' ((hmem _).1 h1) ((hmem _).1 h2)
    have sM := emplaceAll_spec natLt_st (B.map g) [] trivial hfun
    have hm : emplaceAll natLt [] (B.map g) = idxPairs 0 (x :: xs) := by
      apply ext natLt_st sM.1 hsorted
      intro p
      rw [sM.2 p, ← hmem p]; simp
    have harr : asArray sub (joinBlocks B) = some (.arr (x :: xs)) := by
      unfold asArray
      rw [hmapM]
      simp only [hm, idxPairs_contiguous, if_true, idxPairs_snd]
    simp only [Bool.not_false, build, if_true]
    show (match asArray sub (joinBlocks B) with | some a => a | none => _) = _
    rw [harr]

mutual
  theorem rebuilds (assume : Bool) : ∀ (d : JVal), roundtrippable assume d = true → Rebuilds assume d
    | .arr [], _ => fun fuel hd => by
      cases fuel with
      | zero => omega
      | succ f => simp only [SL]; exact build_leaf f _ _ _
    | .arr (x :: xs), h => by
      have h' := h
      simp only [roundtrippable, Bool.and_eq_true] at h'
      cases assume with
      | true => simp at h'
      | false => exact rebuild_arr x xs h (rebuildsList false (x :: xs) h'.2)
    | .obj [], _ => fun fuel hd => by
      cases fuel with
      | zero => omega
      | succ f => simp only [SL]; exact build_leaf f _ _ _
    | .obj (m :: ms), h => by
      have h' := h
      simp only [roundtrippable, Bool.and_eq_true] at h'
      exact rebuild_obj assume m ms h (rebuildsMembers assume (m :: ms) h'.2)
    | .null, _ => fun fuel hd => by
      cases fuel with
      | zero => omega
      | succ f => simp only [SL]; exact build_leaf f _ _ _
    | .bool _, _ => fun fuel hd => by
      cases fuel with
      | zero => omega
      | succ f => simp only [SL]; exact build_leaf f _ _ _
    | .int _, _ => fun fuel hd => by
      cases fuel with
      | zero => omega
      | succ f => simp only [SL]; exact build_leaf f _ _ _
    | .str _, _ => fun fuel hd => by
      cases fuel with
      | zero => omega
      | succ f => simp only [SL]; exact build_leaf f _ _ _
  theorem rebuildsList (assume : Bool) : ∀ (xs : List JVal), rtList assume xs = true → ∀ y ∈ xs, Rebuilds assume y
    | [], _, _, hy => by cases hy
    | x :: xs, h, y, hy => by
      simp only [rtList, Bool.and_eq_true] at h
      rcases List.mem_cons.1 hy with e | hm
      · rw [e]; exact rebuilds assume x h.1
      · exact rebuildsList assume xs h.2 y hm
  theorem rebuildsMembers (assume : Bool) : ∀ (ms : List (Bytes × JVal)), rtMembers assume ms = true → ∀ kv ∈ ms, Rebuilds assume kv.2
    | [], _, _, hy => by cases hy
    | (k, x) :: ms, h, kv, hy => by
      simp only [rtMembers, Bool.and_eq_true] at h
      rcases List.mem_cons.1 hy with e | hm
      · rw [e]; exact rebuilds assume x h.1
      · exact rebuildsMembers assume ms h.2 kv hm
end

/-- `unflatten(flatten(d), options) = d` for every roundtrippable document -/
theorem unflatten_flatten_main (assume : Bool) (d : JVal) (h : roundtrippable assume d = true) :
    unflatten false assume (flatten false d) = .ok d := by
  have hwf := rt_wf assume d h
  obtain ⟨F, hF, hne, hcol⟩ := flatten_collect d hwf.1 hwf.2
  rw [hF]
  cases F with
  | nil => exact absurd rfl hne
  | cons m ms =>
    simp only [unflatten, hcol]
    congr 1
    exact rebuilds assume d h (depth (SL d) + 1) (Nat.lt_succ_self _)

/-- the default option's ambiguity is real: a sorted object whose member names are exactly the array
    indices 0..n-1 (children roundtrippable) comes back as an ARRAY, so the `arrayLike` clause of
    `roundtrippable` cannot be dropped -/
theorem index_named_main (m : Bytes × JVal) (ms : List (Bytes × JVal)) (hs : sortedB (m :: ms) = true)
    (hc : rtMembers false (m :: ms) = true) (hal : arrayLike (m :: ms) = true) :
    ∃ xs, unflatten false false (flatten false (.obj (m :: ms))) = .ok (.arr xs) := by
  have hmw := rtMembers_wf false _ hc
  have hw : JVal.WF (.obj (m :: ms)) := ⟨sorted_of_sortedB hs, hmw.1⟩
  have hsm : SmallArrays (.obj (m :: ms)) := by simpa [SmallArrays] using hmw.2
  obtain ⟨F, hF, hne, hcol⟩ := flatten_collect _ hw hsm
  have hgood := goodMembers (m :: ms) hmw.1 hmw.2
  have hss := ssorted_of_sorted (sorted_of_sortedB hs)
  have hSL : SL (.obj (m :: ms)) = joinBlocks (SLMembers (m :: ms)) := by simp [SL]
  have hitems : items (joinBlocks (SLMembers (m :: ms))) = (SLMembers (m :: ms)).map itemOfBlock :=
    items_joinBlocks (ssorted_SLMembers hss) (by
      intro b hb
      obtain ⟨kv, hkv, rfl⟩ := mem_SLMembers.1 hb
      exact proper_SL _ (hgood kv hkv))
  rw [hF]
  cases F with
  | nil => exact absurd rfl hne
  | cons m0 ms0 =>
    simp only [unflatten, hcol, hSL, Bool.not_false, build, if_true]
    generalize hfu : depth (joinBlocks (SLMembers (m :: ms))) = fuel
    have hd : depth (joinBlocks (SLMembers (m :: ms))) < fuel + 1 := by omega
    have hsub : ∀ kv ∈ m :: ms, build false fuel true true (SL kv.2) = kv.2 := by
      intro kv hkv
      apply rebuildsMembers false (m :: ms) hc kv hkv fuel
      exact depth_block (b := (kv.1, SL kv.2)) (mem_SLMembers.2 ⟨kv, hkv, rfl⟩) (hgood kv hkv).1 hd
    have harr : ∃ xs, asArray (build false fuel true true) (joinBlocks (SLMembers (m :: ms))) = some (.arr xs) := by
      unfold asArray
      rw [hitems, SLMembers_eq_map, List.map_map, mapM_map_opt]
      have hcongr : (m :: ms).mapM (fun kv => idxChild (build false fuel true true) ((itemOfBlock ∘ fun kv => (kv.1, SL kv.2)) kv)) =
          (m :: ms).mapM (fun kv => (decToIndex kv.1).map fun n => (n, kv.2)) := by
        apply mapM_congr_opt
        intro kv hkv
        exact idxChild_block _ kv.1 kv.2 (hgood kv hkv) (hsub kv hkv)
      rw [hcongr]
      unfold arrayLike at hal
      cases hm : (m :: ms).mapM (fun kv => (decToIndex kv.1).map fun n => (n, kv.2)) with
      | none => rw [hm] at hal; cases hal
      | some ivs =>
        rw [hm] at hal; simp only [] at hal
        exact ⟨(emplaceAll natLt [] ivs).map (·.2), by simp only [hal, if_true]⟩
    obtain ⟨xs, hx⟩ := harr
    exact ⟨xs, by rw [hx]⟩

/-- the members of `flatten d` are the (pointer text, leaf) pairs of `d` -/
theorem flatten_members (d : JVal) (hw : JVal.WF d) (hs : SmallArrays d) :
    ∀ kv, kv ∈ flattenInto false [] d [] ↔ ∃ e ∈ leaves d, kv = (Pointer.toString e.1, e.2) := by
  have hfun := leaves_functional d hw hs
  rw [flattenInto_eq d [] [] hs, emplaceStr_eq [] (leaves d) [] trivial]
  have hf1 : Functional ([] ++ (leaves d).map (strKey [])) := by
    intro k v v' h1 h2
    simp only [List.nil_append] at h1 h2
    obtain ⟨e, he, h⟩ := List.mem_map.1 h1
    obtain ⟨e', he', h'⟩ := List.mem_map.1 h2
    simp only [strKey, List.nil_append] at h h'
    have hp : e.1 = e'.1 := toString_inj (by rw [(Prod.mk.inj h).1, (Prod.mk.inj h').1])
    rw [← (Prod.mk.inj h).2, ← (Prod.mk.inj h').2]
    apply hfun e.1 e.2 e'.2 he
    rw [hp]; exact he'
  have sF := emplaceAll_spec keyLt_st ((leaves d).map (strKey [])) [] trivial hf1
  intro kv
  rw [sF.2 kv]
  constructor
  · rintro (h | h)
    · cases h
    · obtain ⟨e, he, rfl⟩ := List.mem_map.1 h
      exact ⟨e, he, by simp [strKey]⟩
  · rintro ⟨e, he, rfl⟩
    exact Or.inr (List.mem_map.2 ⟨e, he, by simp [strKey]⟩)

end SMap
end JV
