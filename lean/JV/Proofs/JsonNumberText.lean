/-
  JV.Proofs.JsonNumberText — the RFC 8259 number reader `Spec.Rfc8259.parseNumber` is local: what it returns depends only on
  the text up to the first byte that cannot continue a number. Used by the document round trip (Proofs/JsonEncodeParse):
  a literal that is a complete number on its own is read back unchanged when a "," "]" "}" or nothing follows.
-/
import JV.Spec.Rfc8259
namespace JV
namespace Spec
namespace Rfc8259

/-- `rest` cannot continue a number: it is empty or starts with a byte that is not a digit, '.', 'e', 'E', '+', '-' -/
def Stop (rest : Bytes) : Prop :=
  ∀ c r, rest = c :: r → isDigit c = false ∧ c ≠ 46 ∧ c ≠ 101 ∧ c ≠ 69 ∧ c ≠ 43 ∧ c ≠ 45

theorem stop_nil : Stop [] := by intro c r h; cases h

theorem stop_cons (c : Nat) (r : Bytes) (h : isDigit c = false ∧ c ≠ 46 ∧ c ≠ 101 ∧ c ≠ 69 ∧ c ≠ 43 ∧ c ≠ 45) : Stop (c :: r) := by
  intro c' r' e; cases e; exact h

theorem takeDigits_append (rest : Bytes) (hr : Stop rest) : ∀ s : Bytes,
    takeDigits (s ++ rest) = ((takeDigits s).1, (takeDigits s).2 ++ rest)
  | [] => by
    cases rest with
    | nil => simp [takeDigits]
    | cons c r => simp [takeDigits, (hr c r rfl).1]
  | c :: cs => by
    by_cases hd : isDigit c = true
    · simp [takeDigits, hd, takeDigits_append rest hr cs]
    · simp [takeDigits, hd]

/-! the four stages of `parseNumber` -/
def pSign (s : Bytes) : Bytes × Bytes :=
  match s with
  | 45 :: r => ([45], r)
  | _ => ([], s)

def pInt (s1 : Bytes) : Option (Bytes × Bytes) :=
  match s1 with
  | [] => none
  | c :: cs =>
    if c = 48 then some ([48], cs)
    else if 49 ≤ c ∧ c ≤ 57 then let r := takeDigits cs; some (c :: r.1, r.2)
    else none

def pFrac (s2 : Bytes) : Option (Bytes × Bytes) :=
  match s2 with
  | 46 :: r => let d := takeDigits r; if d.1 = [] then none else some (46 :: d.1, d.2)
  | _ => some ([], s2)

def pExp (s3 : Bytes) : Option (Bytes × Bytes) :=
  match s3 with
  | e :: r =>
    if e = 101 || e = 69 then
      let (sg, r1) := match r with
        | 43 :: r' => ([43], r')
        | 45 :: r' => ([45], r')
        | _ => ([], r)
      let d := takeDigits r1
      if d.1 = [] then none else some (e :: sg ++ d.1, d.2)
    else some ([], s3)
  | [] => some ([], s3)

def staged (s : Bytes) : Option (Bytes × Bytes) :=
  match pInt (pSign s).2 with
  | none => none
  | some (ip, s2) =>
    match pFrac s2 with
    | none => none
    | some (fp, s3) =>
      match pExp s3 with
      | none => none
      | some (ep, s4) => some ((pSign s).1 ++ ip ++ fp ++ ep, s4)

/-- everything after the sign of `parseNumber`, with the stages named -/
def afterSign (sg s1 : Bytes) : Option (Bytes × Bytes) :=
  match pInt s1 with
  | none => none
  | some (ip, s2) =>
    match pFrac s2 with
    | none => none
    | some (fp, s3) =>
      match pExp s3 with
      | none => none
      | some (ep, s4) => some (sg ++ ip ++ fp ++ ep, s4)

theorem staged_eq (s : Bytes) : staged s = afterSign (pSign s).1 (pSign s).2 := rfl

theorem parseNumber_afterSign_neg (r : Bytes) : parseNumber (45 :: r) = afterSign [45] r := by
  cases r <;> rfl

theorem pSign_pos (c : Nat) (cs : Bytes) (h : c ≠ 45) : pSign (c :: cs) = ([], c :: cs) := by
  unfold pSign
  split
  · rename_i heq; cases heq; exact absurd rfl h
  · rfl

theorem parseNumber_afterSign_pos (c : Nat) (cs : Bytes) (h : c ≠ 45) : parseNumber (c :: cs) = afterSign [] (c :: cs) := by
  unfold parseNumber
  split
  rename_i x sg r1 heq
  split at heq
  · rename_i h2; cases h2; exact absurd rfl h
  · cases heq
    rfl

theorem parseNumber_staged (s : Bytes) : parseNumber s = staged s := by
  rw [staged_eq]
  match s with
  | [] => rfl
  | c :: cs =>
    by_cases h : c = 45
    · subst h; exact parseNumber_afterSign_neg cs
    · rw [parseNumber_afterSign_pos c cs h, pSign_pos c cs h]

/-! ### each stage is local -/

theorem pSign_append (rest : Bytes) (hr : Stop rest) (s : Bytes) :
    pSign (s ++ rest) = ((pSign s).1, (pSign s).2 ++ rest) := by
  match s with
  | [] =>
    match rest, hr with
    | [], _ => rfl
    | c :: r, hr => simp [pSign_pos c r (hr c r rfl).2.2.2.2.2]; exact ⟨rfl, rfl⟩
  | c :: cs =>
    by_cases h : c = 45
    · subst h; rfl
    · simp [pSign_pos c _ h]

theorem pInt_append (rest : Bytes) (hr : Stop rest) (s a t : Bytes) (h : pInt s = some (a, t)) :
    pInt (s ++ rest) = some (a, t ++ rest) := by
  match s with
  | [] => simp [pInt] at h
  | c :: cs =>
    simp only [pInt, List.cons_append] at h ⊢
    by_cases h48 : c = 48
    · simp only [h48, if_true, Option.some.injEq, Prod.mk.injEq] at h ⊢
      obtain ⟨rfl, rfl⟩ := h; simp
    · simp only [h48, if_false] at h ⊢
      by_cases hd : 49 ≤ c ∧ c ≤ 57
      · simp only [hd, and_self, if_true, Option.some.injEq, Prod.mk.injEq] at h ⊢
        obtain ⟨rfl, rfl⟩ := h
        simp [takeDigits_append rest hr cs]
      · simp [hd] at h

theorem pFrac_append (rest : Bytes) (hr : Stop rest) (s a t : Bytes) (h : pFrac s = some (a, t)) :
    pFrac (s ++ rest) = some (a, t ++ rest) := by
  match s with
  | [] =>
    have : a = [] ∧ t = [] := by simpa [pFrac, eq_comm] using h
    obtain ⟨rfl, rfl⟩ := this
    match rest, hr with
    | [], _ => rfl
    | c :: r, hr =>
      have h46 := (hr c r rfl).2.1
      simp only [List.nil_append]
      unfold pFrac
      split
      · rename_i heq; cases heq; exact absurd rfl h46
      · rfl
  | c :: cs =>
    by_cases h46 : c = 46
    · subst h46
      simp only [pFrac, List.cons_append, takeDigits_append rest hr cs] at h ⊢
      by_cases hd : (takeDigits cs).1 = []
      · simp [hd] at h
      · simp only [hd, if_false, Option.some.injEq, Prod.mk.injEq] at h ⊢
        obtain ⟨rfl, rfl⟩ := h; simp
    · have e1 : ∀ x : Bytes, pFrac (c :: x) = some ([], c :: x) := by
        intro x; unfold pFrac; split
        · rename_i heq; cases heq; exact absurd rfl h46
        · rfl
      rw [e1] at h
      simp only [Option.some.injEq, Prod.mk.injEq] at h
      obtain ⟨rfl, rfl⟩ := h
      simp [e1]

/-- the optional sign of an exponent -/
def eSign (r : Bytes) : Bytes × Bytes :=
  match r with
  | 43 :: r' => ([43], r')
  | 45 :: r' => ([45], r')
  | _ => ([], r)

theorem eSign_other (c : Nat) (r : Bytes) (h43 : c ≠ 43) (h45 : c ≠ 45) : eSign (c :: r) = ([], c :: r) := by
  unfold eSign
  split
  · rename_i heq; cases heq; exact absurd rfl h43
  · rename_i heq; cases heq; exact absurd rfl h45
  · rfl

theorem eSign_append (rest : Bytes) (hr : Stop rest) (s : Bytes) :
    eSign (s ++ rest) = ((eSign s).1, (eSign s).2 ++ rest) := by
  match s with
  | [] =>
    match rest, hr with
    | [], _ => rfl
    | c :: r, hr => simp [eSign_other c r (hr c r rfl).2.2.2.2.1 (hr c r rfl).2.2.2.2.2]; exact ⟨rfl, rfl⟩
  | c :: cs =>
    by_cases h43 : c = 43
    · subst h43; rfl
    · by_cases h45 : c = 45
      · subst h45; rfl
      · simp [eSign_other c _ h43 h45]

theorem pExp_cons (e : Nat) (r : Bytes) : pExp (e :: r) =
    if e = 101 || e = 69 then
      (if (takeDigits (eSign r).2).1 = [] then none else some (e :: (eSign r).1 ++ (takeDigits (eSign r).2).1, (takeDigits (eSign r).2).2))
    else some ([], e :: r) := by
  unfold pExp eSign
  rfl

theorem pExp_append (rest : Bytes) (hr : Stop rest) (s a t : Bytes) (h : pExp s = some (a, t)) :
    pExp (s ++ rest) = some (a, t ++ rest) := by
  match s with
  | [] =>
    have : a = [] ∧ t = [] := by simpa [pExp, eq_comm] using h
    obtain ⟨rfl, rfl⟩ := this
    match rest, hr with
    | [], _ => rfl
    | c :: r, hr =>
      have h101 := (hr c r rfl).2.2.1
      have h69 := (hr c r rfl).2.2.2.1
      simp [pExp_cons, h101, h69]
  | e :: r =>
    simp only [List.cons_append, pExp_cons] at h ⊢
    by_cases he : (e = 101 || e = 69) = true
    · simp only [he, if_true, eSign_append rest hr r, takeDigits_append rest hr] at h ⊢
      by_cases hd : (takeDigits (eSign r).2).1 = []
      · simp [hd] at h
      · simp only [hd, if_false, Option.some.injEq, Prod.mk.injEq] at h ⊢
        obtain ⟨rfl, rfl⟩ := h; simp
    · simp only [he, Bool.false_eq_true, if_false, Option.some.injEq, Prod.mk.injEq] at h ⊢
      obtain ⟨rfl, rfl⟩ := h; simp

theorem afterSign_append (rest : Bytes) (hr : Stop rest) (sg s l t : Bytes) (h : afterSign sg s = some (l, t)) :
    afterSign sg (s ++ rest) = some (l, t ++ rest) := by
  unfold afterSign at h ⊢
  cases h1 : pInt s with
  | none => simp [h1] at h
  | some p1 =>
    obtain ⟨ip, s2⟩ := p1
    simp only [h1] at h
    cases h2 : pFrac s2 with
    | none => simp [h2] at h
    | some p2 =>
      obtain ⟨fp, s3⟩ := p2
      simp only [h2] at h
      cases h3 : pExp s3 with
      | none => simp [h3] at h
      | some p3 =>
        obtain ⟨ep, s4⟩ := p3
        simp only [h3, Option.some.injEq, Prod.mk.injEq] at h
        obtain ⟨rfl, rfl⟩ := h
        simp only [pInt_append rest hr s ip s2 h1, pFrac_append rest hr s2 fp s3 h2, pExp_append rest hr s3 ep s4 h3]

/-- a number read from `s` is read identically from `s ++ rest` when `rest` cannot continue a number -/
theorem parseNumber_append (rest : Bytes) (hr : Stop rest) (s l t : Bytes) (h : parseNumber s = some (l, t)) :
    parseNumber (s ++ rest) = some (l, t ++ rest) := by
  rw [parseNumber_staged, staged_eq] at h ⊢
  rw [pSign_append rest hr s]
  exact afterSign_append rest hr _ _ l t h

/-- a literal that is a complete number is not empty and starts with '-' or a digit -/
theorem parseNumber_head (s l t : Bytes) (h : parseNumber s = some (l, t)) :
    ∃ c cs, s = c :: cs ∧ (c = 45 ∨ isDigit c = true) := by
  match s with
  | [] => simp [parseNumber] at h
  | c :: cs =>
    refine ⟨c, cs, rfl, ?_⟩
    by_cases h45 : c = 45
    · exact Or.inl h45
    · right
      rw [parseNumber_afterSign_pos c cs h45] at h
      unfold afterSign at h
      cases h1 : pInt (c :: cs) with
      | none => simp [h1] at h
      | some p1 =>
        simp only [pInt] at h1
        by_cases h48 : c = 48
        · subst h48; decide
        · by_cases hd : 49 ≤ c ∧ c ≤ 57
          · simp only [isDigit, Bool.and_eq_true, decide_eq_true_eq]; omega
          · simp [h48, hd] at h1

/-! ### the bytes of a number literal -/

/-- digit, sign, decimal point or exponent mark -/
def NumCh (c : Nat) : Prop := isDigit c = true ∨ c = 45 ∨ c = 43 ∨ c = 46 ∨ c = 101 ∨ c = 69

theorem takeDigits_chars : ∀ (s : Bytes) (c : Nat), c ∈ (takeDigits s).1 → NumCh c
  | [], c, h => by simp [takeDigits] at h
  | d :: ds, c, h => by
    by_cases hd : isDigit d = true
    · simp only [takeDigits, hd, if_true, List.mem_cons] at h
      rcases h with rfl | h
      · exact Or.inl hd
      · exact takeDigits_chars ds c h
    · simp [takeDigits, hd] at h

theorem pInt_chars (s a t : Bytes) (h : pInt s = some (a, t)) : ∀ c ∈ a, NumCh c := by
  match s with
  | [] => simp [pInt] at h
  | d :: ds =>
    simp only [pInt] at h
    by_cases h48 : d = 48
    · simp only [h48, if_true, Option.some.injEq, Prod.mk.injEq] at h
      obtain ⟨rfl, _⟩ := h
      intro c hc; simp at hc; subst hc; exact Or.inl (by decide)
    · simp only [h48, if_false] at h
      by_cases hd : 49 ≤ d ∧ d ≤ 57
      · simp only [hd, and_self, if_true, Option.some.injEq, Prod.mk.injEq] at h
        obtain ⟨rfl, _⟩ := h
        intro c hc
        rcases List.mem_cons.1 hc with rfl | hc
        · left; simp only [isDigit, Bool.and_eq_true, decide_eq_true_eq]; omega
        · exact takeDigits_chars _ c hc
      · simp [hd] at h

theorem pFrac_chars (s a t : Bytes) (h : pFrac s = some (a, t)) : ∀ c ∈ a, NumCh c := by
  match s with
  | [] =>
    have : a = [] ∧ t = [] := by simpa [pFrac, eq_comm] using h
    intro c hc; simp [this.1] at hc
  | d :: ds =>
    by_cases h46 : d = 46
    · subst h46
      simp only [pFrac] at h
      by_cases hd : (takeDigits ds).1 = []
      · simp [hd] at h
      · simp only [hd, if_false, Option.some.injEq, Prod.mk.injEq] at h
        obtain ⟨rfl, _⟩ := h
        intro c hc
        rcases List.mem_cons.1 hc with rfl | hc
        · exact Or.inr (Or.inr (Or.inr (Or.inl rfl)))
        · exact takeDigits_chars _ c hc
    · have e1 : pFrac (d :: ds) = some ([], d :: ds) := by
        unfold pFrac; split
        · rename_i heq; cases heq; exact absurd rfl h46
        · rfl
      rw [e1] at h
      simp only [Option.some.injEq, Prod.mk.injEq] at h
      intro c hc; simp [← h.1] at hc

theorem eSign_chars (r : Bytes) : ∀ c ∈ (eSign r).1, NumCh c := by
  unfold eSign
  split <;> intro c hc <;> simp at hc
  · subst hc; exact Or.inr (Or.inr (Or.inl rfl))
  · subst hc; exact Or.inr (Or.inl rfl)

theorem pExp_chars (s a t : Bytes) (h : pExp s = some (a, t)) : ∀ c ∈ a, NumCh c := by
  match s with
  | [] =>
    have : a = [] ∧ t = [] := by simpa [pExp, eq_comm] using h
    intro c hc; simp [this.1] at hc
  | e :: r =>
    simp only [pExp_cons] at h
    by_cases he : (e = 101 || e = 69) = true
    · simp only [he, if_true] at h
      by_cases hd : (takeDigits (eSign r).2).1 = []
      · simp [hd] at h
      · simp only [hd, if_false, Option.some.injEq, Prod.mk.injEq] at h
        obtain ⟨rfl, _⟩ := h
        intro c hc
        rcases List.mem_cons.1 hc with rfl | hc
        · simp only [Bool.or_eq_true, decide_eq_true_eq] at he
          rcases he with rfl | rfl
          · exact Or.inr (Or.inr (Or.inr (Or.inr (Or.inl rfl))))
          · exact Or.inr (Or.inr (Or.inr (Or.inr (Or.inr rfl))))
        · rcases List.mem_append.1 hc with hc | hc
          · exact eSign_chars r c hc
          · exact takeDigits_chars _ c hc
    · simp only [he, Bool.false_eq_true, if_false, Option.some.injEq, Prod.mk.injEq] at h
      intro c hc; simp [← h.1] at hc

theorem pSign_chars (s : Bytes) : ∀ c ∈ (pSign s).1, NumCh c := by
  unfold pSign
  split <;> intro c hc <;> simp at hc
  subst hc; exact Or.inr (Or.inl rfl)

/-- a number literal consists of digits, signs, '.', 'e', 'E' -/
theorem parseNumber_chars (s l t : Bytes) (h : parseNumber s = some (l, t)) : ∀ c ∈ l, NumCh c := by
  rw [parseNumber_staged, staged_eq] at h
  unfold afterSign at h
  cases h1 : pInt (pSign s).2 with
  | none => simp [h1] at h
  | some p1 =>
    obtain ⟨ip, s2⟩ := p1
    simp only [h1] at h
    cases h2 : pFrac s2 with
    | none => simp [h2] at h
    | some p2 =>
      obtain ⟨fp, s3⟩ := p2
      simp only [h2] at h
      cases h3 : pExp s3 with
      | none => simp [h3] at h
      | some p3 =>
        obtain ⟨ep, s4⟩ := p3
        simp only [h3, Option.some.injEq, Prod.mk.injEq] at h
        obtain ⟨rfl, _⟩ := h
        intro c hc
        simp only [List.mem_append] at hc
        rcases hc with ((hc | hc) | hc) | hc
        · exact pSign_chars s c hc
        · exact pInt_chars _ _ _ h1 c hc
        · exact pFrac_chars _ _ _ h2 c hc
        · exact pExp_chars _ _ _ h3 c hc

theorem NumCh.plain {c : Nat} (h : NumCh c) : isWs c = false ∧ c ≠ 34 := by
  unfold NumCh at h
  simp only [isDigit, Bool.and_eq_true, decide_eq_true_eq] at h
  simp only [isWs, Bool.or_eq_false_iff, decide_eq_false_iff_not]
  omega

end Rfc8259
end Spec
end JV
