/-
  JV.Proofs.CompareFull — `compare` on containers is `vecCmp` over the element comparison; domains; antisymmetry and reflexivity.
-/
import JV.Proofs.CompareLex
import JV.Proofs.CompareNum
namespace JV
namespace Model
namespace Compare

/-- `key_value` three-way: the key decides, then the value -/
def kvCmp (p q : Bytes × CVal) : Int := if keyLt p.1 q.1 then -1 else if keyLt q.1 p.1 then 1 else compare p.2 q.2

theorem arrEq_eq : ∀ xs ys : List CVal, arrEq xs ys = allEq compare xs ys
  | [], [] => by simp [arrEq, allEq]
  | [], _ :: _ => by simp [arrEq, allEq]
  | _ :: _, [] => by simp [arrEq, allEq]
  | x :: xs, y :: ys => by simp [arrEq, allEq, arrEq_eq xs ys]

theorem arrLt_eq : ∀ xs ys : List CVal, arrLt xs ys = lexLt compare xs ys
  | [], [] => by simp [arrLt, lexLt]
  | [], _ :: _ => by simp [arrLt, lexLt]
  | _ :: _, [] => by simp [arrLt, lexLt]
  | x :: xs, y :: ys => by simp [arrLt, lexLt, arrLt_eq xs ys]

theorem kv_eq_iff (k l : Bytes) (x y : CVal) : (k == l && compare x y == 0) = (kvCmp (k, x) (l, y) == 0) := by
  unfold kvCmp
  rcases Assoc.keyLt_trichotomy k l with h | h | h
  · have := Assoc.keyLt_ne h; simp [h, this]
  · subst h; simp [Assoc.keyLt_irrefl]
  · have := Assoc.keyLt_ne h
    have : ¬ k = l := fun e => this e.symm
    simp [h, Assoc.keyLt_asymm h, this]

theorem kv_lt_iff (k l : Bytes) (x y : CVal) : (keyLt k l || (k == l && compare x y < 0)) = decide (kvCmp (k, x) (l, y) < 0) := by
  unfold kvCmp
  rcases Assoc.keyLt_trichotomy k l with h | h | h
  · simp [h]
  · subst h; simp [Assoc.keyLt_irrefl]
  · have := Assoc.keyLt_ne h
    have : ¬ k = l := fun e => this e.symm
    simp [h, Assoc.keyLt_asymm h, this]

theorem objEq_eq : ∀ ms ns : List (Bytes × CVal), objEq ms ns = allEq kvCmp ms ns
  | [], [] => by simp [objEq, allEq]
  | [], _ :: _ => by simp [objEq, allEq]
  | _ :: _, [] => by simp [objEq, allEq]
  | (k, x) :: ms, (l, y) :: ns => by
    simp only [objEq, allEq, objEq_eq ms ns, Bool.and_assoc]
    rw [← Bool.and_assoc, kv_eq_iff]

theorem objLt_eq : ∀ ms ns : List (Bytes × CVal), objLt ms ns = lexLt kvCmp ms ns
  | [], [] => by simp [objLt, lexLt]
  | [], _ :: _ => by simp [objLt, lexLt]
  | _ :: _, [] => by simp [objLt, lexLt]
  | (k, x) :: ms, (l, y) :: ns => by
    simp only [objLt, lexLt, objLt_eq ms ns, kv_lt_iff, decide_eq_true_eq]

theorem compare_arr (xs ys : List CVal) : compare (.arr xs) (.arr ys) = vecCmp compare xs ys := by
  simp [compare, vecCmp, arrEq_eq, arrLt_eq]

theorem compare_obj (ms ns : List (Bytes × CVal)) : compare (.obj ms) (.obj ns) = vecCmp kvCmp ms ns := by
  simp [compare, vecCmp, objEq_eq, objLt_eq]

mutual
  /-- no NaN and no infinity anywhere (double or half); stored integers in their C++ ranges -/
  def finite : CVal → Bool
    | .i64 v => decide (-(2 ^ 63 : Int) ≤ v ∧ v < 2 ^ 63)
    | .u64 v => decide (v < 2 ^ 64)
    | .dbl b => dExp b != 2047
    | .half h => dExp (halfToDouble h) != 2047
    | .arr xs => finiteL xs
    | .obj ms => finiteM ms
    | _ => true
  def finiteL : List CVal → Bool
    | [] => true
    | x :: xs => finite x && finiteL xs
  def finiteM : List (Bytes × CVal) → Bool
    | [] => true
    | (_, x) :: ms => finite x && finiteM ms
end

theorem finiteL_mem : ∀ {xs : List CVal}, finiteL xs = true → ∀ x ∈ xs, finite x = true
  | [], _, _, h => by cases h
  | y :: ys, hf, x, h => by
    simp only [finiteL, Bool.and_eq_true] at hf
    rcases List.mem_cons.1 h with e | e
    · subst e; exact hf.1
    · exact finiteL_mem hf.2 x e

theorem finiteM_mem : ∀ {ms : List (Bytes × CVal)}, finiteM ms = true → ∀ p ∈ ms, finite p.2 = true
  | [], _, _, h => by cases h
  | (k, y) :: ys, hf, x, h => by
    simp only [finiteM, Bool.and_eq_true] at hf
    rcases List.mem_cons.1 h with e | e
    · subst e; exact hf.1
    · exact finiteM_mem hf.2 x e

def cmpK (x y : Int) : Int := if x = y then 0 else if x < y then -1 else 1

theorem subSign_fin (a b : Nat) (ha : dExp a ≠ 2047) (hb : dExp b ≠ 2047) : subSign a b = cmpK (dKey a) (dKey b) := by
  simp [subSign, isNaN, isInf, ha, hb, cmpK]

theorem sgn_antisymm (x y : Int) : sgn (y - x) = - sgn (x - y) := by
  unfold sgn; split <;> split <;> (try split) <;> (try split) <;> omega

theorem cmpK_antisymm (x y : Int) : cmpK y x = - cmpK x y := by
  unfold cmpK; split <;> split <;> (try split) <;> (try split) <;> omega


theorem sgn_neg_eq (x : Int) : sgn x = - sgn (-x) := by
  unfold sgn; split <;> split <;> (try split) <;> (try split) <;> omega
theorem sgn_neg (x : Int) : sgn (-x) = - sgn x := by
  unfold sgn; split <;> split <;> (try split) <;> (try split) <;> omega

theorem cmpII_antisymm (x y : Int) : cmpII y x = - cmpII x y := by
  unfold cmpII; split <;> split <;> (try split) <;> (try split) <;> omega
theorem cmpUU_antisymm (x y : Nat) : cmpUU y x = - cmpUU x y := by
  unfold cmpUU; split <;> split <;> (try split) <;> (try split) <;> omega
theorem cmpUI_antisymm (x : Int) (y : Nat) : cmpUI y x = - cmpIU x y := by
  unfold cmpUI cmpIU; split <;> (try split) <;> (try split) <;> (try split) <;> (try split) <;> omega

/-- key of a converted integer -/
def ikey (v : Int) : Int := if v < 0 then -(natToDouble (-v).toNat : Int) else (natToDouble v.toNat : Int)

theorem conv_u64 (v : Nat) (h : v < 2 ^ 64) : dExp (u64ToDouble v) ≠ 2047 ∧ dKey (u64ToDouble v) = (natToDouble v : Int) := by
  have b := natToDouble_le v h
  unfold u64ToDouble dExp dKey dSign dMag
  generalize natToDouble v = d at *
  have : d / 2 ^ 63 % 2 = 0 := by omega
  refine ⟨by omega, ?_⟩
  simp only [this, if_true]
  omega

theorem conv_i64 (v : Int) (h1 : -(2 ^ 63 : Int) ≤ v) (h2 : v < 2 ^ 63) : dExp (i64ToDouble v) ≠ 2047 ∧ dKey (i64ToDouble v) = ikey v := by
  unfold i64ToDouble ikey
  by_cases hv : v < 0
  · simp only [hv, if_true]
    have b := natToDouble_le (-v).toNat (by omega)
    unfold dExp dKey dSign dMag
    generalize natToDouble (-v).toNat = d at *
    have : (2 ^ 63 + d) / 2 ^ 63 % 2 = 1 := by omega
    refine ⟨by omega, ?_⟩
    simp only [this]
    simp
    omega
  · simp only [hv, if_false]
    have := conv_u64 v.toNat (by omega)
    simpa [u64ToDouble] using this

theorem subSign_antisymm (a b : Nat) (ha : dExp a ≠ 2047) (hb : dExp b ≠ 2047) : subSign b a = - subSign a b := by
  rw [subSign_fin a b ha hb, subSign_fin b a hb ha]; exact cmpK_antisymm _ _


theorem kvCmp_antisymm (p q : Bytes × CVal) (h : compare q.2 p.2 = - compare p.2 q.2) : kvCmp q p = - kvCmp p q := by
  unfold kvCmp
  rcases Assoc.keyLt_trichotomy p.1 q.1 with g | g | g
  · simp [g, Assoc.keyLt_asymm g]
  · rw [g]; simp [Assoc.keyLt_irrefl, h]
  · simp [g, Assoc.keyLt_asymm g]

theorem compare_antisymm_aux : ∀ n : Nat, ∀ a b : CVal, sizeOf a + sizeOf b < n → finite a = true → finite b = true →
    compare b a = - compare a b
  | 0, _, _, h, _, _ => by omega
  | n + 1, a, b, hn, ha, hb => by
    cases a <;> cases b
    case arr.arr xs ys =>
      rw [compare_arr, compare_arr]
      simp only [finite] at ha hb
      simp only [CVal.arr.sizeOf_spec] at hn
      exact vecCmp_antisymm compare (fun u => finite u = true ∧ sizeOf u < sizeOf xs) (fun v => finite v = true ∧ sizeOf v < sizeOf ys)
        (fun u v hu hv => compare_antisymm_aux n u v (by have := hu.2; have := hv.2; omega) hu.1 hv.1) xs ys
        (fun x hx => ⟨finiteL_mem ha x hx, List.sizeOf_lt_of_mem hx⟩) (fun y hy => ⟨finiteL_mem hb y hy, List.sizeOf_lt_of_mem hy⟩)
    case obj.obj ms ns =>
      rw [compare_obj, compare_obj]
      simp only [finite] at ha hb
      simp only [CVal.obj.sizeOf_spec] at hn
      exact vecCmp_antisymm kvCmp (fun u => finite u.2 = true ∧ sizeOf u.2 < sizeOf ms) (fun v => finite v.2 = true ∧ sizeOf v.2 < sizeOf ns)
        (fun u v hu hv => kvCmp_antisymm u v (compare_antisymm_aux n u.2 v.2 (by have := hu.2; have := hv.2; omega) hu.1 hv.1)) ms ns
        (fun x hx => ⟨finiteM_mem ha x hx, by
          have := List.sizeOf_lt_of_mem hx
          have e : sizeOf x = 1 + sizeOf x.1 + sizeOf x.2 := by cases x; simp
          omega⟩)
        (fun x hx => ⟨finiteM_mem hb x hx, by
          have := List.sizeOf_lt_of_mem hx
          have e : sizeOf x = 1 + sizeOf x.1 + sizeOf x.2 := by cases x; simp
          omega⟩)
    all_goals
      simp [compare, kind, finite] at * <;>
      first
      | decide
      | exact sgn_neg_eq _
      | exact sgn_neg _
      | exact sgn_antisymm _ _
      | exact cmpII_antisymm _ _
      | exact cmpUU_antisymm _ _
      | exact cmpUI_antisymm _ _
      | exact (by rw [cmpUI_antisymm]; omega)
      | exact bytesCmp_antisymm _ _
      | exact subSign_antisymm _ _ ha hb
      | exact subSign_antisymm _ _ (conv_i64 _ ha.1 ha.2).1 hb
      | exact subSign_antisymm _ _ ha (conv_i64 _ hb.1 hb.2).1
      | exact subSign_antisymm _ _ (conv_u64 _ ha).1 hb
      | exact subSign_antisymm _ _ ha (conv_u64 _ hb).1
      | (split <;> simp)

/-- `compare(b, a) = -compare(a, b)` wherever no NaN and no infinity is involved -/
theorem compare_antisymm_fin (a b : CVal) (ha : finite a = true) (hb : finite b = true) : compare b a = - compare a b :=
  compare_antisymm_aux _ a b (Nat.lt_succ_self _) ha hb

theorem compare_refl_fin (a : CVal) (ha : finite a = true) : compare a a = 0 := by
  have := compare_antisymm_fin a a ha ha
  omega

end Compare
end Model
end JV
