/-
  JV.Proofs.PatchSpecE — converse of `applyOp_refines`: an operation the RFC 6902 reference performs, the
  model (sorted flavour) performs too (arrays shorter than 2^64), and the loop.
-/
import JV.Proofs.PatchSpecD
namespace JV
namespace Model
namespace Patch
open Assoc Pointer Spec.Rfc6901

theorem atParent_get (f : Final) (hf : f = .remove ∨ ∃ v, f = .replace v) (c : JVal) (last : Bytes) (r2 : JVal)
    (hst : SmallTop c) (hr : atParent (specOp f) c last = some r2) : ∃ x, Pointer.get c [last] = .ok x := by
  have hfin := finalStep_complete f c last r2 hst hr
  cases c with
  | arr xs =>
    by_cases hd : isDash last = true
    · rcases hf with hf | ⟨v, hf⟩ <;> subst hf <;> simp [finalStep, hd] at hfin
    · have hd' : isDash last = false := by simpa using hd
      cases hi : decToIndex last with
      | none => rcases hf with hf | ⟨v, hf⟩ <;> subst hf <;> simp [finalStep, hd', hi] at hfin
      | some i =>
        by_cases h1 : i ≥ xs.length
        · rcases hf with hf | ⟨v, hf⟩ <;> subst hf <;> simp [finalStep, hd', hi, h1] at hfin
        · have h3 : i < xs.length := by omega
          exact ⟨xs[i], by simp [Pointer.get, hd', hi, h3]⟩
  | obj ms =>
    cases hfi : find last ms with
    | none => rcases hf with hf | ⟨v, hf⟩ <;> subst hf <;> simp [finalStep, hfi] at hfin
    | some x => exact ⟨x, by simp [Pointer.get, hfi]⟩
  | null => simp [atParent] at hr
  | bool _ => simp [atParent] at hr
  | int _ => simp [atParent] at hr
  | str _ => simp [atParent] at hr

/-- where RFC `remove` / `replace` is defined, the location exists for the model's `get` -/
theorem get_of_update (f : Final) (hf : f = .remove ∨ ∃ v, f = .replace v) (d : JVal) (ts : List Bytes) (r : JVal)
    (hs : SmallArrays d) (h : update (specOp f) d ts = some r) : ∃ x, Pointer.get d ts = .ok x := by
  cases ts with
  | nil => exact ⟨d, rfl⟩
  | cons tok rest =>
    simp only [update] at h
    obtain ⟨c, last, r2, hp, hsc, hr⟩ := updateAt_parent (specOp f) rest d tok r hs h
    rw [parentOf_get_last rest d tok c last hp]
    exact atParent_get f hf c last r2 (smallTop_of_small hsc) hr

theorem opTest_complete (t : JVal) (loc : List Bytes) (om : List (Bytes × JVal)) (v r : JVal) (hs : SmallArrays t)
    (hv : find sValue om = some v) (h : Spec.Rfc6902.applyOp t (.test loc v) = some r) : (opTest t loc om).1 = none := by
  simp only [Spec.Rfc6902.applyOp, Option.bind_eq_bind] at h
  cases he : eval t loc with
  | none => simp [he] at h
  | some x =>
    simp only [he, Option.bind_some] at h
    have heq : (x == v) = true := by
      cases hb : (x == v) with
      | true => rfl
      | false => simp [hb] at h
    have hg := get_complete loc t x hs he
    simp [opTest, hg, hv, bne, heq]

theorem opAdd_complete (t : JVal) (loc : List Bytes) (om : List (Bytes × JVal)) (v r : JVal) (hs : SmallArrays t)
    (hv : find sValue om = some v) (h : Spec.Rfc6902.applyOp t (.add loc v) = some r) : (opAdd false t loc om).1 = none := by
  simp only [Spec.Rfc6902.applyOp] at h
  simp [opAdd, hv, addLike_definite_complete t loc v r hs h]

theorem opRemove_complete (t : JVal) (loc : List Bytes) (r : JVal) (hs : SmallArrays t)
    (h : Spec.Rfc6902.applyOp t (.remove loc) = some r) : (opRemove false t loc).1 = none := by
  simp only [Spec.Rfc6902.applyOp] at h
  obtain ⟨x, hg⟩ := get_of_update .remove (Or.inl rfl) t loc r hs h
  have ha := apply_complete .remove t loc r hs h
  simp [opRemove, hg, ha]

theorem opReplace_complete (t : JVal) (loc : List Bytes) (om : List (Bytes × JVal)) (v r : JVal) (hs : SmallArrays t)
    (hv : find sValue om = some v) (h : Spec.Rfc6902.applyOp t (.replace loc v) = some r) :
    (opReplace false t loc om).1 = none := by
  simp only [Spec.Rfc6902.applyOp] at h
  obtain ⟨x, hg⟩ := get_of_update (.replace v) (Or.inr ⟨v, rfl⟩) t loc r hs h
  have ha := apply_complete (.replace v) t loc r hs h
  simp [opReplace, hg, hv, ha]

theorem opMove_complete (t : JVal) (loc : List Bytes) (om : List (Bytes × JVal)) (fp : List Bytes) (r : JVal)
    (hw : t.WF) (hs : SmallArrays t)
    (hmid : ∀ d1, update .remove t fp = some d1 → SmallArrays d1)
    (hf : ((find sFrom om).bind strOf).bind tokens = some fp)
    (h : Spec.Rfc6902.applyOp t (.move fp loc) = some r) : (opMove false t loc om).1 = none := by
  simp only [Spec.Rfc6902.applyOp, Option.bind_eq_bind] at h
  cases hfs : (find sFrom om).bind strOf with
  | none => simp [hfs] at hf
  | some from_ =>
    simp only [hfs, Option.bind_some] at hf
    have hp := parse_complete hf
    cases he : eval t fp with
    | none => simp [he] at h
    | some val =>
      simp only [he, Option.bind_some] at h
      cases hrm : update .remove t fp with
      | none => simp [hrm] at h
      | some d1 =>
        simp only [hrm, Option.bind_some] at h
        have hg := get_complete fp t val hs he
        have ha := apply_complete .remove t fp d1 hs hrm
        have hd1 : (Pointer.apply false false .remove t fp).2 = d1 := by
          have := apply_refines .remove t fp hw ha
          simp only [specOp, hrm, Option.some.injEq] at this
          exact this.symm
        have hadd := addLike_definite_complete d1 loc val r (hmid d1 hrm) h
        simp [opMove, hfs, hp, hg, ha, hd1, hadd]

theorem opCopy_complete (t : JVal) (loc : List Bytes) (om : List (Bytes × JVal)) (fp : List Bytes) (r : JVal)
    (hs : SmallArrays t) (hf : ((find sFrom om).bind strOf).bind tokens = some fp)
    (h : Spec.Rfc6902.applyOp t (.copy fp loc) = some r) : (opCopy false t loc om).1 = none := by
  simp only [Spec.Rfc6902.applyOp, Option.bind_eq_bind] at h
  cases hfs : (find sFrom om).bind strOf with
  | none => simp [hfs] at hf
  | some from_ =>
    simp only [hfs, Option.bind_some] at hf
    have hp := parse_complete hf
    cases he : eval t fp with
    | none => simp [he] at h
    | some val =>
      simp only [he, Option.bind_some] at h
      have hg := get_complete fp t val hs he
      have hadd := addLike_definite_complete t loc val r hs h
      simp [opCopy, hfs, getStr, hp, hg, hadd]

/-- the intermediate document of a `move` (after the removal) has arrays shorter than 2^64 -/
def MoveMidSmall (t : JVal) : Prop := ∀ fp d1, update .remove t fp = some d1 → SmallArrays d1

/-- PER-OPERATION COMPLETENESS: every operation object the RFC 6902 reference decodes and performs,
    `apply_patch` performs without error (arrays shorter than 2^64) -/
theorem applyOp_complete (t operation r : JVal) (hw : t.WF) (hs : SmallArrays t) (hmid : MoveMidSmall t)
    (h : specStep t operation = some r) : (applyOp false t operation).1 = none := by
  unfold specStep at h
  cases operation with
  | obj om =>
    cases h1 : (find sOp om).bind strOf with
    | none => rw [strOf_eq] at h1; simp [Spec.Rfc6902.decode, key_op, h1] at h
    | some op =>
      cases h2 : (find sPath om).bind strOf with
      | none => rw [strOf_eq] at h1 h2; simp [Spec.Rfc6902.decode, key_op, key_path, h1, h2] at h
      | some path =>
        cases h3 : tokens path with
        | none => rw [strOf_eq] at h1 h2; simp [Spec.Rfc6902.decode, key_op, key_path, h1, h2, h3] at h
        | some loc =>
          rw [decode_obj om op path loc h1 h2 h3] at h
          have hp := parse_complete h3
          unfold applyOp
          simp only [h1, h2, hp]
          by_cases c1 : op = sTest
          · subst c1
            simp only [show sTest ≠ sAdd by decide, show sTest ≠ sRemove by decide, show sTest ≠ sReplace by decide,
              show sTest ≠ sMove by decide, show sTest ≠ sCopy by decide, if_false, if_true] at h ⊢
            cases hv : find sValue om with
            | none => simp [hv] at h
            | some v => simp only [hv, Option.map_some, Option.bind_some] at h; exact opTest_complete t loc om v r hs hv h
          · simp only [c1, if_false] at h ⊢
            by_cases c2 : op = sAdd
            · subst c2
              simp only [if_true] at h ⊢
              cases hv : find sValue om with
              | none => simp [hv] at h
              | some v => simp only [hv, Option.map_some, Option.bind_some] at h; exact opAdd_complete t loc om v r hs hv h
            · simp only [c2, if_false] at h ⊢
              by_cases c3 : op = sRemove
              · subst c3
                simp only [if_true, Option.bind_some] at h ⊢
                exact opRemove_complete t loc r hs h
              · simp only [c3, if_false] at h ⊢
                by_cases c4 : op = sReplace
                · subst c4
                  simp only [if_true] at h ⊢
                  cases hv : find sValue om with
                  | none => simp [hv] at h
                  | some v =>
                    simp only [hv, Option.map_some, Option.bind_some] at h
                    exact opReplace_complete t loc om v r hs hv h
                · simp only [c4, if_false] at h ⊢
                  by_cases c5 : op = sMove
                  · subst c5
                    simp only [if_true] at h ⊢
                    cases hf : ((find sFrom om).bind strOf).bind tokens with
                    | none => simp [hf] at h
                    | some fp =>
                      simp only [hf, Option.map_some, Option.bind_some] at h
                      exact opMove_complete t loc om fp r hw hs (hmid fp) hf h
                  · simp only [c5, if_false] at h ⊢
                    by_cases c6 : op = sCopy
                    · subst c6
                      simp only [if_true] at h ⊢
                      cases hf : ((find sFrom om).bind strOf).bind tokens with
                      | none => simp [hf] at h
                      | some fp =>
                        simp only [hf, Option.map_some, Option.bind_some] at h
                        exact opCopy_complete t loc om fp r hs hf h
                    · simp [c6, c1] at h
  | null => simp [Spec.Rfc6902.decode] at h
  | bool _ => simp [Spec.Rfc6902.decode] at h
  | int _ => simp [Spec.Rfc6902.decode] at h
  | str _ => simp [Spec.Rfc6902.decode] at h
  | arr _ => simp [Spec.Rfc6902.decode] at h

/-- every document the reference run passes through has arrays shorter than 2^64 (incl. the document
    between the two halves of a `move`) — always true of C++ containers -/
def SmallRun : JVal → List JVal → Prop
  | d, [] => SmallArrays d
  | d, o :: os => SmallArrays d ∧ MoveMidSmall d ∧ ∀ d1, specStep d o = some d1 → SmallRun d1 os

/-- the loop commits whenever the reference run succeeds -/
theorem applyLoop_complete : ∀ (ops : List JVal) (t : JVal) (stack : List Undo) (r : JVal), t.WF →
    (∀ op ∈ ops, OpValWF op) → SmallRun t ops → Spec.Rfc6902.applyOps t ops = some r →
    (applyLoop false t ops stack).1 = none
  | [], t, stack, r, _, _, _, _ => by simp [applyLoop]
  | o :: os, t, stack, r, hw, hv, hsr, h => by
    rw [applyOps_cons] at h
    cases hstep : specStep t o with
    | none => simp [hstep] at h
    | some d1 =>
      simp only [hstep, Option.bind_some] at h
      have hok := applyOp_complete t o d1 hw hsr.1 hsr.2.1 hstep
      have href := applyOp_refines t o hw hok
      rw [hstep] at href
      simp only [Option.some.injEq] at href
      have hw2 := applyOp_wf t o hw (hv o (by simp))
      simp only [applyLoop, hok]
      rw [← href]
      exact applyLoop_complete os d1 _ r (by rw [href]; exact hw2) (fun op hm => hv op (by simp [hm]))
        (hsr.2.2 d1 hstep) h

end Patch
end Model
end JV
