/-
  JV.Proofs.UnflattenBlocks — the sorted pointer map of a flattened document, block by block:
  `SL d` lists the (token path, leaf) pairs of `d` in `vector<string>` order; the partition
  `items` of such a list is one item per child.
-/
import JV.Proofs.UnflattenLeaves
namespace JV
namespace SMap
open Model Model.Pointer Assoc

abbrev Block := Bytes × List Entry

def joinBlocks (bs : List Block) : List Entry := bs.flatMap (fun b => b.2.map (pre b.1))

mutual
  /-- the entries of `leaves d` in token-wise lexicographic order -/
  def SL : JVal → List Entry
    | .arr [] => [([], .arr [])]
    | .arr (x :: xs) => joinBlocks (emplaceAll keyLt [] (SLElems 0 (x :: xs)))
    | .obj [] => [([], .obj [])]
    | .obj (m :: ms) => joinBlocks (SLMembers (m :: ms))
    | v => [([], v)]
  def SLElems : Nat → List JVal → List Block
    | _, [] => []
    | i, x :: xs => (natDigits i, SL x) :: SLElems (i + 1) xs
  def SLMembers : List (Bytes × JVal) → List Block
    | [] => []
    | (k, x) :: ms => (k, SL x) :: SLMembers ms
end

theorem joinBlocks_cons (b : Block) (bs : List Block) : joinBlocks (b :: bs) = b.2.map (pre b.1) ++ joinBlocks bs := by
  simp [joinBlocks]

theorem mem_joinBlocks {bs : List Block} {x : Entry} : x ∈ joinBlocks bs ↔ ∃ b ∈ bs, ∃ e ∈ b.2, x = pre b.1 e := by
  simp only [joinBlocks, List.mem_flatMap, List.mem_map]
  constructor
  · rintro ⟨b, hb, e, he, rfl⟩; exact ⟨b, hb, e, he, rfl⟩
  · rintro ⟨b, hb, e, he, rfl⟩; exact ⟨b, hb, e, he, rfl⟩

theorem ssorted_append {K V : Type} {lt : K → K → Bool} : ∀ {a b : List (K × V)}, SSorted lt a → SSorted lt b →
    (∀ x ∈ a, ∀ y ∈ b, lt x.1 y.1 = true) → SSorted lt (a ++ b)
  | [], _, _, hb, _ => hb
  | (k, v) :: a, b, ha, hb, hab => by
    refine ⟨?_, ssorted_append ha.2 hb (fun x hx y hy => hab x (List.mem_cons_of_mem _ hx) y hy)⟩
    intro e he
    rcases List.mem_append.1 he with h | h
    · exact ha.1 e h
    · exact hab (k, v) List.mem_cons_self e h

theorem ssorted_map_pre (t : Bytes) : ∀ {l : List Entry}, SSorted toksLt l → SSorted toksLt (l.map (pre t))
  | [], _ => trivial
  | (p, v) :: l, h => by
    refine ⟨?_, ssorted_map_pre t h.2⟩
    intro e he
    obtain ⟨e', he', rfl⟩ := List.mem_map.1 he
    have := h.1 e' he'
    simpa [pre, toksLt, keyLt_irrefl] using this

theorem ssorted_joinBlocks : ∀ {bs : List Block}, SSorted keyLt bs → (∀ b ∈ bs, SSorted toksLt b.2) → SSorted toksLt (joinBlocks bs)
  | [], _, _ => trivial
  | (t, blk) :: bs, hs, hb => by
    rw [joinBlocks_cons]
    apply ssorted_append (ssorted_map_pre t (hb _ List.mem_cons_self))
      (ssorted_joinBlocks hs.2 (fun b h => hb b (List.mem_cons_of_mem _ h)))
    intro x hx y hy
    obtain ⟨e, _, rfl⟩ := List.mem_map.1 hx
    obtain ⟨b, hbm, e', _, rfl⟩ := mem_joinBlocks.1 hy
    have := hs.1 b hbm
    simp [pre, toksLt, this]

/-! ### the partition -/

/-- a block is one entry with no tokens left, or a non-empty list of entries with tokens left -/
def Proper (blk : List Entry) : Prop := (∃ v, blk = [([], v)]) ∨ (blk ≠ [] ∧ ∀ e ∈ blk, e.1 ≠ [])

def itemOfBlock : Block → Item
  | (t, [([], v)]) => .direct t v
  | (t, blk) => .group t blk

theorem takeWhile_append_split {α : Type} (p : α → Bool) : ∀ (a b : List α), (∀ x ∈ a, p x = true) → (∀ y ∈ b, p y = false) →
    (a ++ b).takeWhile p = a ∧ (a ++ b).dropWhile p = b
  | [], [], _, _ => by simp
  | [], y :: b, _, hb => by
    have := hb y List.mem_cons_self
    simp [List.takeWhile, List.dropWhile, this]
  | x :: a, b, ha, hb => by
    have hx := ha x List.mem_cons_self
    have ih := takeWhile_append_split p a b (fun z hz => ha z (List.mem_cons_of_mem _ hz)) hb
    simp [List.takeWhile, List.dropWhile, hx, ih.1, ih.2]

theorem map_strip_pre (t : Bytes) (l : List Entry) : (l.map (pre t)).map strip = l := by
  induction l with
  | nil => rfl
  | cons e l ih => simp only [List.map_cons, ih]; cases e; rfl

theorem items_joinBlocks : ∀ {bs : List Block}, SSorted keyLt bs → (∀ b ∈ bs, Proper b.2) →
    items (joinBlocks bs) = bs.map itemOfBlock
  | [], _, _ => by simp [joinBlocks, items]
  | (t, blk) :: bs, hs, hp => by
    have ih := items_joinBlocks hs.2 (fun b h => hp b (List.mem_cons_of_mem _ h))
    rw [joinBlocks_cons, List.map_cons]
    rcases hp (t, blk) List.mem_cons_self with ⟨v, hv⟩ | ⟨hne, hall⟩
    · simp only [] at hv; subst hv
      simp only [List.map_cons, List.map_nil, pre, List.cons_append, List.nil_append, items, itemOfBlock, ih]
    · simp only [] at hne hall
      cases blk with
      | nil => exact absurd rfl hne
      | cons e blk' =>
        obtain ⟨p, v⟩ := e
        cases p with
        | nil => exact absurd rfl (hall _ List.mem_cons_self)
        | cons t2 ts =>
          have hsplit := takeWhile_append_split (headIs t) (blk'.map (pre t)) (joinBlocks bs)
            (by intro x hx; obtain ⟨e, _, rfl⟩ := List.mem_map.1 hx; simp [pre, headIs])
            (by
              intro y hy
              obtain ⟨b, hb, e, _, rfl⟩ := mem_joinBlocks.1 hy
              have := keyLt_ne (hs.1 b hb)
              simp [pre, headIs, Ne.symm this])
          simp only [List.map_cons, pre, List.cons_append, items, hsplit.1, hsplit.2, map_strip_pre, ih, itemOfBlock]

end SMap
end JV
