/-
  JV.Proofs.PatchUndoC — every operation of `apply_patch` is inverted by the undo entries it logs.

  `Undoes o t' log t`: running the entries `log` (newest first, as `unwind` does) on `t'` makes every
  entry succeed and leaves `t`, whatever is unwound afterwards.
  The statements are parametrised by the relation `R` up to which "remove ↦ add" restores the
  document (`RemInv`): equality for sorted objects, equality up to member order for insertion-ordered ones.
-/
import JV.Proofs.PatchUndoB
import JV.Proofs.Patch
namespace JV
namespace Model
namespace Patch
open Assoc Pointer

def Undoes (o : Bool) (t' : JVal) (log : List Undo) (t : JVal) : Prop :=
  ∀ s, unwind o t' (log ++ s) = unwind o t s

theorem undoes_nil (o : Bool) (t : JVal) : Undoes o t [] t := fun _ => rfl

theorem undoes_append {o : Bool} {t2 t1 t0 : JVal} {l2 l1 : List Undo}
    (h2 : Undoes o t2 l2 t1) (h1 : Undoes o t1 l1 t0) : Undoes o t2 (l2 ++ l1) t0 := by
  intro s; rw [List.append_assoc, h2, h1]

theorem undoes_add {o : Bool} {t' t : JVal} {p : List Bytes} {v : JVal}
    (h : Pointer.apply o false (.add v) t' p = (none, t)) : Undoes o t' [.add p v] t := by
  intro s; simp [unwind, h]

theorem undoes_remove {o : Bool} {t' t : JVal} {p : List Bytes}
    (h : Pointer.apply o false .remove t' p = (none, t)) : Undoes o t' [.remove p] t := by
  intro s; simp [unwind, h]

theorem undoes_replace {o : Bool} {t' t : JVal} {p : List Bytes} {v : JVal}
    (h : Pointer.apply o false (.replace v) t' p = (none, t)) : Undoes o t' [.replace p v] t := by
  intro s; simp [unwind, h]

/-- restored up to `R` -/
def UndoesR (R : JVal → JVal → Prop) (o : Bool) (t' : JVal) (log : List Undo) (t : JVal) : Prop :=
  ∃ t'', R t'' t ∧ Undoes o t' log t''

theorem UndoesR.ofEq {R : JVal → JVal → Prop} (hR : ∀ a, R a a) {o : Bool} {t' t : JVal} {log : List Undo}
    (h : Undoes o t' log t) : UndoesR R o t' log t := ⟨t, hR t, h⟩

/-- "remove ↦ add of the removed value" restores `t` up to `R` -/
def RemInv (o : Bool) (R : JVal → JVal → Prop) (t : JVal) : Prop :=
  ∀ loc val, get t loc = .ok val → (Pointer.apply o false .remove t loc).1 = none →
    ∃ t'', R t'' t ∧ Pointer.apply o false (.add val) (Pointer.apply o false .remove t loc).2 loc = (none, t'')

theorem definitePath_definite (t : JVal) (loc : List Bytes) : Definite t (definitePath t loc) := by
  unfold definitePath
  cases hl : loc.getLast? with
  | none =>
    intro c _ _
    simp [hl]
  | some last =>
    simp only []
    by_cases hne : last ≠ [45]
    · simp only [hne, ne_eq, not_false_eq_true, if_true]
      intro c _ _
      rw [hl]; simpa using hne
    · have he : last = [45] := by simpa using hne
      subst he
      simp only [ne_eq, not_true_eq_false, if_false]
      split
      · next xs _ =>
        intro c _ _
        simp [natDigits_ne_dash]
      · next hno =>
        intro c hc harr
        cases c with
        | arr xs => exact absurd hc (by intro h; exact hno xs h)
        | _ => simp [JVal.isArray] at harr

/-- the insert-else-replace sequence is inverted by the entry it logs (and logs nothing when it fails) -/
theorem addLike_undoes (o : Bool) (t : JVal) (np : List Bytes) (v : JVal) (hdef : Definite t np) :
    Undoes o (addLike o t np v).2.1 (addLike o t np v).2.2 t := by
  unfold addLike
  by_cases hn : np = []
  · subst hn
    simp only [if_true, Pointer.get, Pointer.apply]
    exact undoes_replace (by simp [Pointer.apply])
  · simp only [hn, if_false]
    cases hi : (Pointer.apply o false (Final.addIfAbsent v) t np).1 with
    | none =>
      simp only []
      apply undoes_remove
      have := apply_add_undo o t np v hn hdef hi
      exact this
    | some e =>
      have hdoc := apply_err_doc o (Final.addIfAbsent v) t np (by simp [hi])
      simp only [hdoc]
      cases hg : Pointer.get t np with
      | error e => exact undoes_nil o t
      | ok orig =>
        simp only []
        cases hr : (Pointer.apply o false (Final.replace v) t np).1 with
        | some e =>
          simp only []
          rw [apply_err_doc o _ t np (by simp [hr])]
          exact undoes_nil o t
        | none =>
          simp only []
          apply undoes_replace
          exact apply_replace_undo o t np v orig hg hr

theorem addLike_fail_log (o : Bool) (t : JVal) (np : List Bytes) (v : JVal)
    (h : (addLike o t np v).1 = false) : (addLike o t np v).2.2 = [] := by
  unfold addLike at h ⊢
  by_cases hn : np = []
  · subst hn
    simp [Pointer.get, Pointer.apply] at h
  · simp only [hn, if_false] at h ⊢
    cases hi : (Pointer.apply o false (Final.addIfAbsent v) t np).1 with
    | none => simp [hi] at h
    | some e =>
      simp only [hi] at h ⊢
      cases hg : Pointer.get (Pointer.apply o false (Final.addIfAbsent v) t np).2 np with
      | error e => rfl
      | ok orig =>
        simp only [hg] at h ⊢
        cases hr : (Pointer.apply o false (Final.replace v) (Pointer.apply o false (Final.addIfAbsent v) t np).2 np).1 with
        | some e => rfl
        | none => simp [hr] at h

section ops
variable (R : JVal → JVal → Prop) (hR : ∀ a, R a a)
include hR

theorem opTest_undoes (o : Bool) (t : JVal) (loc : List Bytes) (om : List (Bytes × JVal)) :
    UndoesR R o (opTest t loc om).2.1 (opTest t loc om).2.2 t := by
  have : (opTest t loc om).2 = (t, []) := by
    unfold opTest
    repeat' split
    all_goals rfl
  rw [this]; exact .ofEq hR (undoes_nil o t)

theorem addLike_result_undoes (o : Bool) (t : JVal) (loc : List Bytes) (v : JVal) (e : PatchErr) :
    let r := addLike o t (definitePath t loc) v
    UndoesR R o (if r.1 then ((none : Option PatchErr), r.2.1, r.2.2) else (some e, r.2.1, [])).2.1
      (if r.1 then ((none : Option PatchErr), r.2.1, r.2.2) else (some e, r.2.1, [])).2.2 t := by
  intro r
  have hu := addLike_undoes o t (definitePath t loc) v (definitePath_definite t loc)
  by_cases h : r.1 = true
  · simp only [h, if_true]; exact .ofEq hR hu
  · have h' : r.1 = false := by simpa using h
    simp only [h', Bool.false_eq_true, if_false]
    rw [show r.2.1 = t from addLike_fail_doc o t _ v h']
    exact .ofEq hR (undoes_nil o t)

theorem opAdd_undoes (o : Bool) (t : JVal) (loc : List Bytes) (om : List (Bytes × JVal)) :
    UndoesR R o (opAdd o t loc om).2.1 (opAdd o t loc om).2.2 t := by
  unfold opAdd
  split
  · exact .ofEq hR (undoes_nil o t)
  · next v _ => exact addLike_result_undoes R hR o t loc v .addFailed

theorem opCopy_undoes (o : Bool) (t : JVal) (loc : List Bytes) (om : List (Bytes × JVal)) :
    UndoesR R o (opCopy o t loc om).2.1 (opCopy o t loc om).2.2 t := by
  unfold opCopy
  split
  · exact .ofEq hR (undoes_nil o t)
  · split
    · exact .ofEq hR (undoes_nil o t)
    · next val _ => exact addLike_result_undoes R hR o t loc val .copyFailed

theorem opReplace_undoes (o : Bool) (t : JVal) (loc : List Bytes) (om : List (Bytes × JVal)) :
    UndoesR R o (opReplace o t loc om).2.1 (opReplace o t loc om).2.2 t := by
  unfold opReplace
  split
  · exact .ofEq hR (undoes_nil o t)
  · next val hg =>
    split
    · exact .ofEq hR (undoes_nil o t)
    · next v _ =>
      cases hr : (Pointer.apply o false (Final.replace v) t loc).1 with
      | some e =>
        simp only [hr]
        rw [apply_err_doc o _ t loc (by simp [hr])]
        exact .ofEq hR (undoes_nil o t)
      | none =>
        simp only [hr]
        exact .ofEq hR (undoes_replace (apply_replace_undo o t loc v val hg hr))

theorem opRemove_undoes (o : Bool) (t : JVal) (loc : List Bytes) (hri : RemInv o R t) :
    UndoesR R o (opRemove o t loc).2.1 (opRemove o t loc).2.2 t := by
  unfold opRemove
  split
  · exact .ofEq hR (undoes_nil o t)
  · next val hg =>
    cases hr : (Pointer.apply o false Final.remove t loc).1 with
    | some e =>
      simp only [hr]
      rw [apply_err_doc o _ t loc (by simp [hr])]
      exact .ofEq hR (undoes_nil o t)
    | none =>
      simp only [hr]
      obtain ⟨t'', hrel, happ⟩ := hri loc val hg hr
      exact ⟨t'', hrel, undoes_add happ⟩

theorem opMove_undoes (o : Bool) (t : JVal) (loc : List Bytes) (om : List (Bytes × JVal)) (hri : RemInv o R t) :
    UndoesR R o (opMove o t loc om).2.1 (opMove o t loc om).2.2 t := by
  unfold opMove
  split
  · exact .ofEq hR (undoes_nil o t)
  · split
    · exact .ofEq hR (undoes_nil o t)
    · next fromPtr _ =>
      split
      · exact .ofEq hR (undoes_nil o t)
      · next val hg =>
        cases hr : (Pointer.apply o false Final.remove t fromPtr).1 with
        | some e =>
          simp only [hr]
          rw [apply_err_doc o _ t fromPtr (by simp [hr])]
          exact .ofEq hR (undoes_nil o t)
        | none =>
          simp only [hr]
          obtain ⟨t'', hrel, happ⟩ := hri fromPtr val hg hr
          have hu1 := undoes_add happ
          have hu2 := addLike_undoes o (Pointer.apply o false Final.remove t fromPtr).2
            (definitePath (Pointer.apply o false Final.remove t fromPtr).2 loc) val (definitePath_definite _ loc)
          by_cases ha : (addLike o (Pointer.apply o false Final.remove t fromPtr).2
              (definitePath (Pointer.apply o false Final.remove t fromPtr).2 loc) val).1 = true
          · simp only [ha, if_true]
            exact ⟨t'', hrel, undoes_append hu2 hu1⟩
          · have ha' : (addLike o (Pointer.apply o false Final.remove t fromPtr).2
              (definitePath (Pointer.apply o false Final.remove t fromPtr).2 loc) val).1 = false := by simpa using ha
            simp only [ha', Bool.false_eq_true, if_false]
            rw [addLike_fail_doc o _ _ val ha']
            exact ⟨t'', hrel, hu1⟩

end ops

/-- the operation is neither `remove` nor `move` -/
def noRemoval (operation : JVal) : Bool :=
  match operation with
  | .obj om =>
    match (find sOp om).bind strOf with
    | some op => op != sRemove && op != sMove
    | none => true
  | _ => true

/-- every operation — successful or not — is inverted, up to `R`, by the entries it has logged -/
theorem applyOp_undoes (R : JVal → JVal → Prop) (hR : ∀ a, R a a) (o : Bool) (t operation : JVal)
    (hri : noRemoval operation = true ∨ RemInv o R t) :
    UndoesR R o (applyOp o t operation).2.1 (applyOp o t operation).2.2 t := by
  unfold applyOp
  split
  · next om =>
    split
    · exact .ofEq hR (undoes_nil o t)
    · next op hop =>
      split
      · exact .ofEq hR (undoes_nil o t)
      · split
        · exact .ofEq hR (undoes_nil o t)
        · split
          · exact opTest_undoes R hR _ _ _ _
          · split
            · exact opAdd_undoes R hR _ _ _ _
            · split
              · next hrm =>
                rcases hri with hri | hri
                · simp [noRemoval, hop, hrm] at hri
                · exact opRemove_undoes R hR _ _ _ hri
              · split
                · exact opReplace_undoes R hR _ _ _ _
                · split
                  · next hmv =>
                    rcases hri with hri | hri
                    · simp [noRemoval, hop, hmv] at hri
                    · exact opMove_undoes R hR _ _ _ _ hri
                  · split
                    · exact opCopy_undoes R hR _ _ _ _
                    · exact .ofEq hR (undoes_nil o t)
  · exact .ofEq hR (undoes_nil o t)

end Patch
end Model
end JV
