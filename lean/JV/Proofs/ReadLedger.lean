import JV.Model.ReadLedger
namespace JV
namespace Model
namespace ReadLedger

/-- invariant: what is in the buffer arrived from the source; every resize so far is within one chunk of that -/
def Inv (k avail0 : Nat) (s : St) : Prop :=
  s.size + s.avail = avail0 ∧ ∀ r ∈ s.ledger, r ≤ avail0 - s.avail + k

theorem iter_inv (k avail0 : Nat) (s : St) (h : Inv k avail0 s) : Inv k avail0 (iter k s) := by
  obtain ⟨h1, h2⟩ := h
  refine ⟨?_, ?_⟩
  · simp only [iter]; omega
  · intro r hr
    simp only [iter, List.mem_append] at hr
    rcases hr with hr | hr
    · have := h2 r hr; simp only [iter]; omega
    · simp only [iter]
      split at hr
      · simp at hr; rcases hr with hr | hr <;> omega
      · simp at hr; omega

theorem loop_inv (k avail0 : Nat) : ∀ (fuel : Nat) (s : St), Inv k avail0 s → Inv k avail0 (loop k fuel s)
  | 0, s, h => h
  | fuel + 1, s, h => by
    simp only [loop]
    split
    · exact loop_inv k avail0 fuel _ (iter_inv k avail0 s h)
    · exact h

/-- memory follows the data supplied, not the length claimed: no resize ever exceeds the bytes that actually
    arrived by more than one chunk, however large `length` is -/
theorem resize_bounded (k length avail : Nat) : ∀ r ∈ (read k length avail).ledger, r ≤ avail + k := by
  have h := loop_inv k avail (length + 1) { avail := avail, size := 0, unread := length, ledger := [] } (by simp [Inv])
  intro r hr
  have := h.2 r hr
  omega

/-- … and never exceeds the claim by more than nothing either (the obvious bound) -/
theorem size_le_supplied (k length avail : Nat) : (read k length avail).size ≤ avail := by
  have h := loop_inv k avail (length + 1) { avail := avail, size := 0, unread := length, ledger := [] } (by simp [Inv])
  have := h.1
  unfold read
  omega

end ReadLedger
end Model
end JV
