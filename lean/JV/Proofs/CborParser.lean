/-
  JV.Proofs.CborParser — the cbor_parser model (JV.Model.CborParser) against the RFC 8949 reference decoder (JV.Spec.Cbor):
  head / integer / string readers agree with `readArg`, and by induction on the fuel the five mutually recursive readers agree
  (`Agrees`) with the reference's `item` / `items` / `itemsIndef` / `members` / `membersIndef`.
  That `decode`'s fuel 2·|input|+2 never runs out is proved in JV.Proofs.CborParserFuel (`decode_ne_fuel`); the nesting limit in
  JV.Proofs.CborParserDepth; claimed lengths against supplied bytes in JV.Proofs.CborParserClaims.
-/
import JV.Model.CborParser
import JV.Proofs.JsonParser
namespace JV.Model.CborParser
open JV Spec.Cbor
set_option linter.unusedSimpArgs false

theorem foldl_be (bs : Bytes) (acc : Nat) :
    bs.foldl (fun a b => a * 256 + b) acc = acc * 256 ^ bs.length + beVal bs := by
  induction bs generalizing acc with
  | nil => simp [beVal]
  | cons b bs ih =>
    simp only [List.foldl_cons, ih, beVal, List.length_cons, Nat.pow_succ]
    rw [Nat.add_mul, Nat.mul_assoc, Nat.mul_comm 256]
    omega

theorem bigToNative_eq_beVal (bs : Bytes) : bigToNative bs = beVal bs := by
  simp [bigToNative, foldl_be]

/-- the width selected by additional information 24..27 -/
theorem readBE_eq_readArg (w ai : Nat) (h : (ai = 24 ∧ w = 1) ∨ (ai = 25 ∧ w = 2) ∨ (ai = 26 ∧ w = 4) ∨ (ai = 27 ∧ w = 8)) (s : Bytes) :
    readBE w s = match readArg ai s with | some (n, r) => .ok n r | none => .fail (.err .unexpectedEof) := by
  rcases h with ⟨h1, h2⟩ | ⟨h1, h2⟩ | ⟨h1, h2⟩ | ⟨h1, h2⟩ <;> subst h1 <;> subst h2 <;>
    simp only [readBE, readArg, bigToNative_eq_beVal] <;> split <;> rename_i hl <;> simp [hl]

theorem readArg_reserved (ai : Nat) (h : 28 ≤ ai) (s : Bytes) : readArg ai s = none := by
  have h1 : ¬ ai < 24 := by omega
  have : ai ≠ 24 ∧ ai ≠ 25 ∧ ai ≠ 26 ∧ ai ≠ 27 := by omega
  simp [readArg, h1, this]

theorem readUint64_eq (ib : Nat) (s : Bytes) :
    readUint64 (ib :: s) =
      if 28 ≤ ib % 32 then .fail (.err .unknownType)
      else match readArg (ib % 32) s with | some (n, r) => .ok n r | none => .fail (.err .unexpectedEof) := by
  simp only [readUint64]
  by_cases h0 : ib % 32 < 24
  · have : ¬ 28 ≤ ib % 32 := by omega
    simp [h0, this, readArg]
  · by_cases h28 : 28 ≤ ib % 32
    · have : ib % 32 ≠ 24 ∧ ib % 32 ≠ 25 ∧ ib % 32 ≠ 26 ∧ ib % 32 ≠ 27 := by omega
      simp [h0, h28, this]
    · simp only [h0, h28, if_false]
      rcases (by omega : ib % 32 = 24 ∨ ib % 32 = 25 ∨ ib % 32 = 26 ∨ ib % 32 = 27) with e | e | e | e <;> rw [e] <;> simp only [] 
      · exact readBE_eq_readArg 1 24 (by simp) s
      · simp; exact readBE_eq_readArg 2 25 (by simp) s
      · simp; exact readBE_eq_readArg 4 26 (by simp) s
      · simp; exact readBE_eq_readArg 8 27 (by simp) s


theorem readInt64_eq (ib : Nat) (s : Bytes) :
    readInt64 (ib :: s) =
      if 28 ≤ ib % 32 then .fail (.err .unknownType)
      else match readArg (ib % 32) s with
        | some (n, r) => if ib % 32 = 27 ∧ n > 2 ^ 63 - 1 then .fail (.err .numberTooLarge) else .ok (-1 - (n : Int)) r
        | none => .fail (.err .unexpectedEof) := by
  simp only [readInt64]
  by_cases h0 : ib % 32 < 24
  · have : ¬ 28 ≤ ib % 32 := by omega
    have h27 : ib % 32 ≠ 27 := by omega
    simp [h0, this, readArg, h27]
  · by_cases h28 : 28 ≤ ib % 32
    · have : ib % 32 ≠ 24 ∧ ib % 32 ≠ 25 ∧ ib % 32 ≠ 26 ∧ ib % 32 ≠ 27 := by omega
      simp [h0, h28, this]
    · simp only [h0, h28, if_false]
      rcases (by omega : ib % 32 = 24 ∨ ib % 32 = 25 ∨ ib % 32 = 26 ∨ ib % 32 = 27) with e | e | e | e <;> rw [e] <;> simp only []
      · rw [readBE_eq_readArg 1 24 (by simp) s]; cases readArg 24 s <;> simp
      · simp; rw [readBE_eq_readArg 2 25 (by simp) s]; cases readArg 25 s <;> simp
      · simp; rw [readBE_eq_readArg 4 26 (by simp) s]; cases readArg 26 s <;> simp
      · simp; rw [readBE_eq_readArg 8 27 (by simp) s]; cases readArg 27 s <;> simp

theorem badUtf8_eq (b : Bytes) : badUtf8 b = !Spec.Rfc8259.validUtf8 b := by
  have h := Model.JsonParser.validate_iff b
  unfold badUtf8
  cases hv : Model.JsonParser.validate b <;> cases hu : Spec.Rfc8259.validUtf8 b <;> simp_all

/-- failures that carry no claim about the RFC status of the input: outside the fragment, or an implementation limit -/
def Fail.lenient : Fail → Bool
  | .skip => true
  | .err .maxNestingDepthExceeded => true
  | .err .numberTooLarge => true
  | _ => false

/-- the model's outcome against the reference decoder's outcome, values compared through `conv` -/
def Agrees {α β : Type} (conv : α → Option β) (m : Res α) (r : Spec.Cbor.Res β) : Prop :=
  match m, r with
  | .ok v rest, .ok w rest2 => conv v = some w ∧ rest = rest2
  | .ok v _, .unjudged => conv v = none
  | .ok _ _, .illformed => False
  | .fail f, .ok _ _ => f.lenient = true
  | .fail _, _ => True

theorem agrees_lenient {α β : Type} (conv : α → Option β) (f : Fail) (h : f.lenient = true) (r : Spec.Cbor.Res β) :
    Agrees conv (.fail f) r := by
  cases r <;> simp [Agrees, h]

theorem chunks_agree (major : Nat) : ∀ (fuel : Nat) (s : Bytes),
    Agrees (fun b => some b) (readChunks major fuel s) (Spec.Cbor.readChunks major fuel s) ∧ Spec.Cbor.readChunks major fuel s ≠ .unjudged := by
  intro fuel
  induction fuel with
  | zero => intro s; simp [readChunks, Spec.Cbor.readChunks, Agrees]
  | succ fuel ih =>
    intro s
    cases s with
    | nil => simp [readChunks, Spec.Cbor.readChunks, Agrees]
    | cons ib s =>
      simp only [readChunks, Spec.Cbor.readChunks, readSize, readUint64_eq, badUtf8_eq]
      by_cases hff : ib = 255
      · simp [hff, Agrees]
      · by_cases hm : ib / 32 = major
        · by_cases h31 : ib % 32 = 31
          · simp [hff, hm, h31, Agrees]
          · by_cases h28 : 28 ≤ ib % 32
            · simp [hff, hm, h31, h28, readArg_reserved, Agrees]
            · simp only [hff, hm, h31, h28, if_false, ne_eq, not_true_eq_false]
              cases hr : readArg (ib % 32) s with
              | none => simp [Agrees]
              | some p =>
                obtain ⟨n, s1⟩ := p
                simp only []
                by_cases hl : s1.length < n
                · simp [hl, Agrees]
                · simp only [hl, if_false]
                  by_cases hu : major = 3 ∧ Spec.Rfc8259.validUtf8 (List.take n s1) = false
                  · simp [hu, Agrees]
                  · have hu2 : ¬ (major = 3 ∧ (!Spec.Rfc8259.validUtf8 (List.take n s1)) = true) := by simpa using hu
                    simp only [hu, hu2, if_false]
                    have := ih (List.drop n s1)
                    cases hM : readChunks major fuel (List.drop n s1) <;> cases hS : Spec.Cbor.readChunks major fuel (List.drop n s1) <;>
                      simp_all [Agrees]
        · simp [hff, hm, Agrees]


theorem textKey_none_of_toBV_none (k : Item) (h : toBV textKey k = none) : textKey k = none := by
  cases k <;> simp_all [toBV, textKey]

theorem toBV_str (k : Item) (kb : Bytes) (tg : String) (h : toBV textKey k = some (.str kb tg)) : k = .str kb := by
  cases k <;> simp_all [toBV]
  all_goals (rename_i xs; cases hx : toBVList textKey xs <;> simp_all) 

theorem textKey_none_of_not_str (k : Item) (w : BV) (h : toBV textKey k = some w) (hw : ∀ kb tg, w ≠ .str kb tg) : textKey k = none := by
  cases k <;> simp_all [toBV, textKey]
  rename_i s0
  exact hw s0 "" h.symm

section step
variable (maxD fuel : Nat)
variable (hI : ∀ d s, Agrees (toBV textKey) (item maxD fuel d s) (Spec.Cbor.item fuel none s))

include hI in
theorem items_step (hL : ∀ d n s, Agrees (toBVList textKey) (items maxD fuel d n s) (Spec.Cbor.items fuel n s)) :
    ∀ d n s, Agrees (toBVList textKey) (items maxD (fuel + 1) d n s) (Spec.Cbor.items (fuel + 1) n s) := by
  intro d n s
  cases n with
  | zero => simp [items, Spec.Cbor.items, Agrees, toBVList]
  | succ n =>
    simp only [items, Spec.Cbor.items]
    have h1 := hI d s
    cases hM : item maxD fuel d s with
    | fail f =>
      cases hS : Spec.Cbor.item fuel none s with
      | illformed => simp [Agrees]
      | unjudged => simp [Agrees]
      | ok x2 s2 =>
        simp only [hM, hS, Agrees] at h1
        exact agrees_lenient _ f h1 _
    | ok x s1 =>
      cases hS : Spec.Cbor.item fuel none s with
      | illformed => simp [hM, hS, Agrees] at h1
      | unjudged =>
        simp only [hM, hS, Agrees] at h1
        cases hM2 : items maxD fuel d n s1 <;> simp [hM2, Agrees, toBVList, h1]
      | ok x2 s2 =>
        simp only [hM, hS, Agrees] at h1
        obtain ⟨hx, hs⟩ := h1
        subst hs
        have h2 := hL d n s1
        cases hM2 : items maxD fuel d n s1 <;> cases hS2 : Spec.Cbor.items fuel n s1 <;> simp_all [Agrees, toBVList]


include hI in
theorem itemsIndef_step (hL : ∀ d s, Agrees (toBVList textKey) (itemsIndef maxD fuel d s) (Spec.Cbor.itemsIndef fuel s)) :
    ∀ d s, Agrees (toBVList textKey) (itemsIndef maxD (fuel + 1) d s) (Spec.Cbor.itemsIndef (fuel + 1) s) := by
  intro d s
  cases s with
  | nil => simp [itemsIndef, Spec.Cbor.itemsIndef, Agrees]
  | cons ib s =>
    simp only [itemsIndef, Spec.Cbor.itemsIndef]
    by_cases hff : ib = 255
    · simp [hff, Agrees, toBVList]
    · simp only [hff, if_false]
      have h1 := hI d (ib :: s)
      cases hM : item maxD fuel d (ib :: s) with
      | fail f =>
        cases hS : Spec.Cbor.item fuel none (ib :: s) with
        | illformed => simp [Agrees]
        | unjudged => simp [Agrees]
        | ok x2 s2 =>
          simp only [hM, hS, Agrees] at h1
          exact agrees_lenient _ f h1 _
      | ok x s1 =>
        cases hS : Spec.Cbor.item fuel none (ib :: s) with
        | illformed => simp [hM, hS, Agrees] at h1
        | unjudged =>
          simp only [hM, hS, Agrees] at h1
          cases hM2 : itemsIndef maxD fuel d s1 <;> simp [hM2, Agrees, toBVList, h1]
        | ok x2 s2 =>
          simp only [hM, hS, Agrees] at h1
          obtain ⟨hx, hs⟩ := h1
          subst hs
          have h2 := hL d s1
          cases hM2 : itemsIndef maxD fuel d s1 <;> cases hS2 : Spec.Cbor.itemsIndef fuel s1 <;> simp_all [Agrees, toBVList]

/-- a member whose key and value were read by both sides, followed by the remaining members -/
theorem member_tail {mrest : Res (List (Item × Item))} {rrest : Spec.Cbor.Res (List (Bytes × BV))}
    (kb : Bytes) (v : Item) (w : BV) (hv : toBV textKey v = some w) (h : Agrees (toBVMembers textKey) mrest rrest) :
    Agrees (toBVMembers textKey)
      (match mrest with | .ok ms rest => .ok ((Item.str kb, v) :: ms) rest | .fail f => .fail f)
      (match rrest with | .ok ms rest => .ok ((kb, w) :: ms) rest | r => r) := by
  cases mrest <;> cases rrest <;> simp only [Agrees] at h ⊢ <;> simp_all [toBVMembers, textKey]


include hI in
theorem members_step (hL : ∀ d n s, Agrees (toBVMembers textKey) (members maxD fuel d n s) (Spec.Cbor.members fuel n s)) :
    ∀ d n s, Agrees (toBVMembers textKey) (members maxD (fuel + 1) d n s) (Spec.Cbor.members (fuel + 1) n s) := by
  intro d n s
  cases n with
  | zero => simp [members, Spec.Cbor.members, Agrees, toBVMembers]
  | succ n =>
    simp only [members, Spec.Cbor.members]
    have h1 := hI d s
    cases hM : item maxD fuel d s with
    | fail f =>
      cases hS : Spec.Cbor.item fuel none s with
      | illformed => simp [Agrees]
      | unjudged => simp [Agrees]
      | ok x2 s2 =>
        simp only [hM, hS, Agrees] at h1
        exact agrees_lenient _ f h1 _
    | ok k s1 =>
      cases hS : Spec.Cbor.item fuel none s with
      | illformed => simp [hM, hS, Agrees] at h1
      | unjudged =>
        simp only [hM, hS, Agrees] at h1
        have hk := textKey_none_of_toBV_none k h1
        cases hMv : item maxD fuel d s1 with
        | fail f => simp [hMv, Agrees]
        | ok v s2 => cases hM2 : members maxD fuel d n s2 <;> simp [hMv, hM2, Agrees, toBVMembers, hk]
      | ok k2 s2 =>
        simp only [hM, hS, Agrees] at h1
        obtain ⟨hx, hs⟩ := h1
        subst hs
        by_cases hstr : ∃ kb tg, k2 = .str kb tg
        · obtain ⟨kb, tg, rfl⟩ := hstr
          have hkk := toBV_str k kb tg hx
          subst hkk
          simp only []
          have h2 := hI d s1
          cases hMv : item maxD fuel d s1 with
          | fail f =>
            cases hSv : Spec.Cbor.item fuel none s1 with
            | illformed => simp [Agrees]
            | unjudged => simp [Agrees]
            | ok w s3 =>
              simp only [hMv, hSv, Agrees] at h2
              exact agrees_lenient _ f h2 _
          | ok v s2 =>
            cases hSv : Spec.Cbor.item fuel none s1 with
            | illformed => simp [hMv, hSv, Agrees] at h2
            | unjudged =>
              simp only [hMv, hSv, Agrees] at h2
              cases hM2 : members maxD fuel d n s2 <;> simp [hMv, hM2, Agrees, toBVMembers, h2]
            | ok w s3 =>
              simp only [hMv, hSv, Agrees] at h2
              obtain ⟨hv, hs⟩ := h2
              subst hs
              have h3 := hL d n s2
              cases hM2 : members maxD fuel d n s2 <;> cases hS2 : Spec.Cbor.members fuel n s2 <;> simp only [hM2, hS2, Agrees] at h3 ⊢ <;> simp_all [toBVMembers, textKey]
        · have hk : textKey k = none := textKey_none_of_not_str k k2 hx (fun kb tg e => hstr ⟨kb, tg, e⟩)
          cases k2 <;> first
            | (exfalso; exact hstr ⟨_, _, rfl⟩)
            | (simp only []
               cases hMv : item maxD fuel d s1 with
               | fail f => simp [hMv, Agrees]
               | ok v s2 => cases hM2 : members maxD fuel d n s2 <;> simp [hMv, hM2, Agrees, toBVMembers, hk])

include hI in
theorem membersIndef_step (hL : ∀ d s, Agrees (toBVMembers textKey) (membersIndef maxD fuel d s) (Spec.Cbor.membersIndef fuel s)) :
    ∀ d s, Agrees (toBVMembers textKey) (membersIndef maxD (fuel + 1) d s) (Spec.Cbor.membersIndef (fuel + 1) s) := by
  intro d s
  cases s with
  | nil => simp [membersIndef, Spec.Cbor.membersIndef, Agrees]
  | cons ib s =>
    simp only [membersIndef, Spec.Cbor.membersIndef]
    by_cases hff : ib = 255
    · simp [hff, Agrees, toBVMembers]
    · simp only [hff, if_false]
      have h1 := hI d (ib :: s)
      cases hM : item maxD fuel d (ib :: s) with
      | fail f =>
        cases hS : Spec.Cbor.item fuel none (ib :: s) with
        | illformed => simp [Agrees]
        | unjudged => simp [Agrees]
        | ok x2 s2 =>
          simp only [hM, hS, Agrees] at h1
          exact agrees_lenient _ f h1 _
      | ok k s1 =>
        cases hS : Spec.Cbor.item fuel none (ib :: s) with
        | illformed => simp [hM, hS, Agrees] at h1
        | unjudged =>
          simp only [hM, hS, Agrees] at h1
          have hk := textKey_none_of_toBV_none k h1
          cases hMv : item maxD fuel d s1 with
          | fail f => simp [hMv, Agrees]
          | ok v s2 => cases hM2 : membersIndef maxD fuel d s2 <;> simp [hMv, hM2, Agrees, toBVMembers, hk]
        | ok k2 s2 =>
          simp only [hM, hS, Agrees] at h1
          obtain ⟨hx, hs⟩ := h1
          subst hs
          by_cases hstr : ∃ kb tg, k2 = .str kb tg
          · obtain ⟨kb, tg, rfl⟩ := hstr
            have hkk := toBV_str k kb tg hx
            subst hkk
            simp only []
            have h2 := hI d s1
            cases hMv : item maxD fuel d s1 with
            | fail f =>
              cases hSv : Spec.Cbor.item fuel none s1 with
              | illformed => simp [Agrees]
              | unjudged => simp [Agrees]
              | ok w s3 =>
                simp only [hMv, hSv, Agrees] at h2
                exact agrees_lenient _ f h2 _
            | ok v s2 =>
              cases hSv : Spec.Cbor.item fuel none s1 with
              | illformed => simp [hMv, hSv, Agrees] at h2
              | unjudged =>
                simp only [hMv, hSv, Agrees] at h2
                cases hM2 : membersIndef maxD fuel d s2 <;> simp [hMv, hM2, Agrees, toBVMembers, h2]
              | ok w s3 =>
                simp only [hMv, hSv, Agrees] at h2
                obtain ⟨hv, hs⟩ := h2
                subst hs
                have h3 := hL d s2
                cases hM2 : membersIndef maxD fuel d s2 <;> cases hS2 : Spec.Cbor.membersIndef fuel s2 <;> simp only [hM2, hS2, Agrees] at h3 ⊢ <;> simp_all [toBVMembers, textKey]
          · have hk : textKey k = none := textKey_none_of_not_str k k2 hx (fun kb tg e => hstr ⟨kb, tg, e⟩)
            cases k2 <;> first
              | (exfalso; exact hstr ⟨_, _, rfl⟩)
              | (simp only []
                 cases hMv : item maxD fuel d s1 with
                 | fail f => simp [hMv, Agrees]
                 | ok v s2 => cases hM2 : membersIndef maxD fuel d s2 <;> simp [hMv, hM2, Agrees, toBVMembers, hk])



theorem item_step
    (hL : ∀ d n s, Agrees (toBVList textKey) (items maxD fuel d n s) (Spec.Cbor.items fuel n s))
    (hLI : ∀ d s, Agrees (toBVList textKey) (itemsIndef maxD fuel d s) (Spec.Cbor.itemsIndef fuel s))
    (hM : ∀ d n s, Agrees (toBVMembers textKey) (members maxD fuel d n s) (Spec.Cbor.members fuel n s))
    (hMI : ∀ d s, Agrees (toBVMembers textKey) (membersIndef maxD fuel d s) (Spec.Cbor.membersIndef fuel s)) :
    ∀ d s, Agrees (toBV textKey) (item maxD (fuel + 1) d s) (Spec.Cbor.item (fuel + 1) none s) := by
  intro d s
  cases s with
  | nil => simp [item, Spec.Cbor.item, Agrees]
  | cons ib s =>
    rcases (by omega : ib / 32 = 0 ∨ ib / 32 = 1 ∨ ib / 32 = 2 ∨ ib / 32 = 3 ∨ ib / 32 = 4 ∨ ib / 32 = 5 ∨ ib / 32 = 6 ∨ ib / 32 = 7 ∨ 8 ≤ ib / 32)
      with hm | hm | hm | hm | hm | hm | hm | hm | hm
    · -- unsigned integer
      clear hL hLI hM hMI
      have e7 : ¬ ib / 32 = 7 := by omega
      simp only [item, Spec.Cbor.item, hm, e7, readUint64_eq]
      by_cases h28 : 28 ≤ ib % 32
      · have : (ib % 32 ≥ 28 ∧ ib % 32 ≤ 30) ∨ ib % 32 = 31 := by omega
        rcases this with h | h <;> simp [h, h28, Agrees]
      · have h1 : ¬ (ib % 32 ≥ 28 ∧ ib % 32 ≤ 30) := by omega
        have h2 : ¬ ib % 32 = 31 := by omega
        cases hr : readArg (ib % 32) s with
        | none => simp [h28, h1, h2, hr, Agrees]
        | some p => obtain ⟨n, s1⟩ := p; simp [h28, h1, h2, hr, Agrees, toBV]
    · -- negative integer
      clear hL hLI hM hMI
      have e7 : ¬ ib / 32 = 7 := by omega
      simp only [item, Spec.Cbor.item, hm, e7, readInt64_eq]
      by_cases h28 : 28 ≤ ib % 32
      · have : (ib % 32 ≥ 28 ∧ ib % 32 ≤ 30) ∨ ib % 32 = 31 := by omega
        rcases this with h | h <;> simp [h, h28, Agrees]
      · have h1 : ¬ (ib % 32 ≥ 28 ∧ ib % 32 ≤ 30) := by omega
        have h2 : ¬ ib % 32 = 31 := by omega
        cases hr : readArg (ib % 32) s with
        | none => simp [h28, h1, h2, hr, Agrees]
        | some p =>
          obtain ⟨n, s1⟩ := p
          by_cases hbig : ib % 32 = 27 ∧ n > 2 ^ 63 - 1
          · simp [h28, h1, h2, hr, hbig, Agrees, Fail.lenient]
          · by_cases hn : n ≥ 2 ^ 63 <;> simp [h28, h1, h2, hr, hbig, hn, Agrees, toBV]
    · -- byte string
      clear hL hLI hM hMI
      have e7 : ¬ ib / 32 = 7 := by omega
      simp only [item, Spec.Cbor.item, hm, e7, readString, readSize, readUint64_eq]
      by_cases h31 : ib % 32 = 31
      · have hc := chunks_agree 2 fuel s
        cases hMc : readChunks 2 fuel s <;> cases hSc : Spec.Cbor.readChunks 2 fuel s <;>
          simp_all [Agrees, toBV]
      · by_cases h28 : 28 ≤ ib % 32
        · have : (ib % 32 ≥ 28 ∧ ib % 32 ≤ 30) := by omega
          simp [this, h28, h31, Agrees]
        · have h1 : ¬ (ib % 32 ≥ 28 ∧ ib % 32 ≤ 30) := by omega
          cases hr : readArg (ib % 32) s with
          | none => simp [h28, h1, h31, hr, Agrees]
          | some p =>
            obtain ⟨n, s1⟩ := p
            by_cases hl : s1.length < n <;> simp [h28, h1, h31, hr, hl, Agrees, toBV]
    · -- text string
      clear hL hLI hM hMI
      have e7 : ¬ ib / 32 = 7 := by omega
      simp only [item, Spec.Cbor.item, hm, e7, readString, readSize, readUint64_eq, badUtf8_eq]
      by_cases h31 : ib % 32 = 31
      · have hc := chunks_agree 3 fuel s
        cases hMc : readChunks 3 fuel s with
        | fail f =>
          cases hSc : Spec.Cbor.readChunks 3 fuel s with
          | ok b2 r2 =>
            simp only [hMc, hSc, Agrees] at hc
            cases hu : Spec.Rfc8259.validUtf8 b2 <;> simp_all [Agrees]
          | illformed => simp [h31, Agrees]
          | unjudged => simp [h31, Agrees]
        | ok b r =>
          cases hSc : Spec.Cbor.readChunks 3 fuel s with
          | ok b2 r2 =>
            simp only [hMc, hSc, Agrees] at hc
            obtain ⟨⟨hb, hr⟩, -⟩ := hc
            simp only [Option.some.injEq] at hb
            subst hb; subst hr
            cases hu : Spec.Rfc8259.validUtf8 b <;> simp [h31, hu, Agrees, toBV]
          | illformed => simp [hMc, hSc, Agrees] at hc
          | unjudged => simp [hMc, hSc, Agrees] at hc
      · by_cases h28 : 28 ≤ ib % 32
        · have : (ib % 32 ≥ 28 ∧ ib % 32 ≤ 30) := by omega
          simp [this, h28, h31, Agrees]
        · have h1 : ¬ (ib % 32 ≥ 28 ∧ ib % 32 ≤ 30) := by omega
          cases hr : readArg (ib % 32) s with
          | none => simp [h28, h1, h31, hr, Agrees]
          | some p =>
            obtain ⟨n, s1⟩ := p
            by_cases hl : s1.length < n
            · simp [h28, h1, h31, hr, hl, Agrees, toBV]
            · cases hu : Spec.Rfc8259.validUtf8 (List.take n s1) <;> simp [h28, h1, h31, hr, hl, hu, Agrees, toBV]
    · -- major 4
      have e7 : ¬ ib / 32 = 7 := by omega
      simp only [item, Spec.Cbor.item, hm, e7, readSize, readUint64_eq]
      by_cases hdep : d + 1 > maxD
      · simp only [hdep, if_true]; exact agrees_lenient _ (.err .maxNestingDepthExceeded) rfl _
      · simp only [hdep, if_false]
        by_cases h31 : ib % 32 = 31
        · have hc := hLI (d + 1) s
          clear hL hLI hM hMI
          cases hMc : itemsIndef maxD fuel (d + 1) s <;> cases hSc : Spec.Cbor.itemsIndef fuel s <;>
            simp only [hMc, hSc, Agrees] at hc <;> simp [h31, hMc, hSc, Agrees, toBV, hc]
        · by_cases h28 : 28 ≤ ib % 32
          · have : (ib % 32 ≥ 28 ∧ ib % 32 ≤ 30) := by omega
            simp [this, h28, h31, Agrees]
          · have h1 : ¬ (ib % 32 ≥ 28 ∧ ib % 32 ≤ 30) := by omega
            cases hr : readArg (ib % 32) s with
            | none => simp [h28, h1, h31, hr, Agrees]
            | some p =>
              obtain ⟨n, s1⟩ := p
              have hc := hL (d + 1) n s1
              clear hL hLI hM hMI
              cases hMc : items maxD fuel (d + 1) n s1 <;> cases hSc : Spec.Cbor.items fuel n s1 <;>
                simp only [hMc, hSc, Agrees] at hc <;> simp [h28, h1, h31, hr, hMc, hSc, Agrees, toBV, hc]
    · -- major 5
      have e7 : ¬ ib / 32 = 7 := by omega
      simp only [item, Spec.Cbor.item, hm, e7, readSize, readUint64_eq]
      by_cases hdep : d + 1 > maxD
      · simp only [hdep, if_true]; exact agrees_lenient _ (.err .maxNestingDepthExceeded) rfl _
      · simp only [hdep, if_false]
        by_cases h31 : ib % 32 = 31
        · have hc := hMI (d + 1) s
          clear hL hLI hM hMI
          cases hMc : membersIndef maxD fuel (d + 1) s <;> cases hSc : Spec.Cbor.membersIndef fuel s <;>
            simp only [hMc, hSc, Agrees] at hc <;> simp [h31, hMc, hSc, Agrees, toBV, hc]
        · by_cases h28 : 28 ≤ ib % 32
          · have : (ib % 32 ≥ 28 ∧ ib % 32 ≤ 30) := by omega
            simp [this, h28, h31, Agrees]
          · have h1 : ¬ (ib % 32 ≥ 28 ∧ ib % 32 ≤ 30) := by omega
            cases hr : readArg (ib % 32) s with
            | none => simp [h28, h1, h31, hr, Agrees]
            | some p =>
              obtain ⟨n, s1⟩ := p
              have hc := hM (d + 1) n s1
              clear hL hLI hM hMI
              cases hMc : members maxD fuel (d + 1) n s1 <;> cases hSc : Spec.Cbor.members fuel n s1 <;>
                simp only [hMc, hSc, Agrees] at hc <;> simp [h28, h1, h31, hr, hMc, hSc, Agrees, toBV, hc]
    · -- a tag: outside the fragment
      simp only [item, hm, if_true]
      exact agrees_lenient _ .skip rfl _
    · -- simple values and floats
      clear hL hLI hM hMI
      have e : ¬ ib / 32 = 0 ∧ ¬ ib / 32 = 1 ∧ ¬ ib / 32 = 2 ∧ ¬ ib / 32 = 3 ∧ ¬ ib / 32 = 4 ∧ ¬ ib / 32 = 5 ∧ ¬ ib / 32 = 6 := by omega
      simp only [item, Spec.Cbor.item, hm, e, if_true, if_false, readUint64_eq, readDouble]
      rcases (by omega : ib % 32 = 20 ∨ ib % 32 = 21 ∨ ib % 32 = 22 ∨ ib % 32 = 23 ∨ ib % 32 = 25 ∨ ib % 32 = 26 ∨ ib % 32 = 27 ∨
          (ib % 32 < 20 ∨ ib % 32 = 24 ∨ 28 ≤ ib % 32)) with h | h | h | h | h | h | h | h
      · simp [h, Agrees, toBV]
      · simp [h, Agrees, toBV]
      · simp [h, Agrees, toBV]
      · simp [h, Agrees, toBV]
      · cases hr : readArg 25 s with
        | none => simp [h, hr, Agrees]
        | some p => obtain ⟨n, s1⟩ := p; simp [h, hr, Agrees, toBV]
      · rw [h]
        simp only [readBE_eq_readArg 4 26 (by simp) s]
        cases hr : readArg 26 s with
        | none => simp [hr, Agrees]
        | some p => obtain ⟨n, s1⟩ := p; simp [hr, Agrees, toBV]
      · rw [h]
        simp only [readBE_eq_readArg 8 27 (by simp) s]
        cases hr : readArg 27 s with
        | none => simp [hr, Agrees]
        | some p => obtain ⟨n, s1⟩ := p; simp [hr, Agrees, toBV]
      · have hn : ¬ ib % 32 = 20 ∧ ¬ ib % 32 = 21 ∧ ¬ ib % 32 = 22 ∧ ¬ ib % 32 = 23 ∧ ¬ ib % 32 = 25 ∧ ¬ ib % 32 = 26 ∧ ¬ ib % 32 = 27 := by omega
        simp only [hn, if_false, false_or]
        by_cases h31 : ib % 32 = 31
        · simp [h31, Agrees]
        · by_cases h28 : ib % 32 ≥ 28
          · simp [h31, h28, Agrees]
          · by_cases h24 : ib % 32 = 24
            · cases s with
              | nil => simp [h31, h28, h24, Agrees]
              | cons v t => by_cases hv : v < 32 <;> simp [h31, h28, h24, hv, Agrees]
            · simp [h31, h28, h24, Agrees]
    · -- not a uint8_t
      have : ¬ ib / 32 = 0 ∧ ¬ ib / 32 = 1 ∧ ¬ ib / 32 = 2 ∧ ¬ ib / 32 = 3 ∧ ¬ ib / 32 = 4 ∧ ¬ ib / 32 = 5 ∧ ¬ ib / 32 = 6 ∧ ¬ ib / 32 = 7 := by omega
      simp only [item, this, if_false]
      exact agrees_lenient _ .skip rfl _

end step

/-- all five readers agree with the reference at every fuel, nesting depth and input -/
theorem agree_all (maxD : Nat) : ∀ fuel : Nat,
    (∀ d s, Agrees (toBV textKey) (item maxD fuel d s) (Spec.Cbor.item fuel none s)) ∧
    (∀ d n s, Agrees (toBVList textKey) (items maxD fuel d n s) (Spec.Cbor.items fuel n s)) ∧
    (∀ d s, Agrees (toBVList textKey) (itemsIndef maxD fuel d s) (Spec.Cbor.itemsIndef fuel s)) ∧
    (∀ d n s, Agrees (toBVMembers textKey) (members maxD fuel d n s) (Spec.Cbor.members fuel n s)) ∧
    (∀ d s, Agrees (toBVMembers textKey) (membersIndef maxD fuel d s) (Spec.Cbor.membersIndef fuel s))
  | 0 => by
    refine ⟨?_, ?_, ?_, ?_, ?_⟩
    · intro d s; simp [item, Spec.Cbor.item, Agrees]
    · intro d n s; cases n <;> simp [items, Spec.Cbor.items, Agrees, toBVList]
    · intro d s; simp [itemsIndef, Spec.Cbor.itemsIndef, Agrees]
    · intro d n s; cases n <;> simp [members, Spec.Cbor.members, Agrees, toBVMembers]
    · intro d s; simp [membersIndef, Spec.Cbor.membersIndef, Agrees]
  | fuel + 1 => by
    obtain ⟨hI, hL, hLI, hM, hMI⟩ := agree_all maxD fuel
    exact ⟨item_step maxD fuel hL hLI hM hMI, items_step maxD fuel hI hL, itemsIndef_step maxD fuel hI hLI,
      members_step maxD fuel hI hM, membersIndef_step maxD fuel hI hMI⟩

theorem decode_agrees (maxD : Nat) (bs : Bytes) : Agrees (toBV textKey) (decode maxD bs) (Spec.Cbor.decode bs) :=
  (agree_all maxD (2 * bs.length + 2)).1 0 bs

end JV.Model.CborParser
