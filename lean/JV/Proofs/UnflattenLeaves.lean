/-
  JV.Proofs.UnflattenLeaves — what `flatten` emits: the list of (token path, leaf) pairs of a
  document; `flatten` is `try_emplace` of their pointer texts in document order; every path
  resolves (`get`) to the leaf it is paired with.
-/
import JV.Proofs.UnflattenOrder
import JV.Proofs.PointerText
import JV.Proofs.PointerOps
namespace JV
namespace SMap
open Model Model.Pointer Assoc

def pre (t : Bytes) (e : Entry) : Entry := (t :: e.1, e.2)

mutual
  /-- (token path, leaf) pairs in the order `flatten_` visits them -/
  def leaves : JVal → List Entry
    | .arr [] => [([], .arr [])]
    | .arr (x :: xs) => leavesElems 0 (x :: xs)
    | .obj [] => [([], .obj [])]
    | .obj (m :: ms) => leavesMembers (m :: ms)
    | v => [([], v)]
  def leavesElems : Nat → List JVal → List Entry
    | _, [] => []
    | i, x :: xs => (leaves x).map (pre (natDigits i)) ++ leavesElems (i + 1) xs
  def leavesMembers : List (Bytes × JVal) → List Entry
    | [] => []
    | (k, x) :: ms => (leaves x).map (pre k) ++ leavesMembers ms
end

def strKey (key : Bytes) (e : Entry) : Bytes × JVal := (key ++ Pointer.toString e.1, e.2)

def emplaceStr (key : Bytes) (acc : List (Bytes × JVal)) (es : List Entry) : List (Bytes × JVal) :=
  es.foldl (fun a e => tryEmplace false (key ++ Pointer.toString e.1) e.2 a) acc

theorem emplaceStr_append (key : Bytes) (acc : List (Bytes × JVal)) (a b : List Entry) :
    emplaceStr key acc (a ++ b) = emplaceStr key (emplaceStr key acc a) b := by
  simp [emplaceStr, List.foldl_append]

theorem escapeToken_digits : ∀ (s : Bytes), AllDigits s → escapeToken s = s
  | [], _ => rfl
  | c :: cs, h => by
    have hc := isDigit_iff.1 (h c List.mem_cons_self)
    have h1 : c ≠ 126 := by omega
    have h2 : c ≠ 47 := by omega
    simp only [escapeToken, h1, h2, if_false]
    rw [escapeToken_digits cs (fun d hd => h d (List.mem_cons_of_mem _ hd))]

theorem escapeToken_natDigits (n : Nat) (hn : n < 2 ^ 64) : escapeToken (natDigits n) = natDigits n := by
  rw [natDigits_eq_fromUnsigned n hn]
  exact escapeToken_digits _ (fromUnsigned_digits n hn).1

theorem emplaceStr_pre (key t : Bytes) (acc : List (Bytes × JVal)) (l : List Entry) :
    emplaceStr key acc (l.map (pre t)) = emplaceStr (key ++ 47 :: escapeToken t) acc l := by
  simp only [emplaceStr, List.foldl_map, pre, Pointer.toString, List.append_assoc, List.cons_append]

mutual
  theorem flattenInto_eq : ∀ (d : JVal) (key : Bytes) (acc : List (Bytes × JVal)), SmallArrays d →
      flattenInto false key d acc = emplaceStr key acc (leaves d)
    | .arr [], key, acc, _ => by simp [flattenInto, leaves, emplaceStr, Pointer.toString]
    | .arr (x :: xs), key, acc, h => by
      simp only [flattenInto, leaves]
      exact flattenElems_eq (x :: xs) 0 key acc (by simpa [SmallArrays] using h.2)
        (by have := h.1; simp only [List.length_cons] at this ⊢; omega)
    | .obj [], key, acc, _ => by simp [flattenInto, leaves, emplaceStr, Pointer.toString]
    | .obj (m :: ms), key, acc, h => by
      simp only [flattenInto, leaves]
      exact flattenMembers_eq (m :: ms) key acc (by simpa [SmallArrays] using h)
    | .null, key, acc, _ => by simp [flattenInto, leaves, emplaceStr, Pointer.toString]
    | .bool _, key, acc, _ => by simp [flattenInto, leaves, emplaceStr, Pointer.toString]
    | .int _, key, acc, _ => by simp [flattenInto, leaves, emplaceStr, Pointer.toString]
    | .str _, key, acc, _ => by simp [flattenInto, leaves, emplaceStr, Pointer.toString]
  theorem flattenElems_eq : ∀ (xs : List JVal) (i : Nat) (key : Bytes) (acc : List (Bytes × JVal)), SmallList xs →
      i + xs.length < 2 ^ 64 + 1 →
      flattenElems false key i xs acc = emplaceStr key acc (leavesElems i xs)
    | [], i, key, acc, _, _ => by simp [flattenElems, leavesElems, emplaceStr]
    | x :: xs, i, key, acc, h, hl => by
      simp only [flattenElems, leavesElems]
      rw [emplaceStr_append, emplaceStr_pre, escapeToken_natDigits i (by simp at hl; omega),
        flattenInto_eq x _ acc h.1]
      exact flattenElems_eq xs (i + 1) key _ h.2 (by simp at hl; omega)
  theorem flattenMembers_eq : ∀ (ms : List (Bytes × JVal)) (key : Bytes) (acc : List (Bytes × JVal)), SmallMembers ms →
      flattenMembers false key ms acc = emplaceStr key acc (leavesMembers ms)
    | [], key, acc, _ => by simp [flattenMembers, leavesMembers, emplaceStr]
    | (k, x) :: ms, key, acc, h => by
      simp only [flattenMembers, leavesMembers]
      rw [emplaceStr_append, emplaceStr_pre, flattenInto_eq x _ acc h.1]
      exact flattenMembers_eq ms key _ h.2
end

/-! ### every emitted path addresses its leaf -/

theorem find_of_mem {k : Bytes} {x : JVal} : ∀ {ms : List (Bytes × JVal)}, SSorted keyLt ms → (k, x) ∈ ms → find k ms = some x
  | [], _, h => by cases h
  | (k', v') :: ms, hs, h => by
    rcases List.mem_cons.1 h with h | h
    · cases h; simp [find]
    · have hne : k' ≠ k := keyLt_ne (hs.1 _ h)
      simp only [find, hne, if_false]
      exact find_of_mem hs.2 h

theorem isDash_natDigits (n : Nat) (hn : n < 2 ^ 64) : isDash (natDigits n) = false := by
  cases h : isDash (natDigits n) with
  | false => rfl
  | true =>
    have e : natDigits n = [45] := by simpa [isDash] using h
    have := decToIndex_natDigits n hn
    rw [e] at this
    have h45 : decToIndex [45] = none := by decide
    rw [h45] at this; cases this

mutual
  theorem leaves_resolve : ∀ (d : JVal), JVal.WF d → SmallArrays d → ∀ e ∈ leaves d, Pointer.get d e.1 = .ok e.2
    | .arr [], _, _, e, he => by simp [leaves] at he; subst he; simp [Pointer.get]
    | .arr (x :: xs), hw, hs, e, he => by
      simp only [leaves] at he
      exact leavesElems_resolve (x :: xs) 0 (x :: xs) (by simpa [JVal.WF] using hw) hs.2 rfl hs.1 e he
    | .obj [], _, _, e, he => by simp [leaves] at he; subst he; simp [Pointer.get]
    | .obj (m :: ms), hw, hs, e, he => by
      simp only [leaves] at he
      have hw' : Assoc.Sorted (m :: ms) ∧ WFMembers (m :: ms) := by simpa [JVal.WF] using hw
      exact leavesMembers_resolve (m :: ms) (m :: ms) hw'.2 (by simpa [SmallArrays] using hs)
        (ssorted_of_sorted hw'.1) (fun _ h => h) e he
    | .null, _, _, e, he => by simp [leaves] at he; subst he; simp [Pointer.get]
    | .bool _, _, _, e, he => by simp [leaves] at he; subst he; simp [Pointer.get]
    | .int _, _, _, e, he => by simp [leaves] at he; subst he; simp [Pointer.get]
    | .str _, _, _, e, he => by simp [leaves] at he; subst he; simp [Pointer.get]
  theorem leavesElems_resolve : ∀ (xs : List JVal) (i : Nat) (full : List JVal), WFList xs → SmallList xs →
      full.drop i = xs → full.length < 2 ^ 64 → ∀ e ∈ leavesElems i xs, Pointer.get (.arr full) e.1 = .ok e.2
    | [], _, _, _, _, _, _, e, he => by simp [leavesElems] at he
    | x :: xs, i, full, hw, hs, hd, hl, e, he => by
      simp only [leavesElems] at he
      have hi : i < full.length := by
        have : (full.drop i).length = (x :: xs).length := by rw [hd]
        simp at this; omega
      have hx : full[i]? = some x := by
        have := List.getElem?_drop (xs := full) (i := i) (j := 0)
        rw [hd] at this; simpa using this.symm
      rcases List.mem_append.1 he with h | h
      · obtain ⟨e', he', rfl⟩ := List.mem_map.1 h
        have ih := leaves_resolve x hw.1 hs.1 e' he'
        simp only [pre, Pointer.get, isDash_natDigits i (by omega), Bool.false_eq_true, if_false,
          decToIndex_natDigits i (by omega), hx]
        exact ih
      · have hd' : full.drop (i + 1) = xs := by
          have : full.drop (i + 1) = (full.drop i).drop 1 := by simp [List.drop_drop]
          rw [this, hd]; rfl
        exact leavesElems_resolve xs (i + 1) full hw.2 hs.2 hd' hl e h
  theorem leavesMembers_resolve : ∀ (ms full : List (Bytes × JVal)), WFMembers ms → SmallMembers ms →
      SSorted keyLt full → (∀ kv ∈ ms, kv ∈ full) → ∀ e ∈ leavesMembers ms, Pointer.get (.obj full) e.1 = .ok e.2
    | [], _, _, _, _, _, e, he => by simp [leavesMembers] at he
    | (k, x) :: ms, full, hw, hs, hf, hsub, e, he => by
      simp only [leavesMembers] at he
      rcases List.mem_append.1 he with h | h
      · obtain ⟨e', he', rfl⟩ := List.mem_map.1 h
        have ih := leaves_resolve x hw.1 hs.1 e' he'
        have hfind := find_of_mem hf (hsub (k, x) List.mem_cons_self)
        simp only [pre, Pointer.get, hfind]
        exact ih
      · exact leavesMembers_resolve ms full hw.2 hs.2 hf (fun kv hkv => hsub kv (List.mem_cons_of_mem _ hkv)) e h
end

theorem leaves_functional (d : JVal) (hw : JVal.WF d) (hs : SmallArrays d) : Functional (leaves d) := by
  intro p v v' h1 h2
  have a := leaves_resolve d hw hs _ h1
  have b := leaves_resolve d hw hs _ h2
  simp only [] at a b
  rw [a] at b
  cases b; rfl

end SMap
end JV
