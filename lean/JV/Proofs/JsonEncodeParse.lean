/-
  JV.Proofs.JsonEncodeParse — what the compact encoder model writes, the RFC 8259 reference parser reads back as the value
  that was written (any nesting, any flags, depth limit permitting).
-/
import JV.Model.JsonEncode
import JV.Proofs.JsonEscape
import JV.Proofs.JsonNumberText
namespace JV
namespace Model
namespace JsonEncode
open Spec.Rfc8259

mutual
  /-- well-formed: every number literal is a complete RFC 8259 number, every string and member name is valid UTF-8 -/
  def wf : JT → Bool
    | .num lit => decide (parseNumber lit = some (lit, []))
    | .str s => validUtf8 s
    | .arr xs => wfList xs
    | .obj ms => wfMembers ms
    | _ => true
  def wfList : List JT → Bool
    | [] => true
    | x :: xs => wf x && wfList xs
  def wfMembers : List (Bytes × JT) → Bool
    | [] => true
    | (k, x) :: ms => validUtf8 k && wf x && wfMembers ms
end

def WF (v : JT) : Prop := wf v = true

instance (v : JT) : Decidable (WF v) := by unfold WF; infer_instance

mutual
  /-- number of nested containers -/
  def depth : JT → Nat
    | .arr xs => 1 + depthList xs
    | .obj ms => 1 + depthMembers ms
    | _ => 0
  def depthList : List JT → Nat
    | [] => 0
    | x :: xs => max (depth x) (depthList xs)
  def depthMembers : List (Bytes × JT) → Nat
    | [] => 0
    | (_, x) :: ms => max (depth x) (depthMembers ms)
end

mutual
  /-- fuel the reference parser needs -/
  def need : JT → Nat
    | .arr xs => 1 + needList xs
    | .obj ms => 1 + needMembers ms
    | _ => 1
  def needList : List JT → Nat
    | [] => 0
    | x :: xs => 1 + max (need x) (needList xs)
  def needMembers : List (Bytes × JT) → Nat
    | [] => 0
    | (_, x) :: ms => 1 + max (need x) (needMembers ms)
end

/-- a byte at which `ws` stops and which does not close a container -/
def Start (c : Nat) : Prop := isWs c = false ∧ c ≠ 47 ∧ c ≠ 93 ∧ c ≠ 125

instance (c : Nat) : Decidable (Start c) := by unfold Start; infer_instance

theorem skipWs_nil (cm : Bool) (fuel : Nat) : skipWs cm fuel [] = some [] := by
  cases fuel <;> simp [skipWs]

theorem skipWs_stay (cm : Bool) (fuel c : Nat) (cs : Bytes) (h1 : isWs c = false) (h2 : c ≠ 47) :
    skipWs cm (fuel + 1) (c :: cs) = some (c :: cs) := by
  simp [skipWs, h1, h2]

theorem strLit_eq (sol : Bool) (s : Bytes) : ∃ e, strLit sol s = 34 :: (e ++ [34]) ∧
    ∀ (rest : Bytes) (fuel : Nat), e.length + 1 ≤ fuel → parseChars fuel (e ++ 34 :: rest) = some (s, rest) := by
  obtain ⟨e, he, hr⟩ := JsonEscape.escape_reads_back sol s s.length (Nat.le_refl _)
  refine ⟨e, ?_, hr⟩
  simp [strLit, JsonEscape.escapeString, he]

/-- a string literal of the encoder followed by anything is read back as the string -/
theorem parseString_strLit (sol : Bool) (s rest : Bytes) (hv : validUtf8 s = true) :
    parseString (strLit sol s ++ rest) = some (s, rest) := by
  obtain ⟨e, he, hr⟩ := strLit_eq sol s
  rw [he]
  simp only [List.cons_append, List.append_assoc, List.nil_append, parseString]
  rw [hr rest _ (by simp)]
  simp [hv]

/-! ### one step of the reference parser on text without white space -/

theorem parseValue_arr_empty (fl : Flags) (fuel d : Nat) (rest : Bytes) (hd : d + 1 ≤ fl.maxDepth) :
    parseValue fl (fuel + 1) d (91 :: 93 :: rest) = some (.arr [], rest) := by
  have h : ¬ d + 1 > fl.maxDepth := by omega
  simp [parseValue, h, skipWs, isWs]

theorem parseValue_obj_empty (fl : Flags) (fuel d : Nat) (rest : Bytes) (hd : d + 1 ≤ fl.maxDepth) :
    parseValue fl (fuel + 1) d (123 :: 125 :: rest) = some (.obj [], rest) := by
  have h : ¬ d + 1 > fl.maxDepth := by omega
  simp [parseValue, h, skipWs, isWs]

theorem parseValue_arr_cons (fl : Flags) (fuel d c : Nat) (tl : Bytes) (hd : d + 1 ≤ fl.maxDepth) (hc : Start c) :
    parseValue fl (fuel + 1) d (91 :: c :: tl) = (parseElems fl fuel (d + 1) (c :: tl)).map fun p => (.arr p.1, p.2) := by
  have h : ¬ d + 1 > fl.maxDepth := by omega
  simp only [parseValue, h, if_false, List.length_cons, skipWs_stay _ _ c tl hc.1 hc.2.1]
  simp only [show (91 : Nat) ≠ 123 by decide, if_false, if_true]
  split
  · rename_i heq; cases heq
  · rename_i heq; cases heq; exact absurd rfl hc.2.2.1
  · rename_i heq; cases heq; rfl

theorem parseValue_obj_cons (fl : Flags) (fuel d c : Nat) (tl : Bytes) (hd : d + 1 ≤ fl.maxDepth) (hc : Start c) :
    parseValue fl (fuel + 1) d (123 :: c :: tl) = (parseMembers fl fuel (d + 1) (c :: tl)).map fun p => (.obj p.1, p.2) := by
  have h : ¬ d + 1 > fl.maxDepth := by omega
  simp only [parseValue, h, if_false, if_true, List.length_cons, skipWs_stay _ _ c tl hc.1 hc.2.1]
  split
  · rename_i heq; cases heq
  · rename_i heq; cases heq; exact absurd rfl hc.2.2.2
  · rename_i heq; cases heq; rfl

theorem parseElems_last (fl : Flags) (fuel d : Nat) (s rest : Bytes) (v : JT)
    (h : parseValue fl fuel d s = some (v, 93 :: rest)) : parseElems fl (fuel + 1) d s = some ([v], rest) := by
  simp [parseElems, h, skipWs, isWs]

theorem parseElems_more (fl : Flags) (fuel d c : Nat) (s tl : Bytes) (v : JT) (hc : Start c)
    (h : parseValue fl fuel d s = some (v, 44 :: c :: tl)) :
    parseElems fl (fuel + 1) d s = (parseElems fl fuel d (c :: tl)).map fun p => (v :: p.1, p.2) := by
  simp only [parseElems, h, List.length_cons]
  rw [skipWs_stay _ _ 44 _ (by decide) (by decide)]
  simp only [skipWs_stay _ _ c tl hc.1 hc.2.1]
  split
  · rename_i heq; cases heq
  · rename_i heq; cases heq; exact absurd rfl hc.2.2.1
  · rename_i heq; cases heq; rfl

theorem parseMembers_last (fl : Flags) (fuel d c : Nat) (s tl rest k : Bytes) (v : JT) (hc : Start c)
    (hk : parseString s = some (k, 58 :: c :: tl))
    (h : parseValue fl fuel d (c :: tl) = some (v, 125 :: rest)) : parseMembers fl (fuel + 1) d s = some ([(k, v)], rest) := by
  simp only [parseMembers, hk, List.length_cons]
  rw [skipWs_stay _ _ 58 _ (by decide) (by decide)]
  simp only [skipWs_stay _ _ c tl hc.1 hc.2.1, h]
  simp [skipWs, isWs]

theorem parseMembers_more (fl : Flags) (fuel d c c2 : Nat) (s tl tl2 k : Bytes) (v : JT) (hc : Start c) (hc2 : Start c2)
    (hk : parseString s = some (k, 58 :: c :: tl))
    (h : parseValue fl fuel d (c :: tl) = some (v, 44 :: c2 :: tl2)) :
    parseMembers fl (fuel + 1) d s = (parseMembers fl fuel d (c2 :: tl2)).map fun p => ((k, v) :: p.1, p.2) := by
  simp only [parseMembers, hk, List.length_cons]
  rw [skipWs_stay _ _ 58 _ (by decide) (by decide)]
  simp only [skipWs_stay _ _ c tl hc.1 hc.2.1, h]
  rw [skipWs_stay _ _ 44 _ (by decide) (by decide)]
  simp only [skipWs_stay _ _ c2 tl2 hc2.1 hc2.2.1]
  split
  · rename_i heq; cases heq
  · rename_i heq; cases heq; exact absurd rfl hc2.2.2.2
  · rename_i heq; cases heq; rfl

/-! ### first bytes -/

theorem start_quote : Start 34 := by decide

theorem strLit_head (sol : Bool) (s : Bytes) : ∃ tl, strLit sol s = 34 :: tl := ⟨_, rfl⟩

theorem compactS_head (sol : Bool) (v : JT) (h : WF v) : ∃ c cs, compactS sol v = c :: cs ∧ Start c := by
  cases v with
  | null => exact ⟨_, _, rfl, by decide⟩
  | bool b => cases b <;> exact ⟨_, _, rfl, by decide⟩
  | num lit =>
    have h' : parseNumber lit = some (lit, []) := by simpa [WF, wf] using h
    obtain ⟨c, cs, rfl, hc⟩ := parseNumber_head lit lit [] h'
    refine ⟨c, cs, by simp [compactS], ?_⟩
    rcases hc with rfl | hc
    · decide
    · simp only [isDigit, Bool.and_eq_true, decide_eq_true_eq] at hc
      refine ⟨?_, ?_, ?_, ?_⟩
      · simp only [isWs, Bool.or_eq_false_iff, decide_eq_false_iff_not]; omega
      all_goals omega
  | str s => exact ⟨_, _, rfl, by decide⟩
  | arr xs => exact ⟨91, _, by simp only [compactS]; rfl, by decide⟩
  | obj ms => exact ⟨123, _, by simp only [compactS]; rfl, by decide⟩

/-- what may follow a value inside the encoder's text: nothing, "," "]" or "}" -/
def Delim (rest : Bytes) : Prop := rest = [] ∨ ∃ c r, rest = c :: r ∧ (c = 44 ∨ c = 93 ∨ c = 125)

theorem Delim.stop {rest : Bytes} (h : Delim rest) : Stop rest := by
  rcases h with rfl | ⟨c, r, rfl, hc⟩
  · exact stop_nil
  · apply stop_cons
    rcases hc with rfl | rfl | rfl <;> decide

theorem parseValue_scalar_lit (fl : Flags) (fuel d : Nat) (rest : Bytes) :
    parseValue fl (fuel + 1) d (nullLit ++ rest) = some (.null, rest) ∧
    parseValue fl (fuel + 1) d (trueLit ++ rest) = some (.bool true, rest) ∧
    parseValue fl (fuel + 1) d (falseLit ++ rest) = some (.bool false, rest) := by
  refine ⟨?_, ?_, ?_⟩ <;> simp [nullLit, trueLit, falseLit, parseValue, startsWith]

theorem parseValue_num (fl : Flags) (fuel d : Nat) (lit rest : Bytes) (h : parseNumber lit = some (lit, [])) (hr : Delim rest) :
    parseValue fl (fuel + 1) d (lit ++ rest) = some (.num lit, rest) := by
  have ha := parseNumber_append rest hr.stop lit lit [] h
  obtain ⟨c, cs, rfl, hc⟩ := parseNumber_head lit _ _ h
  simp only [List.cons_append] at ha ⊢
  have hne : c ≠ 123 ∧ c ≠ 91 ∧ c ≠ 34 ∧ c ≠ 116 ∧ c ≠ 102 ∧ c ≠ 110 := by
    rcases hc with rfl | hc
    · decide
    · simp only [isDigit, Bool.and_eq_true, decide_eq_true_eq] at hc; omega
  simp [parseValue, hne, ha]

theorem parseValue_str (fl : Flags) (fuel d : Nat) (sol : Bool) (s rest : Bytes) (hv : validUtf8 s = true) :
    parseValue fl (fuel + 1) d (strLit sol s ++ rest) = some (.str s, rest) := by
  have h := parseString_strLit sol s rest hv
  obtain ⟨tl, htl⟩ := strLit_head sol s
  rw [htl] at h ⊢
  simp only [List.cons_append] at h ⊢
  simp [parseValue, h]

theorem compactElems_true_cons (sol : Bool) (x : JT) (xs : List JT) :
    compactElems sol true (x :: xs) = compactS sol x ++ compactElems sol false xs := by
  simp [compactElems, sep]

theorem compactElems_false_cons (sol : Bool) (x : JT) (xs : List JT) :
    compactElems sol false (x :: xs) = 44 :: compactElems sol true (x :: xs) := by
  simp [compactElems, sep]

theorem compactMembers_true_cons (sol : Bool) (k : Bytes) (x : JT) (ms : List (Bytes × JT)) :
    compactMembers sol true ((k, x) :: ms) = strLit sol k ++ (58 :: (compactS sol x ++ compactMembers sol false ms)) := by
  simp [compactMembers, sep]

theorem compactMembers_false_cons (sol : Bool) (m : Bytes × JT) (ms : List (Bytes × JT)) :
    compactMembers sol false (m :: ms) = 44 :: compactMembers sol true (m :: ms) := by
  obtain ⟨k, x⟩ := m
  simp [compactMembers, sep]

theorem compactElems_head (sol : Bool) (x : JT) (xs : List JT) (h : WF x) :
    ∃ c cs, compactElems sol true (x :: xs) = c :: cs ∧ Start c := by
  obtain ⟨c, cs, he, hc⟩ := compactS_head sol x h
  exact ⟨c, cs ++ compactElems sol false xs, by rw [compactElems_true_cons, he]; rfl, hc⟩

theorem compactMembers_head (sol : Bool) (m : Bytes × JT) (ms : List (Bytes × JT)) :
    ∃ cs, compactMembers sol true (m :: ms) = 34 :: cs := by
  obtain ⟨k, x⟩ := m
  exact ⟨_, by rw [compactMembers_true_cons]; rfl⟩

/-! ### the round trip, for text followed by `rest` -/
mutual
  theorem val_back (fl : Flags) (sol : Bool) : ∀ (v : JT) (rest : Bytes) (fuel d : Nat),
      WF v → need v ≤ fuel → d + depth v ≤ fl.maxDepth → Delim rest →
      parseValue fl fuel d (compactS sol v ++ rest) = some (v, rest)
    | .null, rest, fuel, d, _, hf, _, _ => by
      obtain ⟨f, rfl⟩ : ∃ f, fuel = f + 1 := ⟨fuel - 1, by simp [need] at hf; omega⟩
      exact (parseValue_scalar_lit fl f d rest).1
    | .bool true, rest, fuel, d, _, hf, _, _ => by
      obtain ⟨f, rfl⟩ : ∃ f, fuel = f + 1 := ⟨fuel - 1, by simp [need] at hf; omega⟩
      exact (parseValue_scalar_lit fl f d rest).2.1
    | .bool false, rest, fuel, d, _, hf, _, _ => by
      obtain ⟨f, rfl⟩ : ∃ f, fuel = f + 1 := ⟨fuel - 1, by simp [need] at hf; omega⟩
      exact (parseValue_scalar_lit fl f d rest).2.2
    | .num lit, rest, fuel, d, hw, hf, _, hr => by
      obtain ⟨f, rfl⟩ : ∃ f, fuel = f + 1 := ⟨fuel - 1, by simp [need] at hf; omega⟩
      have h' : parseNumber lit = some (lit, []) := by simpa [WF, wf] using hw
      simpa [compactS] using parseValue_num fl f d lit rest h' hr
    | .str s, rest, fuel, d, hw, hf, _, _ => by
      obtain ⟨f, rfl⟩ : ∃ f, fuel = f + 1 := ⟨fuel - 1, by simp [need] at hf; omega⟩
      have h' : validUtf8 s = true := by simpa [WF, wf] using hw
      simpa [compactS] using parseValue_str fl f d sol s rest h'
    | .arr [], rest, fuel, d, _, hf, hd, _ => by
      obtain ⟨f, rfl⟩ : ∃ f, fuel = f + 1 := ⟨fuel - 1, by simp [need] at hf; omega⟩
      have hd' : d + 1 ≤ fl.maxDepth := by simp [depth] at hd; omega
      simpa [compactS, compactElems] using parseValue_arr_empty fl f d rest hd'
    | .arr (x :: xs), rest, fuel, d, hw, hf, hd, _ => by
      obtain ⟨f, rfl⟩ : ∃ f, fuel = f + 1 := ⟨fuel - 1, by simp [need] at hf; omega⟩
      have hd' : d + 1 ≤ fl.maxDepth := by simp [depth] at hd; omega
      have hw' : wfList (x :: xs) = true := by simpa [WF, wf] using hw
      have hwx : WF x := by simp [wfList] at hw'; exact hw'.1
      have ih := elems_back fl sol (x :: xs) rest f (d + 1) (by simp) hw' (by simp [need] at hf; omega)
        (by simp only [depth] at hd; omega)
      obtain ⟨c, cs, he, hc⟩ := compactElems_head sol x xs hwx
      simp only [compactS, List.cons_append, List.append_assoc, List.nil_append]
      rw [he] at ih ⊢
      simp only [List.cons_append] at ih ⊢
      rw [parseValue_arr_cons fl f d c _ hd' hc, ih]
      rfl
    | .obj [], rest, fuel, d, _, hf, hd, _ => by
      obtain ⟨f, rfl⟩ : ∃ f, fuel = f + 1 := ⟨fuel - 1, by simp [need] at hf; omega⟩
      have hd' : d + 1 ≤ fl.maxDepth := by simp [depth] at hd; omega
      simpa [compactS, compactMembers] using parseValue_obj_empty fl f d rest hd'
    | .obj (m :: ms), rest, fuel, d, hw, hf, hd, _ => by
      obtain ⟨f, rfl⟩ : ∃ f, fuel = f + 1 := ⟨fuel - 1, by simp [need] at hf; omega⟩
      have hd' : d + 1 ≤ fl.maxDepth := by simp [depth] at hd; omega
      have hw' : wfMembers (m :: ms) = true := by simpa [WF, wf] using hw
      have ih := members_back fl sol (m :: ms) rest f (d + 1) (by simp) hw' (by simp [need] at hf; omega)
        (by simp only [depth] at hd; omega)
      obtain ⟨cs, he⟩ := compactMembers_head sol m ms
      simp only [compactS, List.cons_append, List.append_assoc, List.nil_append]
      rw [he] at ih ⊢
      simp only [List.cons_append] at ih ⊢
      rw [parseValue_obj_cons fl f d 34 _ hd' start_quote, ih]
      rfl
  theorem elems_back (fl : Flags) (sol : Bool) : ∀ (xs : List JT) (rest : Bytes) (fuel d : Nat),
      xs ≠ [] → wfList xs = true → needList xs ≤ fuel → d + depthList xs ≤ fl.maxDepth →
      parseElems fl fuel d (compactElems sol true xs ++ 93 :: rest) = some (xs, rest)
    | [], _, _, _, h, _, _, _ => absurd rfl h
    | [x], rest, fuel, d, _, hw, hf, hd => by
      obtain ⟨f, rfl⟩ : ∃ f, fuel = f + 1 := ⟨fuel - 1, by simp [needList] at hf; omega⟩
      have hwx : WF x := by simp [wfList] at hw; exact hw
      have i1 := val_back fl sol x (93 :: rest) f d hwx (by simp [needList] at hf; omega)
        (by simp [depthList] at hd; omega) (Or.inr ⟨93, rest, rfl, by simp⟩)
      rw [compactElems_true_cons]
      simp only [compactElems, List.append_nil]
      exact parseElems_last fl f d _ rest x i1
    | x :: y :: ys, rest, fuel, d, _, hw, hf, hd => by
      obtain ⟨f, rfl⟩ : ∃ f, fuel = f + 1 := ⟨fuel - 1, by simp [needList] at hf; omega⟩
      have hw2 : WF x ∧ wfList (y :: ys) = true := by
        have := hw; simp only [wfList, Bool.and_eq_true] at this ⊢; exact ⟨this.1, this.2⟩
      have hwy : WF y := by have := hw2.2; simp only [wfList, Bool.and_eq_true] at this; exact this.1
      obtain ⟨c, cs, he, hc⟩ := compactElems_head sol y ys hwy
      have hf1 : need x ≤ f ∧ needList (y :: ys) ≤ f := by simp only [needList] at hf ⊢; omega
      have hd1 : d + depth x ≤ fl.maxDepth ∧ d + depthList (y :: ys) ≤ fl.maxDepth := by
        simp only [depthList] at hd ⊢; omega
      have i1 := val_back fl sol x (44 :: (compactElems sol true (y :: ys) ++ 93 :: rest)) f d hw2.1 hf1.1 hd1.1
        (Or.inr ⟨44, _, rfl, by simp⟩)
      have i2 := elems_back fl sol (y :: ys) rest f d (by simp) hw2.2 hf1.2 hd1.2
      rw [compactElems_true_cons, compactElems_false_cons, List.append_assoc]
      simp only [List.cons_append]
      rw [he] at i1 i2 ⊢
      simp only [List.cons_append] at i1 i2 ⊢
      rw [parseElems_more fl f d c _ _ x hc i1, i2]
      rfl
  theorem members_back (fl : Flags) (sol : Bool) : ∀ (ms : List (Bytes × JT)) (rest : Bytes) (fuel d : Nat),
      ms ≠ [] → wfMembers ms = true → needMembers ms ≤ fuel → d + depthMembers ms ≤ fl.maxDepth →
      parseMembers fl fuel d (compactMembers sol true ms ++ 125 :: rest) = some (ms, rest)
    | [], _, _, _, h, _, _, _ => absurd rfl h
    | [(k, x)], rest, fuel, d, _, hw, hf, hd => by
      obtain ⟨f, rfl⟩ : ∃ f, fuel = f + 1 := ⟨fuel - 1, by simp [needMembers] at hf; omega⟩
      have hw1 : validUtf8 k = true ∧ WF x := by
        have := hw; simp only [wfMembers, Bool.and_eq_true, Bool.and_true] at this; exact this
      obtain ⟨c, cs, he, hc⟩ := compactS_head sol x hw1.2
      have i1 := val_back fl sol x (125 :: rest) f d hw1.2 (by simp [needMembers] at hf; omega)
        (by simp [depthMembers] at hd; omega) (Or.inr ⟨125, rest, rfl, by simp⟩)
      have hk := parseString_strLit sol k (58 :: (compactS sol x ++ 125 :: rest)) hw1.1
      rw [compactMembers_true_cons]
      simp only [compactMembers, List.append_nil, List.append_assoc, List.cons_append]
      rw [he] at i1 hk ⊢
      simp only [List.cons_append] at i1 hk ⊢
      exact parseMembers_last fl f d c _ _ rest k x hc hk i1
    | (k, x) :: m :: ms, rest, fuel, d, _, hw, hf, hd => by
      obtain ⟨f, rfl⟩ : ∃ f, fuel = f + 1 := ⟨fuel - 1, by simp [needMembers] at hf; omega⟩
      have hw2 : (validUtf8 k = true ∧ WF x) ∧ wfMembers (m :: ms) = true := by
        have := hw; simp only [wfMembers, Bool.and_eq_true] at this ⊢; exact this
      obtain ⟨c, cs, he, hc⟩ := compactS_head sol x hw2.1.2
      obtain ⟨cs2, he2⟩ := compactMembers_head sol m ms
      have hf1 : need x ≤ f ∧ needMembers (m :: ms) ≤ f := by simp only [needMembers] at hf ⊢; omega
      have hd1 : d + depth x ≤ fl.maxDepth ∧ d + depthMembers (m :: ms) ≤ fl.maxDepth := by
        simp only [depthMembers] at hd ⊢; omega
      have i1 := val_back fl sol x (44 :: (compactMembers sol true (m :: ms) ++ 125 :: rest)) f d hw2.1.2 hf1.1 hd1.1
        (Or.inr ⟨44, _, rfl, by simp⟩)
      have i2 := members_back fl sol (m :: ms) rest f d (by simp) hw2.2 hf1.2 hd1.2
      have hk := parseString_strLit sol k (58 :: (compactS sol x ++ (44 :: (compactMembers sol true (m :: ms) ++ 125 :: rest)))) hw2.1.1
      rw [compactMembers_true_cons, compactMembers_false_cons]
      simp only [List.append_assoc, List.cons_append]
      rw [he2] at i1 i2 hk ⊢
      rw [he] at i1 hk ⊢
      simp only [List.cons_append] at i1 i2 hk ⊢
      rw [parseMembers_more fl f d c 34 _ _ _ k x hc start_quote hk i1, i2]
      rfl
end

/-! ### the parser's fuel (text length + 1) is enough -/
mutual
  theorem need_le_length (sol : Bool) : ∀ v : JT, WF v → need v ≤ (compactS sol v).length
    | .null, _ => by simp [need, compactS, nullLit]
    | .bool true, _ => by simp [need, compactS, trueLit]
    | .bool false, _ => by simp [need, compactS, falseLit]
    | .num lit, hw => by
      have h' : parseNumber lit = some (lit, []) := by simpa [WF, wf] using hw
      obtain ⟨c, cs, rfl, _⟩ := parseNumber_head lit _ _ h'
      simp [need, compactS]
    | .str s, _ => by simp [need, compactS, strLit]
    | .arr xs, hw => by
      have := needList_le_length sol xs true (by simpa [WF, wf] using hw)
      simp only [need, compactS, List.length_cons, List.length_append, List.length_nil] at this ⊢
      simp at this; omega
    | .obj ms, hw => by
      have := needMembers_le_length sol ms true (by simpa [WF, wf] using hw)
      simp only [need, compactS, List.length_cons, List.length_append, List.length_nil] at this ⊢
      simp at this; omega
  theorem needList_le_length (sol : Bool) : ∀ (xs : List JT) (first : Bool), wfList xs = true →
      needList xs ≤ (compactElems sol first xs).length + (if first then 1 else 0)
    | [], _, _ => by simp [needList]
    | x :: xs, first, hw => by
      have hw' : WF x ∧ wfList xs = true := by
        have := hw; simp only [wfList, Bool.and_eq_true] at this; exact this
      have h1 := need_le_length sol x hw'.1
      have h2 := needList_le_length sol xs false hw'.2
      cases first <;> simp [needList, compactElems, sep] at h2 ⊢ <;> omega
  theorem needMembers_le_length (sol : Bool) : ∀ (ms : List (Bytes × JT)) (first : Bool), wfMembers ms = true →
      needMembers ms ≤ (compactMembers sol first ms).length + (if first then 1 else 0)
    | [], _, _ => by simp [needMembers]
    | (k, x) :: ms, first, hw => by
      have hw' : (validUtf8 k = true ∧ WF x) ∧ wfMembers ms = true := by
        have := hw; simp only [wfMembers, Bool.and_eq_true] at this; exact this
      have h1 := need_le_length sol x hw'.1.2
      have h2 := needMembers_le_length sol ms false hw'.2
      cases first <;> simp [needMembers, compactMembers, sep] at h2 ⊢ <;> omega
end

/-- the document round trip of the compact encoder model (either escape_solidus setting) -/
theorem compactS_parses_back (fl : Flags) (sol : Bool) (v : JT) (hw : WF v) (hd : depth v ≤ fl.maxDepth) :
    parseText fl (compactS sol v) = some v := by
  obtain ⟨c, cs, he, hc⟩ := compactS_head sol v hw
  have hlen := need_le_length sol v hw
  have hv := val_back fl sol v [] ((compactS sol v).length + 1) 0 hw (by omega) (by omega) (Or.inl rfl)
  simp only [List.append_nil] at hv
  unfold parseText
  rw [he] at hv ⊢
  simp only [List.length_cons] at hv
  simp only [List.length_cons, skipWs_stay _ _ c cs hc.1 hc.2.1, hv, skipWs_nil]

end JsonEncode
end Model
end JV
