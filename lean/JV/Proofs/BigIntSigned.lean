/-
  JV.Proofs.BigIntSigned — the class invariant (`reduce()`d word lists), `compare`, and signed `+=` / `-=`.
-/
import JV.Proofs.BigIntPrint
namespace JV
namespace Model
namespace BigInt

/-! ### normal form and comparison -/

/-- the class invariant after `reduce()`: words below 2^64 and no zero word at the high end -/
def Normal (m : List Nat) : Prop := Words m ∧ stripHigh m = m

theorem stripHigh_idem : ∀ (xs : List Nat), stripHigh (stripHigh xs) = stripHigh xs
  | [] => rfl
  | x :: xs => by
    have ih := stripHigh_idem xs
    simp only [stripHigh]
    cases h : stripHigh xs with
    | nil =>
      by_cases hx : x = 0
      · simp [hx, stripHigh]
      · simp [hx, stripHigh]
    | cons y ys =>
      rw [h] at ih
      show (match stripHigh (y :: ys) with
        | [] => if x = 0 then [] else [x]
        | zs => x :: zs) = x :: y :: ys
      rw [ih]

theorem normal_stripHigh {m : List Nat} (h : Words m) : Normal (stripHigh m) :=
  ⟨stripHigh_words h, stripHigh_idem m⟩

theorem normal_nil : Normal [] := ⟨fun _ h => by simp at h, rfl⟩

theorem normal_lower : ∀ (m : List Nat), stripHigh m = m → m ≠ [] → B ^ (m.length - 1) ≤ val m
  | [], _, h => absurd rfl h
  | x :: xs, hs, _ => by
    simp only [stripHigh] at hs
    cases h : stripHigh xs with
    | nil =>
      rw [h] at hs
      by_cases hx : x = 0
      · simp [hx] at hs
      · simp only [hx, if_false] at hs
        injection hs with _ h2
        subst h2
        simp [val]; omega
    | cons y ys =>
      rw [h] at hs
      simp only [] at hs
      injection hs with _ h2
      have hxs : stripHigh xs = xs := by rw [h]; exact h2
      have hne : xs ≠ [] := by rw [← h2]; simp
      have ih := normal_lower xs hxs hne
      simp only [val, List.length_cons, Nat.add_sub_cancel]
      have hl : xs.length = (xs.length - 1) + 1 := by
        cases xs with
        | nil => exact absurd rfl hne
        | cons _ _ => simp
      rw [hl, Nat.pow_succ, Nat.mul_comm]
      have := Nat.mul_le_mul_left B ih
      omega

theorem valM_lt : ∀ {ws : List Nat}, Words ws → valM ws < B ^ ws.length := by
  intro ws h
  rw [valM_eq]
  have := val_lt (words_reverse h)
  simpa using this

theorem cmpWordsRev_spec : ∀ (xs ys : List Nat), xs.length = ys.length → Words xs → Words ys →
    (cmpWordsRev xs ys > 0 ↔ valM xs > valM ys) ∧ (cmpWordsRev xs ys < 0 ↔ valM xs < valM ys)
  | [], [], _, _, _ => by simp [cmpWordsRev, valM]
  | [], _ :: _, h, _, _ => by simp at h
  | _ :: _, [], h, _, _ => by simp at h
  | x :: xs, y :: ys, h, hx, hy => by
    simp only [List.length_cons, Nat.add_right_cancel_iff] at h
    obtain ⟨i1, i2⟩ := cmpWordsRev_spec xs ys h hx.tail hy.tail
    have b1 := valM_lt hx.tail
    have b2 := valM_lt hy.tail
    rw [h] at b1
    simp only [cmpWordsRev, valM, h]
    generalize B ^ ys.length = P at *
    by_cases h1 : x > y
    · have : (y + 1) * P ≤ x * P := Nat.mul_le_mul_right P h1
      rw [Nat.add_mul] at this
      simp only [h1, if_true]
      constructor
      · constructor <;> intro _ <;> omega
      · constructor <;> intro _ <;> omega
    · by_cases h2 : x < y
      · have : (x + 1) * P ≤ y * P := Nat.mul_le_mul_right P h2
        rw [Nat.add_mul] at this
        simp only [h1, h2, if_true, if_false]
        constructor
        · constructor <;> intro _ <;> omega
        · constructor <;> intro _ <;> omega
      · have : x = y := by omega
        subst this
        simp only [h1, h2, if_false]
        constructor
        · rw [i1]; constructor <;> intro _ <;> omega
        · rw [i2]; constructor <;> intro _ <;> omega

theorem cmpMag_spec (x y : List Nat) (hx : Normal x) (hy : Normal y) :
    (cmpMag x y > 0 ↔ val x > val y) ∧ (cmpMag x y < 0 ↔ val x < val y) ∧
      (cmpMag x y > 0 → y.length ≤ x.length) ∧ (¬ cmpMag x y > 0 → x.length ≤ y.length) := by
  unfold cmpMag
  by_cases h1 : x.length < y.length
  · simp only [h1, if_true]
    have hyne : y ≠ [] := by intro h; rw [h] at h1; simp at h1
    have l1 := normal_lower y hy.2 hyne
    have l2 := val_lt hx.1
    have l3 : B ^ x.length ≤ B ^ (y.length - 1) := Nat.pow_le_pow_right B_pos (by omega)
    refine ⟨?_, ?_, ?_, ?_⟩
    · constructor <;> intro _ <;> omega
    · constructor <;> intro _ <;> omega
    · intro _; omega
    · intro _; omega
  · by_cases h2 : x.length > y.length
    · simp only [h1, h2, if_true, if_false]
      have hxne : x ≠ [] := by intro h; rw [h] at h2; simp at h2
      have l1 := normal_lower x hx.2 hxne
      have l2 := val_lt hy.1
      have l3 : B ^ y.length ≤ B ^ (x.length - 1) := Nat.pow_le_pow_right B_pos (by omega)
      refine ⟨?_, ?_, ?_, ?_⟩
      · constructor <;> intro _ <;> omega
      · constructor <;> intro _ <;> omega
      · intro _; omega
      · intro _; omega
    · simp only [h1, h2, if_false]
      have hl : x.length = y.length := by omega
      obtain ⟨c1, c2⟩ := cmpWordsRev_spec x.reverse y.reverse (by simp [hl]) (words_reverse hx.1) (words_reverse hy.1)
      rw [valM_eq, valM_eq, List.reverse_reverse, List.reverse_reverse] at c1 c2
      exact ⟨c1, c2, fun _ => by omega, fun _ => by omega⟩


/-! ### signed addition and subtraction -/

theorem add_succ (f : Nat) (a b : Big) :
    add (f + 1) a b = if a.neg ≠ b.neg then sub f a (negate b) else reduce a.neg (addMag a.mag b.mag) := by
  simp only [add]

theorem sub_succ (f : Nat) (a b : Big) :
    sub (f + 1) a b = if a.neg ≠ b.neg then add f a (negate b)
      else if (!a.neg && compare b a > 0) || (a.neg && compare b a < 0) then negate (sub f b a)
      else reduce a.neg (subLoop a.mag b.mag 0) := by
  simp only [sub]

theorem toInt_negate (b : Big) : toInt (negate b) = - toInt b := by
  unfold toInt negate
  cases b.neg <;> simp

theorem compare_same (a b : Big) (hs : a.neg = b.neg) :
    compare b a = if b.neg then -(cmpMag b.mag a.mag) else cmpMag b.mag a.mag := by
  unfold compare
  by_cases he : b.mag = [] ∧ a.mag = []
  · rw [if_pos he, he.1, he.2]
    cases b.neg <;> simp [cmpMag, cmpWordsRev]
  · rw [if_neg he]
    have : ¬ (b.neg ≠ a.neg) := by simp [hs]
    rw [if_neg this]

theorem cond_iff (a b : Big) (hs : a.neg = b.neg) :
    ((!a.neg && decide (compare b a > 0)) || (a.neg && decide (compare b a < 0))) = true ↔ cmpMag b.mag a.mag > 0 := by
  rw [compare_same a b hs, ← hs]
  cases a.neg
  · simp
  · simp <;> omega

theorem sub_final (a b : Big) (ha : Words a.mag) (hb : Words b.mag) (hs : a.neg = b.neg)
    (hl : b.mag.length ≤ a.mag.length) (hv : val b.mag ≤ val a.mag) :
    toInt (reduce a.neg (subLoop a.mag b.mag 0)) = toInt a - toInt b ∧ Normal (reduce a.neg (subLoop a.mag b.mag 0)).mag := by
  obtain ⟨s1, s2⟩ := subLoop_val a.mag b.mag ha hb hl hv
  refine ⟨?_, by unfold reduce; exact normal_stripHigh s2⟩
  rw [toInt_reduce]
  unfold toInt
  simp only [s1, ← hs]
  cases a.neg
  · simp; omega
  · simp; omega

theorem sub_same (f : Nat) (a b : Big) (ha : Normal a.mag) (hb : Normal b.mag) (hs : a.neg = b.neg) :
    toInt (sub (f + 2) a b) = toInt a - toInt b ∧ Normal (sub (f + 2) a b).mag := by
  obtain ⟨c1, c2, c3, c4⟩ := cmpMag_spec b.mag a.mag hb ha
  obtain ⟨d1, d2, d3, d4⟩ := cmpMag_spec a.mag b.mag ha hb
  have hne : ¬ (a.neg ≠ b.neg) := by simp [hs]
  have hne' : ¬ (b.neg ≠ a.neg) := by simp [hs]
  rw [sub_succ, if_neg hne]
  by_cases hg : cmpMag b.mag a.mag > 0
  · rw [if_pos ((cond_iff a b hs).2 hg)]
    have hng : ¬ cmpMag a.mag b.mag > 0 := by
      intro h; have := d1.1 h; have := c1.1 hg; omega
    rw [sub_succ, if_neg hne', if_neg (fun h => hng ((cond_iff b a hs.symm).1 h))]
    obtain ⟨r1, r2⟩ := sub_final b a hb.1 ha.1 hs.symm (c3 hg) (by have := c1.1 hg; omega)
    refine ⟨by rw [toInt_negate, r1]; omega, ?_⟩
    simpa [negate] using r2
  · rw [if_neg (fun h => hg ((cond_iff a b hs).1 h))]
    exact sub_final a b ha.1 hb.1 hs (c4 hg) (by
      rcases Nat.lt_or_ge (val a.mag) (val b.mag) with h | h
      · exact absurd (c1.2 h) hg
      · exact h)

theorem add_same (f : Nat) (a b : Big) (ha : Normal a.mag) (hb : Normal b.mag) (hs : a.neg = b.neg) :
    toInt (add (f + 1) a b) = toInt a + toInt b ∧ Normal (add (f + 1) a b).mag := by
  have hne : ¬ (a.neg ≠ b.neg) := by simp [hs]
  rw [add_succ, if_neg hne]
  obtain ⟨s1, s2⟩ := addMag_val a.mag b.mag ha.1 hb.1
  refine ⟨?_, by unfold reduce; exact normal_stripHigh s2⟩
  rw [toInt_reduce]
  unfold toInt
  simp only [s1, ← hs]
  cases a.neg
  · simp
  · simp; omega

theorem negate_neg (b : Big) : (negate b).neg = !b.neg := rfl
theorem negate_mag (b : Big) : (negate b).mag = b.mag := rfl

/-- `operator+=` on signed values is integer addition and keeps the class invariant -/
theorem add_toInt (a b : Big) (ha : Normal a.mag) (hb : Normal b.mag) :
    toInt (add 4 a b) = toInt a + toInt b ∧ Normal (add 4 a b).mag := by
  by_cases hs : a.neg = b.neg
  · exact add_same 3 a b ha hb hs
  · rw [add_succ, if_pos hs]
    have hs' : a.neg = (negate b).neg := by
      rw [negate_neg]; revert hs; cases a.neg <;> cases b.neg <;> simp
    obtain ⟨r1, r2⟩ := sub_same 1 a (negate b) ha (by rw [negate_mag]; exact hb) hs'
    exact ⟨by rw [r1, toInt_negate]; omega, r2⟩

/-- `operator-=` on signed values is integer subtraction and keeps the class invariant -/
theorem sub_toInt (a b : Big) (ha : Normal a.mag) (hb : Normal b.mag) :
    toInt (sub 4 a b) = toInt a - toInt b ∧ Normal (sub 4 a b).mag := by
  by_cases hs : a.neg = b.neg
  · exact sub_same 2 a b ha hb hs
  · rw [sub_succ, if_pos hs]
    have hs' : a.neg = (negate b).neg := by
      rw [negate_neg]; revert hs; cases a.neg <;> cases b.neg <;> simp
    obtain ⟨r1, r2⟩ := add_same 2 a (negate b) ha (by rw [negate_mag]; exact hb) hs'
    exact ⟨by rw [r1, toInt_negate]; omega, r2⟩


theorem normal_pos {m : List Nat} (h : Normal m) (hne : m ≠ []) : 0 < val m :=
  Nat.lt_of_lt_of_le (Nat.pow_pos B_pos) (normal_lower m h.2 hne)

/-- `compare` orders normal values as the integers they stand for -/
theorem compare_toInt (a b : Big) (ha : Normal a.mag) (hb : Normal b.mag) :
    (compare a b > 0 ↔ toInt a > toInt b) ∧ (compare a b < 0 ↔ toInt a < toInt b) := by
  unfold compare
  by_cases he : a.mag = [] ∧ b.mag = []
  · rw [if_pos he]
    unfold toInt; rw [he.1, he.2]
    cases a.neg <;> cases b.neg <;> simp [val]
  · rw [if_neg he]
    obtain ⟨c1, c2, _, _⟩ := cmpMag_spec a.mag b.mag ha hb
    have hpos : 0 < val a.mag ∨ 0 < val b.mag := by
      by_cases h : a.mag = []
      · exact Or.inr (normal_pos hb (fun h2 => he ⟨h, h2⟩))
      · exact Or.inl (normal_pos ha h)
    unfold toInt
    cases hna : a.neg <;> cases hnb : b.neg <;> simp <;> omega

end BigInt
end Model
end JV
