/-
  JV.Proofs.BigIntShift — `operator<<=` and `operator>>=` agree with multiplication / floor division by 2^k.
-/
import JV.Proofs.BigIntMul
namespace JV
namespace Model
namespace BigInt

theorem B_eq_pow : B = 2 ^ 64 := by decide

theorem B_split (k : Nat) (hk : k ≤ 64) : B = 2 ^ (64 - k) * 2 ^ k := by
  rw [← Nat.pow_add, Nat.sub_add_cancel hk]; exact B_eq_pow

theorem shl_arith (P Q x V pq Bv : Nat) (hB : Bv = Q * P) :
    (x % Q) * P + pq + Bv * (V * P + x / Q) = (x + Bv * V) * P + pq := by
  subst hB
  have := Nat.div_add_mod x Q
  generalize x / Q = d at *
  generalize x % Q = m at *
  subst this
  grind

/-- one word of the left shift: the two parts do not overlap, so `|` is `+` -/
theorem shlWord_eq (k x prev : Nat) (hk : k < 64) (hprev : prev < B) :
    ((x <<< k) % B) ||| ((prev >>> (64 - k)) &&& (2 ^ k - 1)) = (x % 2 ^ (64 - k)) * 2 ^ k + prev / 2 ^ (64 - k) := by
  have hB := B_split k (by omega)
  rw [Nat.shiftLeft_eq, Nat.shiftRight_eq_div_pow, Nat.and_two_pow_sub_one_eq_mod]
  have h1 : prev / 2 ^ (64 - k) < 2 ^ k := Nat.div_lt_of_lt_mul (by rw [← hB]; exact hprev)
  rw [Nat.mod_eq_of_lt h1]
  have h2 : x * 2 ^ k % B = (x % 2 ^ (64 - k)) * 2 ^ k := by
    have := Nat.mul_mod_mul_right (2 ^ k) x (2 ^ (64 - k))
    rw [← hB] at this; exact this
  rw [h2, ← Nat.shiftLeft_eq, ← Nat.shiftLeft_add_eq_or_of_lt h1]

theorem shlBits_val (k : Nat) (hk : k < 64) : ∀ (xs : List Nat) (prev : Nat), prev < B → Words xs →
    val (shlBits k xs prev) = val xs * 2 ^ k + prev / 2 ^ (64 - k)
  | [], prev, hp, _ => by
    simp only [shlBits]
    rw [shlWord_eq k 0 prev hk hp, val_one]
    simp [val]
  | x :: xs, prev, hp, hw => by
    simp only [shlBits]
    rw [shlWord_eq k x prev hk hp]
    show _ + B * val (shlBits k xs x) = _
    rw [shlBits_val k hk xs x hw.head hw.tail]
    show _ = (x + B * val xs) * 2 ^ k + _
    exact shl_arith _ _ _ _ _ _ (B_split k (by omega))

theorem shlWords_val (k : Nat) (hk : k < 64) (xs : List Nat) (hw : Words xs) :
    val (shlWords k xs) = val xs * 2 ^ k := by
  cases xs with
  | nil => simp [shlWords, val]
  | cons x xs =>
    simp only [shlWords]
    show _ + B * val (shlBits k xs x) = (x + B * val xs) * 2 ^ k
    rw [shlBits_val k hk xs x hw.head hw.tail]
    have h2 : (x <<< k) % B = (x % 2 ^ (64 - k)) * 2 ^ k := by
      have := Nat.mul_mod_mul_right (2 ^ k) x (2 ^ (64 - k))
      rw [← B_split k (by omega)] at this; rw [Nat.shiftLeft_eq]; exact this
    rw [h2]
    have := shl_arith (2 ^ k) (2 ^ (64 - k)) x (val xs) 0 B (B_split k (by omega))
    simpa using this

theorem pow_split (k : Nat) : 2 ^ k = B ^ (k / 64) * 2 ^ (k % 64) := by
  rw [B_eq_pow, ← Nat.pow_mul, ← Nat.pow_add, Nat.div_add_mod]

theorem shlRaw_val (x : List Nat) (k : Nat) (hw : Words x) : val (shlRaw x k) = val x * 2 ^ k := by
  unfold shlRaw
  have hx1 : val (if k / 64 ≠ 0 then List.replicate (k / 64) 0 ++ x else x) = val x * B ^ (k / 64) ∧
      Words (if k / 64 ≠ 0 then List.replicate (k / 64) 0 ++ x else x) := by
    by_cases hq : k / 64 ≠ 0
    · rw [if_pos hq]
      refine ⟨by simp [val_append, val_replicate_zero, Nat.mul_comm], ?_⟩
      intro z hz
      rcases List.mem_append.1 hz with h | h
      · rw [(List.mem_replicate.1 h).2]; exact B_pos
      · exact hw z h
    · rw [if_neg hq]
      have : k / 64 = 0 := Classical.not_not.1 hq
      exact ⟨by simp [this], hw⟩
  simp only []
  by_cases hr : k % 64 ≠ 0
  · rw [if_pos hr, shlWords_val (k % 64) (Nat.mod_lt _ (by omega)) _ hx1.2, hx1.1, pow_split k, Nat.mul_assoc]
  · rw [if_neg hr, hx1.1, pow_split k]
    have : k % 64 = 0 := Classical.not_not.1 hr
    simp [this]

/-- one word of the right shift -/
theorem shrWord_eq (k x x' : Nat) (hk : k < 64) (hx : x < B) :
    (x >>> k) ||| (((x' &&& (2 ^ k - 1)) <<< (64 - k)) % B) = x / 2 ^ k + (x' % 2 ^ k) * 2 ^ (64 - k) := by
  have hB := B_split k (by omega)
  rw [Nat.shiftRight_eq_div_pow, Nat.and_two_pow_sub_one_eq_mod]
  have h1 : x / 2 ^ k < 2 ^ (64 - k) := Nat.div_lt_of_lt_mul (by rw [Nat.mul_comm, ← hB]; exact hx)
  have h2 : (x' % 2 ^ k) <<< (64 - k) < B := by
    rw [Nat.shiftLeft_eq, hB, Nat.mul_comm]
    exact Nat.mul_lt_mul_of_pos_left (Nat.mod_lt _ (Nat.two_pow_pos k)) (Nat.two_pow_pos _)
  rw [Nat.mod_eq_of_lt h2, Nat.or_comm, ← Nat.shiftLeft_add_eq_or_of_lt h1, Nat.shiftLeft_eq, Nat.add_comm]

theorem shr_arith (P Q x x' R Bv : Nat) (hP : 0 < P) (hB : Bv = Q * P) :
    (x + Bv * (x' + Bv * R)) / P = x / P + (x' % P) * Q + Bv * ((x' + Bv * R) / P) := by
  subst hB
  have e1 : x + Q * P * (x' + Q * P * R) = x + P * (Q * (x' + Q * P * R)) := by grind
  rw [e1, Nat.add_mul_div_left _ _ hP]
  have e2 : x' + Q * P * R = x' + P * (Q * R) := by grind
  rw [e2, Nat.add_mul_div_left _ _ hP]
  have := Nat.div_add_mod x' P
  generalize x' / P = d at *
  generalize x' % P = m at *
  subst this
  grind

theorem shrBits_val (k : Nat) (hk : k < 64) : ∀ (xs : List Nat), Words xs → val (shrBits k xs) = val xs / 2 ^ k
  | [], _ => by simp [shrBits, val]
  | [x], _ => by simp [shrBits, val, Nat.shiftRight_eq_div_pow]
  | x :: x' :: xs, hw => by
    simp only [shrBits]
    rw [shrWord_eq k x x' hk hw.head]
    show _ + B * val (shrBits k (x' :: xs)) = (x + B * (x' + B * val xs)) / 2 ^ k
    rw [shrBits_val k hk (x' :: xs) hw.tail]
    show _ + B * ((x' + B * val xs) / 2 ^ k) = _
    exact (shr_arith (2 ^ k) (2 ^ (64 - k)) x x' (val xs) B (Nat.two_pow_pos k) (B_split k (by omega))).symm

theorem val_drop (q : Nat) : ∀ (x : List Nat), Words x → val (x.drop q) = val x / B ^ q := by
  induction q with
  | zero => intro x _; simp
  | succ q ih =>
    intro x hw
    cases x with
    | nil => simp [val]
    | cons a xs =>
      rw [List.drop_succ_cons, ih xs hw.tail, Nat.pow_succ]
      show _ = (a + B * val xs) / _
      rw [Nat.mul_comm (B ^ q) B, ← Nat.div_div_eq_div_mul, Nat.add_mul_div_left _ _ B_pos, Nat.div_eq_of_lt hw.head, Nat.zero_add]

theorem words_drop (q : Nat) {x : List Nat} (hw : Words x) : Words (x.drop q) :=
  fun z hz => hw z (List.mem_of_mem_drop hz)

/-- `operator>>=` on the magnitude: floor division by 2^k (so a negative value is truncated towards zero);
    the sign flag is never switched on -/
theorem shr_val (a : Big) (k : Nat) (hw : Words a.mag) :
    val (shr a k).mag = val a.mag / 2 ^ k ∧ ((shr a k).neg = true → a.neg = true) := by
  unfold shr
  simp only []
  by_cases hq : k / 64 ≥ a.mag.length
  · rw [if_pos hq]
    refine ⟨?_, fun h => h⟩
    have h1 := val_lt hw
    have h2 : B ^ a.mag.length ≤ B ^ (k / 64) := Nat.pow_le_pow_right B_pos hq
    have h3 : B ^ (k / 64) ≤ 2 ^ k := by
      rw [pow_split k]; exact Nat.le_mul_of_pos_right _ (Nat.two_pow_pos _)
    rw [Nat.div_eq_of_lt (by omega)]; rfl
  · rw [if_neg hq]
    have hd := val_drop (k / 64) a.mag hw
    have hwd := words_drop (k / 64) hw
    have key : ∀ m, val m = val a.mag / 2 ^ k → val (reduce a.neg m).mag = val a.mag / 2 ^ k ∧ ((reduce a.neg m).neg = true → a.neg = true) := by
      intro m hm
      refine ⟨by simp [reduce, stripHigh_val, hm], ?_⟩
      simp only [reduce]
      by_cases hz : stripHigh m = []
      · simp [hz]
      · simp [hz]
    by_cases hr : k % 64 = 0
    · rw [if_pos hr]
      apply key
      rw [hd, pow_split k, hr]; simp
    · rw [if_neg hr]
      apply key
      rw [shrBits_val (k % 64) (Nat.mod_lt _ (by omega)) _ hwd, hd, Nat.div_div_eq_div_mul, ← pow_split k]


theorem toInt_reduce (n : Bool) (m : List Nat) : toInt (reduce n m) = toInt { neg := n, mag := m } := by
  unfold reduce toInt
  simp only []
  by_cases hz : stripHigh m = []
  · have : val m = 0 := by rw [← stripHigh_val, hz]; rfl
    simp [hz, this, val]
  · simp [hz, stripHigh_val]

theorem shl_toInt (a : Big) (k : Nat) (hw : Words a.mag) : toInt (shl a k) = toInt a * 2 ^ k := by
  unfold shl
  rw [toInt_reduce]
  unfold toInt
  simp only [shlRaw_val _ _ hw]
  cases a.neg <;> simp [Int.natCast_mul, Int.neg_mul]

end BigInt
end Model
end JV
