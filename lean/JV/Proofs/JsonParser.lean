/-
  JV.Proofs.JsonParser — lemmas about the parser state-machine model.
-/
import JV.Model.JsonParser
import JV.Spec.Rfc8259
namespace JV
namespace Model
namespace JsonParser

/-! ### delivery in pieces -/
theorem feed_append (cfg : Cfg) (s : St) (a b : Bytes) : feed cfg s (a ++ b) = feed cfg (feed cfg s a) b := by
  simp [feed, List.foldl_append]

theorem feed_chunks (cfg : Cfg) (chunks : List Bytes) (s : St) :
    chunks.foldl (feed cfg) s = feed cfg s chunks.flatten := by
  induction chunks generalizing s with
  | nil => simp [feed]
  | cons c cs ih => simp [List.flatten_cons, feed_append, ih]

/-- an error stops the machine -/
theorem feedChar_err (cfg : Cfg) (s : St) (c : Nat) (h : s.err.isSome) : feedChar cfg s c = s := by
  simp [feedChar, h]

theorem feed_err (cfg : Cfg) (s : St) (bs : Bytes) (h : s.err.isSome) : feed cfg s bs = s := by
  induction bs with
  | nil => rfl
  | cons c cs ih => simp only [feed, List.foldl_cons, feedChar_err cfg s c h] at *; exact ih

/-! ### `unicode_traits::validate` is RFC 3629 well-formedness -/
theorem isCont_iff (b : Nat) : isCont b = true ↔ (128 ≤ b ∧ b ≤ 191) := by
  simp only [isCont, decide_eq_true_eq]; omega
theorem isCont_false (b : Nat) : isCont b = false ↔ ¬ (128 ≤ b ∧ b ≤ 191) := by
  rw [← isCont_iff]; simp

open Spec.Rfc8259 in
/-- the model of `unicode_traits::validate` (`trailing_bytes_for_utf8` + `is_legal_utf8`) accepts exactly the byte strings
    the RFC 3629 reference accepts -/
theorem validate_iff (bs : Bytes) : validate bs = none ↔ validUtf8 bs = true := by
  fun_induction validate bs
  all_goals (rw [validUtf8.eq_def])
  all_goals (simp only [Bool.not_eq_true', isCont_false] at *)
  all_goals (simp only [reduceCtorEq, false_iff, eIllegalCodepoint, eBadContinuation, eOverLong, *])
  all_goals (repeat' split)
  all_goals (try omega)
  all_goals (try (simp_all; done))
  all_goals (try (simp_all; omega))

end JsonParser
end Model
end JV
