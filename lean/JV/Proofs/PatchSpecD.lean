/-
  JV.Proofs.PatchSpecD — the converse direction: what the RFC 6901/6902 reference accepts, the model
  (sorted flavour) accepts too, for documents whose arrays are shorter than 2^64.
-/
import JV.Proofs.PatchSpecC
namespace JV
namespace Model
namespace Pointer
open Assoc Spec.Rfc6901

/-! ### every RFC 6901 pointer is accepted by `parse`, with the same tokens -/

def rawJoin : List Bytes → Bytes
  | [] => []
  | p :: ps => 47 :: (p ++ rawJoin ps)

theorem toString_eq_rawJoin : ∀ ts : List Bytes, toString ts = rawJoin (ts.map escapeToken)
  | [] => rfl
  | t :: ts => by simp [toString, rawJoin, toString_eq_rawJoin ts]

theorem rawJoin_splitSlash : ∀ cs : Bytes, rawJoin (splitSlash cs) = 47 :: cs
  | [] => rfl
  | c :: cs => by
    have ih := rawJoin_splitSlash cs
    simp only [splitSlash]
    cases h : splitSlash cs with
    | nil => exact absurd h (splitSlash_ne_nil cs)
    | cons p ps =>
      rw [h] at ih
      simp only [rawJoin, List.cons.injEq, true_and] at ih
      by_cases hc : c = 47
      · subst hc; simp [rawJoin, ih]
      · simp [hc, rawJoin, ih]

theorem splitSlash_pieces : ∀ (s : Bytes) (p : Bytes), p ∈ splitSlash s → ∀ c ∈ p, c ≠ 47
  | [], p, hp => by simp [splitSlash] at hp; subst hp; simp
  | c :: cs, p, hp => by
    have ih := splitSlash_pieces cs
    simp only [splitSlash] at hp
    cases h : splitSlash cs with
    | nil => exact absurd h (splitSlash_ne_nil cs)
    | cons q qs =>
      rw [h] at hp ih
      by_cases hc : c = 47
      · simp only [hc, if_true, List.mem_cons] at hp
        rcases hp with hp | hp | hp
        · subst hp; simp
        · exact ih p (by simp [hp])
        · exact ih p (by simp [hp])
      · simp only [hc, if_false, List.mem_cons] at hp
        rcases hp with hp | hp
        · subst hp
          intro x hx
          rcases List.mem_cons.1 hx with e | e
          · rw [e]; exact hc
          · exact ih q (by simp) x e
        · exact ih p (by simp [hp])

theorem unescape_tilde_bad (d : Nat) (ds : Bytes) (h0 : d ≠ 48) (h1 : d ≠ 49) : unescape (126 :: d :: ds) = none := by
  unfold unescape
  split <;> simp_all

theorem escape_unescape : ∀ (n : Nat) (s t : Bytes), s.length ≤ n → unescape s = some t → (∀ c ∈ s, c ≠ 47) → escapeToken t = s
  | _, [], t, _, h, _ => by simp [unescape] at h; subst h; rfl
  | 0, c :: cs, t, hl, _, _ => by simp at hl
  | n + 1, c :: cs, t, hl, h, hn => by
    have hl' : cs.length ≤ n := by simp at hl; omega
    by_cases hc : c = 126
    · subst hc
      cases cs with
      | nil => simp [unescape] at h
      | cons d ds =>
        have hl2 : ds.length ≤ n := by simp at hl'; omega
        have hn2 : ∀ c ∈ ds, c ≠ 47 := fun c hc => hn c (by simp [hc])
        by_cases h0 : d = 48
        · subst h0
          simp only [unescape, Option.map_eq_some_iff] at h
          obtain ⟨a, ha, rfl⟩ := h
          simp [escapeToken, escape_unescape n ds a hl2 ha hn2]
        · by_cases h1 : d = 49
          · subst h1
            simp only [unescape, Option.map_eq_some_iff] at h
            obtain ⟨a, ha, rfl⟩ := h
            simp [escapeToken, escape_unescape n ds a hl2 ha hn2]
          · rw [unescape_tilde_bad d ds h0 h1] at h; simp at h
    · rw [unescape_cons_other c cs hc] at h
      simp only [Option.map_eq_some_iff] at h
      obtain ⟨a, ha, rfl⟩ := h
      have h47 : c ≠ 47 := hn c (by simp)
      simp [escapeToken, hc, h47, escape_unescape n cs a hl' ha (fun c hc => hn c (by simp [hc]))]

theorem mapM_unescape_inv : ∀ (ps ts : List Bytes), (∀ p ∈ ps, ∀ c ∈ p, c ≠ 47) → mapM' unescape ps = some ts →
    ts.map escapeToken = ps
  | [], ts, _, h => by simp [mapM'] at h; subst h; rfl
  | p :: ps, ts, hn, h => by
    simp only [mapM'] at h
    cases hu : unescape p with
    | none => simp [hu] at h
    | some t =>
      cases hm : mapM' unescape ps with
      | none => simp [hu, hm] at h
      | some ts' =>
        simp only [hu, hm, Option.some.injEq] at h
        subst h
        simp [escape_unescape p.length p t (Nat.le_refl _) hu (hn p (by simp)),
          mapM_unescape_inv ps ts' (fun q hq => hn q (by simp [hq])) hm]

/-- every RFC 6901 JSON Pointer is accepted by `basic_json_pointer::parse`, with the same reference tokens -/
theorem parse_complete {s : Bytes} {ts : List Bytes} (h : tokens s = some ts) : parse s = .ok ts := by
  cases s with
  | nil => simp [tokens] at h; subst h; rfl
  | cons c cs =>
    simp only [tokens] at h
    by_cases hc : c = 47
    · subst hc
      simp only [if_true] at h
      have := mapM_unescape_inv (splitSlash cs) ts (splitSlash_pieces cs) h
      have hs : toString ts = 47 :: cs := by rw [toString_eq_rawJoin, this, rawJoin_splitSlash]
      rw [← hs]; exact parse_toString_aux ts
    · simp [hc] at h

theorem parse_iff_tokens (s : Bytes) (ts : List Bytes) : parse s = .ok ts ↔ tokens s = some ts :=
  ⟨parse_sound, parse_complete⟩

/-! ### the modifying operations succeed wherever the reference does -/

def SmallTop : JVal → Prop
  | .arr xs => xs.length < 2 ^ 64
  | _ => True

theorem smallTop_of_small {c : JVal} (h : SmallArrays c) : SmallTop c := by
  cases c <;> simp_all [SmallArrays, SmallTop]

theorem finalStep_complete (f : Final) (c : JVal) (tok : Bytes) (r : JVal) (hs : SmallTop c)
    (h : atParent (specOp f) c tok = some r) : (finalStep false false f c tok).1 = none := by
  cases c with
  | arr xs =>
    have hlen : xs.length < 2 ^ 64 := hs
    by_cases hd : tok = [45]
    · subst hd
      cases f <;> simp_all [finalStep, specOp, atParent, isDash, arrayIndex_dash]
    · have hd' := isDash_false_of_ne hd
      cases hi : arrayIndex tok with
      | none => cases f <;> simp [specOp, atParent, hd, hi] at h
      | some i =>
        cases f with
        | add v =>
          simp only [specOp, atParent, hd, if_false, hi] at h
          by_cases h1 : i ≤ xs.length
          · have hdi := decToIndex_complete hi (by omega)
            have h2 : ¬ i > xs.length := by omega
            simp only [finalStep, hd', Bool.false_eq_true, if_false, hdi, h2]
            split <;> rfl
          · simp [h1] at h
        | addIfAbsent v =>
          simp only [specOp, atParent, hd, if_false, hi] at h
          by_cases h1 : i ≤ xs.length
          · have hdi := decToIndex_complete hi (by omega)
            have h2 : ¬ i > xs.length := by omega
            simp only [finalStep, hd', Bool.false_eq_true, if_false, hdi, h2]
            split <;> rfl
          · simp [h1] at h
        | replace v =>
          simp only [specOp, atParent, hi] at h
          by_cases h1 : i < xs.length
          · have hdi := decToIndex_complete hi (by omega)
            have h2 : ¬ i ≥ xs.length := by omega
            simp [finalStep, hd', hdi, h2]
          · simp [h1] at h
        | remove =>
          simp only [specOp, atParent, hi] at h
          by_cases h1 : i < xs.length
          · have hdi := decToIndex_complete hi (by omega)
            have h2 : ¬ i ≥ xs.length := by omega
            simp [finalStep, hd', hdi, h2]
          · simp [h1] at h
  | obj ms =>
    cases f with
    | add v => simp [finalStep]
    | addIfAbsent v =>
      simp only [specOp, atParent] at h
      cases hf : find tok ms with
      | some x => simp [hf] at h
      | none => simp [finalStep, hf]
    | replace v =>
      simp only [specOp, atParent] at h
      cases hf : find tok ms with
      | none => simp [hf] at h
      | some x => simp [finalStep, hf]
    | remove =>
      simp only [specOp, atParent] at h
      cases hf : find tok ms with
      | none => simp [hf] at h
      | some x => simp [finalStep, hf]
  | null => simp [atParent] at h
  | bool _ => simp [atParent] at h
  | int _ => simp [atParent] at h
  | str _ => simp [atParent] at h

/-- where the reference update succeeds the path resolves (for the model too) to a parent container on
    which the reference's last-token action succeeds -/
theorem updateAt_parent (op : Spec.Rfc6901.Op) :
    ∀ (rest : List Bytes) (cur : JVal) (tok : Bytes) (r : JVal), SmallArrays cur →
      updateAt op cur tok rest = some r →
      ∃ c last r2, parentOf cur tok rest = some (c, last) ∧ SmallArrays c ∧ atParent op c last = some r2
  | [], cur, tok, r, hs, h => ⟨cur, tok, r, by simp [parentOf], hs, by simpa [updateAt] using h⟩
  | t2 :: rest, cur, tok, r, hs, h => by
    cases cur with
    | arr xs =>
      simp only [updateAt] at h
      cases hi : arrayIndex tok with
      | none => rw [hi] at h; simp at h
      | some i =>
        rw [hi] at h
        simp only [] at h
        cases hx : xs[i]? with
        | none => rw [hx] at h; simp at h
        | some x =>
          rw [hx] at h
          simp only [Option.map_eq_some_iff] at h
          obtain ⟨a, ha, _⟩ := h
          have hsm : xs.length < 2 ^ 64 ∧ SmallList xs := by simpa [SmallArrays] using hs
          have hlt : i < xs.length := (List.getElem?_eq_some_iff.1 hx).1
          have hd' : isDash tok = false := by
            apply isDash_false_of_ne
            intro e; rw [e, arrayIndex_dash] at hi; simp at hi
          have hdi := decToIndex_complete hi (by omega)
          obtain ⟨c, last, r2, hp, hsc, hr⟩ := updateAt_parent op rest x t2 a (small_of_getElem hsm.2 hx) ha
          exact ⟨c, last, r2, by simp [parentOf, hd', hdi, hx, hp], hsc, hr⟩
    | obj ms =>
      simp only [updateAt] at h
      cases hf : find tok ms with
      | none => rw [hf] at h; simp at h
      | some x =>
        rw [hf] at h
        simp only [Option.map_eq_some_iff] at h
        obtain ⟨a, ha, _⟩ := h
        have hsm : SmallMembers ms := by simpa [SmallArrays] using hs
        obtain ⟨c, last, r2, hp, hsc, hr⟩ := updateAt_parent op rest x t2 a (small_of_find hsm hf) ha
        exact ⟨c, last, r2, by simp [parentOf, hf, hp], hsc, hr⟩
    | null => simp [updateAt] at h
    | bool _ => simp [updateAt] at h
    | int _ => simp [updateAt] at h
    | str _ => simp [updateAt] at h

/-- `add / add_if_absent / replace / remove` succeed wherever the RFC reference does -/
theorem apply_complete (f : Final) (d : JVal) (ts : List Bytes) (r : JVal) (hs : SmallArrays d)
    (h : update (specOp f) d ts = some r) : (apply false false f d ts).1 = none := by
  cases ts with
  | nil => cases f <;> simp_all [apply, update, specOp]
  | cons tok rest =>
    simp only [update] at h
    obtain ⟨c, last, r2, hp, hsc, hr⟩ := updateAt_parent (specOp f) rest d tok r hs h
    simp only [apply]
    rw [modifyAt_err_parent false f rest d tok c last hp]
    exact finalStep_complete f c last r2 (smallTop_of_small hsc) hr

theorem parentOf_get_last : ∀ (rest : List Bytes) (cur : JVal) (tok : Bytes) (c : JVal) (last : Bytes),
    parentOf cur tok rest = some (c, last) → get cur (tok :: rest) = get c [last]
  | [], cur, tok, c, last, hp => by
    simp only [parentOf, Option.some.injEq, Prod.mk.injEq] at hp
    obtain ⟨rfl, rfl⟩ := hp; rfl
  | t2 :: rest, cur, tok, c, last, hp => by
    cases cur with
    | arr xs =>
      simp only [parentOf] at hp
      by_cases hd : isDash tok = true
      · simp [hd] at hp
      · have hd' : isDash tok = false := by simpa using hd
        simp only [hd', Bool.false_eq_true, if_false] at hp
        cases hi : decToIndex tok with
        | none => rw [hi] at hp; simp at hp
        | some i =>
          rw [hi] at hp
          simp only [] at hp
          cases hx : xs[i]? with
          | none => rw [hx] at hp; simp at hp
          | some x =>
            rw [hx] at hp
            simp only [] at hp
            rw [← parentOf_get_last rest x t2 c last hp]
            simp only [get, hd', Bool.false_eq_true, if_false, hi, hx]
    | obj ms =>
      simp only [parentOf] at hp
      cases hfi : find tok ms with
      | none => rw [hfi] at hp; simp at hp
      | some x =>
        rw [hfi] at hp
        simp only [] at hp
        rw [← parentOf_get_last rest x t2 c last hp]
        simp only [get, hfi]
    | null => simp [parentOf] at hp
    | bool _ => simp [parentOf] at hp
    | int _ => simp [parentOf] at hp
    | str _ => simp [parentOf] at hp

end Pointer

namespace Patch
open Assoc Pointer Spec.Rfc6901

/-- the insert-else-replace sequence succeeds wherever RFC 6902 `add` is defined -/
theorem addLike_complete (t : JVal) (np : List Bytes) (v r : JVal) (hs : SmallArrays t)
    (h : update (.add v) t np = some r) : (addLike false t np v).1 = true := by
  unfold addLike
  cases np with
  | nil => simp [Pointer.get, Pointer.apply]
  | cons tok rest =>
    simp only [List.cons_ne_nil, if_false] at ⊢
    simp only [update] at h
    obtain ⟨c, last, r2, hp, hsc, hr⟩ := updateAt_parent (.add v) rest t tok r hs h
    have hst := smallTop_of_small hsc
    cases hi : (Pointer.apply false false (Final.addIfAbsent v) t (tok :: rest)).1 with
    | none => simp
    | some e =>
      have hdoc := apply_err_doc false (Final.addIfAbsent v) t (tok :: rest) (by simp [hi])
      simp only []
      rw [hdoc]
      have hfail : (finalStep false false (.addIfAbsent v) c last).1 = some e := by
        rw [← modifyAt_err_parent false (.addIfAbsent v) rest t tok c last hp]; exact hi
      have hrep : (Pointer.apply false false (Final.replace v) t (tok :: rest)).1
          = (finalStep false false (.replace v) c last).1 := modifyAt_err_parent false (.replace v) rest t tok c last hp
      rw [parentOf_get_last rest t tok c last hp, hrep]
      cases c with
      | arr xs =>
        exfalso
        have := finalStep_complete (.add v) (.arr xs) last r2 hst hr
        simp only [finalStep] at this hfail
        rw [this] at hfail; simp at hfail
      | obj ms =>
        cases hf : find last ms with
        | none => simp [finalStep, hf] at hfail
        | some x => simp [Pointer.get, finalStep, hf]
      | null => simp [atParent] at hr
      | bool _ => simp [atParent] at hr
      | int _ => simp [atParent] at hr
      | str _ => simp [atParent] at hr

theorem atParent_dash_digits (v : JVal) (xs : List JVal) (r : JVal)
    (h : atParent (.add v) (.arr xs) [45] = some r) : atParent (.add v) (.arr xs) (natDigits xs.length) = some r := by
  have hnd := natDigits_ne_dash xs.length
  simp only [atParent, if_true] at h
  simp only [atParent, hnd, if_false, arrayIndex_natDigits, Nat.le_refl, if_true]
  rw [← h]; simp

theorem definitePath_complete (v d : JVal) (loc : List Bytes) (r : JVal)
    (h : update (.add v) d loc = some r) : update (.add v) d (definitePath d loc) = some r := by
  unfold definitePath
  cases hl : loc.getLast? with
  | none => exact h
  | some last =>
    simp only []
    by_cases hd : last = [45]
    · subst hd
      simp only [ne_eq, not_true_eq_false, if_false]
      cases hg : Pointer.get d loc.dropLast with
      | error e => exact h
      | ok c =>
        cases c with
        | arr xs =>
          simp only []
          have hloc : loc.dropLast ++ [[45]] = loc := dropLast_append_of_getLast? hl
          rw [← hloc] at h
          refine update_last (.add v) (.add v) [45] (natDigits xs.length) loc.dropLast d r ?_ h
          intro c hc r hr
          rw [get_sound _ _ _ hg] at hc
          cases hc
          exact atParent_dash_digits v xs r hr
        | null => exact h
        | bool _ => exact h
        | int _ => exact h
        | str _ => exact h
        | obj _ => exact h
    · simp only [ne_eq, hd, not_false_eq_true, if_true]
      exact h

theorem addLike_definite_complete (t : JVal) (loc : List Bytes) (v r : JVal) (hs : SmallArrays t)
    (h : update (.add v) t loc = some r) : (addLike false t (definitePath t loc) v).1 = true :=
  addLike_complete t _ v r hs (definitePath_complete v t loc r h)

end Patch
end Model
end JV
