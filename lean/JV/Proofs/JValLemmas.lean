/-
  JV.Proofs.JValLemmas — `beq` is equality; lookups return smaller, well-formed values.
-/
import JV.Proofs.Assoc
namespace JV
open Assoc

mutual
  theorem JVal.beq_refl : ∀ a : JVal, JVal.beq a a = true
    | .null => rfl
    | .bool b => by simp [JVal.beq]
    | .int i => by simp [JVal.beq]
    | .str s => by simp [JVal.beq]
    | .arr xs => by simp [JVal.beq, beqList_refl xs]
    | .obj ms => by simp [JVal.beq, beqMembers_refl ms]
  theorem beqList_refl : ∀ xs : List JVal, JVal.beqList xs xs = true
    | [] => rfl
    | x :: xs => by simp [JVal.beqList, JVal.beq_refl x, beqList_refl xs]
  theorem beqMembers_refl : ∀ ms : List (Bytes × JVal), JVal.beqMembers ms ms = true
    | [] => rfl
    | (k, x) :: ms => by simp [JVal.beqMembers, JVal.beq_refl x, beqMembers_refl ms]
end

mutual
  theorem JVal.eq_of_beq : ∀ a b : JVal, JVal.beq a b = true → a = b
    | .null, b, h => by cases b <;> simp_all [JVal.beq]
    | .bool _, b, h => by cases b <;> simp_all [JVal.beq]
    | .int _, b, h => by cases b <;> simp_all [JVal.beq]
    | .str _, b, h => by cases b <;> simp_all [JVal.beq]
    | .arr xs, b, h => by
      cases b <;> simp_all [JVal.beq]
      exact eq_of_beqList _ _ h
    | .obj ms, b, h => by
      cases b <;> simp_all [JVal.beq]
      exact eq_of_beqMembers _ _ h
  theorem eq_of_beqList : ∀ xs ys : List JVal, JVal.beqList xs ys = true → xs = ys
    | [], [], _ => rfl
    | [], _ :: _, h => by simp [JVal.beqList] at h
    | _ :: _, [], h => by simp [JVal.beqList] at h
    | x :: xs, y :: ys, h => by
      simp only [JVal.beqList, Bool.and_eq_true] at h
      rw [JVal.eq_of_beq x y h.1, eq_of_beqList xs ys h.2]
  theorem eq_of_beqMembers : ∀ xs ys : List (Bytes × JVal), JVal.beqMembers xs ys = true → xs = ys
    | [], [], _ => rfl
    | [], _ :: _, h => by simp [JVal.beqMembers] at h
    | _ :: _, [], h => by simp [JVal.beqMembers] at h
    | (k, x) :: xs, (l, y) :: ys, h => by
      simp only [JVal.beqMembers, Bool.and_eq_true, beq_iff_eq] at h
      rw [h.1.1, JVal.eq_of_beq x y h.1.2, eq_of_beqMembers xs ys h.2]
end

theorem JVal.bne_iff (a b : JVal) : (a != b) = true ↔ a ≠ b := by
  show (!(JVal.beq a b)) = true ↔ a ≠ b
  constructor
  · intro h e; subst e; simp [JVal.beq_refl] at h
  · intro h
    cases hb : JVal.beq a b with
    | false => rfl
    | true => exact absurd (JVal.eq_of_beq a b hb) h

theorem size_of_find {k : Bytes} {x : JVal} : ∀ {ms : List (Bytes × JVal)}, find k ms = some x → x.size ≤ sizeMembers ms
  | [], h => by simp [find] at h
  | (k', v) :: ms, h => by
    simp only [find] at h
    by_cases e : k' = k
    · simp only [e, if_true, Option.some.injEq] at h
      subst h; simp only [sizeMembers]; omega
    · simp only [e, if_false] at h
      have := size_of_find h
      simp only [sizeMembers]; omega

theorem wf_of_find {k : Bytes} {x : JVal} : ∀ {ms : List (Bytes × JVal)}, WFMembers ms → find k ms = some x → x.WF
  | [], _, h => by simp [find] at h
  | (k', v) :: ms, hw, h => by
    simp only [find] at h
    by_cases e : k' = k
    · simp only [e, if_true, Option.some.injEq] at h
      subst h; exact hw.1
    · simp only [e, if_false] at h
      exact wf_of_find hw.2 h

theorem wfMembers_erase {k : Bytes} : ∀ {ms : List (Bytes × JVal)}, WFMembers ms → WFMembers (erase k ms)
  | [], _ => trivial
  | (k', v) :: ms, h => by
    simp only [erase]
    by_cases e : k' = k
    · simp only [e, if_true]; exact h.2
    · simp only [e, if_false]; exact ⟨h.1, wfMembers_erase h.2⟩

theorem wfMembers_insertSorted {k : Bytes} {v : JVal} (hv : v.WF) :
    ∀ {ms : List (Bytes × JVal)}, WFMembers ms → WFMembers (insertSorted k v ms)
  | [], _ => ⟨hv, trivial⟩
  | (k', v') :: ms, h => by
    simp only [insertSorted]
    by_cases e : keyLt k' k = true
    · simp only [e, if_true]; exact ⟨h.1, wfMembers_insertSorted hv h.2⟩
    · simp only [e]; exact ⟨hv, h⟩

theorem nonull_of_find {k : Bytes} {x : JVal} : ∀ {ms : List (Bytes × JVal)}, NoNullMems ms → find k ms = some x →
    x.isNull = false ∧ x.NoNullMembers
  | [], _, h => by simp [find] at h
  | (k', v) :: ms, hw, h => by
    simp only [find] at h
    by_cases e : k' = k
    · simp only [e, if_true, Option.some.injEq] at h
      subst h; exact ⟨hw.1, hw.2.1⟩
    · simp only [e, if_false] at h
      exact nonull_of_find hw.2.2 h

end JV

namespace JV
instance : DecidableEq JVal := fun a b =>
  if h : JVal.beq a b = true then isTrue (JVal.eq_of_beq a b h)
  else isFalse (fun e => h (e ▸ JVal.beq_refl a))
end JV
