/-
  JV.Proofs.Number — `dec_to_integer` computes the decimal value exactly, or reports out-of-range.
-/
import JV.Model.Number
namespace JV
namespace Model

/-- the value denoted by a digit string, most significant first (specification) -/
def decVal : Bytes → Nat
  | [] => 0
  | c :: cs => (c - 48) * 10 ^ cs.length + decVal cs

def AllDigits (s : Bytes) : Prop := ∀ c ∈ s, isDigit c = true

theorem isDigit_iff {c : Nat} : isDigit c = true ↔ 48 ≤ c ∧ c ≤ 57 := by
  simp [isDigit]

theorem decVal_append (a b : Bytes) : decVal (a ++ b) = decVal a * 10 ^ b.length + decVal b := by
  induction a with
  | nil => simp [decVal]
  | cons c cs ih =>
    simp only [List.cons_append, decVal, ih, List.length_append, Nat.pow_add]
    rw [Nat.add_mul, Nat.mul_assoc]
    omega

theorem decVal_lt (s : Bytes) (h : AllDigits s) : decVal s < 10 ^ s.length := by
  induction s with
  | nil => simp [decVal]
  | cons c cs ih =>
    have hc := isDigit_iff.1 (h c (by simp))
    have := ih (fun x hx => h x (by simp [hx]))
    simp only [decVal, List.length_cons, Nat.pow_succ]
    have h9 : (c - 48) * 10 ^ cs.length ≤ 9 * 10 ^ cs.length := Nat.mul_le_mul_right _ (by omega)
    omega

theorem accDigits_ok : ∀ (s : Bytes) (num : Nat), AllDigits s → accDigits num s = .ok (num * 10 ^ s.length + decVal s)
  | [], num, _ => by simp [accDigits, decVal]
  | c :: cs, num, h => by
    have hc : isDigit c = true := h c (by simp)
    have ih := accDigits_ok cs ((c - 48) + num * 10) (fun x hx => h x (by simp [hx]))
    simp only [accDigits, hc, if_true, ih, decVal, List.length_cons, Nat.pow_succ]
    congr 1
    rw [Nat.add_mul, Nat.mul_assoc, Nat.mul_comm 10]
    omega

theorem accDigits_bad : ∀ (s : Bytes) (num : Nat), ¬ AllDigits s → accDigits num s = .error .invalid
  | [], _, h => absurd (fun _ hc => by simp at hc) h
  | c :: cs, num, h => by
    by_cases hc : isDigit c = true
    · simp only [accDigits, hc, if_true]
      apply accDigits_bad
      intro hall
      apply h
      intro x hx
      rcases List.mem_cons.1 hx with e | e
      · rw [e]; exact hc
      · exact hall x e
    · simp [accDigits, hc]

theorem allDigits_take {s : Bytes} (n : Nat) (h : AllDigits s) : AllDigits (s.take n) :=
  fun c hc => h c (List.mem_of_mem_take hc)

theorem allDigits_drop {s : Bytes} (n : Nat) (h : AllDigits s) : AllDigits (s.drop n) :=
  fun c hc => h c (List.mem_of_mem_drop hc)

/-- exactness: a digit string of at most 20 characters parses to its value iff that value fits 64 bits -/
theorem decToU64_digits (s : Bytes) (hne : s ≠ []) (hd : AllDigits s) (hlen : s.length ≤ 20) :
    decToU64 s = if decVal s ≤ 2 ^ 64 - 1 then .ok (decVal s) else .error .range := by
  have hlen0 : s.length ≠ 0 := by
    intro h; exact hne (List.length_eq_zero_iff.1 h)
  unfold decToU64
  simp only [hlen0, if_false]
  rw [accDigits_ok _ 0 (allDigits_take _ hd)]
  simp only [Nat.zero_mul, Nat.zero_add]
  have hsplit : s = s.take (min 19 s.length) ++ s.drop (min 19 s.length) := (List.take_append_drop _ _).symm
  by_cases h19 : s.length ≤ 19
  · have hmin : min 19 s.length = s.length := Nat.min_eq_right h19
    rw [hmin, List.drop_length, List.take_length]
    have := decVal_lt s hd
    have hp : (10:Nat) ^ s.length ≤ 10 ^ 19 := Nat.pow_le_pow_right (by omega) h19
    have : decVal s ≤ 2 ^ 64 - 1 := by omega
    simp [this]
  · have hl : s.length = 20 := by omega
    have hmin : min 19 s.length = 19 := by omega
    rw [hmin]
    have hdl : (s.drop 19).length = 1 := by simp [hl]
    match hdr : s.drop 19, hdl with
    | [c], _ =>
      have hc : isDigit c = true := hd c (List.mem_of_mem_drop (by rw [hdr]; simp))
      have hcr := isDigit_iff.1 hc
      have hval : decVal s = decVal (s.take 19) * 10 + (c - 48) := by
        conv => lhs; rw [← List.take_append_drop 19 s, hdr, decVal_append]
        simp [decVal]
      have hlt := decVal_lt (s.take 19) (allDigits_take 19 hd)
      simp only [hc, if_true, hval]
      by_cases h1 : decVal (s.take 19) > (2 ^ 64 - 1) / 10
      · have : ¬ (decVal (List.take 19 s) * 10 + (c - 48) ≤ 2 ^ 64 - 1) := by omega
        simp [h1, this]
      · simp only [h1, if_false]
        by_cases h2 : decVal (List.take 19 s) * 10 > 2 ^ 64 - 1 - (c - 48)
        · have : ¬ (decVal (List.take 19 s) * 10 + (c - 48) ≤ 2 ^ 64 - 1) := by omega
          simp [h2, this]
        · have : decVal (List.take 19 s) * 10 + (c - 48) ≤ 2 ^ 64 - 1 := by omega
          simp [h2, this]

theorem decToU64_long (s : Bytes) (hd : AllDigits s) (hlen : s.length > 20) : decToU64 s = .error .range := by
  have hlen0 : s.length ≠ 0 := by omega
  unfold decToU64
  simp only [hlen0, if_false]
  rw [accDigits_ok _ 0 (allDigits_take _ hd)]
  have hmin : min 19 s.length = 19 := by omega
  rw [hmin]
  have hdl : (s.drop 19).length ≥ 2 := by simp; omega
  match hdr : s.drop 19, hdl with
  | _ :: _ :: _, _ => rfl

theorem decToU64_empty : decToU64 [] = .error .invalid := rfl

/-- a string with a non-digit among its first 20 characters is never accepted -/
theorem decToU64_ok_allDigits (s : Bytes) (n : Nat) (h : decToU64 s = .ok n) : AllDigits s ∧ s ≠ [] ∧ s.length ≤ 20 := by
  have hne : s ≠ [] := by
    intro e; subst e; simp [decToU64] at h
  have hlen0 : s.length ≠ 0 := by
    intro h'; exact hne (List.length_eq_zero_iff.1 h')
  unfold decToU64 at h
  simp only [hlen0, if_false] at h
  by_cases hdt : AllDigits (s.take (min 19 s.length))
  · rw [accDigits_ok _ 0 hdt] at h
    match hdr : s.drop (min 19 s.length) with
    | [] =>
      have hlen : s.length ≤ min 19 s.length := by
        have := congrArg List.length hdr; simp at this; omega
      refine ⟨?_, hne, by omega⟩
      have : s.take (min 19 s.length) = s := List.take_of_length_le hlen
      rw [this] at hdt; exact hdt
    | [c] =>
      rw [hdr] at h
      simp only [] at h
      by_cases hc : isDigit c = true
      · have hl : s.length = min 19 s.length + 1 := by
          have := congrArg List.length hdr; simp at this; omega
        refine ⟨?_, hne, by omega⟩
        intro x hx
        rw [← List.take_append_drop (min 19 s.length) s, hdr] at hx
        rcases List.mem_append.1 hx with e | e
        · exact hdt x e
        · simp at e; rw [e]; exact hc
      · simp [hc] at h
    | _ :: _ :: _ => rw [hdr] at h; simp at h
  · rw [accDigits_bad _ 0 hdt] at h; simp at h

end Model
end JV

namespace JV
namespace Model

theorem decVal_snoc (a : Bytes) (d : Nat) : decVal (a ++ [d]) = decVal a * 10 + (d - 48) := by
  rw [decVal_append]; simp [decVal]

/-- the digit loop prints exactly the decimal digits of `n` (no leading zero, at most `fuel` of them) -/
theorem revDigits_spec : ∀ (fuel n : Nat), n < 10 ^ fuel → 0 < fuel →
    decVal (revDigits fuel n).reverse = n ∧ AllDigits (revDigits fuel n).reverse ∧
    (revDigits fuel n) ≠ [] ∧ (revDigits fuel n).length ≤ fuel ∧
    ((revDigits fuel n).reverse.head? = some 48 → n = 0)
  | 0, _, _, h => absurd h (by omega)
  | fuel + 1, n, hn, _ => by
    have hd : 48 + n % 10 - 48 = n % 10 := by omega
    have hdig : isDigit (48 + n % 10) = true := isDigit_iff.2 ⟨by omega, by omega⟩
    by_cases hz : n / 10 = 0
    · have hlt : n < 10 := by omega
      simp only [revDigits, hz, if_true, List.reverse_cons, List.reverse_nil, List.nil_append]
      refine ⟨by simp [decVal]; omega, ?_, by simp, by simp, ?_⟩
      · intro c hc; simp at hc; rw [hc]; exact hdig
      · intro h; simp at h; omega
    · have hfuel : 0 < fuel := by
        cases fuel with
        | zero => simp at hn; omega
        | succ f => omega
      have hlt : n / 10 < 10 ^ fuel := by
        rw [Nat.pow_succ] at hn
        omega
      obtain ⟨h1, h2, h3, h4, h5⟩ := revDigits_spec fuel (n / 10) hlt hfuel
      simp only [revDigits, hz, if_false, List.reverse_cons]
      refine ⟨?_, ?_, by simp, by simp; omega, ?_⟩
      · rw [decVal_snoc, h1, hd]; omega
      · intro c hc
        rcases List.mem_append.1 hc with e | e
        · exact h2 c e
        · simp at e; rw [e]; exact hdig
      · intro h
        have hne : (revDigits fuel (n / 10)).reverse ≠ [] := by simpa using h3
        cases hl : (revDigits fuel (n / 10)).reverse with
        | nil => exact absurd hl hne
        | cons c cs =>
          rw [hl] at h h5
          simp at h
          exact absurd (h5 (by simp [h])) hz

theorem pow64_lt : (2:Nat) ^ 64 < 10 ^ 20 := by decide

/-- a stored unsigned integer prints as its exact decimal digits, which parse back to it -/
theorem fromUnsigned_roundtrip (n : Nat) (hn : n < 2 ^ 64) : decToU64 (fromUnsigned n) = .ok n := by
  have h255 : n < 10 ^ 255 := by
    have : (10:Nat) ^ 20 ≤ 10 ^ 255 := Nat.pow_le_pow_right (by omega) (by omega)
    have := pow64_lt; omega
  obtain ⟨h1, h2, h3, _, _⟩ := revDigits_spec 255 n h255 (by omega)
  have h20 := revDigits_spec 20 n (by have := pow64_lt; omega) (by omega)
  -- the digit string does not depend on the fuel once it suffices
  have hsame : ∀ (f g m : Nat), m < 10 ^ (f + 1) → m < 10 ^ (g + 1) → revDigits (f + 1) m = revDigits (g + 1) m := by
    intro f
    induction f with
    | zero =>
      intro g m hm _
      have : m / 10 = 0 := by simp at hm; omega
      simp [revDigits, this]
    | succ f ih =>
      intro g m hm hg
      by_cases hz : m / 10 = 0
      · simp [revDigits, hz]
      · cases g with
        | zero => simp at hg; omega
        | succ g =>
          have e := ih g (m / 10) (by rw [Nat.pow_succ] at hm; omega) (by rw [Nat.pow_succ] at hg; omega)
          show (48 + m % 10) :: (if m / 10 = 0 then [] else revDigits (f + 1) (m / 10)) =
               (48 + m % 10) :: (if m / 10 = 0 then [] else revDigits (g + 1) (m / 10))
          rw [e]
  have hlen : (fromUnsigned n).length ≤ 20 := by
    unfold fromUnsigned
    rw [hsame 254 19 n h255 (by have := pow64_lt; omega)]
    simpa using h20.2.2.2.1
  have hne : fromUnsigned n ≠ [] := by unfold fromUnsigned; simpa using h3
  rw [decToU64_digits (fromUnsigned n) hne h2 hlen]
  have : decVal (fromUnsigned n) = n := h1
  rw [this]
  have : n ≤ 2 ^ 64 - 1 := by omega
  simp [this]

theorem fromUnsigned_digits (n : Nat) (hn : n < 2 ^ 64) :
    AllDigits (fromUnsigned n) ∧ fromUnsigned n ≠ [] ∧ decVal (fromUnsigned n) = n ∧ ((fromUnsigned n).head? = some 48 → n = 0) := by
  have h255 : n < 10 ^ 255 := by
    have : (10:Nat) ^ 20 ≤ 10 ^ 255 := Nat.pow_le_pow_right (by omega) (by omega)
    have := pow64_lt; omega
  obtain ⟨h1, h2, h3, _, h5⟩ := revDigits_spec 255 n h255 (by omega)
  exact ⟨h2, by unfold fromUnsigned; simpa using h3, h1, h5⟩

/-- the negative branch never negates: it prints the digits of `-v` -/
theorem revDigitsNeg_eq : ∀ (fuel : Nat) (m : Nat), 0 < m → revDigitsNeg fuel (-(m : Int)) = revDigits fuel m
  | 0, _, _ => rfl
  | fuel + 1, m, hm => by
    have h1 : Int.tmod (-(m : Int)) 10 = -((m % 10 : Nat) : Int) := by
      rw [Int.neg_tmod]; simp [Int.tmod]
    have h2 : Int.tdiv (-(m : Int)) 10 = -((m / 10 : Nat) : Int) := by
      rw [Int.neg_tdiv]; simp [Int.tdiv]
    simp only [revDigitsNeg, revDigits, h1, h2]
    have : (48 - -((m % 10 : Nat) : Int)).toNat = 48 + m % 10 := by omega
    rw [this]
    by_cases hz : m / 10 = 0
    · simp [hz]
    · have : ¬ (-((m / 10 : Nat) : Int) = 0) := by omega
      simp only [this, hz, if_false]
      rw [revDigitsNeg_eq fuel (m / 10) (by omega)]

/-- every stored signed 64-bit integer prints as its exact decimal digits, which parse back to it -/
theorem fromInteger_roundtrip (v : Int) (hlo : -(2 ^ 63 : Int) ≤ v) (hhi : v < 2 ^ 63) : decToI64 (fromInteger v) = .ok v := by
  unfold fromInteger
  by_cases hneg : v < 0
  · simp only [hneg, if_true]
    obtain ⟨m, hm⟩ : ∃ m : Nat, v = -(m : Int) := ⟨(-v).toNat, by omega⟩
    subst hm
    have hmpos : 0 < m := by omega
    have hm64 : m < 2 ^ 64 := by omega
    rw [revDigitsNeg_eq 255 m hmpos]
    have hrt := fromUnsigned_roundtrip m hm64
    unfold fromUnsigned at hrt
    unfold decToI64
    simp only [List.length_cons, Nat.succ_ne_zero, if_false, List.head?_cons, if_true, List.drop_one, List.tail_cons, hrt]
    have : ¬ (m > 2 ^ 63) := by omega
    simp [this]
  · simp only [hneg, if_false]
    obtain ⟨m, hm⟩ : ∃ m : Nat, v = (m : Int) := ⟨v.toNat, by omega⟩
    subst hm
    have hm64 : m < 2 ^ 64 := by omega
    have hrt := fromUnsigned_roundtrip m hm64
    obtain ⟨hall, hne, _, _⟩ := fromUnsigned_digits m hm64
    unfold fromUnsigned at hrt hall hne
    simp only [Int.toNat_natCast]
    unfold decToI64
    have hlen : (revDigits 255 m).reverse.length ≠ 0 := by
      intro h; exact hne (List.length_eq_zero_iff.1 h)
    have hhead : ¬ ((revDigits 255 m).reverse.head? = some 45) := by
      intro h
      cases hl : (revDigits 255 m).reverse with
      | nil => exact hne hl
      | cons c cs =>
        rw [hl] at h; simp at h; subst h
        have := isDigit_iff.1 (hall 45 (by rw [hl]; simp))
        omega
    simp only [hlen, if_false, hhead, hrt]
    have : ¬ (m > 2 ^ 63 - 1) := by omega
    simp [this]

end Model
end JV
