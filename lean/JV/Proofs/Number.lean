/-
  JV.Proofs.Number — `dec_to_integer` computes the decimal value exactly, or reports out-of-range.
-/
import JV.Model.Number
namespace JV
namespace Model

/-- the value denoted by a digit string, most significant first (specification) -/
def decVal : Bytes → Nat
  | [] => 0
  | c :: cs => (c - 48) * 10 ^ cs.length + decVal cs

def AllDigits (s : Bytes) : Prop := ∀ c ∈ s, isDigit c = true

theorem isDigit_iff {c : Nat} : isDigit c = true ↔ 48 ≤ c ∧ c ≤ 57 := by
  simp [isDigit]

theorem decVal_append (a b : Bytes) : decVal (a ++ b) = decVal a * 10 ^ b.length + decVal b := by
  induction a with
  | nil => simp [decVal]
  | cons c cs ih =>
    simp only [List.cons_append, decVal, ih, List.length_append, Nat.pow_add]
    rw [Nat.add_mul, Nat.mul_assoc]
    omega

theorem decVal_lt (s : Bytes) (h : AllDigits s) : decVal s < 10 ^ s.length := by
  induction s with
  | nil => simp [decVal]
  | cons c cs ih =>
    have hc := isDigit_iff.1 (h c (by simp))
    have := ih (fun x hx => h x (by simp [hx]))
    simp only [decVal, List.length_cons, Nat.pow_succ]
    have h9 : (c - 48) * 10 ^ cs.length ≤ 9 * 10 ^ cs.length := Nat.mul_le_mul_right _ (by omega)
    omega

theorem accDigits_ok : ∀ (s : Bytes) (num : Nat), AllDigits s → accDigits num s = .ok (num * 10 ^ s.length + decVal s)
  | [], num, _ => by simp [accDigits, decVal]
  | c :: cs, num, h => by
    have hc : isDigit c = true := h c (by simp)
    have ih := accDigits_ok cs ((c - 48) + num * 10) (fun x hx => h x (by simp [hx]))
    simp only [accDigits, hc, if_true, ih, decVal, List.length_cons, Nat.pow_succ]
    congr 1
    rw [Nat.add_mul, Nat.mul_assoc, Nat.mul_comm 10]
    omega

theorem accDigits_bad : ∀ (s : Bytes) (num : Nat), ¬ AllDigits s → accDigits num s = .error .invalid
  | [], _, h => absurd (fun _ hc => by simp at hc) h
  | c :: cs, num, h => by
    by_cases hc : isDigit c = true
    · simp only [accDigits, hc, if_true]
      apply accDigits_bad
      intro hall
      apply h
      intro x hx
      rcases List.mem_cons.1 hx with e | e
      · rw [e]; exact hc
      · exact hall x e
    · simp [accDigits, hc]

theorem allDigits_take {s : Bytes} (n : Nat) (h : AllDigits s) : AllDigits (s.take n) :=
  fun c hc => h c (List.mem_of_mem_take hc)

theorem allDigits_drop {s : Bytes} (n : Nat) (h : AllDigits s) : AllDigits (s.drop n) :=
  fun c hc => h c (List.mem_of_mem_drop hc)

/-- exactness: a digit string of at most 20 characters parses to its value iff that value fits 64 bits -/
theorem decToU64_digits (s : Bytes) (hne : s ≠ []) (hd : AllDigits s) (hlen : s.length ≤ 20) :
    decToU64 s = if decVal s ≤ 2 ^ 64 - 1 then .ok (decVal s) else .error .range := by
  have hlen0 : s.length ≠ 0 := by
    intro h; exact hne (List.length_eq_zero_iff.1 h)
  unfold decToU64
  simp only [hlen0, if_false]
  rw [accDigits_ok _ 0 (allDigits_take _ hd)]
  simp only [Nat.zero_mul, Nat.zero_add]
  have hsplit : s = s.take (min 19 s.length) ++ s.drop (min 19 s.length) := (List.take_append_drop _ _).symm
  by_cases h19 : s.length ≤ 19
  · have hmin : min 19 s.length = s.length := Nat.min_eq_right h19
    rw [hmin, List.drop_length, List.take_length]
    have := decVal_lt s hd
    have hp : (10:Nat) ^ s.length ≤ 10 ^ 19 := Nat.pow_le_pow_right (by omega) h19
    have : decVal s ≤ 2 ^ 64 - 1 := by omega
    simp [this]
  · have hl : s.length = 20 := by omega
    have hmin : min 19 s.length = 19 := by omega
    rw [hmin]
    have hdl : (s.drop 19).length = 1 := by simp [hl]
    match hdr : s.drop 19, hdl with
    | [c], _ =>
      have hc : isDigit c = true := hd c (List.mem_of_mem_drop (by rw [hdr]; simp))
      have hcr := isDigit_iff.1 hc
      have hval : decVal s = decVal (s.take 19) * 10 + (c - 48) := by
        conv => lhs; rw [← List.take_append_drop 19 s, hdr, decVal_append]
        simp [decVal]
      have hlt := decVal_lt (s.take 19) (allDigits_take 19 hd)
      simp only [hc, if_true, hval]
      by_cases h1 : decVal (s.take 19) > (2 ^ 64 - 1) / 10
      · have : ¬ (decVal (List.take 19 s) * 10 + (c - 48) ≤ 2 ^ 64 - 1) := by omega
        simp [h1, this]
      · simp only [h1, if_false]
        by_cases h2 : decVal (List.take 19 s) * 10 > 2 ^ 64 - 1 - (c - 48)
        · have : ¬ (decVal (List.take 19 s) * 10 + (c - 48) ≤ 2 ^ 64 - 1) := by omega
          simp [h2, this]
        · have : decVal (List.take 19 s) * 10 + (c - 48) ≤ 2 ^ 64 - 1 := by omega
          simp [h2, this]

theorem decToU64_long (s : Bytes) (hd : AllDigits s) (hlen : s.length > 20) : decToU64 s = .error .range := by
  have hlen0 : s.length ≠ 0 := by omega
  unfold decToU64
  simp only [hlen0, if_false]
  rw [accDigits_ok _ 0 (allDigits_take _ hd)]
  have hmin : min 19 s.length = 19 := by omega
  rw [hmin]
  have hdl : (s.drop 19).length ≥ 2 := by simp; omega
  match hdr : s.drop 19, hdl with
  | _ :: _ :: _, _ => rfl

theorem decToU64_empty : decToU64 [] = .error .invalid := rfl

/-- a string with a non-digit among its first 20 characters is never accepted -/
theorem decToU64_ok_allDigits (s : Bytes) (n : Nat) (h : decToU64 s = .ok n) : AllDigits s ∧ s ≠ [] ∧ s.length ≤ 20 := by
  have hne : s ≠ [] := by
    intro e; subst e; simp [decToU64] at h
  have hlen0 : s.length ≠ 0 := by
    intro h'; exact hne (List.length_eq_zero_iff.1 h')
  unfold decToU64 at h
  simp only [hlen0, if_false] at h
  by_cases hdt : AllDigits (s.take (min 19 s.length))
  · rw [accDigits_ok _ 0 hdt] at h
    match hdr : s.drop (min 19 s.length) with
    | [] =>
      have hlen : s.length ≤ min 19 s.length := by
        have := congrArg List.length hdr; simp at this; omega
      refine ⟨?_, hne, by omega⟩
      have : s.take (min 19 s.length) = s := List.take_of_length_le hlen
      rw [this] at hdt; exact hdt
    | [c] =>
      rw [hdr] at h
      simp only [] at h
      by_cases hc : isDigit c = true
      · have hl : s.length = min 19 s.length + 1 := by
          have := congrArg List.length hdr; simp at this; omega
        refine ⟨?_, hne, by omega⟩
        intro x hx
        rw [← List.take_append_drop (min 19 s.length) s, hdr] at hx
        rcases List.mem_append.1 hx with e | e
        · exact hdt x e
        · simp at e; rw [e]; exact hc
      · simp [hc] at h
    | _ :: _ :: _ => rw [hdr] at h; simp at h
  · rw [accDigits_bad _ 0 hdt] at h; simp at h

end Model
end JV
