/-
  JV.Proofs.PatchDiffD — the diff law of `from_diff` for the sorted object flavour:
  applying `from_diff(a, b)` to `a` succeeds and yields `b`.
-/
import JV.Proofs.PatchDiffC
namespace JV
namespace Model
namespace Patch
open Assoc Pointer

theorem get_nil (d : JVal) : get d [] = .ok d := by cases d <;> rfl

theorem scalar_run (s t d : JVal) (loc : List Bytes) (h : get d loc = .ok s) :
    runOps d (if (s == t) = true then [] else [opObj false sReplace (Pointer.toString loc) (some t)]) =
      some (put d loc t) := by
  by_cases hb : (s == t) = true
  · rw [if_pos hb]
    have e : s = t := JVal.eq_of_beq s t hb
    subst e
    rw [put_same loc d s h]; rfl
  · rw [if_neg hb]; exact op_replace d s t loc h

theorem diffElems_nil_left (p : Bytes) (i : Nat) (tt : List JVal) : diffElems false p i [] tt = [] := by
  cases tt <;> simp [diffElems]

theorem diffElems_nil_right (p : Bytes) (i : Nat) (ss : List JVal) : diffElems false p i ss [] = [] := by
  cases ss <;> simp [diffElems]

theorem overlay_nil_left (tt : List JVal) : overlay [] tt = [] := by cases tt <;> rfl
theorem overlay_nil_right (ss : List JVal) : overlay ss [] = ss := by cases ss <;> rfl

mutual
  theorem fromDiff_run : ∀ (s t : JVal), s.WF → t.WF → SmallArrays s → SmallArrays t →
      ∀ (d : JVal) (loc : List Bytes), get d loc = .ok s →
        runOps d (fromDiff false (Pointer.toString loc) s t) = some (put d loc t)
    | .arr ss, t, hw, hwt, hs, hst, d, loc, h => by
      simp only [fromDiff]
      by_cases hb : (JVal.arr ss == t) = true
      · rw [if_pos hb]
        have e : JVal.arr ss = t := JVal.eq_of_beq _ t hb
        subst e
        rw [put_same loc d _ h]; rfl
      · rw [if_neg hb]
        cases t with
        | arr tt =>
          simp only []
          have hw2 : WFList ss := by simpa only [JVal.WF] using hw
          have hwt2 : WFList tt := by simpa only [JVal.WF] using hwt
          have hs2 : ss.length < 2 ^ 64 ∧ SmallList ss := by simpa only [SmallArrays] using hs
          have hst2 : tt.length < 2 ^ 64 ∧ SmallList tt := by simpa only [SmallArrays] using hst
          have hA := diffElems_run ss tt hw2 hwt2 hs2.2 hst2.2 0 [] d loc (by simpa using h) rfl (by omega)
          rw [List.nil_append] at hA
          have hg1 := get_put loc d _ (.arr (overlay ss tt)) h
          have hB := removeOps_run tt.length (ss.length - tt.length) _ loc (overlay ss tt) hg1
            (by rw [overlay_length]) (by rw [overlay_length]; omega)
          rw [put_put loc d _ _ _ h] at hB
          have hg2 := get_put loc d _ (.arr ((overlay ss tt).take tt.length)) h
          have hC := addOps_run (tt.drop ss.length) ss.length _ loc ((overlay ss tt).take tt.length) hg2
            (by
              intro hne
              have hlt : ss.length < tt.length := by
                apply Nat.lt_of_not_le
                intro hle
                exact hne (List.drop_eq_nil_iff.2 hle)
              rw [List.length_take, overlay_length, List.length_drop]
              omega)
          rw [put_put loc d _ _ _ h, overlay_final] at hC
          exact runOps_append_some (runOps_append_some hA hB) hC
        | null => exact op_replace d _ _ loc h
        | bool _ => exact op_replace d _ _ loc h
        | int _ => exact op_replace d _ _ loc h
        | str _ => exact op_replace d _ _ loc h
        | obj _ => exact op_replace d _ _ loc h
    | .obj sm, t, hw, hwt, hs, hst, d, loc, h => by
      simp only [fromDiff]
      by_cases hb : (JVal.obj sm == t) = true
      · rw [if_pos hb]
        have e : JVal.obj sm = t := JVal.eq_of_beq _ t hb
        subst e
        rw [put_same loc d _ h]; rfl
      · rw [if_neg hb]
        cases t with
        | obj tm =>
          simp only []
          have hw2 : Sorted sm ∧ WFMembers sm := by simpa only [JVal.WF] using hw
          have hwt2 : Sorted tm ∧ WFMembers tm := by simpa only [JVal.WF] using hwt
          have hs2 : SmallMembers sm := by simpa only [SmallArrays] using hs
          have hst2 : SmallMembers tm := by simpa only [SmallArrays] using hst
          obtain ⟨M1, hrun1, hs1, hf1⟩ := diffMembers_run sm tm hw2.2 hw2.1 hwt2.2 hs2 hst2 d loc sm h hw2.1
            (fun _ _ hh => hh)
          have hg1 := get_put loc d _ (.obj M1) h
          obtain ⟨M2, hrun2, hs2, hf2⟩ := diffAdded_run sm tm _ loc M1 hg1 hs1 hwt2.1
            (by
              intro k hk _
              rw [hf1 k, hk]; rfl)
          rw [put_put loc d _ _ _ h] at hrun2
          have e : M2 = tm := by
            apply sorted_ext hs2 hwt2.1
            intro k
            rw [hf2 k, hf1 k]
            cases find k sm <;> cases find k tm <;> simp
          rw [e] at hrun2
          exact runOps_append_some hrun1 hrun2
        | null => exact op_replace d _ _ loc h
        | bool _ => exact op_replace d _ _ loc h
        | int _ => exact op_replace d _ _ loc h
        | str _ => exact op_replace d _ _ loc h
        | arr _ => exact op_replace d _ _ loc h
    | .null, t, _, _, _, _, d, loc, h => by simp only [fromDiff]; exact scalar_run _ t d loc h
    | .bool _, t, _, _, _, _, d, loc, h => by simp only [fromDiff]; exact scalar_run _ t d loc h
    | .int _, t, _, _, _, _, d, loc, h => by simp only [fromDiff]; exact scalar_run _ t d loc h
    | .str _, t, _, _, _, _, d, loc, h => by simp only [fromDiff]; exact scalar_run _ t d loc h
  theorem diffElems_run : ∀ (ss tt : List JVal), WFList ss → WFList tt → SmallList ss → SmallList tt →
      ∀ (i : Nat) (pre : List JVal) (d : JVal) (loc : List Bytes), get d loc = .ok (.arr (pre ++ ss)) →
        pre.length = i → i + ss.length < 2 ^ 64 →
        runOps d (diffElems false (Pointer.toString loc) i ss tt) = some (put d loc (.arr (pre ++ overlay ss tt)))
    | [], tt, _, _, _, _, i, pre, d, loc, h, _, _ => by
      rw [diffElems_nil_left, overlay_nil_left, put_same loc d _ h]; rfl
    | s :: ss, [], _, _, _, _, i, pre, d, loc, h, _, _ => by
      rw [diffElems_nil_right, overlay_nil_right, put_same loc d _ h]; rfl
    | s :: ss, t :: tt, hw, hwt, hs, hst, i, pre, d, loc, h, hi, h64 => by
      simp only [List.length_cons] at h64
      have hi64 : i < 2 ^ 64 := by omega
      have hd := JV.SMap.isDash_natDigits i hi64
      have hdi := JV.SMap.decToIndex_natDigits i hi64
      have hx : (pre ++ s :: ss)[i]? = some s := by subst hi; simp
      have hget : get d (loc ++ [natDigits i]) = .ok s := by
        rw [get_append loc d _ _ h, get_arr_step _ hd hdi hx, get_nil]
      simp only [diffElems]
      rw [toString_snoc_idx loc i hi64]
      have hP := fromDiff_run s t hw.1 hwt.1 hs.1 hst.1 d (loc ++ [natDigits i]) hget
      have hset : (pre ++ s :: ss).set i t = (pre ++ [t]) ++ ss := by subst hi; simp
      rw [put_append loc d _ _ _ h, put_arr_step _ _ hdi hx, put_nil, hset] at hP
      have hg1 := get_put loc d _ (.arr ((pre ++ [t]) ++ ss)) h
      have hQ := diffElems_run ss tt hw.2 hwt.2 hs.2 hst.2 (i + 1) (pre ++ [t]) _ loc hg1 (by simp [hi]) (by omega)
      rw [put_put loc d _ _ _ h] at hQ
      have e : pre ++ overlay (s :: ss) (t :: tt) = (pre ++ [t]) ++ overlay ss tt := by simp [overlay]
      rw [e]
      exact runOps_append_some hP hQ
  theorem diffMembers_run : ∀ (rem tm : List (Bytes × JVal)), WFMembers rem → Sorted rem → WFMembers tm →
      SmallMembers rem → SmallMembers tm →
      ∀ (d : JVal) (loc : List Bytes) (M : List (Bytes × JVal)), get d loc = .ok (.obj M) → Sorted M →
        (∀ k v, find k rem = some v → find k M = some v) →
        ∃ M', runOps d (diffMembers false (Pointer.toString loc) rem tm) = some (put d loc (.obj M')) ∧ Sorted M' ∧
          ∀ k, find k M' = if (find k rem).isSome = true then find k tm else find k M
    | [], tm, _, _, _, _, _, d, loc, M, h, hM, _ => by
      refine ⟨M, ?_, hM, ?_⟩
      · simp only [diffMembers]; rw [put_same loc d _ h]; rfl
      · intro k; simp [find]
    | (k, sv) :: rem, tm, hw, hr, hwt, hs, hst, d, loc, M, h, hM, hinv => by
      have hkM : find k M = some sv := hinv k sv (by simp [find])
      have hkr : find k rem = none := find_none_tail_of_sorted hr
      have hget : get d (loc ++ [k]) = .ok sv := by
        rw [get_append loc d _ _ h, get_obj_step _ hkM, get_nil]
      simp only [diffMembers]
      have hrest : ∀ (M1 : List (Bytes × JVal)) (x : Option JVal), Sorted M1 → find k M1 = x → x = find k tm →
          (∀ k', k' ≠ k → find k' M1 = find k' M) →
          ∀ ops, runOps d ops = some (put d loc (.obj M1)) →
          ∃ M', runOps d (ops ++ diffMembers false (Pointer.toString loc) rem tm) = some (put d loc (.obj M')) ∧
            Sorted M' ∧ ∀ k', find k' M' = if (find k' ((k, sv) :: rem)).isSome = true then find k' tm else find k' M := by
        intro M1 x hsM1 hk1 hxt hne1 ops hops
        have hg1 := get_put loc d _ (.obj M1) h
        have hinv1 : ∀ k' v, find k' rem = some v → find k' M1 = some v := by
          intro k' v hf
          have hne : k' ≠ k := by intro e; subst e; rw [hkr] at hf; simp at hf
          rw [hne1 k' hne]
          apply hinv k' v
          simp [find, Ne.symm hne, hf]
        obtain ⟨M', hrun, hsM, hfM⟩ := diffMembers_run rem tm hw.2 hr.tail hwt hs.2 hst _ loc M1 hg1 hsM1 hinv1
        rw [put_put loc d _ _ _ h] at hrun
        refine ⟨M', runOps_append_some hops hrun, hsM, ?_⟩
        intro k'
        rw [hfM k']
        by_cases e : k' = k
        · subst e; simp [hkr, find, hk1, hxt]
        · simp [find, Ne.symm e, hne1 k' e]
      cases ht : find k tm with
      | some tv =>
        simp only []
        rw [toString_snoc]
        have hP := fromDiff_run sv tv hw.1 (wf_of_find hwt ht) hs.1 (small_of_find hst ht) d (loc ++ [k]) hget
        rw [put_append loc d _ _ _ h, put_obj_step _ _ hkM, put_nil] at hP
        have := hrest (replaceVal k tv M) (some tv) (sorted_replaceVal hM) (find_replaceVal_self hkM) ht.symm
          (fun k' hne => find_replaceVal_ne hne) _ hP
        exact this
      | none =>
        simp only []
        have h1 := op_remove_obj d loc M k sv h hkM
        have := hrest (erase k M) none (sorted_erase hM) (find_erase_self hM) ht.symm
          (fun k' hne => find_erase_ne hne) _ h1
        exact this
end

/-- THE DIFF LAW (sorted object flavour, `jsoncons::json`): the patch computed by `from_diff(a, b)` applies
    to `a` without error and produces exactly `b`. -/
theorem diff_law_sorted (a b : JVal) (ha : a.WF) (hb : b.WF) (hsa : SmallArrays a) (hsb : SmallArrays b) :
    applyPatch false a (.arr (fromDiff false [] a b)) = (none, b) := by
  have h := fromDiff_run a b ha hb hsa hsb a [] (get_nil a)
  rw [put_nil] at h
  simp only [applyPatch]
  exact runOps_applyLoop _ a b [] h

end Patch
end Model
end JV
