/-
  JV.Proofs.JsonParserSound — SOUNDNESS of the parser model for whole documents: whatever the model accepts (comments off, trailing
  commas off) on a text without the two surrogate anomalies (`surrogateOK`), the RFC 8259 reference reads as a value. Converse
  simulation: by induction on the length of the remaining input, an accepting run from a state that expects a value (an array
  body, an object body) in a nesting context decomposes into the reference's parse of a prefix and an accepting run from the
  after-value state of that context on the rest. The model is deterministic and every character the grammar does not allow at a
  point leads to an error code (Proofs/JsonParserSoundCtx, -Str); the forward lemmas of the completeness proof then carry the
  state across each piece the reference has read.
-/
import JV.Proofs.JsonParserSoundStr
namespace JV
namespace Model
namespace JsonParser
open Spec.Rfc8259 (JT Flags parseValue parseElems parseMembers parseText parseString parseNumber skipWs startsWith isWs)

/-! ### the reference, one production at a time (no comments, the parser's trailing-comma option) -/

theorem pv_arr_nil (cfg : Cfg) (f n : Nat) (cs rest : Bytes) (hd : ¬ n + 1 > cfg.maxDepth) (h : dropWs cs = 93 :: rest) :
    parseValue (tcFlags cfg) (f + 1) n (91 :: cs) = some (.arr [], rest) := by
  simp only [parseValue]
  simp only [show ¬ ((91 : Nat) = 123) by decide, if_false, if_true, hd]
  rw [skipWs_eq _ _ (Nat.lt_succ_self _), h]
  rfl

theorem pv_arr_cons (cfg : Cfg) (f n : Nat) (cs : Bytes) (hd : ¬ n + 1 > cfg.maxDepth) (h : ∀ rest, dropWs cs ≠ 93 :: rest) :
    parseValue (tcFlags cfg) (f + 1) n (91 :: cs) =
      (parseElems (tcFlags cfg) f (n + 1) (dropWs cs)).map fun p => (.arr p.1, p.2) := by
  simp only [parseValue]
  simp only [show ¬ ((91 : Nat) = 123) by decide, if_false, if_true, hd]
  rw [skipWs_eq _ _ (Nat.lt_succ_self _)]
  split
  · rename_i heq; cases heq
  · rename_i rest heq
    simp only [Option.some.injEq] at heq
    exact absurd heq (h rest)
  · rename_i s1 _ heq
    simp only [Option.some.injEq] at heq
    rw [heq]

theorem pv_obj_nil (cfg : Cfg) (f n : Nat) (cs rest : Bytes) (hd : ¬ n + 1 > cfg.maxDepth) (h : dropWs cs = 125 :: rest) :
    parseValue (tcFlags cfg) (f + 1) n (123 :: cs) = some (.obj [], rest) := by
  simp only [parseValue]
  simp only [if_true, hd, if_false]
  rw [skipWs_eq _ _ (Nat.lt_succ_self _), h]
  rfl

theorem pv_obj_cons (cfg : Cfg) (f n : Nat) (cs : Bytes) (hd : ¬ n + 1 > cfg.maxDepth) (h : ∀ rest, dropWs cs ≠ 125 :: rest) :
    parseValue (tcFlags cfg) (f + 1) n (123 :: cs) =
      (parseMembers (tcFlags cfg) f (n + 1) (dropWs cs)).map fun p => (.obj p.1, p.2) := by
  simp only [parseValue]
  simp only [if_true, hd, if_false]
  rw [skipWs_eq _ _ (Nat.lt_succ_self _)]
  split
  · rename_i heq; cases heq
  · rename_i rest heq
    simp only [Option.some.injEq] at heq
    exact absurd heq (h rest)
  · rename_i s1 _ heq
    simp only [Option.some.injEq] at heq
    rw [heq]

theorem pe_last (cfg : Cfg) (f d : Nat) (s s1 rest : Bytes) (v : JT)
    (hv : parseValue (tcFlags cfg) f d s = some (v, s1)) (h : dropWs s1 = 93 :: rest) :
    parseElems (tcFlags cfg) (f + 1) d s = some ([v], rest) := by
  simp only [parseElems, hv]
  rw [skipWs_eq _ _ (Nat.lt_succ_self _), h]
  rfl

theorem pe_more (cfg : Cfg) (f d : Nat) (s s1 s2 : Bytes) (v : JT)
    (hv : parseValue (tcFlags cfg) f d s = some (v, s1)) (h : dropWs s1 = 44 :: s2) (h3 : ∀ rest, dropWs s2 ≠ 93 :: rest) :
    parseElems (tcFlags cfg) (f + 1) d s = (parseElems (tcFlags cfg) f d (dropWs s2)).map fun p => (v :: p.1, p.2) := by
  simp only [parseElems, hv]
  rw [skipWs_eq _ _ (Nat.lt_succ_self _), h]
  simp only
  rw [skipWs_eq _ _ (Nat.lt_succ_self _)]
  split
  · rename_i heq; cases heq
  · rename_i rest heq
    simp only [Option.some.injEq] at heq
    exact absurd heq (h3 rest)
  · rename_i s3 _ heq
    simp only [Option.some.injEq] at heq
    rw [heq]

theorem pm_last (cfg : Cfg) (f d : Nat) (s s1 s2 s4 rest k : Bytes) (v : JT)
    (hk : parseString s = some (k, s1)) (h1 : dropWs s1 = 58 :: s2)
    (hv : parseValue (tcFlags cfg) f d (dropWs s2) = some (v, s4)) (h4 : dropWs s4 = 125 :: rest) :
    parseMembers (tcFlags cfg) (f + 1) d s = some ([(k, v)], rest) := by
  simp only [parseMembers, hk]
  rw [skipWs_eq _ _ (Nat.lt_succ_self _), h1]
  simp only
  rw [skipWs_eq _ _ (Nat.lt_succ_self _)]
  simp only [hv]
  rw [skipWs_eq _ _ (Nat.lt_succ_self _), h4]
  rfl

theorem pm_more (cfg : Cfg) (f d : Nat) (s s1 s2 s4 s5 k : Bytes) (v : JT)
    (hk : parseString s = some (k, s1)) (h1 : dropWs s1 = 58 :: s2)
    (hv : parseValue (tcFlags cfg) f d (dropWs s2) = some (v, s4)) (h4 : dropWs s4 = 44 :: s5)
    (h6 : ∀ rest, dropWs s5 ≠ 125 :: rest) :
    parseMembers (tcFlags cfg) (f + 1) d s =
      (parseMembers (tcFlags cfg) f d (dropWs s5)).map fun p => ((k, v) :: p.1, p.2) := by
  simp only [parseMembers, hk]
  rw [skipWs_eq _ _ (Nat.lt_succ_self _), h1]
  simp only
  rw [skipWs_eq _ _ (Nat.lt_succ_self _)]
  simp only [hv]
  rw [skipWs_eq _ _ (Nat.lt_succ_self _), h4]
  simp only
  rw [skipWs_eq _ _ (Nat.lt_succ_self _)]
  split
  · rename_i heq; cases heq
  · rename_i rest heq
    simp only [Option.some.injEq] at heq
    exact absurd heq (h6 rest)
  · rename_i s6 _ heq
    simp only [Option.some.injEq] at heq
    rw [heq]

theorem pe_trail (cfg : Cfg) (htc : cfg.trailingComma = true) (f d : Nat) (s s1 s2 rest : Bytes) (v : JT)
    (hv : parseValue (tcFlags cfg) f d s = some (v, s1)) (h : dropWs s1 = 44 :: s2) (h3 : dropWs s2 = 93 :: rest) :
    parseElems (tcFlags cfg) (f + 1) d s = some ([v], rest) := by
  simp only [parseElems, hv]
  rw [skipWs_eq _ _ (Nat.lt_succ_self _), h]
  simp only
  rw [skipWs_eq _ _ (Nat.lt_succ_self _), h3]
  simp [htc]

theorem pm_trail (cfg : Cfg) (htc : cfg.trailingComma = true) (f d : Nat) (s s1 s2 s4 s5 rest k : Bytes) (v : JT)
    (hk : parseString s = some (k, s1)) (h1 : dropWs s1 = 58 :: s2)
    (hv : parseValue (tcFlags cfg) f d (dropWs s2) = some (v, s4)) (h4 : dropWs s4 = 44 :: s5)
    (h6 : dropWs s5 = 125 :: rest) :
    parseMembers (tcFlags cfg) (f + 1) d s = some ([(k, v)], rest) := by
  simp only [parseMembers, hk]
  rw [skipWs_eq _ _ (Nat.lt_succ_self _), h1]
  simp only
  rw [skipWs_eq _ _ (Nat.lt_succ_self _)]
  simp only [hv]
  rw [skipWs_eq _ _ (Nat.lt_succ_self _), h4]
  simp only
  rw [skipWs_eq _ _ (Nat.lt_succ_self _), h6]
  simp [htc]

/-- `]` directly after a comma without `allow_trailing_comma`: extra_comma -/
theorem trailing_rbracket_dead (cfg : Cfg) (htc : ¬ cfg.trailingComma = true) (s : St) (hs : s.st = .expectValue) (he : s.err = none) :
    (feedChar cfg s 93).err.isSome = true := by
  simp [feedChar, he, stepChar, hs, isCtl, spaceOrSlash, valueStart, htc, fail]
  split <;> rfl

/-! ### the converse simulation -/

/-- the head of the remaining input where a value must start: not white space (it has been skipped), and not a `]` directly
    inside an array (the end of an empty array, or a trailing comma) -/
def HeadOK (s : Bytes) (s0 : St) : Prop := ∀ c r, s = c :: r → isWs c = false ∧ ¬ (c = 93 ∧ parent s0 = .array)

/-- an accepting run from a state that expects a value, on an input shorter than `k` -/
def VAt (cfg : Cfg) (k : Nat) : Prop :=
  ∀ (s : Bytes), s.length < k → ∀ (n : Nat) (stk : List PS) (s0 : St), Ctx stk n → s0.stack = stk → s0.level = n →
    vState s0.st = true → HeadOK s s0 → surrogateOK s = true → Acc cfg s0 s →
    ∃ v r s1, (∀ f, s.length - r.length ≤ f → parseValue (tcFlags cfg) f n s = some (v, r)) ∧ r.length < s.length ∧
      surrogateOK r = true ∧ Acc cfg s1 r ∧ Shape s1 (afterSt n) stk n

/-- … from a state that expects an element of an array -/
def EAt (cfg : Cfg) (k : Nat) : Prop :=
  ∀ (s : Bytes), s.length < k → ∀ (n : Nat) (stk : List PS) (s0 : St), Ctx stk n → s0.stack = .array :: stk → s0.level = n + 1 →
    vState s0.st = true → HeadOK s s0 → surrogateOK s = true → Acc cfg s0 s →
    ∃ xs r s1, (∀ f, s.length - r.length ≤ f → parseElems (tcFlags cfg) f (n + 1) s = some (xs, r)) ∧ r.length < s.length ∧
      surrogateOK r = true ∧ Acc cfg s1 r ∧ Shape s1 (afterSt n) stk n

/-- … from a state that expects a member name, at the opening quote -/
def MAt (cfg : Cfg) (k : Nat) : Prop :=
  ∀ (s : Bytes), s.length < k → ∀ (n : Nat) (stk : List PS) (s0 : St), Ctx stk n → s0.stack = .object :: stk → s0.level = n + 1 →
    (s0.st = .expectMemberNameOrEnd ∨ s0.st = .expectMemberName) → (∃ r, s = 34 :: r) → surrogateOK s = true → Acc cfg s0 s →
    ∃ ms r s1, (∀ f, s.length - r.length ≤ f → parseMembers (tcFlags cfg) f (n + 1) s = some (ms, r)) ∧ r.length < s.length ∧
      surrogateOK r = true ∧ Acc cfg s1 r ∧ Shape s1 (afterSt n) stk n

theorem sound_value (cfg : Cfg) (hcm : cfg.comments = false) (k : Nat)
    (ihE : EAt cfg k) (ihM : MAt cfg k) : VAt cfg (k + 1) := by
  intro s hlen n stk s0 hctx hstk hlvl hvs hhead hok hacc
  have he := hacc.err_none
  cases s with
  | nil => exact absurd hacc (value_not_eof cfg s0 hvs)
  | cons c cs =>
    obtain ⟨hw, hne⟩ := hhead c cs rfl
    have hlen' : cs.length < k := by simpa using hlen
    have hdl := dropWs_length cs
    rcases value_head cfg hcm s0 hvs c cs hw hne hacc with rfl | rfl | rfl | rfl | rfl | rfl | ⟨ns0, hns⟩
    · -- an object
      have hd := depth_inv cfg s0 hvs 123 (Or.inr rfl) cs hacc
      obtain ⟨sB, RB, hB1, hB2, hB3⟩ := reach_beginObject cfg s0 cs hvs he hd
      rw [hstk] at hB2; rw [hlvl] at hB3
      have hd' : ¬ n + 1 > cfg.maxDepth := by rw [← hlvl]; exact hd
      have hA := (hacc.of_reach RB).ws (by rw [hB1]; rfl)
      have hokB : surrogateOK (dropWs cs) = true := sOK_dropWs cs (sOK_cons 123 cs (by decide) hok)
      rcases key_inv cfg hcm sB (Or.inl hB1) (dropWs cs) (fun c r e => dropWs_head cs c r e) hA with ⟨r, hr⟩ | ⟨_, r, hr⟩
      · obtain ⟨ms, r', sM, hp, hl', hok', hAM, hM⟩ := ihM (dropWs cs) (by omega) n stk sB hctx hB2 hB3 (Or.inl hB1) ⟨r, hr⟩ hokB hA
        refine ⟨.obj ms, r', sM, ?_, by simp only [List.length_cons]; omega, hok', hAM, hM⟩
        intro f hf
        simp only [List.length_cons] at hf
        obtain ⟨f', rfl⟩ : ∃ f', f = f' + 1 := ⟨f - 1, by omega⟩
        rw [pv_obj_cons cfg f' n cs hd' (by intro rest e; rw [hr] at e; cases e), hp f' (by omega)]; rfl
      · rw [hr] at hA hokB
        obtain ⟨sE, RE, hE⟩ := reach_endObject cfg sB r stk n (Or.inr hB1) RB.2.1 hB2 hB3
        have hlr : r.length + 1 = (dropWs cs).length := by rw [hr]; rfl
        refine ⟨.obj [], r, sE, ?_, by simp only [List.length_cons]; omega, sOK_cons 125 r (by decide) hokB, hA.of_reach RE, hE⟩
        intro f hf
        simp only [List.length_cons] at hf
        obtain ⟨f', rfl⟩ : ∃ f', f = f' + 1 := ⟨f - 1, by omega⟩
        exact pv_obj_nil cfg f' n cs r hd' hr
    · -- an array
      have hd := depth_inv cfg s0 hvs 91 (Or.inl rfl) cs hacc
      obtain ⟨sB, RB, hB1, hB2, hB3⟩ := reach_beginArray cfg s0 cs hvs he hd
      rw [hstk] at hB2; rw [hlvl] at hB3
      have hd' : ¬ n + 1 > cfg.maxDepth := by rw [← hlvl]; exact hd
      have hA := (hacc.of_reach RB).ws (by rw [hB1]; rfl)
      have hokB : surrogateOK (dropWs cs) = true := sOK_dropWs cs (sOK_cons 91 cs (by decide) hok)
      cases hs1 : dropWs cs with
      | nil => rw [hs1] at hA; exact absurd hA (value_not_eof cfg sB (by rw [hB1]; rfl))
      | cons c' r' =>
        by_cases h93 : c' = 93
        · subst h93
          rw [hs1] at hA hokB
          obtain ⟨sE, RE, hE⟩ := reach_endArray cfg sB r' stk n (Or.inr hB1) RB.2.1 hB2 hB3
          have hlr : r'.length + 1 = (dropWs cs).length := by rw [hs1]; rfl
          refine ⟨.arr [], r', sE, ?_, by simp only [List.length_cons]; omega, sOK_cons 93 r' (by decide) hokB, hA.of_reach RE, hE⟩
          intro f hf
          simp only [List.length_cons] at hf
          obtain ⟨f', rfl⟩ : ∃ f', f = f' + 1 := ⟨f - 1, by omega⟩
          exact pv_arr_nil cfg f' n cs r' hd' hs1
        · have hhead' : HeadOK (dropWs cs) sB := by
            intro c'' r'' e
            rw [hs1] at e; cases e
            exact ⟨dropWs_head cs _ _ hs1, fun hh => h93 hh.1⟩
          obtain ⟨xs, r, sM, hp, hl', hok', hAM, hM⟩ := ihE (dropWs cs) (by omega) n stk sB hctx hB2 hB3 (by rw [hB1]; rfl)
            hhead' hokB (by rw [hs1]; rw [hs1] at hA; exact hA)
          refine ⟨.arr xs, r, sM, ?_, by simp only [List.length_cons]; omega, hok', hAM, hM⟩
          intro f hf
          simp only [List.length_cons] at hf
          obtain ⟨f', rfl⟩ : ∃ f', f = f' + 1 := ⟨f - 1, by omega⟩
          rw [pv_arr_cons cfg f' n cs hd' (by intro rest e; rw [hs1] at e; cases e; exact h93 rfl), hp f' (by omega)]; rfl
    · -- a string
      have h0 : feedChar cfg s0 34 = startString s0 := feedChar_value cfg s0 _ 34 hvs he (by simp [valueStart])
      have hS : Acc cfg (startString s0) cs := by have := hacc.step; rwa [h0] at this
      obtain ⟨b, rest, hp, hok', hl'⟩ := string_inv cfg (startString s0) rfl rfl rfl cs (sOK_cons 34 cs (by decide) hok) hS
      obtain ⟨s1, R1, h1⟩ := reach_string cfg hctx s0 (34 :: cs) b rest hp hvs he hstk hlvl
      refine ⟨.str b, rest, s1, ?_, by simp only [List.length_cons]; omega, hok', hacc.of_reach R1, h1⟩
      intro f hf
      simp only [List.length_cons] at hf
      obtain ⟨f', rfl⟩ : ∃ f', f = f' + 1 := ⟨f - 1, by omega⟩
      simp [parseValue, hp]
    · -- true
      obtain ⟨r, rfl⟩ := true_inv cfg s0 hvs cs hacc
      obtain ⟨s1, R1, h1⟩ := reach_true cfg hctx s0 r hvs he hstk hlvl
      refine ⟨.bool true, r, s1, ?_, by simp only [List.length_cons]; omega, sOK_drop [116, 114, 117, 101] r (by decide) hok, hacc.of_reach R1, h1⟩
      intro f hf
      simp only [List.length_cons] at hf
      obtain ⟨f', rfl⟩ : ∃ f', f = f' + 1 := ⟨f - 1, by omega⟩
      simp [parseValue, startsWith]
    · -- false
      obtain ⟨r, rfl⟩ := false_inv cfg s0 hvs cs hacc
      obtain ⟨s1, R1, h1⟩ := reach_false cfg hctx s0 r hvs he hstk hlvl
      refine ⟨.bool false, r, s1, ?_, by simp only [List.length_cons]; omega, sOK_drop [102, 97, 108, 115, 101] r (by decide) hok, hacc.of_reach R1, h1⟩
      intro f hf
      simp only [List.length_cons] at hf
      obtain ⟨f', rfl⟩ : ∃ f', f = f' + 1 := ⟨f - 1, by omega⟩
      simp [parseValue, startsWith]
    · -- null
      obtain ⟨r, rfl⟩ := null_inv cfg s0 hvs cs hacc
      obtain ⟨s1, R1, h1⟩ := reach_null cfg hctx s0 r hvs he hstk hlvl
      refine ⟨.null, r, s1, ?_, by simp only [List.length_cons]; omega, sOK_drop [110, 117, 108, 108] r (by decide) hok, hacc.of_reach R1, h1⟩
      intro f hf
      simp only [List.length_cons] at hf
      obtain ⟨f', rfl⟩ : ∃ f', f = f' + 1 := ⟨f - 1, by omega⟩
      simp [parseValue, startsWith]
    · -- a number
      obtain ⟨lit, r, hp, hnd, hsplit, hne', h92⟩ := number_inv cfg hctx s0 hvs hstk c cs ns0 hns hacc
      obtain ⟨s1, R1, h1⟩ := reach_number cfg hctx s0 c cs lit r hp hnd hvs he hstk hlvl
      have hll : (c :: cs).length = lit.length + r.length := by rw [hsplit]; simp
      have hlit : 0 < lit.length := List.length_pos_iff.2 hne'
      refine ⟨.num lit, r, s1, ?_, by omega, sOK_drop lit r h92 (by rw [← hsplit]; exact hok), hacc.of_reach R1, h1⟩
      intro f hf
      obtain ⟨f', rfl⟩ : ∃ f', f = f' + 1 := ⟨f - 1, by omega⟩
      have e1 : c ≠ 116 ∧ c ≠ 102 ∧ c ≠ 110 ∧ c ≠ 123 ∧ c ≠ 91 ∧ c ≠ 34 := by
        unfold numStart at hns
        (repeat' split at hns) <;> cases hns <;> omega
      simp [parseValue, e1, hp]

theorem sound_elems (cfg : Cfg) (hcm : cfg.comments = false) (k : Nat)
    (hV : VAt cfg (k + 1)) (ihE : EAt cfg k) : EAt cfg (k + 1) := by
  intro s hlen n stk s0 hctx hstk hlvl hvs hhead hok hacc
  obtain ⟨v, s1, sV, hpv, hl1, hok1, hA1, hV1, hV2, hV3⟩ :=
    hV s hlen (n + 1) (.array :: stk) s0 (Ctx.arr hctx) hstk hlvl hvs hhead hok hacc
  rw [afterSt_succ] at hV1
  have heV := hA1.err_none
  have hA1' := hA1.ws (by rw [hV1]; rfl)
  have hok1' := sOK_dropWs s1 hok1
  have hlen1 := dropWs_length s1
  rcases after_elem_inv cfg hcm sV stk hV1 hV2 (dropWs s1) (fun c r e => dropWs_head s1 c r e) hA1' with ⟨rest, hr⟩ | ⟨s2, hr⟩
  · rw [hr] at hA1' hok1'
    obtain ⟨sE, RE, hE⟩ := reach_endArray cfg sV rest stk n (Or.inl hV1) heV hV2 hV3
    have hlr : rest.length + 1 = (dropWs s1).length := by rw [hr]; rfl
    refine ⟨[v], rest, sE, ?_, by omega, sOK_cons 93 rest (by decide) hok1', hA1'.of_reach RE, hE⟩
    intro f hf
    obtain ⟨f', rfl⟩ : ∃ f', f = f' + 1 := ⟨f - 1, by omega⟩
    exact pe_last cfg f' (n + 1) s s1 rest v (hpv f' (by omega)) hr
  · rw [hr] at hA1' hok1'
    obtain ⟨sC, RC, hC1, hC2, hC3⟩ := reach_comma_array cfg sV s2 stk hV1 heV hV2
    rw [hV2] at hC2; rw [hV3] at hC3
    have hAC := (hA1'.of_reach RC).ws (by rw [hC1]; rfl)
    have hok2 := sOK_dropWs s2 (sOK_cons 44 s2 (by decide) hok1')
    have hlen2 := dropWs_length s2
    have hl2 : s2.length + 1 = (dropWs s1).length := by rw [hr]; rfl
    cases hs3 : dropWs s2 with
    | nil => rw [hs3] at hAC; exact absurd hAC (value_not_eof cfg sC (by rw [hC1]; rfl))
    | cons c3 r3 =>
      by_cases h93c : c3 = 93
      · -- a trailing comma
        subst h93c
        rw [hs3] at hAC hok2
        by_cases htc : cfg.trailingComma = true
        · obtain ⟨sE, RE, hE⟩ := reach_endArray_trailing cfg htc sC r3 stk n hC1 RC.2.1 hC2 hC3
          have hlr : r3.length + 1 = (dropWs s2).length := by rw [hs3]; rfl
          refine ⟨[v], r3, sE, ?_, by omega, sOK_cons 93 r3 (by decide) hok2, hAC.of_reach RE, hE⟩
          intro f hf
          obtain ⟨f', rfl⟩ : ∃ f', f = f' + 1 := ⟨f - 1, by omega⟩
          exact pe_trail cfg htc f' (n + 1) s s1 s2 r3 v (hpv f' (by omega)) hr hs3
        · exact absurd hAC (Acc.not_dead (trailing_rbracket_dead cfg htc sC hC1 RC.2.1))
      · have hhead3 : HeadOK (dropWs s2) sC := by
          intro c r e
          rw [hs3] at e; cases e
          exact ⟨dropWs_head s2 _ _ hs3, fun hh => h93c hh.1⟩
        have h93 : ∀ rest, dropWs s2 ≠ 93 :: rest := by
          intro rest e
          rw [hs3] at e; cases e; exact h93c rfl
        obtain ⟨xs, r, sM, hpe, hl3, hok3, hAM, hM⟩ :=
          ihE (dropWs s2) (by omega) n stk sC hctx hC2 hC3 (by rw [hC1]; rfl) hhead3 hok2 hAC
        refine ⟨v :: xs, r, sM, ?_, by omega, hok3, hAM, hM⟩
        intro f hf
        obtain ⟨f', rfl⟩ : ∃ f', f = f' + 1 := ⟨f - 1, by omega⟩
        rw [pe_more cfg f' (n + 1) s s1 s2 v (hpv f' (by omega)) hr h93, hpe f' (by omega)]; rfl

theorem sound_members (cfg : Cfg) (hcm : cfg.comments = false) (k : Nat)
    (hV : VAt cfg k) (ihM : MAt cfg k) : MAt cfg (k + 1) := by
  intro s hlen n stk s0 hctx hstk hlvl hs0 hq hok hacc
  obtain ⟨cs, rfl⟩ := hq
  have he := hacc.err_none
  have hlen' : cs.length < k := by simpa using hlen
  have hsp : spaceOrSlash s0 34 = none := by simp [spaceOrSlash]
  have h1 : feedChar cfg s0 34 = startString (push s0 .memberName) := by
    rcases hs0 with hs | hs <;> simp [feedChar, he, stepChar, hs, isCtl, hsp]
  have hS : Acc cfg (startString (push s0 .memberName)) cs := by have := hacc.step; rwa [h1] at this
  obtain ⟨kb, s1, hp, hok1, hl1⟩ := string_inv cfg _ rfl rfl rfl cs (sOK_cons 34 cs (by decide) hok) hS
  obtain ⟨sK, RK, hK1, hK2, hK3⟩ := reach_key cfg s0 (34 :: cs) kb s1 hp hs0 he
  rw [hstk] at hK2; rw [hlvl] at hK3
  have hAK := (hacc.of_reach RK).ws (by rw [hK1]; rfl)
  have hok1' := sOK_dropWs s1 hok1
  have hlen1 := dropWs_length s1
  obtain ⟨s2, hr1⟩ := colon_inv cfg hcm sK hK1 (dropWs s1) (fun c r e => dropWs_head s1 c r e) hAK
  rw [hr1] at hAK hok1'
  have hl2 : s2.length + 1 = (dropWs s1).length := by rw [hr1]; rfl
  obtain ⟨sC, RC, hC1, hC2, hC3⟩ := reach_colon cfg sK s2 hK1 RK.2.1
  rw [hK2] at hC2; rw [hK3] at hC3
  have hAC := (hAK.of_reach RC).ws (by rw [hC1]; rfl)
  have hok2 := sOK_dropWs s2 (sOK_cons 58 s2 (by decide) hok1')
  have hlen2 := dropWs_length s2
  have hhead3 : HeadOK (dropWs s2) sC := by
    intro c r e
    exact ⟨dropWs_head s2 c r e, fun hh => by simp [parent, hC2] at hh⟩
  obtain ⟨v, s4, sV, hpv, hl4, hok4, hA4, hV1, hV2, hV3⟩ :=
    hV (dropWs s2) (by omega) (n + 1) (.object :: stk) sC (Ctx.obj hctx) hC2 hC3 (by rw [hC1]; rfl) hhead3 hok2 hAC
  rw [afterSt_succ] at hV1
  have heV := hA4.err_none
  have hA4' := hA4.ws (by rw [hV1]; rfl)
  have hok4' := sOK_dropWs s4 hok4
  have hlen4 := dropWs_length s4
  rcases after_member_inv cfg hcm sV stk hV1 hV2 (dropWs s4) (fun c r e => dropWs_head s4 c r e) hA4' with ⟨rest, hr4⟩ | ⟨s5, hr4⟩
  · rw [hr4] at hA4' hok4'
    obtain ⟨sE, RE, hE⟩ := reach_endObject cfg sV rest stk n (Or.inl hV1) heV hV2 hV3
    have hlr : rest.length + 1 = (dropWs s4).length := by rw [hr4]; rfl
    refine ⟨[(kb, v)], rest, sE, ?_, by simp only [List.length_cons]; omega, sOK_cons 125 rest (by decide) hok4',
      hA4'.of_reach RE, hE⟩
    intro f hf
    simp only [List.length_cons] at hf
    obtain ⟨f', rfl⟩ : ∃ f', f = f' + 1 := ⟨f - 1, by omega⟩
    exact pm_last cfg f' (n + 1) (34 :: cs) s1 s2 s4 rest kb v hp hr1 (hpv f' (by omega)) hr4
  · rw [hr4] at hA4' hok4'
    obtain ⟨sD, RD, hD1, hD2, hD3⟩ := reach_comma_object cfg sV s5 stk hV1 heV hV2
    rw [hV2] at hD2; rw [hV3] at hD3
    have hAD := (hA4'.of_reach RD).ws (by rw [hD1]; rfl)
    have hok5 := sOK_dropWs s5 (sOK_cons 44 s5 (by decide) hok4')
    have hlen5 := dropWs_length s5
    have hl5 : s5.length + 1 = (dropWs s4).length := by rw [hr4]; rfl
    rcases key_inv cfg hcm sD (Or.inr hD1) (dropWs s5) (fun c r e => dropWs_head s5 c r e) hAD with ⟨r, hr⟩ | ⟨hc, r, hr⟩
    · obtain ⟨ms, r', sM, hpm, hl6, hok6, hAM, hM⟩ :=
        ihM (dropWs s5) (by omega) n stk sD hctx hD2 hD3 (Or.inr hD1) ⟨r, hr⟩ hok5 hAD
      refine ⟨(kb, v) :: ms, r', sM, ?_, by simp only [List.length_cons]; omega, hok6, hAM, hM⟩
      intro f hf
      simp only [List.length_cons] at hf
      obtain ⟨f', rfl⟩ : ∃ f', f = f' + 1 := ⟨f - 1, by omega⟩
      rw [pm_more cfg f' (n + 1) (34 :: cs) s1 s2 s4 s5 kb v hp hr1 (hpv f' (by omega)) hr4
        (by intro rest e; rw [hr] at e; cases e), hpm f' (by omega)]; rfl
    · -- a trailing comma
      have htc : cfg.trailingComma = true := by
        rcases hc with hc | hc
        · rw [hD1] at hc; cases hc
        · exact hc
      rw [hr] at hAD hok5
      obtain ⟨sE, RE, hE⟩ := reach_endObject_trailing cfg htc sD r stk n hD1 RD.2.1 hD2 hD3
      have hlr : r.length + 1 = (dropWs s5).length := by rw [hr]; rfl
      refine ⟨[(kb, v)], r, sE, ?_, by simp only [List.length_cons]; omega, sOK_cons 125 r (by decide) hok5, hAD.of_reach RE, hE⟩
      intro f hf
      simp only [List.length_cons] at hf
      obtain ⟨f', rfl⟩ : ∃ f', f = f' + 1 := ⟨f - 1, by omega⟩
      exact pm_trail cfg htc f' (n + 1) (34 :: cs) s1 s2 s4 s5 r kb v hp hr1 (hpv f' (by omega)) hr4 hr

theorem sound_all (cfg : Cfg) (hcm : cfg.comments = false) :
    ∀ k, VAt cfg k ∧ EAt cfg k ∧ MAt cfg k
  | 0 => ⟨fun _ h => absurd h (Nat.not_lt_zero _), fun _ h => absurd h (Nat.not_lt_zero _), fun _ h => absurd h (Nat.not_lt_zero _)⟩
  | k + 1 =>
    have ih := sound_all cfg hcm k
    have hV := sound_value cfg hcm k ih.2.1 ih.2.2
    ⟨hV, sound_elems cfg hcm k hV ih.2.1, sound_members cfg hcm k ih.1 ih.2.2⟩

/-- SOUNDNESS for whole documents, comments off, with the parser's own trailing-comma option -/
theorem run_sound_tc (cfg : Cfg) (hcm : cfg.comments = false) (bs : Bytes)
    (hok : surrogateOK bs = true) (h : accepted (run cfg bs) = true) : ∃ v, parseText (tcFlags cfg) bs = some v := by
  have hacc : Acc cfg init bs := h
  have hA := hacc.ws rfl
  have hhead : HeadOK (dropWs bs) init := by
    intro c r e
    exact ⟨dropWs_head bs c r e, fun hh => by simp [parent, init] at hh⟩
  obtain ⟨v, r, s1, hp, hl, _, hA1, h1, _, _⟩ := (sound_all cfg hcm ((dropWs bs).length + 1)).1 (dropWs bs) (Nat.lt_succ_self _)
    0 [.root] init Ctx.root rfl rfl rfl hhead (sOK_dropWs bs hok) hA
  have hr := accept_sound cfg r s1 (Or.inl h1) hA1.err_none hA1
  exact ⟨v, parseText_of _ rfl bs r v (hp _ (by omega)) hr⟩

/-- SOUNDNESS for whole documents -/
theorem run_sound (cfg : Cfg) (hcm : cfg.comments = false) (htc : cfg.trailingComma = false) (bs : Bytes)
    (hok : surrogateOK bs = true) (h : accepted (run cfg bs) = true) : ∃ v, parseText (strictFlags cfg) bs = some v := by
  have := run_sound_tc cfg hcm bs hok h
  rwa [show tcFlags cfg = strictFlags cfg by simp [htc]] at this

/-- a text without any `\u` escape (no backslash followed by `u`) has no surrogate anomaly -/
theorem sOK_of_noU : ∀ (n : Nat) (s : Bytes), s.length ≤ n → NoU s → surrogateOK s = true
  | 0, [], _, _ => rfl
  | 0, _ :: _, h, _ => by simp at h
  | _ + 1, [], _, _ => rfl
  | n + 1, c :: cs, hl, hnu => by
    have hl' : cs.length ≤ n := by simpa using hl
    unfold surrogateOK
    by_cases h92 : c = 92
    · subst h92
      cases cs with
      | nil => simp
      | cons e r =>
        have he : e ≠ 117 := by intro e'; subst e'; exact hnu [] r rfl
        simp only [if_true, he, if_false]
        exact sOK_of_noU n r (by simp at hl'; omega) hnu.tail.tail
    · simp only [h92, if_false]
      exact sOK_of_noU n cs hl' hnu.tail

end JsonParser
end Model
end JV
