/-
  JV.Proofs.JsonParserDepth — the nesting level of the parser model: every cell of the state machine either fails or keeps
  the level at or below where it was, except the two container-opening steps, which test the limit first.
-/
import JV.Proofs.JsonParser
namespace JV
namespace Model
namespace JsonParser

/-- the nesting level of a state that has not failed never exceeds the limit -/
def LevelOK (cfg : Cfg) (s : St) : Prop := s.err = none → s.level ≤ cfg.maxDepth

/-- `s'` has failed, or has `s`'s level or less -/
def NoDeeper (s s' : St) : Prop := s'.err = none → s'.level ≤ s.level

theorem LevelOK.of_noDeeper {cfg : Cfg} {s s' : St} (h : LevelOK cfg s) (he : s.err = none) (hn : NoDeeper s s') : LevelOK cfg s' :=
  fun he' => Nat.le_trans (hn he') (h he)

theorem nd_refl (s : St) : NoDeeper s s := fun _ => Nat.le_refl _
theorem nd_fail (s t : St) (c : Nat) : NoDeeper s (fail t c) := by intro h; simp [fail] at h

macro "nd_tac" : tactic => `(tactic| (intro h; (repeat' split at h) <;> (repeat' split) <;> simp_all [fail, emit, push, popTo, parent] <;> omega))

theorem nd_afterValue (s : St) : NoDeeper s (afterValue s) := by unfold afterValue NoDeeper; nd_tac
theorem nd_afterLiteral (s : St) : NoDeeper s (afterLiteral s) := by unfold afterLiteral NoDeeper; nd_tac
theorem nd_endInteger (s : St) : NoDeeper s (endInteger s) := by unfold endInteger afterValue NoDeeper; nd_tac
theorem nd_endFraction (s : St) : NoDeeper s (endFraction s) := by unfold endFraction afterValue NoDeeper; nd_tac
theorem nd_endString (s : St) : NoDeeper s (endString s) := by unfold endString NoDeeper; nd_tac
theorem nd_endObject (s : St) : NoDeeper s (endObject s) := by unfold endObject NoDeeper; nd_tac
theorem nd_endArray (s : St) : NoDeeper s (endArray s) := by unfold endArray NoDeeper; nd_tac
theorem nd_bmoe (s : St) : NoDeeper s (beginMemberOrElement s) := by unfold beginMemberOrElement NoDeeper; nd_tac
theorem nd_stepString (s : St) (c : Nat) : NoDeeper s (stepString s c) := by
  unfold stepString hexStep hexStep2 endString NoDeeper
  intro h
  (repeat' split at h) <;> (repeat' split) <;> simp_all [fail, emit, push, popTo, parent] <;> (try omega) <;>
    (split <;> simp_all)
theorem nd_stepNumber (s : St) (c : Nat) : NoDeeper s (stepNumber s c).1 := by
  unfold stepNumber endInteger endFraction afterValue NoDeeper; nd_tac
theorem nd_spaceOrSlash (s s' : St) (c : Nat) (h : spaceOrSlash s c = some s') : NoDeeper s s' := by
  unfold spaceOrSlash at h; unfold NoDeeper; (repeat' split at h) <;> simp_all [push] <;> (subst_vars; simp)

theorem lvl_beginObject (cfg : Cfg) (s : St) (h : LevelOK cfg s) : LevelOK cfg (beginObject cfg s) := by
  unfold beginObject LevelOK; split <;> simp_all [fail, emit] <;> omega
theorem lvl_beginArray (cfg : Cfg) (s : St) (h : LevelOK cfg s) : LevelOK cfg (beginArray cfg s) := by
  unfold beginArray LevelOK; split <;> simp_all [fail, emit] <;> omega


theorem lvl_valueStart (cfg : Cfg) (s s' : St) (c : Nat) (h : LevelOK cfg s) (hv : valueStart cfg s c = some s') : LevelOK cfg s' := by
  unfold valueStart at hv
  (repeat' split at hv) <;> simp_all [startString]
  · subst hv; exact lvl_beginObject cfg s h
  · subst hv; exact lvl_beginArray cfg s h
  all_goals (subst hv; exact h)

theorem levelOK_stepChar (cfg : Cfg) (s : St) (c : Nat) (h : LevelOK cfg s) (he : s.err = none) : LevelOK cfg (stepChar cfg s c).1 := by
  have ND : ∀ s', NoDeeper s s' → LevelOK cfg s' := fun s' hn => h.of_noDeeper he hn
  unfold stepChar
  cases hst : s.st <;> simp only [] <;> (repeat' split) <;>
    first
    | exact h
    | exact ND _ (nd_fail _ _ _)
    | exact ND _ (nd_spaceOrSlash _ _ _ ‹_›)
    | exact lvl_valueStart cfg _ _ _ h ‹_›
    | exact ND _ (nd_endObject _)
    | exact ND _ (nd_endArray _)
    | exact ND _ (nd_bmoe _)
    | exact ND _ (nd_stepString _ _)
    | exact ND _ (nd_stepNumber _ _)
    | (apply ND; intro hh; simp_all [startString, push, lit, fail, popTo, afterLiteral, emit]; try (split at hh <;> simp_all))
    | skip

theorem isSome_false_none {α} (o : Option α) (h : ¬ o.isSome = true) : o = none := by cases o <;> simp_all

theorem levelOK_feedChar (cfg : Cfg) (s : St) (c : Nat) (h : LevelOK cfg s) : LevelOK cfg (feedChar cfg s c) := by
  unfold feedChar
  by_cases he : s.err.isSome = true
  · simp [he, h]
  · have he0 := isSome_false_none _ he
    have h1 := levelOK_stepChar cfg s c h he0
    simp only [he, if_false]
    by_cases c1 : ((stepChar cfg s c).2 || (stepChar cfg s c).1.err.isSome) = true
    · simp [c1, h1]
    · simp only [c1, if_false]
      have e1 : (stepChar cfg s c).1.err = none := by
        apply isSome_false_none; intro hh; simp [hh] at c1
      have h2 := levelOK_stepChar cfg _ c h1 e1
      by_cases c2 : ((stepChar cfg (stepChar cfg s c).1 c).2 || (stepChar cfg (stepChar cfg s c).1 c).1.err.isSome) = true
      · simp [c2, h2]
      · simp only [c2, if_false]
        have e2 : (stepChar cfg (stepChar cfg s c).1 c).1.err = none := by
          apply isSome_false_none; intro hh; simp [hh] at c2
        exact levelOK_stepChar cfg _ c h2 e2

theorem levelOK_feed (cfg : Cfg) (s : St) (bs : Bytes) (h : LevelOK cfg s) : LevelOK cfg (feed cfg s bs) := by
  induction bs generalizing s with
  | nil => exact h
  | cons c cs ih => simp only [feed, List.foldl_cons]; exact ih _ (levelOK_feedChar cfg s c h)

theorem levelOK_init (cfg : Cfg) : LevelOK cfg init := by intro _; simp [init]

/-- opening a container at the limit fails with max_nesting_depth_exceeded; below the limit it does not -/
theorem beginArray_at_limit (cfg : Cfg) (s : St) (h : s.level = cfg.maxDepth) : (beginArray cfg s).err = some eMaxDepth := by
  simp [beginArray, h, fail]
theorem beginObject_at_limit (cfg : Cfg) (s : St) (h : s.level = cfg.maxDepth) : (beginObject cfg s).err = some eMaxDepth := by
  simp [beginObject, h, fail]
theorem beginArray_below_limit (cfg : Cfg) (s : St) (h : s.level < cfg.maxDepth) :
    (beginArray cfg s).err = s.err ∧ (beginArray cfg s).level = s.level + 1 := by
  have : ¬ (s.level + 1 > cfg.maxDepth) := by omega
  simp [beginArray, this, emit]
theorem beginObject_below_limit (cfg : Cfg) (s : St) (h : s.level < cfg.maxDepth) :
    (beginObject cfg s).err = s.err ∧ (beginObject cfg s).level = s.level + 1 := by
  have : ¬ (s.level + 1 > cfg.maxDepth) := by omega
  simp [beginObject, this, emit]

end JsonParser
end Model
end JV
