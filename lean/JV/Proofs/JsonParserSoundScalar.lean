/-
  JV.Proofs.JsonParserSoundScalar — the soundness direction of the refinement for documents whose root is a literal or a number:
  if the parser model (comments off) accepts such a text, the RFC 8259 reference gives it a value.
-/
import JV.Proofs.JsonParserRefine
namespace JV
namespace Model
namespace JsonParser
open Spec.Rfc8259 (JT Flags parseValue parseText skipWs startsWith isWs)

/-! ### a machine that has failed, or that fails at the end of the input, does not accept -/

theorem finish_err (s : St) (h : s.err.isSome = true) : finish s = s := by simp [finish, h]

theorem dead (cfg : Cfg) (s : St) (r : Bytes) (h : s.err.isSome = true) : accepted (finish (feed cfg s r)) = false := by
  rw [feed_err cfg s r h, finish_err s h]
  cases he : s.err <;> simp_all [accepted]

theorem finish_eof_fail (s : St) (he : s.err = none) (h : (finish1 s).err.isSome = true) : accepted (finish s) = false := by
  rw [finish_eq s he]
  cases he1 : (finish1 s).err <;> simp_all [accepted]

/-- after the root value only white space is tolerated -/
theorem accept_sound (cfg : Cfg) : ∀ (r : Bytes) (s : St), (s.st = .accept ∨ s.st = .done) → s.err = none →
    accepted (finish (feed cfg s r)) = true → dropWs r = []
  | [], _, _, _, _ => rfl
  | c :: cs, s, hs, he, h => by
    by_cases hw : isWs c = true
    · have hc := (isWs_iff c).1 hw
      have h1 : feedChar cfg s c = { s with st := .done } := by
        rcases hs with hs | hs <;> simp [feedChar, he, stepChar, hs, hc]
      rw [feed_cons, h1] at h
      have := accept_sound cfg cs { s with st := .done } (Or.inr rfl) he h
      simpa [dropWs, hw] using this
    · have hc : ¬ (c = 32 ∨ c = 9 ∨ c = 10 ∨ c = 13) := fun h => hw ((isWs_iff c).2 h)
      have h1 : feedChar cfg s c = fail s eExtraCharacter := by
        rcases hs with hs | hs <;> simp [feedChar, he, stepChar, hs, hc]
      rw [feed_cons, h1, dead cfg _ cs (by simp [fail])] at h
      cases h

/-- a state that wants exactly one character -/
theorem expect_char_sound (cfg : Cfg) (s s' : St) (want : Nat) (he : s.err = none)
    (hgood : feedChar cfg s want = s') (hbad : ∀ c, c ≠ want → (feedChar cfg s c).err.isSome = true)
    (hfin : (finish1 s).err.isSome = true) (cs : Bytes) (h : accepted (finish (feed cfg s cs)) = true) :
    ∃ r, cs = want :: r ∧ accepted (finish (feed cfg s' r)) = true := by
  cases cs with
  | nil => rw [feed_nil, finish_eof_fail s he hfin] at h; cases h
  | cons c r =>
    by_cases hc : c = want
    · subst hc; exact ⟨r, rfl, by rw [feed_cons, hgood] at h; exact h⟩
    · rw [feed_cons, dead cfg _ r (hbad c hc)] at h; cases h

/-! ### the three literals at the root -/

theorem true_sound (cfg : Cfg) (cs : Bytes) (h : accepted (finish (feed cfg init (116 :: cs))) = true) :
    ∃ r, cs = 114 :: 117 :: 101 :: r ∧ dropWs r = [] := by
  have h0 : feedChar cfg init 116 = { init with st := .t } := feedChar_value cfg init _ 116 rfl rfl (by simp [valueStart])
  rw [feed_cons, h0] at h
  obtain ⟨r1, rfl, h⟩ := expect_char_sound cfg { init with st := .t } { init with st := .tr } 114 rfl
    (by simp [feedChar, stepChar, lit, init]) (by intro c hc; simp [feedChar, stepChar, lit, init, hc, fail])
    (by simp [finish1, fail, init]) cs h
  obtain ⟨r2, rfl, h⟩ := expect_char_sound cfg { init with st := .tr } { init with st := .tru } 117 rfl
    (by simp [feedChar, stepChar, lit, init]) (by intro c hc; simp [feedChar, stepChar, lit, init, hc, fail])
    (by simp [finish1, fail, init]) r1 h
  obtain ⟨r3, rfl, h⟩ := expect_char_sound cfg { init with st := .tru } { init with st := .accept, evs := [.bool true] } 101 rfl
    (by simp [feedChar, stepChar, init, afterLiteral, emit]) (by intro c hc; simp [feedChar, stepChar, init, hc, fail])
    (by simp [finish1, fail, init]) r2 h
  exact ⟨r3, rfl, accept_sound cfg r3 _ (Or.inl rfl) rfl h⟩

theorem false_sound (cfg : Cfg) (cs : Bytes) (h : accepted (finish (feed cfg init (102 :: cs))) = true) :
    ∃ r, cs = 97 :: 108 :: 115 :: 101 :: r ∧ dropWs r = [] := by
  have h0 : feedChar cfg init 102 = { init with st := .f } := feedChar_value cfg init _ 102 rfl rfl (by simp [valueStart])
  rw [feed_cons, h0] at h
  obtain ⟨r1, rfl, h⟩ := expect_char_sound cfg { init with st := .f } { init with st := .fa } 97 rfl
    (by simp [feedChar, stepChar, lit, init]) (by intro c hc; simp [feedChar, stepChar, lit, init, hc, fail])
    (by simp [finish1, fail, init]) cs h
  obtain ⟨r2, rfl, h⟩ := expect_char_sound cfg { init with st := .fa } { init with st := .fal } 108 rfl
    (by simp [feedChar, stepChar, lit, init]) (by intro c hc; simp [feedChar, stepChar, lit, init, hc, fail])
    (by simp [finish1, fail, init]) r1 h
  obtain ⟨r3, rfl, h⟩ := expect_char_sound cfg { init with st := .fal } { init with st := .fals } 115 rfl
    (by simp [feedChar, stepChar, lit, init]) (by intro c hc; simp [feedChar, stepChar, lit, init, hc, fail])
    (by simp [finish1, fail, init]) r2 h
  obtain ⟨r4, rfl, h⟩ := expect_char_sound cfg { init with st := .fals } { init with st := .accept, evs := [.bool false] } 101 rfl
    (by simp [feedChar, stepChar, init, afterLiteral, emit]) (by intro c hc; simp [feedChar, stepChar, init, hc, fail])
    (by simp [finish1, fail, init]) r3 h
  exact ⟨r4, rfl, accept_sound cfg r4 _ (Or.inl rfl) rfl h⟩

theorem null_sound (cfg : Cfg) (cs : Bytes) (h : accepted (finish (feed cfg init (110 :: cs))) = true) :
    ∃ r, cs = 117 :: 108 :: 108 :: r ∧ dropWs r = [] := by
  have h0 : feedChar cfg init 110 = { init with st := .n } := feedChar_value cfg init _ 110 rfl rfl (by simp [valueStart])
  rw [feed_cons, h0] at h
  obtain ⟨r1, rfl, h⟩ := expect_char_sound cfg { init with st := .n } { init with st := .nu } 117 rfl
    (by simp [feedChar, stepChar, lit, init]) (by intro c hc; simp [feedChar, stepChar, lit, init, hc, fail])
    (by simp [finish1, fail, init]) cs h
  obtain ⟨r2, rfl, h⟩ := expect_char_sound cfg { init with st := .nu } { init with st := .nul } 108 rfl
    (by simp [feedChar, stepChar, lit, init]) (by intro c hc; simp [feedChar, stepChar, lit, init, hc, fail])
    (by simp [finish1, fail, init]) r1 h
  obtain ⟨r3, rfl, h⟩ := expect_char_sound cfg { init with st := .nul } { init with st := .accept, evs := [.null] } 108 rfl
    (by simp [feedChar, stepChar, init, afterLiteral, emit]) (by intro c hc; simp [feedChar, stepChar, init, hc, fail])
    (by simp [finish1, fail, init]) r2 h
  exact ⟨r3, rfl, accept_sound cfg r3 _ (Or.inl rfl) rfl h⟩

/-! ### a number at the root -/

theorem stepNumber_nonfinal (s : St) (d : Nat) (hf : numFinal s.ns = false) (hn : numNext s.ns d = none) :
    stepNumber s d = (fail s eInvalidNumber, true) := by
  unfold numNext at hn
  unfold stepNumber
  cases hns : s.ns <;> simp [hns, numFinal] at hf <;> simp only [hns] at hn ⊢ <;> (repeat' split at hn) <;>
    (try (simp at hn; done)) <;> simp [*]

theorem numFinal_next (f : NS) (d : Nat) (hf : numFinal f = true) (hn : numNext f d = none) :
    (f = .zero ∧ isDigit d = true) ∨ isDigit d = false := by
  unfold numNext at hn
  cases f <;> simp [numFinal] at hf <;> simp only [] at hn <;> (repeat' split at hn) <;> simp_all

theorem stepNumber_leading_zero (s : St) (d : Nat) (hz : s.ns = .zero) (hd : isDigit d = true) :
    stepNumber s d = (fail s eLeadingZero, true) := by
  have h46 : d ≠ 46 := by simp [isDigit] at hd; omega
  have he : isExp d = false := by simp [isDigit] at hd; simp [isExp]; omega
  simp [stepNumber, hz, h46, he, hd]

theorem number_sound (cfg : Cfg) (c : Nat) (cs : Bytes) (ns0 : NS) (hs : numStart c = some ns0)
    (h : accepted (finish (feed cfg init (c :: cs))) = true) :
    ∃ lit r, Spec.Rfc8259.parseNumber (c :: cs) = some (lit, r) ∧ dropWs r = [] := by
  have hv : valueStart cfg init c = some { init with st := .number, ns := ns0, buf := [c] } := by
    unfold numStart at hs
    unfold valueStart
    (repeat' split at hs) <;> cases hs
    · rename_i h1; subst h1; simp
    · rename_i h1 h2; subst h2; simp
    · rename_i h1 h2 h3
      have e1 : c ≠ 123 := by omega
      have e2 : c ≠ 91 := by omega
      have e3 : c ≠ 34 := by omega
      simp [e1, e2, e3, h1, h2, h3]
  cases hsc : numScan ns0 cs with
  | mk f r =>
    obtain ⟨pre, e1, e2, e3⟩ := numScan_spec cs ns0 f r hsc
    obtain ⟨sE, hfeed, hst, herr, hns, hstk⟩ : ∃ sE : St, feed cfg init (c :: cs) = feed cfg sE r ∧ sE.st = .number ∧
        sE.err = none ∧ sE.ns = f ∧ sE.stack = [.root] := by
      refine ⟨{ init with st := .number, ns := f, buf := [c] ++ pre }, ?_, rfl, rfl, rfl, rfl⟩
      rw [feed_cons, feedChar_value cfg init _ c rfl rfl hv, e1, feed_append]
      rw [feed_number cfg pre { init with st := .number, ns := ns0, buf := [c] } f rfl rfl e2]
    rw [hfeed] at h
    by_cases hf : numFinal f = true
    · -- the reference reads the same literal
      have hrest : specRest (c :: cs) = some r := by
        rw [← ok_start c cs ns0 hs, hsc]; simp [scanOK, hf]
      rw [← parseNumber_rest] at hrest
      cases hp : Spec.Rfc8259.parseNumber (c :: cs) with
      | none => rw [hp] at hrest; simp at hrest
      | some p =>
        obtain ⟨lit, r'⟩ := p
        have : r' = r := by rw [hp] at hrest; simpa using hrest
        subst this
        refine ⟨lit, r', rfl, ?_⟩
        -- what follows the literal in the model
        have hnd : ∀ d r'', r' = d :: r'' → numNext sE.ns d = none ∧ isDigit d = false := by
          intro d r'' e
          rw [hns]
          refine ⟨e3 d r'' e, ?_⟩
          rcases numFinal_next f d hf (e3 d r'' e) with ⟨hz, hd⟩ | hd
          · -- a digit after a leading zero: the model has failed
            subst e
            have hstep : stepChar cfg sE d = (fail sE eLeadingZero, true) := by
              simp only [stepChar, hst]; exact stepNumber_leading_zero sE d (hns.trans hz) hd
            have := feedChar_of_consumed cfg sE d herr (by rw [hstep])
            rw [feed_cons, this, hstep, dead cfg _ r'' (by simp [fail])] at h
            cases h
          · exact hd
        have hend := number_end cfg Ctx.root sE r' hst herr hstk (by rw [hns]; exact hf) hnd
        rw [hend] at h
        exact accept_sound cfg r' _ (Or.inl (by rw [endNum_ctx Ctx.root _ hstk]; rfl))
          (by rw [endNum_ctx Ctx.root _ hstk]; exact herr) h
    · -- the literal is incomplete: the model fails at the next character or at the end
      have hf' : numFinal f = false := by simpa using hf
      exfalso
      cases r with
      | nil =>
        have : (finish1 sE).err.isSome = true := by
          cases f <;> simp [numFinal] at hf' <;> simp [finish1, hst, hns, fail]
        rw [feed_nil, finish_eof_fail _ herr this] at h
        cases h
      | cons d r'' =>
        have hstep : stepChar cfg sE d = (fail sE eInvalidNumber, true) := by
          simp only [stepChar, hst]; exact stepNumber_nonfinal sE d (by rw [hns]; exact hf') (by rw [hns]; exact e3 d r'' rfl)
        have := feedChar_of_consumed cfg sE d herr (by rw [hstep])
        rw [feed_cons, this, hstep, dead cfg _ r'' (by simp [fail])] at h
        cases h

/-! ### every other first character -/

theorem first_char_sound (cfg : Cfg) (hcm : cfg.comments = false) (c : Nat) (cs : Bytes) (hw : isWs c = false)
    (h34 : c ≠ 34) (h91 : c ≠ 91) (h123 : c ≠ 123) (h : accepted (finish (feed cfg init (c :: cs))) = true) :
    c = 116 ∨ c = 102 ∨ c = 110 ∨ ∃ ns0, numStart c = some ns0 := by
  by_cases hx : c = 116 ∨ c = 102 ∨ c = 110 ∨ c = 45 ∨ c = 48 ∨ (49 ≤ c ∧ c ≤ 57)
  · rcases hx with hx | hx | hx | hx | hx | hx
    · exact Or.inl hx
    · exact Or.inr (Or.inl hx)
    · exact Or.inr (Or.inr (Or.inl hx))
    · exact Or.inr (Or.inr (Or.inr ⟨.minus, by simp [numStart, hx]⟩))
    · exact Or.inr (Or.inr (Or.inr ⟨.zero, by simp [numStart, hx]⟩))
    · exact Or.inr (Or.inr (Or.inr ⟨.integer, by
        have e1 : c ≠ 45 := by omega
        have e2 : c ≠ 48 := by omega
        simp [numStart, hx, e1, e2]⟩))
  · exfalso
    have hnw : ¬ (c = 32 ∨ c = 9 ∨ c = 10 ∨ c = 13) := fun hh => by
      have := (isWs_iff c).2 hh; rw [hw] at this; cases this
    by_cases h47 : c = 47
    · subst h47
      have h0 : feedChar cfg init 47 = { init with st := .slash, stack := [.start, .root] } := by
        simp [feedChar, stepChar, init, isCtl, spaceOrSlash, push]
      rw [feed_cons, h0] at h
      cases cs with
      | nil =>
        rw [feed_nil, finish_eof_fail _ rfl (by simp [finish1, fail])] at h; cases h
      | cons d ds =>
        have : (feedChar cfg { init with st := .slash, stack := [.start, .root] } d).err.isSome = true := by
          simp only [feedChar, stepChar, init, hcm]
          by_cases h42 : d = 42
          · simp [h42, fail]
          · by_cases h47 : d = 47 <;> simp [h42, h47, fail]
        rw [feed_cons, dead cfg _ ds this] at h; cases h
    · have hv : valueStart cfg init c = none := by
        unfold valueStart
        have e1 : c ≠ 116 := fun e => hx (Or.inl e)
        have e2 : c ≠ 102 := fun e => hx (Or.inr (Or.inl e))
        have e3 : c ≠ 110 := fun e => hx (Or.inr (Or.inr (Or.inl e)))
        have e4 : c ≠ 45 := fun e => hx (Or.inr (Or.inr (Or.inr (Or.inl e))))
        have e5 : c ≠ 48 := fun e => hx (Or.inr (Or.inr (Or.inr (Or.inr (Or.inl e)))))
        have e6 : ¬ (49 ≤ c ∧ c ≤ 57) := fun e => hx (Or.inr (Or.inr (Or.inr (Or.inr (Or.inr e)))))
        simp [h123, h91, h34, e1, e2, e3, e4, e5, e6]
      have hsp : spaceOrSlash init c = none := by
        unfold spaceOrSlash
        have e1 : ¬ (c = 32 ∨ c = 9 ∨ c = 10) := fun e => hnw (by omega)
        have e2 : c ≠ 13 := fun e => hnw (by omega)
        simp [e1, e2, h47]
      have hstep : (stepChar cfg init c).2 = true ∧ (stepChar cfg init c).1.err.isSome = true := by
        have hst : init.st = .start := rfl
        simp only [stepChar, hst, hsp, hv, fail]
        (repeat' split) <;> simp
      have : (feedChar cfg init c).err.isSome = true := by
        rw [feedChar_of_consumed cfg init c rfl hstep.1]; exact hstep.2
      rw [feed_cons, dead cfg _ cs this] at h; cases h

/-! ### the reference on such a document -/

theorem parseText_of (fl : Flags) (hc : fl.comments = false) (bs s2 : Bytes) (v : JT)
    (hv : parseValue fl ((dropWs bs).length + 1) 0 (dropWs bs) = some (v, s2)) (hr : dropWs s2 = []) :
    parseText fl bs = some v := by
  unfold parseText
  rw [hc, skipWs_eq _ _ (Nat.lt_succ_self _)]
  simp only [hv]
  rw [skipWs_eq _ _ (Nat.lt_succ_self _), hr]

/-- SOUNDNESS for documents whose root is not a string, an array or an object: whatever the model (comments off) accepts, the
    reference gives a value -/
theorem run_sound_scalar (cfg : Cfg) (hcm : cfg.comments = false) (bs : Bytes)
    (hroot : ∀ c r, dropWs bs = c :: r → c ≠ 34 ∧ c ≠ 91 ∧ c ≠ 123)
    (h : accepted (run cfg bs) = true) : ∃ v, parseText (strictFlags cfg) bs = some v := by
  unfold run at h
  rw [feed_dropWs cfg init rfl rfl bs] at h
  cases hd : dropWs bs with
  | nil =>
    rw [hd, feed_nil, finish_eof_fail init rfl (by simp [finish1, init, fail])] at h; cases h
  | cons c cs =>
    rw [hd] at h
    obtain ⟨h34, h91, h123⟩ := hroot c cs hd
    have hw := dropWs_head bs c cs hd
    rcases first_char_sound cfg hcm c cs hw h34 h91 h123 h with rfl | rfl | rfl | ⟨ns0, hns⟩
    · obtain ⟨r, rfl, hr⟩ := true_sound cfg cs h
      exact ⟨.bool true, parseText_of _ rfl bs r _ (by rw [hd]; simp [parseValue, startsWith]) hr⟩
    · obtain ⟨r, rfl, hr⟩ := false_sound cfg cs h
      exact ⟨.bool false, parseText_of _ rfl bs r _ (by rw [hd]; simp [parseValue, startsWith]) hr⟩
    · obtain ⟨r, rfl, hr⟩ := null_sound cfg cs h
      exact ⟨.null, parseText_of _ rfl bs r _ (by rw [hd]; simp [parseValue, startsWith]) hr⟩
    · obtain ⟨lit, r, hp, hr⟩ := number_sound cfg c cs ns0 hns h
      refine ⟨.num lit, parseText_of _ rfl bs r _ ?_ hr⟩
      rw [hd]
      have e1 : c ≠ 116 ∧ c ≠ 102 ∧ c ≠ 110 := by
        unfold numStart at hns
        (repeat' split at hns) <;> cases hns <;> omega
      simp [parseValue, h123, h91, h34, e1.1, e1.2.1, e1.2.2, hp]

/-! ### a string at the root, without `\u` escapes -/

/-- no backslash is followed by `u` -/
def NoU (cs : Bytes) : Prop := ∀ pre post, cs ≠ pre ++ 92 :: 117 :: post

theorem NoU.tail {c : Nat} {cs : Bytes} (h : NoU (c :: cs)) : NoU cs := by
  intro pre post e; exact h (c :: pre) post (by rw [e]; rfl)

theorem stepString_ctl (s : St) (c : Nat) (hss : s.ss = .text) (h32 : c < 32) : (stepString s c).err.isSome = true := by
  by_cases hctl : isCtl c = true
  · simp [stepString, hss, hctl, fail]
  · have : c = 10 ∨ c = 13 ∨ c = 9 := by
      simp only [isCtl, Bool.and_eq_true, decide_eq_true_eq, bne_iff_ne, ne_eq] at hctl; omega
    simp [stepString, hss, hctl, this, fail]

theorem stepString_bad_esc (s : St) (e : Nat) (hss : s.ss = .escape) (h : simpleEsc e = none) (h117 : e ≠ 117) :
    stepString s e = fail s eIllegalEscaped := by
  unfold simpleEsc at h
  (repeat' split at h) <;> simp_all [stepString]

theorem chars_sound (cfg : Cfg) : ∀ (fuel : Nat) (cs : Bytes) (s : St), cs.length < fuel → s.st = .string → s.ss = .text →
    s.err = none → s.stack = [.root] → NoU cs → accepted (finish (feed cfg s cs)) = true →
    ∃ b rest, Spec.Rfc8259.parseChars fuel cs = some (b, rest) ∧ validate (s.buf ++ b) = none ∧ dropWs rest = []
  | 0, _, _, hl, _, _, _, _, _, _ => by omega
  | fuel + 1, [], s, _, hst, _, he, _, _, h => by
    rw [feed_nil, finish_eof_fail s he (by simp [finish1, hst, fail])] at h; cases h
  | fuel + 1, c :: cs, s, hl, hst, hss, he, hstk, hnu, h => by
    rw [feed_cons, feedChar_string cfg s c hst he] at h
    by_cases h34 : c = 34
    · subst h34
      rw [stepString_quote s hss] at h
      cases hv : validate s.buf with
      | some code =>
        have : (endString s).err.isSome = true := by simp [endString, hv, fail]
        rw [dead cfg _ cs this] at h; cases h
      | none =>
        rw [endString_ctx Ctx.root s hstk hv] at h
        exact ⟨[], cs, by simp [Spec.Rfc8259.parseChars], by simpa using hv,
          accept_sound cfg cs { s with st := afterSt 0, evs := Ev.str s.buf s.noesc :: s.evs } (Or.inl rfl) he h⟩
    by_cases h32 : c < 32
    · rw [dead cfg _ cs (stepString_ctl s c hss h32)] at h; cases h
    by_cases h92 : c = 92
    · subst h92
      rw [stepString_backslash s hss] at h
      cases cs with
      | nil =>
        rw [feed_nil, finish_eof_fail { s with ss := .escape, noesc := false } he (by simp [finish1, hst, fail])] at h; cases h
      | cons e r =>
        rw [feed_cons, feedChar_string cfg _ e (by simp [hst]) (by simp [he])] at h
        cases hse : simpleEsc e with
        | some bb =>
          rw [stepString_simple_esc _ e bb rfl hse] at h
          obtain ⟨b, rest, e1, e2, e3⟩ := chars_sound cfg fuel r
            { s with ss := .text, noesc := false, buf := s.buf ++ [bb] } (by simp at hl; omega) hst rfl he hstk hnu.tail.tail h
          exact ⟨bb :: b, rest, by rw [parseChars_simple_esc fuel e bb r hse, e1]; rfl, by simpa using e2, e3⟩
        | none =>
          by_cases h117 : e = 117
          · subst h117; exact absurd rfl (hnu [] r)
          · rw [stepString_bad_esc _ e rfl hse h117, dead cfg _ r (by simp [fail])] at h; cases h
    · rw [stepString_plain s c hss h34 h32 h92] at h
      obtain ⟨b, rest, e1, e2, e3⟩ := chars_sound cfg fuel cs { s with buf := s.buf ++ [c] } (by simp at hl; omega)
        hst hss he hstk hnu.tail h
      refine ⟨c :: b, rest, ?_, by simpa using e2, e3⟩
      simp [Spec.Rfc8259.parseChars, h34, h32, h92, e1]

theorem string_sound (cfg : Cfg) (cs : Bytes) (hnu : NoU cs) (h : accepted (finish (feed cfg init (34 :: cs))) = true) :
    ∃ b rest, Spec.Rfc8259.parseString (34 :: cs) = some (b, rest) ∧ dropWs rest = [] := by
  have h0 : feedChar cfg init 34 = startString init := feedChar_value cfg init _ 34 rfl rfl (by simp [valueStart])
  rw [feed_cons, h0] at h
  obtain ⟨b, rest, e1, e2, e3⟩ := chars_sound cfg (cs.length + 1) cs (startString init) (Nat.lt_succ_self _) rfl rfl rfl rfl hnu h
  have hv : Spec.Rfc8259.validUtf8 b = true := (validate_iff b).1 (by simpa [startString] using e2)
  exact ⟨b, rest, by simp [Spec.Rfc8259.parseString, e1, hv], e3⟩

theorem dropWs_split (bs : Bytes) : ∃ w, bs = w ++ dropWs bs := ⟨bs.takeWhile isWs, (List.takeWhile_append_dropWhile).symm⟩

/-- SOUNDNESS for documents whose root is not an array or an object and that contain no `\u` escape -/
theorem run_sound_scalar_str (cfg : Cfg) (hcm : cfg.comments = false) (bs : Bytes)
    (hroot : ∀ c r, dropWs bs = c :: r → c ≠ 91 ∧ c ≠ 123) (hnu : NoU bs)
    (h : accepted (run cfg bs) = true) : ∃ v, parseText (strictFlags cfg) bs = some v := by
  cases hd : dropWs bs with
  | nil => exact run_sound_scalar cfg hcm bs (by intro c r e; rw [hd] at e; cases e) h
  | cons c cs =>
    by_cases h34 : c = 34
    · subst h34
      have h' := h
      unfold run at h'
      rw [feed_dropWs cfg init rfl rfl bs, hd] at h'
      obtain ⟨w, hw⟩ := dropWs_split bs
      have hnu' : NoU cs := by
        intro pre post e
        refine hnu (w ++ 34 :: pre) post ?_
        rw [hw, hd, e]; simp
      obtain ⟨b, rest, e1, e2⟩ := string_sound cfg cs hnu' h'
      exact ⟨.str b, parseText_of _ rfl bs rest _ (by rw [hd]; simp [parseValue, e1]) e2⟩
    · exact run_sound_scalar cfg hcm bs (by
        intro c' r e; rw [hd] at e; cases e
        exact ⟨h34, (hroot c cs hd).1, (hroot c cs hd).2⟩) h

end JsonParser
end Model
end JV
