/- lemmas for JV.Model.BigFloat (C06) -/
import JV.Model.BigFloat
import JV.Proofs.CborRoundtrip
namespace JV
namespace Model
namespace BigFloat
open Model.Cbor Spec.Cbor

theorem hexVal_hexDigit (d : Nat) (h : d < 16) : hexVal (hexDigit d) = some d := by
  unfold hexDigit hexVal
  by_cases h10 : d < 10
  · simp [h10]; omega
  · have h1 : ¬ (48 ≤ 55 + d ∧ 55 + d ≤ 57) := by omega
    have h2 : 65 ≤ 55 + d ∧ 55 + d ≤ 70 := by omega
    simp [h10, h1, h2]

/-- a rendered digit is one of 0-9, A-F -/
def IsUpperHex (c : Nat) : Prop := (48 ≤ c ∧ c ≤ 57) ∨ (65 ≤ c ∧ c ≤ 70)

theorem hexDigit_upper (d : Nat) (h : d < 16) : IsUpperHex (hexDigit d) := by
  unfold hexDigit IsUpperHex
  by_cases h10 : d < 10
  · simp [h10]; omega
  · simp [h10]; omega

theorem toHex_ne_nil (n : Nat) : toHex n ≠ [] := by
  unfold toHex
  by_cases h : n < 16 <;> simp [h]

theorem toHex_upper : ∀ (n : Nat), ∀ c ∈ toHex n, IsUpperHex c := by
  intro n
  induction n using Nat.strongRecOn with
  | _ n ih =>
    intro c hc
    unfold toHex at hc
    by_cases h : n < 16
    · simp [h] at hc; subst hc; exact hexDigit_upper n h
    · simp [h] at hc
      cases hc with
      | inl h1 => exact ih (n / 16) (by omega) c h1
      | inr h1 => subst h1; exact hexDigit_upper _ (by omega)

theorem ofHexAcc_append : ∀ (xs ys : Bytes) (acc : Nat),
    ofHexAcc acc (xs ++ ys) = (ofHexAcc acc xs).bind (fun a => ofHexAcc a ys)
  | [], ys, acc => by simp [ofHexAcc]
  | c :: cs, ys, acc => by
    simp only [List.cons_append, ofHexAcc]
    cases hexVal c with
    | none => simp
    | some d => simp [ofHexAcc_append cs ys]

theorem ofHexAcc_toHex : ∀ (n : Nat), ofHexAcc 0 (toHex n) = some n := by
  intro n
  induction n using Nat.strongRecOn with
  | _ n ih =>
    unfold toHex
    by_cases h : n < 16
    · simp [h, ofHexAcc, hexVal_hexDigit n h]
    · simp only [h, dite_false]
      rw [ofHexAcc_append, ih (n / 16) (by omega)]
      simp [ofHexAcc, hexVal_hexDigit (n % 16) (by omega)]
      omega

theorem ofHex_toHex (n : Nat) : ofHex (toHex n) = some n := by
  unfold ofHex; simp [toHex_ne_nil, ofHexAcc_toHex]

theorem splitP_append (xs ys : Bytes) (h : ∀ c ∈ xs, IsUpperHex c) : splitP (xs ++ 112 :: ys) = (xs, some ys) := by
  induction xs with
  | nil => simp [splitP]
  | cons c cs ih =>
    have hc : IsUpperHex c := h c (by simp)
    have h1 : ¬ (c = 112 ∨ c = 80) := by unfold IsUpperHex at hc; omega
    have := ih (fun d hd => h d (by simp [hd]))
    simp [splitP, h1, this]

theorem parseExp_unsigned (c : Nat) (cs : Bytes) (h43 : c ≠ 43) (h45 : c ≠ 45) :
    parseExp (some (c :: cs)) = (ofHexAcc 0 (c :: cs)).map (fun n => (n : Int)) := by
  unfold parseExp
  split
  · rename_i h; cases h
  · rename_i h; cases h
  · rename_i ds h; injection h with h; injection h with h1 _; exact absurd h1 h43
  · rename_i ds h; injection h with h; injection h with h1 _; exact absurd h1 h45
  · rename_i ds _ _ _ _ h; injection h with h; subst h; rfl

theorem parseExp_render (e : Int) :
    parseExp (some ((if e < 0 then [45] else []) ++ toHex e.natAbs)) = some e := by
  by_cases he : e < 0
  · simp only [he, if_true, List.singleton_append]
    simp [parseExp, ofHex_toHex]; omega
  · simp only [he, if_false, List.nil_append]
    cases hx : toHex e.natAbs with
    | nil => exact absurd hx (toHex_ne_nil _)
    | cons c cs =>
      have hu : IsUpperHex c := toHex_upper e.natAbs c (by simp [hx])
      have h43 : c ≠ 43 := by unfold IsUpperHex at hu; omega
      have h45 : c ≠ 45 := by unfold IsUpperHex at hu; omega
      have hv := ofHexAcc_toHex e.natAbs
      rw [hx] at hv
      rw [parseExp_unsigned c cs h43 h45, hv]
      simp; omega

theorem signed_natAbs (m : Int) : signed (decide (m < 0)) m.natAbs = m := by
  unfold signed
  by_cases h : m < 0 <;> simp [h] <;> omega

/-- what the decoder renders, the encoder's parser reads back as the same pair -/
theorem parse_render (m e : Int) : parse (render m e) = some (m, e) := by
  have hsplit : splitP (toHex m.natAbs ++ 112 :: ((if e < 0 then [45] else []) ++ toHex e.natAbs))
      = (toHex m.natAbs, some ((if e < 0 then [45] else []) ++ toHex e.natAbs)) :=
    splitP_append _ _ (toHex_upper _)
  by_cases hm : m < 0
  · have hs : signed true m.natAbs = m := by have := signed_natAbs m; simpa [hm] using this
    simp [render, parse, hm, hsplit, ofHex_toHex, parseExp_render, hs]
  · have hs : signed false m.natAbs = m := by have := signed_natAbs m; simpa [hm] using this
    simp [render, parse, hm, hsplit, ofHex_toHex, parseExp_render, hs]

/-! ### bytes -/

theorem beVal_append_single (xs : Bytes) (b : Nat) : beVal (xs ++ [b]) = beVal xs * 256 + b := by
  induction xs with
  | nil => simp [beVal]
  | cons x xs ih =>
    simp only [List.cons_append, beVal, ih, List.length_append, List.length_singleton]
    rw [Nat.pow_succ]
    rw [Nat.add_mul, Nat.mul_assoc]; omega

theorem beVal_beMag : ∀ (n : Nat), beVal (beMag n) = n := by
  intro n
  induction n using Nat.strongRecOn with
  | _ n ih =>
    unfold beMag
    by_cases h : n < 256
    · simp [h, beVal]
    · simp only [h, dite_false]
      rw [beVal_append_single, ih (n / 256) (by omega)]; omega

theorem fits_lo {v : Int} (h : fitsInt64 v = true) : -(2 ^ 63 : Int) ≤ v ∧ v < (2 ^ 63 : Int) := by
  simpa [fitsInt64] using h

theorem readInt_writeInt (v : Int) (h : fitsInt64 v = true) (rest : Bytes) : readInt (writeInt v ++ rest) = some (v, rest) := by
  have hb := fits_lo h
  unfold writeInt
  by_cases hv : v ≥ 0
  · obtain ⟨ib, tail, h1, h2, _, h4⟩ := head_read 0 v.toNat (by omega) (by omega) rest
    simp only [hv, if_true, h1, readInt, h2, h4]
    simp; omega
  · obtain ⟨ib, tail, h1, h2, _, h4⟩ := head_read 1 (-1 - v).toNat (by omega) (by omega) rest
    have hne : ¬ (1 = 0) := by omega
    simp only [hv, if_false, h1, readInt, h2, h4]
    simp; omega

/-- an integer item never starts with the bignum tags, so the mantissa reader falls through to the integer reader -/
theorem readMantissa_writeInt (v : Int) (h : fitsInt64 v = true) (rest : Bytes) :
    readMantissa (writeInt v ++ rest) = some (v, rest) := by
  have hb := fits_lo h
  have hr := readInt_writeInt v h rest
  have hhead : ∃ ib tail, writeInt v ++ rest = ib :: tail ∧ ib < 64 := by
    unfold writeInt
    by_cases hv : v ≥ 0
    · obtain ⟨ib, tail, h1, h2, _, _⟩ := head_read 0 v.toNat (by omega) (by omega) rest
      exact ⟨ib, tail, by simp [hv, h1], by omega⟩
    · obtain ⟨ib, tail, h1, h2, _, _⟩ := head_read 1 (-1 - v).toNat (by omega) (by omega) rest
      exact ⟨ib, tail, by simp [hv, h1], by omega⟩
  obtain ⟨ib, tail, h1, h2⟩ := hhead
  rw [h1] at hr ⊢
  unfold readMantissa
  split
  · rename_i h; injection h with h _; omega
  · rename_i h; injection h with h _; omega
  · exact hr

theorem readMantissa_bignum (m : Int) (hlen : (beMag (if m ≥ 0 then m.toNat else (-1 - m).toNat)).length < 2 ^ 64) (rest : Bytes) :
    readMantissa (writeBignum m ++ rest) = some (m, rest) := by
  unfold writeBignum
  by_cases hm : m ≥ 0
  · simp only [hm, if_true] at hlen ⊢
    obtain ⟨ib, tail, h1, h2, _, h4⟩ := head_read 2 (beMag m.toNat).length (by omega) hlen (beMag m.toNat ++ rest)
    have : (0xc2 :: (writeHead 2 (beMag m.toNat).length ++ beMag m.toNat)) ++ rest = 0xc2 :: ib :: tail := by
      simp [← h1]
    rw [this]
    simp [readMantissa, h2, h4, beVal_beMag]; omega
  · simp only [hm, if_false] at hlen ⊢
    obtain ⟨ib, tail, h1, h2, _, h4⟩ := head_read 2 (beMag (-1 - m).toNat).length (by omega) hlen (beMag (-1 - m).toNat ++ rest)
    have : (0xc3 :: (writeHead 2 (beMag (-1 - m).toNat).length ++ beMag (-1 - m).toNat)) ++ rest = 0xc3 :: ib :: tail := by
      simp [← h1]
    rw [this]
    simp [readMantissa, h2, h4, beVal_beMag]; omega

end BigFloat
end Model
end JV
