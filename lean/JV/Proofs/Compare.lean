import JV.Model.Compare
namespace JV
namespace Model
namespace Compare

theorem toU64_nonneg {v : Int} (h0 : 0 ≤ v) (h1 : v < 2 ^ 63) : (toU64 v : Int) = v := by
  unfold toU64
  have : v % (2 ^ 64 : Int) = v := Int.emod_eq_of_lt h0 (by omega)
  rw [this]
  exact Int.toNat_of_nonneg h0

/-- the comparison is the order of the stored numbers -/
theorem compare_spec (a b : Stored) (ha : a.WF) (hb : b.WF) :
    compareStored a b = (if a.val = b.val then 0 else if a.val < b.val then -1 else 1) := by
  cases a with
  | i64 x =>
    cases b with
    | i64 y =>
      simp only [compareStored, Stored.val]
      by_cases h : x = y <;> by_cases h' : x < y <;> simp [h, h']
    | u64 y =>
      simp only [compareStored, Stored.val]
      by_cases hx : x < 0
      · have h1 : ¬ (x = (y : Int)) := by omega
        have h2 : x < (y : Int) := by omega
        simp [hx, h1, h2]
      · have hx0 : 0 ≤ x := by omega
        have e := toU64_nonneg hx0 ha.2
        simp only [hx, if_false]
        by_cases h1 : toU64 x = y
        · have hxy : x = (y : Int) := by omega
          simp only [h1, if_true]
          simp [hxy]
        · have hne : ¬ (x = (y : Int)) := by omega
          by_cases h2 : toU64 x < y
          · have : x < (y : Int) := by omega
            simp [h1, h2, hne, this]
          · have : ¬ (x < (y : Int)) := by omega
            simp [h1, h2, hne, this]
  | u64 x =>
    cases b with
    | i64 y =>
      simp only [compareStored, Stored.val]
      by_cases hy : y < 0
      · have h1 : ¬ ((x : Int) = y) := by omega
        have h2 : ¬ ((x : Int) < y) := by omega
        simp [hy, h1, h2]
      · have hy0 : 0 ≤ y := by omega
        have e := toU64_nonneg hy0 hb.2
        simp only [hy, if_false]
        by_cases h1 : x = toU64 y
        · have hxy : (x : Int) = y := by omega
          rw [if_pos h1]
          subst h1
          simp [e]
        · have hne : ¬ ((x : Int) = y) := by omega
          by_cases h2 : x < toU64 y
          · have : (x : Int) < y := by omega
            simp [h1, h2, hne, this]
          · have : ¬ ((x : Int) < y) := by omega
            simp [h1, h2, hne, this]
    | u64 y =>
      simp only [compareStored, Stored.val]
      by_cases h1 : x = y
      · simp [h1]
      · have : ¬ ((x : Int) = (y : Int)) := by omega
        by_cases h2 : x < y
        · have : (x : Int) < (y : Int) := by omega
          simp [h1, h2, *]
        · have : ¬ ((x : Int) < (y : Int)) := by omega
          simp [h1, h2, *]

end Compare
end Model
end JV
