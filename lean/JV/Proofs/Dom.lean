/-
  JV.Proofs.Dom — object primitives are finite-map operations and keep the representation invariant.
-/
import JV.Proofs.Assoc
import JV.Model.Dom
namespace JV
namespace Model
open Assoc

theorem find_replaceVal_self' {k : Bytes} {v : JVal} : ∀ {ms : List (Bytes × JVal)} {x : JVal}, find k ms = some x →
    find k (replaceVal k v ms) = some v
  | [], _, h => by simp [find] at h
  | (k', v') :: ms, x, h => by
    simp only [find] at h
    by_cases e : k' = k
    · simp [replaceVal, e, find]
    · simp only [e, if_false] at h
      simp [replaceVal, e, find, find_replaceVal_self' h]

theorem find_replaceVal_ne {k k' : Bytes} {v : JVal} (hne : k' ≠ k) : ∀ {ms : List (Bytes × JVal)},
    find k' (replaceVal k v ms) = find k' ms
  | [] => rfl
  | (k'', v') :: ms => by
    by_cases e : k'' = k
    · have : k'' ≠ k' := fun e' => hne (e'.symm.trans e)
      simp [replaceVal, e, find]
      rw [← e]; simp [this]
    · simp only [replaceVal, e, if_false, find]
      by_cases e' : k'' = k'
      · simp [e']
      · simp only [e', if_false]; exact find_replaceVal_ne hne

theorem keys_replaceVal (k : Bytes) (v : JVal) : ∀ (ms : List (Bytes × JVal)), keys (replaceVal k v ms) = keys ms
  | [] => rfl
  | (k', v') :: ms => by
    by_cases e : k' = k
    · simp [replaceVal, e, keys]
    · simp [replaceVal, e, keys]
      exact keys_replaceVal k v ms

theorem sorted_of_keys_eq {α β : Type} : ∀ {a : List (Bytes × α)} {b : List (Bytes × β)}, keys a = keys b → Sorted a → Sorted b
  | [], [], _, _ => trivial
  | [], _ :: _, h, _ => by simp [keys] at h
  | _ :: _, [], h, _ => by simp [keys] at h
  | [(k, _)], [(k', _)], _, _ => trivial
  | [(_, _)], _ :: _ :: _, h, _ => by simp [keys] at h
  | _ :: _ :: _, [(_, _)], h, _ => by simp [keys] at h
  | (k1, _) :: (k2, v2) :: as, (l1, _) :: (l2, w2) :: bs, h, hs => by
    simp only [keys, List.map_cons, List.cons.injEq] at h
    obtain ⟨e1, e2, e3⟩ := h
    subst e1; subst e2
    exact ⟨hs.1, sorted_of_keys_eq (a := (k2, v2) :: as) (b := (k2, w2) :: bs) (by simp [keys, e3]) hs.2⟩

theorem sorted_replaceVal {k : Bytes} {v : JVal} {ms : List (Bytes × JVal)} (hs : Sorted ms) : Sorted (replaceVal k v ms) :=
  sorted_of_keys_eq (keys_replaceVal k v ms).symm hs

/-- `insert_or_assign` on a sorted object: the invariant holds afterwards and the object is the updated map -/
theorem insertOrAssign_map (k : Bytes) (v : JVal) (ms : List (Bytes × JVal)) (hs : Sorted ms) :
    Sorted (insertOrAssign false k v ms) ∧ find k (insertOrAssign false k v ms) = some v ∧
      ∀ k', k' ≠ k → find k' (insertOrAssign false k v ms) = find k' ms := by
  unfold insertOrAssign
  cases h : find k ms with
  | some x =>
    exact ⟨sorted_replaceVal hs, find_replaceVal_self' h, fun k' hne => find_replaceVal_ne hne⟩
  | none =>
    simp only [Bool.false_eq_true, if_false]
    exact ⟨sorted_insertSorted hs h, find_insertSorted_self, fun k' hne => find_insertSorted_ne hne⟩

/-- `try_emplace`: inserts when absent, otherwise leaves the object exactly as it was -/
theorem tryEmplace_map (k : Bytes) (v : JVal) (ms : List (Bytes × JVal)) (hs : Sorted ms) :
    Sorted (tryEmplace false k v ms) ∧
      find k (tryEmplace false k v ms) = some ((find k ms).getD v) ∧
      ∀ k', k' ≠ k → find k' (tryEmplace false k v ms) = find k' ms := by
  unfold tryEmplace
  cases h : find k ms with
  | some x => exact ⟨hs, by simp [h], fun _ _ => rfl⟩
  | none =>
    simp only [Bool.false_eq_true, if_false]
    exact ⟨sorted_insertSorted hs h, by simp [find_insertSorted_self], fun k' hne => find_insertSorted_ne hne⟩

/-- `erase(key)`: the key is gone, every other member untouched, invariant kept -/
theorem erase_map (k : Bytes) (ms : List (Bytes × JVal)) (hs : Sorted ms) :
    Sorted (erase k ms) ∧ find k (erase k ms) = none ∧ ∀ k', k' ≠ k → find k' (erase k ms) = find k' ms :=
  ⟨sorted_erase hs, find_erase_self hs, fun _ hne => find_erase_ne hne⟩

/-- range insert / merge: existing members win, new keys arrive once (first occurrence), invariant kept -/
theorem mergeInto_sorted : ∀ (src ms : List (Bytes × JVal)), Sorted ms → Sorted (Dom.mergeInto false ms src)
  | [], ms, hs => by simpa [Dom.mergeInto] using hs
  | (k, v) :: src, ms, hs => by
    simp only [Dom.mergeInto]
    exact mergeInto_sorted src _ (tryEmplace_map k v ms hs).1

theorem mergeInto_keeps_existing (k : Bytes) (x : JVal) : ∀ (src ms : List (Bytes × JVal)), Sorted ms → find k ms = some x →
    find k (Dom.mergeInto false ms src) = some x
  | [], ms, _, h => by simpa [Dom.mergeInto] using h
  | (k0, v0) :: src, ms, hs, h => by
    simp only [Dom.mergeInto]
    have hm := tryEmplace_map k0 v0 ms hs
    apply mergeInto_keeps_existing k x src _ hm.1
    by_cases e : k = k0
    · subst e; rw [hm.2.1, h]; rfl
    · rw [hm.2.2 k e]; exact h

theorem not_mem_keys_of_allGt {α : Type} {k : Bytes} : ∀ {ms : List (Bytes × α)}, AllGt k ms → k ∉ keys ms
  | [], _ => by simp [keys]
  | (k', _) :: ms, h => by
    simp only [keys, List.map_cons, List.mem_cons, not_or]
    exact ⟨keyLt_ne h.1, by simpa [keys] using not_mem_keys_of_allGt h.2⟩

theorem sorted_nodup {α : Type} : ∀ {ms : List (Bytes × α)}, Sorted ms → (keys ms).Nodup
  | [], _ => by simp [keys]
  | (k, v) :: ms, h => by
    simp only [keys, List.map_cons, List.nodup_cons]
    exact ⟨by simpa [keys] using not_mem_keys_of_allGt (Sorted.allGt h), by simpa [keys] using sorted_nodup (Sorted.tail h)⟩

end Model
end JV
