/-
  JV.Proofs.CborParserFuel — the fuel of the cbor_parser model (JV.Model.CborParser) is adequate.

  1. CONSUMPTION: every reader that succeeds has consumed input — `item` / `itemsIndef` / `membersIndef` / `readChunks` at least one
     byte, `items` / `members` (which may be asked for zero elements) never give bytes back (`consumes_all`).
  2. NO OUT-OF-FUEL: with fuel ≥ 2·|s|+1 `item` never answers `Fail.fuel`, with fuel ≥ 2·|s|+2 neither do the four list readers, with
     fuel ≥ |s|+1 neither does `readChunks` (`nofuel_all`). `decode` supplies 2·|s|+2 (`decode_ne_fuel`).
  Not proved here: that a result other than `Fail.fuel` is the same at every larger fuel (fuel irrelevance above the bound).
-/
import JV.Model.CborParser
namespace JV.Model.CborParser
open JV
set_option linter.unusedSimpArgs false
set_option linter.unusedVariables false

/-! ### the leaf readers -/

theorem readBE_len {w : Nat} {s : Bytes} {n : Nat} {r : Bytes} (h : readBE w s = .ok n r) : r.length ≤ s.length := by
  unfold readBE at h
  split at h
  · cases h
  · injection h with h1 h2; subst h2; simp

theorem readBE_ne_fuel (w : Nat) (s : Bytes) : readBE w s ≠ .fail .fuel := by
  unfold readBE; split <;> simp

theorem readUint64_len {s : Bytes} {n : Nat} {r : Bytes} (h : readUint64 s = .ok n r) : r.length < s.length := by
  cases s with
  | nil => simp [readUint64] at h
  | cons ib s =>
    simp only [readUint64] at h
    (repeat' split at h) <;> first
      | (have := readBE_len h; simp only [List.length_cons]; omega)
      | (injection h with h1 h2; subst h2; simp; done)
      | cases h

theorem readUint64_ne_fuel (s : Bytes) : readUint64 s ≠ .fail .fuel := by
  cases s with
  | nil => simp [readUint64]
  | cons ib s =>
    simp only [readUint64]
    (repeat' split) <;> first | exact readBE_ne_fuel _ _ | (simp; done)

theorem readInt64_len {s : Bytes} {n : Int} {r : Bytes} (h : readInt64 s = .ok n r) : r.length < s.length := by
  cases s with
  | nil => simp [readInt64] at h
  | cons ib s =>
    simp only [readInt64] at h
    (repeat' split at h) <;> first
      | (injection h with h1 h2; subst h2; have := readBE_len ‹readBE _ _ = Res.ok _ _›; simp only [List.length_cons]; omega)
      | (injection h with h1 h2; subst h2; simp; done)
      | cases h

theorem readInt64_ne_fuel (s : Bytes) : readInt64 s ≠ .fail .fuel := by
  cases s with
  | nil => simp [readInt64]
  | cons ib s =>
    simp only [readInt64]
    (repeat' split) <;> first
      | (intro h; injection h with h; subst h; exact readBE_ne_fuel _ _ ‹readBE _ _ = Res.fail _›)
      | (simp; done)

theorem readDouble_len {s : Bytes} {n : Nat} {r : Bytes} (h : readDouble s = .ok n r) : r.length < s.length := by
  cases s with
  | nil => simp [readDouble] at h
  | cons ib s =>
    simp only [readDouble] at h
    (repeat' split at h) <;> first
      | (have := readBE_len h; simp only [List.length_cons]; omega)
      | (injection h with h1 h2; subst h2; have := readBE_len ‹readBE _ _ = Res.ok _ _›; simp only [List.length_cons]; omega)
      | (injection h with h1 h2; subst h2; simp; done)
      | cases h

theorem readDouble_ne_fuel (s : Bytes) : readDouble s ≠ .fail .fuel := by
  cases s with
  | nil => simp [readDouble]
  | cons ib s =>
    simp only [readDouble]
    (repeat' split) <;> first
      | exact readBE_ne_fuel _ _
      | (intro h; injection h with h; subst h; exact readBE_ne_fuel _ _ ‹readBE _ _ = Res.fail _›)
      | (simp; done)

theorem readChunks_len (major : Nat) : ∀ (fuel : Nat) (s : Bytes) (b r : Bytes), readChunks major fuel s = .ok b r → r.length < s.length := by
  intro fuel
  induction fuel with
  | zero => intro s b r h; simp [readChunks] at h
  | succ fuel ih =>
    intro s b r h
    cases s with
    | nil => simp [readChunks] at h
    | cons ib s =>
      simp only [readChunks, readSize] at h
      (repeat' split at h) <;> first
        | (injection h with h1 h2; subst h2; simp; done)
        | (injection h with h1 h2; subst h2
           have h1 := readUint64_len ‹readUint64 _ = Res.ok _ _›
           have h2 := ih _ _ _ ‹readChunks _ _ _ = Res.ok _ _›
           simp only [List.length_cons, List.length_drop] at *; omega)
        | cases h

theorem readChunks_ne_fuel (major : Nat) : ∀ (fuel : Nat) (s : Bytes), s.length + 1 ≤ fuel → readChunks major fuel s ≠ .fail .fuel := by
  intro fuel
  induction fuel with
  | zero => intro s h; omega
  | succ fuel ih =>
    intro s hf
    cases s with
    | nil => simp [readChunks]
    | cons ib s =>
      simp only [readChunks, readSize]
      (repeat' split) <;> first
        | (intro h; injection h with h; subst h; exact readUint64_ne_fuel _ ‹readUint64 _ = Res.fail _›)
        | (intro h; injection h with h; subst h
           have h1 := readUint64_len ‹readUint64 _ = Res.ok _ _›
           refine ih _ ?_ ‹readChunks _ _ _ = Res.fail _›
           simp only [List.length_cons, List.length_drop] at *; omega)
        | (simp; done)

theorem readString_len {major fuel ib : Nat} {s b r : Bytes} (h : readString major fuel ib s = .ok b r) : r.length ≤ s.length := by
  simp only [readString, readSize] at h
  (repeat' split at h) <;> first
    | exact Nat.le_of_lt (readChunks_len _ _ _ _ _ h)
    | (injection h with h1 h2; subst h2
       have h1 := readUint64_len ‹readUint64 _ = Res.ok _ _›
       simp only [List.length_cons, List.length_drop] at *; omega)
    | cases h

theorem readString_ne_fuel {major fuel ib : Nat} {s : Bytes} (hf : s.length + 1 ≤ fuel) : readString major fuel ib s ≠ .fail .fuel := by
  simp only [readString, readSize]
  (repeat' split) <;> first
    | exact readChunks_ne_fuel _ _ _ hf
    | (intro h; injection h with h; subst h; exact readUint64_ne_fuel _ ‹readUint64 _ = Res.fail _›)
    | (simp; done)

/-! ### 1. every successful reader consumes input -/

/-- collect what the leaf readers consumed and let `omega` conclude -/
macro "len_close" : tactic => `(tactic| (
  try (have := readUint64_len ‹readUint64 _ = Res.ok _ _›)
  try (have := readInt64_len ‹readInt64 _ = Res.ok _ _›)
  try (have := readDouble_len ‹readDouble _ = Res.ok _ _›)
  try (have := readString_len ‹readString _ _ _ _ = Res.ok _ _›)
  try simp only [List.length_cons] at *
  omega))

section consume
variable (maxD fuel : Nat)

theorem item_consumes_step
    (hL : ∀ d n s v r, items maxD fuel d n s = .ok v r → r.length ≤ s.length)
    (hLI : ∀ d s v r, itemsIndef maxD fuel d s = .ok v r → r.length < s.length)
    (hM : ∀ d n s v r, members maxD fuel d n s = .ok v r → r.length ≤ s.length)
    (hMI : ∀ d s v r, membersIndef maxD fuel d s = .ok v r → r.length < s.length) :
    ∀ d s v r, item maxD (fuel + 1) d s = .ok v r → r.length < s.length := by
  intro d s v r h
  cases s with
  | nil => simp [item] at h
  | cons ib s =>
    rcases (by omega : ib / 32 = 0 ∨ ib / 32 = 1 ∨ ib / 32 = 2 ∨ ib / 32 = 3 ∨ ib / 32 = 4 ∨ ib / 32 = 5 ∨ ib / 32 = 6 ∨ ib / 32 = 7 ∨ 8 ≤ ib / 32)
      with hm | hm | hm | hm | hm | hm | hm | hm | hm
    all_goals first
      | (have e : ¬ ib / 32 = 0 ∧ ¬ ib / 32 = 1 ∧ ¬ ib / 32 = 2 ∧ ¬ ib / 32 = 3 ∧ ¬ ib / 32 = 4 ∧ ¬ ib / 32 = 5 ∧ ¬ ib / 32 = 6 ∧ ¬ ib / 32 = 7 := by omega
         simp [item, e] at h; done)
      | simp only [item, readSize, hm, if_true, if_false, Nat.reduceEqDiff] at h
    all_goals (repeat' split at h) <;> first
      | (injection h with h1 h2; subst h2; simp; done)
      | (injection h with h1 h2; subst h2
         try (have := hL _ _ _ _ _ ‹items _ _ _ _ _ = Res.ok _ _›)
         try (have := hLI _ _ _ _ ‹itemsIndef _ _ _ _ = Res.ok _ _›)
         try (have := hM _ _ _ _ _ ‹members _ _ _ _ _ = Res.ok _ _›)
         try (have := hMI _ _ _ _ ‹membersIndef _ _ _ _ = Res.ok _ _›)
         len_close)
      | cases h

variable (hI : ∀ d s v r, item maxD fuel d s = .ok v r → r.length < s.length)

include hI in
theorem items_consumes_step (hL : ∀ d n s v r, items maxD fuel d n s = .ok v r → r.length ≤ s.length) :
    ∀ d n s v r, items maxD (fuel + 1) d n s = .ok v r → r.length ≤ s.length := by
  intro d n s v r h
  cases n with
  | zero => simp only [items] at h; injection h with h1 h2; subst h2; exact Nat.le_refl _
  | succ n =>
    simp only [items] at h
    cases h1 : item maxD fuel d s with
    | fail f => simp [h1] at h
    | ok x s1 =>
      cases h2 : items maxD fuel d n s1 with
      | fail f => simp [h1, h2] at h
      | ok xs rest =>
        simp only [h1, h2] at h
        injection h with h3 h4; subst h4
        have := hI _ _ _ _ h1
        have := hL _ _ _ _ _ h2
        omega

include hI in
theorem itemsIndef_consumes_step (hL : ∀ d s v r, itemsIndef maxD fuel d s = .ok v r → r.length < s.length) :
    ∀ d s v r, itemsIndef maxD (fuel + 1) d s = .ok v r → r.length < s.length := by
  intro d s v r h
  cases s with
  | nil => simp [itemsIndef] at h
  | cons ib s =>
    simp only [itemsIndef] at h
    by_cases hff : ib = 255
    · simp only [hff, if_true] at h; injection h with h1 h2; subst h2; simp
    · simp only [hff, if_false] at h
      cases h1 : item maxD fuel d (ib :: s) with
      | fail f => simp [h1] at h
      | ok x s1 =>
        cases h2 : itemsIndef maxD fuel d s1 with
        | fail f => simp [h1, h2] at h
        | ok xs rest =>
          simp only [h1, h2] at h
          injection h with h3 h4; subst h4
          have := hI _ _ _ _ h1
          have := hL _ _ _ _ h2
          omega

include hI in
theorem members_consumes_step (hL : ∀ d n s v r, members maxD fuel d n s = .ok v r → r.length ≤ s.length) :
    ∀ d n s v r, members maxD (fuel + 1) d n s = .ok v r → r.length ≤ s.length := by
  intro d n s v r h
  cases n with
  | zero => simp only [members] at h; injection h with h1 h2; subst h2; exact Nat.le_refl _
  | succ n =>
    simp only [members] at h
    cases h1 : item maxD fuel d s with
    | fail f => simp [h1] at h
    | ok k s1 =>
      cases h2 : item maxD fuel d s1 with
      | fail f => simp [h1, h2] at h
      | ok x s2 =>
        cases h3 : members maxD fuel d n s2 with
        | fail f => simp [h1, h2, h3] at h
        | ok xs rest =>
          simp only [h1, h2, h3] at h
          injection h with h4 h5; subst h5
          have := hI _ _ _ _ h1
          have := hI _ _ _ _ h2
          have := hL _ _ _ _ _ h3
          omega

include hI in
theorem membersIndef_consumes_step (hL : ∀ d s v r, membersIndef maxD fuel d s = .ok v r → r.length < s.length) :
    ∀ d s v r, membersIndef maxD (fuel + 1) d s = .ok v r → r.length < s.length := by
  intro d s v r h
  cases s with
  | nil => simp [membersIndef] at h
  | cons ib s =>
    simp only [membersIndef] at h
    by_cases hff : ib = 255
    · simp only [hff, if_true] at h; injection h with h1 h2; subst h2; simp
    · simp only [hff, if_false] at h
      cases h1 : item maxD fuel d (ib :: s) with
      | fail f => simp [h1] at h
      | ok k s1 =>
        cases h2 : item maxD fuel d s1 with
        | fail f => simp [h1, h2] at h
        | ok x s2 =>
          cases h3 : membersIndef maxD fuel d s2 with
          | fail f => simp [h1, h2, h3] at h
          | ok xs rest =>
            simp only [h1, h2, h3] at h
            injection h with h4 h5; subst h5
            have := hI _ _ _ _ h1
            have := hI _ _ _ _ h2
            have := hL _ _ _ _ h3
            omega

end consume

/-- every reader that succeeds has consumed input (the four list readers: `items` / `members` may be asked for zero elements) -/
theorem consumes_all (maxD : Nat) : ∀ fuel : Nat,
    (∀ d s v r, item maxD fuel d s = .ok v r → r.length < s.length) ∧
    (∀ d n s v r, items maxD fuel d n s = .ok v r → r.length ≤ s.length) ∧
    (∀ d s v r, itemsIndef maxD fuel d s = .ok v r → r.length < s.length) ∧
    (∀ d n s v r, members maxD fuel d n s = .ok v r → r.length ≤ s.length) ∧
    (∀ d s v r, membersIndef maxD fuel d s = .ok v r → r.length < s.length)
  | 0 => by
    refine ⟨?_, ?_, ?_, ?_, ?_⟩
    · intro d s v r h; simp [item] at h
    · intro d n s v r h; cases n with
      | zero => simp only [items] at h; injection h with h1 h2; subst h2; exact Nat.le_refl _
      | succ n => simp [items] at h
    · intro d s v r h; simp [itemsIndef] at h
    · intro d n s v r h; cases n with
      | zero => simp only [members] at h; injection h with h1 h2; subst h2; exact Nat.le_refl _
      | succ n => simp [members] at h
    · intro d s v r h; simp [membersIndef] at h
  | fuel + 1 => by
    obtain ⟨hI, hL, hLI, hM, hMI⟩ := consumes_all maxD fuel
    exact ⟨item_consumes_step maxD fuel hL hLI hM hMI, items_consumes_step maxD fuel hI hL, itemsIndef_consumes_step maxD fuel hI hLI,
      members_consumes_step maxD fuel hI hM, membersIndef_consumes_step maxD fuel hI hMI⟩

theorem item_consumes {maxD fuel d : Nat} {s : Bytes} {v : Item} {r : Bytes} (h : item maxD fuel d s = .ok v r) : r.length < s.length :=
  (consumes_all maxD fuel).1 d s v r h

/-! ### 2. the fuel never runs out -/

section nofuel
variable (maxD fuel : Nat)

theorem item_nofuel_step
    (hL : ∀ d n s, 2 * s.length + 2 ≤ fuel → items maxD fuel d n s ≠ .fail .fuel)
    (hLI : ∀ d s, 2 * s.length + 2 ≤ fuel → itemsIndef maxD fuel d s ≠ .fail .fuel)
    (hM : ∀ d n s, 2 * s.length + 2 ≤ fuel → members maxD fuel d n s ≠ .fail .fuel)
    (hMI : ∀ d s, 2 * s.length + 2 ≤ fuel → membersIndef maxD fuel d s ≠ .fail .fuel) :
    ∀ d s, 2 * s.length + 1 ≤ fuel + 1 → item maxD (fuel + 1) d s ≠ .fail .fuel := by
  intro d s hf
  cases s with
  | nil => simp [item]
  | cons ib s =>
    simp only [List.length_cons] at hf
    rcases (by omega : ib / 32 = 0 ∨ ib / 32 = 1 ∨ ib / 32 = 2 ∨ ib / 32 = 3 ∨ ib / 32 = 4 ∨ ib / 32 = 5 ∨ ib / 32 = 6 ∨ ib / 32 = 7 ∨ 8 ≤ ib / 32)
      with hm | hm | hm | hm | hm | hm | hm | hm | hm
    all_goals first
      | (have e : ¬ ib / 32 = 0 ∧ ¬ ib / 32 = 1 ∧ ¬ ib / 32 = 2 ∧ ¬ ib / 32 = 3 ∧ ¬ ib / 32 = 4 ∧ ¬ ib / 32 = 5 ∧ ¬ ib / 32 = 6 ∧ ¬ ib / 32 = 7 := by omega
         simp [item, e]; done)
      | simp only [item, readSize, hm, if_true, if_false, Nat.reduceEqDiff]
    all_goals (repeat' split) <;> first
      | (intro h; injection h with h; subst h
         first
           | exact readUint64_ne_fuel _ ‹readUint64 _ = Res.fail _›
           | exact readInt64_ne_fuel _ ‹readInt64 _ = Res.fail _›
           | exact readDouble_ne_fuel _ ‹readDouble _ = Res.fail _›
           | (have h' := ‹readString _ _ _ _ = Res.fail _›; exact readString_ne_fuel (by omega) h')
           | (have h' := ‹itemsIndef _ _ _ _ = Res.fail _›; exact hLI _ _ (by omega) h')
           | (have h' := ‹membersIndef _ _ _ _ = Res.fail _›; exact hMI _ _ (by omega) h')
           | (have := readUint64_len ‹readUint64 _ = Res.ok _ _›
              have h' := ‹items _ _ _ _ _ = Res.fail _›
              exact hL _ _ _ (by simp only [List.length_cons] at *; omega) h')
           | (have := readUint64_len ‹readUint64 _ = Res.ok _ _›
              have h' := ‹members _ _ _ _ _ = Res.fail _›
              exact hM _ _ _ (by simp only [List.length_cons] at *; omega) h'))
      | (simp; done)

variable (hI : ∀ d s, 2 * s.length + 1 ≤ fuel → item maxD fuel d s ≠ .fail .fuel)

include hI in
theorem items_nofuel_step (hL : ∀ d n s, 2 * s.length + 2 ≤ fuel → items maxD fuel d n s ≠ .fail .fuel) :
    ∀ d n s, 2 * s.length + 2 ≤ fuel + 1 → items maxD (fuel + 1) d n s ≠ .fail .fuel := by
  intro d n s hf
  cases n with
  | zero => simp [items]
  | succ n =>
    simp only [items]
    cases h1 : item maxD fuel d s with
    | fail f => simp only []; intro h; injection h with h; subst h; exact hI d s (by omega) h1
    | ok x s1 =>
      simp only []
      have := item_consumes h1
      cases h2 : items maxD fuel d n s1 with
      | fail f => simp only []; intro h; injection h with h; subst h; exact hL d n s1 (by omega) h2
      | ok xs rest => simp

include hI in
theorem itemsIndef_nofuel_step (hL : ∀ d s, 2 * s.length + 2 ≤ fuel → itemsIndef maxD fuel d s ≠ .fail .fuel) :
    ∀ d s, 2 * s.length + 2 ≤ fuel + 1 → itemsIndef maxD (fuel + 1) d s ≠ .fail .fuel := by
  intro d s hf
  cases s with
  | nil => simp [itemsIndef]
  | cons ib s =>
    simp only [itemsIndef]
    by_cases hff : ib = 255
    · simp [hff]
    · simp only [hff, if_false]
      cases h1 : item maxD fuel d (ib :: s) with
      | fail f => simp only []; intro h; injection h with h; subst h; exact hI d _ (by omega) h1
      | ok x s1 =>
        simp only []
        have := item_consumes h1
        cases h2 : itemsIndef maxD fuel d s1 with
        | fail f => simp only []; intro h; injection h with h; subst h; exact hL d s1 (by omega) h2
        | ok xs rest => simp

include hI in
theorem members_nofuel_step (hL : ∀ d n s, 2 * s.length + 2 ≤ fuel → members maxD fuel d n s ≠ .fail .fuel) :
    ∀ d n s, 2 * s.length + 2 ≤ fuel + 1 → members maxD (fuel + 1) d n s ≠ .fail .fuel := by
  intro d n s hf
  cases n with
  | zero => simp [members]
  | succ n =>
    simp only [members]
    cases h1 : item maxD fuel d s with
    | fail f => simp only []; intro h; injection h with h; subst h; exact hI d s (by omega) h1
    | ok k s1 =>
      simp only []
      have := item_consumes h1
      cases h2 : item maxD fuel d s1 with
      | fail f => simp only []; intro h; injection h with h; subst h; exact hI d s1 (by omega) h2
      | ok x s2 =>
        simp only []
        have := item_consumes h2
        cases h3 : members maxD fuel d n s2 with
        | fail f => simp only []; intro h; injection h with h; subst h; exact hL d n s2 (by omega) h3
        | ok xs rest => simp

include hI in
theorem membersIndef_nofuel_step (hL : ∀ d s, 2 * s.length + 2 ≤ fuel → membersIndef maxD fuel d s ≠ .fail .fuel) :
    ∀ d s, 2 * s.length + 2 ≤ fuel + 1 → membersIndef maxD (fuel + 1) d s ≠ .fail .fuel := by
  intro d s hf
  cases s with
  | nil => simp [membersIndef]
  | cons ib s =>
    simp only [membersIndef]
    by_cases hff : ib = 255
    · simp [hff]
    · simp only [hff, if_false]
      cases h1 : item maxD fuel d (ib :: s) with
      | fail f => simp only []; intro h; injection h with h; subst h; exact hI d _ (by omega) h1
      | ok k s1 =>
        simp only []
        have := item_consumes h1
        cases h2 : item maxD fuel d s1 with
        | fail f => simp only []; intro h; injection h with h; subst h; exact hI d s1 (by omega) h2
        | ok x s2 =>
          simp only []
          have := item_consumes h2
          cases h3 : membersIndef maxD fuel d s2 with
          | fail f => simp only []; intro h; injection h with h; subst h; exact hL d s2 (by omega) h3
          | ok xs rest => simp

end nofuel

/-- with fuel ≥ 2·|s|+1 (`item`) resp. 2·|s|+2 (the list readers) the answer is never `Fail.fuel` -/
theorem nofuel_all (maxD : Nat) : ∀ fuel : Nat,
    (∀ d s, 2 * s.length + 1 ≤ fuel → item maxD fuel d s ≠ .fail .fuel) ∧
    (∀ d n s, 2 * s.length + 2 ≤ fuel → items maxD fuel d n s ≠ .fail .fuel) ∧
    (∀ d s, 2 * s.length + 2 ≤ fuel → itemsIndef maxD fuel d s ≠ .fail .fuel) ∧
    (∀ d n s, 2 * s.length + 2 ≤ fuel → members maxD fuel d n s ≠ .fail .fuel) ∧
    (∀ d s, 2 * s.length + 2 ≤ fuel → membersIndef maxD fuel d s ≠ .fail .fuel)
  | 0 => by
    refine ⟨?_, ?_, ?_, ?_, ?_⟩ <;> intros <;> omega
  | fuel + 1 => by
    obtain ⟨hI, hL, hLI, hM, hMI⟩ := nofuel_all maxD fuel
    exact ⟨item_nofuel_step maxD fuel hL hLI hM hMI, items_nofuel_step maxD fuel hI hL, itemsIndef_nofuel_step maxD fuel hI hLI,
      members_nofuel_step maxD fuel hI hM, membersIndef_nofuel_step maxD fuel hI hMI⟩

theorem item_ne_fuel {maxD fuel d : Nat} {s : Bytes} (hf : 2 * s.length + 1 ≤ fuel) : item maxD fuel d s ≠ .fail .fuel :=
  (nofuel_all maxD fuel).1 d s hf

/-- `decode` supplies 2·|s|+2: it never runs out of fuel -/
theorem decode_ne_fuel (maxD : Nat) (s : Bytes) : decode maxD s ≠ .fail .fuel :=
  item_ne_fuel (by omega)

end JV.Model.CborParser
