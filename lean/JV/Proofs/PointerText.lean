/-
  JV.Proofs.PointerText — basic_json_pointer::parse and to_string are mutually inverse.
-/
import JV.Model.Pointer
namespace JV
namespace Model
namespace Pointer

def Live (st : PState) : Prop := st = .newToken ∨ st = .part

theorem parseLoop_live_cons {st : PState} (h : Live st) (buf : Bytes) (toks : List Bytes) (c : Nat) (cs : Bytes) :
    parseLoop st buf toks (c :: cs) =
      if c = 47 then parseLoop .part [] (toks ++ [buf]) cs
      else if c = 126 then parseLoop .escaped buf toks cs
      else parseLoop .newToken (buf ++ [c]) toks cs := by
  rcases h with h | h <;> subst h <;> simp [parseLoop]

theorem parseLoop_escapeToken : ∀ (t : Bytes) (st : PState), Live st → ∀ (buf : Bytes) (toks : List Bytes) (rest : Bytes),
    ∃ st', Live st' ∧ parseLoop st buf toks (escapeToken t ++ rest) = parseLoop st' (buf ++ t) toks rest
  | [], st, h, buf, toks, rest => ⟨st, h, by simp [escapeToken]⟩
  | c :: cs, st, h, buf, toks, rest => by
    by_cases h1 : c = 126
    · subst h1
      obtain ⟨st', hl, e⟩ := parseLoop_escapeToken cs .newToken (Or.inl rfl) (buf ++ [126]) toks rest
      refine ⟨st', hl, ?_⟩
      simp only [escapeToken, if_true, List.cons_append]
      rw [parseLoop_live_cons h]
      simp only [show (126:Nat) ≠ 47 by decide, if_false, if_true, parseLoop]
      rw [e]; simp
    · by_cases h2 : c = 47
      · subst h2
        obtain ⟨st', hl, e⟩ := parseLoop_escapeToken cs .newToken (Or.inl rfl) (buf ++ [47]) toks rest
        refine ⟨st', hl, ?_⟩
        simp only [escapeToken, show (47:Nat) ≠ 126 by decide, if_false, if_true, List.cons_append]
        rw [parseLoop_live_cons h]
        simp only [show (126:Nat) ≠ 47 by decide, if_false, if_true, parseLoop, show (49:Nat) ≠ 48 by decide]
        rw [e]; simp
      · obtain ⟨st', hl, e⟩ := parseLoop_escapeToken cs .newToken (Or.inl rfl) (buf ++ [c]) toks rest
        refine ⟨st', hl, ?_⟩
        simp only [escapeToken, h1, h2, if_false, List.cons_append]
        rw [parseLoop_live_cons h]
        simp only [h1, h2, if_false]
        rw [e]; simp

theorem finish_live {st : PState} (h : Live st) (buf : Bytes) (toks : List Bytes) :
    finish (st, buf, toks) = .ok (toks ++ [buf]) := by
  rcases h with h | h <;> subst h <;> rfl

theorem parseLoop_toString : ∀ (ts : List Bytes) (st : PState), Live st → ∀ (buf : Bytes) (toks : List Bytes),
    ∃ r, parseLoop st buf toks (toString ts) = .ok r ∧ finish r = .ok (toks ++ buf :: ts)
  | [], st, h, buf, toks => ⟨(st, buf, toks), by simp [toString, parseLoop], finish_live h buf toks⟩
  | t :: ts, st, h, buf, toks => by
    obtain ⟨st', hl, e⟩ := parseLoop_escapeToken t .part (Or.inr rfl) [] (toks ++ [buf]) (toString ts)
    obtain ⟨r, hr, hf⟩ := parseLoop_toString ts st' hl ([] ++ t) (toks ++ [buf])
    refine ⟨r, ?_, ?_⟩
    · simp only [toString]
      rw [parseLoop_live_cons h]
      simp only [if_true]
      rw [e, hr]
    · rw [hf]; simp

/-- printing a pointer and parsing it back is the identity on token lists -/
theorem parse_toString_aux (ts : List Bytes) : parse (toString ts) = .ok ts := by
  cases ts with
  | nil => simp [toString, parse]
  | cons t ts =>
    obtain ⟨st', hl, e⟩ := parseLoop_escapeToken t .newToken (Or.inl rfl) [] [] (toString ts)
    obtain ⟨r, hr, hf⟩ := parseLoop_toString ts st' hl ([] ++ t) []
    simp only [parse, toString]
    simp only [List.cons_ne_nil, if_false, parseLoop, if_true]
    rw [e, hr]
    simpa using hf

/-! ### the other direction: what was consumed is what `to_string` prints -/

theorem escapeToken_append (a b : Bytes) : escapeToken (a ++ b) = escapeToken a ++ escapeToken b := by
  induction a with
  | nil => rfl
  | cons c cs ih =>
    simp only [List.cons_append, escapeToken, ih]
    by_cases h1 : c = 126
    · simp [h1]
    · by_cases h2 : c = 47
      · simp [h2]
      · simp [h1, h2]

theorem toString_append (a b : List Bytes) : toString (a ++ b) = toString a ++ toString b := by
  induction a with
  | nil => rfl
  | cons t ts ih => simp [toString, ih]

/-- the text a loop state stands for -/
def reprOf : PState × Bytes × List Bytes → Bytes
  | (.escaped, buf, toks) => toString toks ++ 47 :: escapeToken buf ++ [126]
  | (_, buf, toks) => toString toks ++ 47 :: escapeToken buf

theorem parseLoop_repr : ∀ (rest : Bytes) (st : PState) (buf : Bytes) (toks : List Bytes) (r : PState × Bytes × List Bytes),
    st ≠ .start → parseLoop st buf toks rest = .ok r → reprOf r = reprOf (st, buf, toks) ++ rest
  | [], st, buf, toks, r, _, h => by
    simp only [parseLoop, Except.ok.injEq] at h
    subst h; simp
  | c :: cs, .start, _, _, _, hs, _ => absurd rfl hs
  | c :: cs, .escaped, buf, toks, r, _, h => by
    simp only [parseLoop] at h
    by_cases h0 : c = 48
    · subst h0
      simp only [if_true] at h
      have := parseLoop_repr cs .newToken _ toks r (by decide) h
      rw [this]
      simp [reprOf, escapeToken_append, escapeToken]
    · by_cases h1 : c = 49
      · subst h1
        simp only [show (49:Nat) ≠ 48 by decide, if_false, if_true] at h
        have := parseLoop_repr cs .newToken _ toks r (by decide) h
        rw [this]
        simp [reprOf, escapeToken_append, escapeToken]
      · simp [h0, h1] at h
  | c :: cs, .newToken, buf, toks, r, _, h => by
    rw [parseLoop_live_cons (Or.inl rfl)] at h
    by_cases h1 : c = 47
    · subst h1
      simp only [if_true] at h
      have := parseLoop_repr cs .part _ _ r (by decide) h
      rw [this]
      simp [reprOf, toString_append, toString, escapeToken]
    · by_cases h2 : c = 126
      · subst h2
        simp only [h1, if_false, if_true] at h
        have := parseLoop_repr cs .escaped _ _ r (by decide) h
        rw [this]
        simp [reprOf]
      · simp only [h1, h2, if_false] at h
        have := parseLoop_repr cs .newToken _ _ r (by decide) h
        rw [this]
        simp [reprOf, escapeToken_append, escapeToken, h1, h2]
  | c :: cs, .part, buf, toks, r, _, h => by
    rw [parseLoop_live_cons (Or.inr rfl)] at h
    by_cases h1 : c = 47
    · subst h1
      simp only [if_true] at h
      have := parseLoop_repr cs .part _ _ r (by decide) h
      rw [this]
      simp [reprOf, toString_append, toString, escapeToken]
    · by_cases h2 : c = 126
      · subst h2
        simp only [h1, if_false, if_true] at h
        have := parseLoop_repr cs .escaped _ _ r (by decide) h
        rw [this]
        simp [reprOf]
      · simp only [h1, h2, if_false] at h
        have := parseLoop_repr cs .newToken _ _ r (by decide) h
        rw [this]
        simp [reprOf, escapeToken_append, escapeToken, h1, h2]

theorem parseLoop_not_start : ∀ (rest : Bytes) (st : PState) (buf : Bytes) (toks : List Bytes) (r : PState × Bytes × List Bytes),
    st ≠ .start → parseLoop st buf toks rest = .ok r → r.1 ≠ .start
  | [], st, buf, toks, r, hs, h => by
    simp only [parseLoop, Except.ok.injEq] at h
    subst h; exact hs
  | c :: cs, .start, _, _, _, hs, _ => absurd rfl hs
  | c :: cs, .escaped, buf, toks, r, _, h => by
    simp only [parseLoop] at h
    by_cases h0 : c = 48
    · simp only [h0, if_true] at h
      exact parseLoop_not_start cs .newToken _ toks r (by decide) h
    · by_cases h1 : c = 49
      · simp only [h1, show (49:Nat) ≠ 48 by decide, if_false, if_true] at h
        exact parseLoop_not_start cs .newToken _ toks r (by decide) h
      · simp [h0, h1] at h
  | c :: cs, .newToken, buf, toks, r, _, h => by
    rw [parseLoop_live_cons (Or.inl rfl)] at h
    by_cases h1 : c = 47
    · simp only [h1, if_true] at h
      exact parseLoop_not_start cs .part _ _ r (by decide) h
    · by_cases h2 : c = 126
      · simp only [h1, h2, if_false, if_true] at h
        exact parseLoop_not_start cs .escaped _ _ r (by decide) h
      · simp only [h1, h2, if_false] at h
        exact parseLoop_not_start cs .newToken _ _ r (by decide) h
  | c :: cs, .part, buf, toks, r, _, h => by
    rw [parseLoop_live_cons (Or.inr rfl)] at h
    by_cases h1 : c = 47
    · simp only [h1, if_true] at h
      exact parseLoop_not_start cs .part _ _ r (by decide) h
    · by_cases h2 : c = 126
      · simp only [h1, h2, if_false, if_true] at h
        exact parseLoop_not_start cs .escaped _ _ r (by decide) h
      · simp only [h1, h2, if_false] at h
        exact parseLoop_not_start cs .newToken _ _ r (by decide) h

theorem toString_parse_aux (s : Bytes) (ts : List Bytes) (h : parse s = .ok ts) : toString ts = s := by
  unfold parse at h
  by_cases hs : s = []
  · subst hs; simp at h; subst h; rfl
  · simp only [hs, if_false] at h
    cases s with
    | nil => exact absurd rfl hs
    | cons c cs =>
      by_cases hc : c = 47
      · subst hc
        simp only [parseLoop, if_true] at h
        cases hl : parseLoop .newToken [] [] cs with
        | error e => rw [hl] at h; simp at h
        | ok r =>
          rw [hl] at h
          have hrep := parseLoop_repr cs .newToken [] [] r (by decide) hl
          have hns := parseLoop_not_start cs .newToken [] [] r (by decide) hl
          obtain ⟨st, buf, toks⟩ := r
          cases st with
          | escaped => simp [finish] at h
          | start =>
            exact absurd rfl hns
          | newToken =>
            simp only [finish, Except.ok.injEq] at h
            subst h
            simpa [reprOf, toString_append, toString, escapeToken] using hrep
          | part =>
            simp only [finish, Except.ok.injEq] at h
            subst h
            simpa [reprOf, toString_append, toString, escapeToken] using hrep
      · simp [parseLoop, hc] at h

end Pointer
end Model
end JV
